    .section cs_ro0,"a",@progbits
    .balign 2
    .globl sym0
sym0:
    .fill 24,1,159
    .size sym0, 24
    .section cs_tbss1,"awT",@nobits
    .balign 8
    .globl sym1
    .type sym1,@object
sym1:
    .zero 1
    .size sym1, 1
    .section .rodata.x2,"aM",@progbits,1
    .balign 2
    .globl sym2
sym2:
    .fill 9000,1,237
    .size sym2, 9000
    .section .note.cs3,"a",@note
    .balign 4
    .globl sym3
sym3:
    .long 4, 4, 0x4304
    .asciz "CS4"
    .long 0
    .size sym3, 20
    .section .cs_na4,"",@progbits
    .balign 1
    .globl sym4
sym4:
    .fill 8,1,168
    .size sym4, 8
    .section .tbss.x5,"awT",@nobits
    .balign 64
    .globl sym5
    .type sym5,@object
sym5:
    .zero 24
    .size sym5, 24
    .section .text.x6,"ax",@progbits
    .balign 512
    .globl sym6
sym6:
    .fill 3,1,195
    .size sym6, 3
    .section .note.cs7,"a",@note
    .balign 4
    .globl sym7
sym7:
    .long 4, 4, 0x4304
    .asciz "CS4"
    .long 0
    .size sym7, 20
    .section .note.cs8,"a",@note
    .balign 4
    .globl sym8
sym8:
    .long 4, 4, 0x4304
    .asciz "CS4"
    .long 0
    .size sym8, 20
    .section .cs_tbss9,"awT",@nobits
    .balign 4096
    .globl sym9
    .type sym9,@object
sym9:
    .zero 4097
    .size sym9, 4097
    .section .cs_ro10,"a",@progbits
    .balign 16
    .globl sym10
sym10:
    .fill 100,1,178
    .size sym10, 100
    .section .rodata.x11,"a",@progbits
    .balign 4
    .globl sym11
sym11:
    .fill 7,1,29
    .size sym11, 7
    .section .cs_bss12,"aw",@nobits
    .balign 16384
    .globl sym12
sym12:
    .zero 100
    .size sym12, 100
    .section cs_bss13,"aw",@nobits
    .balign 4096
    .globl sym13
sym13:
    .zero 70000
    .size sym13, 70000
