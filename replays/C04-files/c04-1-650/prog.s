    .section .note.cs0,"a",@note
    .balign 4
    .globl sym0
sym0:
    .long 4, 4, 0x4304
    .asciz "CS4"
    .long 0
    .size sym0, 20
    .section cs_exec1,"ax",@progbits
    .balign 64
    .globl sym1
sym1:
    .fill 9000,1,195
    .size sym1, 9000
    .section .data.x2,"aw",@progbits
    .balign 512
    .globl sym2
sym2:
    .fill 70000,1,121
    .size sym2, 70000
    .section cs_bss3,"aw",@nobits
    .balign 4
    .globl sym3
sym3:
    .zero 1
    .size sym3, 1
    .section .data.x4,"aw",@progbits
    .balign 32
    .globl sym4
sym4:
    .fill 1000,1,173
    .size sym4, 1000
    .section .note.cs5,"a",@note
    .balign 4
    .globl sym5
sym5:
    .long 4, 4, 0x4304
    .asciz "CS4"
    .long 0
    .size sym5, 20
    .section .data.x6,"aw",@progbits
    .balign 256
    .globl sym6
sym6:
    .fill 9000,1,45
    .size sym6, 9000
    .section .cs_data7,"aw",@progbits
    .balign 2048
    .globl sym7
sym7:
    .fill 9000,1,244
    .size sym7, 9000
    .section .data.rel.ro,"aw",@progbits
    .balign 8
    .globl sym8
sym8:
    .fill 7,1,24
    .size sym8, 7
    .section cs_data9,"aw",@progbits
    .balign 8
    .globl sym9
sym9:
    .fill 7,1,104
    .size sym9, 7
    .section cs_exec10,"ax",@progbits
    .balign 2048
    .globl sym10
sym10:
    .fill 70000,1,195
    .size sym10, 70000
    .text
    .globl _start
_start:
    movabs $sym1, %rsi
    test $63, %rsi
    jnz fail1
    movzbl 0(%rsi), %eax
    cmp $195, %eax
    jne fail1
    movzbl 8999(%rsi), %eax
    cmp $195, %eax
    jne fail1
    movabs $sym2, %rsi
    test $511, %rsi
    jnz fail2
    movzbl 0(%rsi), %eax
    cmp $121, %eax
    jne fail2
    movzbl 69999(%rsi), %eax
    cmp $121, %eax
    jne fail2
    movb $0x5a, (%rsi)
    movb $0x5a, 69999(%rsi)
    movabs $sym3, %rsi
    test $3, %rsi
    jnz fail3
    movzbl 0(%rsi), %eax
    cmp $0, %eax
    jne fail3
    movb $0x5a, (%rsi)
    movb $0x5a, 0(%rsi)
    movabs $sym4, %rsi
    test $31, %rsi
    jnz fail4
    movzbl 0(%rsi), %eax
    cmp $173, %eax
    jne fail4
    movzbl 999(%rsi), %eax
    cmp $173, %eax
    jne fail4
    movb $0x5a, (%rsi)
    movb $0x5a, 999(%rsi)
    movabs $sym6, %rsi
    test $255, %rsi
    jnz fail6
    movzbl 0(%rsi), %eax
    cmp $45, %eax
    jne fail6
    movzbl 8999(%rsi), %eax
    cmp $45, %eax
    jne fail6
    movb $0x5a, (%rsi)
    movb $0x5a, 8999(%rsi)
    movabs $sym7, %rsi
    test $2047, %rsi
    jnz fail7
    movzbl 0(%rsi), %eax
    cmp $244, %eax
    jne fail7
    movzbl 8999(%rsi), %eax
    cmp $244, %eax
    jne fail7
    movb $0x5a, (%rsi)
    movb $0x5a, 8999(%rsi)
    movabs $sym8, %rsi
    test $7, %rsi
    jnz fail8
    movzbl 0(%rsi), %eax
    cmp $24, %eax
    jne fail8
    movzbl 6(%rsi), %eax
    cmp $24, %eax
    jne fail8
    movabs $sym9, %rsi
    test $7, %rsi
    jnz fail9
    movzbl 0(%rsi), %eax
    cmp $104, %eax
    jne fail9
    movzbl 6(%rsi), %eax
    cmp $104, %eax
    jne fail9
    movb $0x5a, (%rsi)
    movb $0x5a, 6(%rsi)
    movabs $sym10, %rsi
    test $2047, %rsi
    jnz fail10
    movzbl 0(%rsi), %eax
    cmp $195, %eax
    jne fail10
    movzbl 69999(%rsi), %eax
    cmp $195, %eax
    jne fail10
    mov $60, %eax
    xor %edi, %edi
    syscall
fail1:
    mov $60, %eax
    mov $2, %edi
    syscall
fail2:
    mov $60, %eax
    mov $3, %edi
    syscall
fail3:
    mov $60, %eax
    mov $4, %edi
    syscall
fail4:
    mov $60, %eax
    mov $5, %edi
    syscall
fail6:
    mov $60, %eax
    mov $7, %edi
    syscall
fail7:
    mov $60, %eax
    mov $8, %edi
    syscall
fail8:
    mov $60, %eax
    mov $9, %edi
    syscall
fail9:
    mov $60, %eax
    mov $10, %edi
    syscall
fail10:
    mov $60, %eax
    mov $11, %edi
    syscall
