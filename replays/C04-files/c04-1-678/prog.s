    .section .cs_data0,"aw",@progbits
    .balign 512
    .globl sym0
sym0:
    .fill 8,1,68
    .size sym0, 8
    .section cs_exec1,"ax",@progbits
    .balign 4
    .globl sym1
sym1:
    .fill 100,1,195
    .size sym1, 100
    .section cs_bss2,"aw",@nobits
    .balign 1024
    .globl sym2
sym2:
    .zero 8
    .size sym2, 8
    .section .bss,"aw",@nobits
    .balign 32
    .globl sym3
sym3:
    .zero 4097
    .size sym3, 4097
    .section .cs_ro4,"a",@progbits
    .balign 16
    .globl sym4
sym4:
    .fill 1000,1,141
    .size sym4, 1000
    .section cs_data5,"aw",@progbits
    .balign 8
    .globl sym5
sym5:
    .size sym5, 0
    .section .data.rel.ro.x6,"aw",@progbits
    .balign 128
    .globl sym6
sym6:
    .fill 3,1,157
    .size sym6, 3
    .section .data,"aw",@progbits
    .balign 1
    .globl sym7
sym7:
    .fill 7,1,31
    .size sym7, 7
    .section cs_ro8,"a",@progbits
    .balign 512
    .globl sym8
sym8:
    .size sym8, 0
    .section cs_ro9,"a",@progbits
    .balign 32
    .globl sym9
sym9:
    .fill 3,1,146
    .size sym9, 3
    .section .cs_data10,"aw",@progbits
    .balign 64
    .globl sym10
sym10:
    .fill 7,1,222
    .size sym10, 7
    .text
    .globl _start
_start:
    movabs $sym0, %rsi
    test $511, %rsi
    jnz fail0
    movzbl 0(%rsi), %eax
    cmp $68, %eax
    jne fail0
    movzbl 7(%rsi), %eax
    cmp $68, %eax
    jne fail0
    movb $0x5a, (%rsi)
    movb $0x5a, 7(%rsi)
    movabs $sym1, %rsi
    test $3, %rsi
    jnz fail1
    movzbl 0(%rsi), %eax
    cmp $195, %eax
    jne fail1
    movzbl 99(%rsi), %eax
    cmp $195, %eax
    jne fail1
    movabs $sym2, %rsi
    test $1023, %rsi
    jnz fail2
    movzbl 0(%rsi), %eax
    cmp $0, %eax
    jne fail2
    movzbl 7(%rsi), %eax
    cmp $0, %eax
    jne fail2
    movb $0x5a, (%rsi)
    movb $0x5a, 7(%rsi)
    movabs $sym3, %rsi
    test $31, %rsi
    jnz fail3
    movzbl 0(%rsi), %eax
    cmp $0, %eax
    jne fail3
    movzbl 4096(%rsi), %eax
    cmp $0, %eax
    jne fail3
    movb $0x5a, (%rsi)
    movb $0x5a, 4096(%rsi)
    movabs $sym4, %rsi
    test $15, %rsi
    jnz fail4
    movzbl 0(%rsi), %eax
    cmp $141, %eax
    jne fail4
    movzbl 999(%rsi), %eax
    cmp $141, %eax
    jne fail4
    movabs $sym6, %rsi
    test $127, %rsi
    jnz fail6
    movzbl 0(%rsi), %eax
    cmp $157, %eax
    jne fail6
    movzbl 2(%rsi), %eax
    cmp $157, %eax
    jne fail6
    movabs $sym7, %rsi
    test $0, %rsi
    jnz fail7
    movzbl 0(%rsi), %eax
    cmp $31, %eax
    jne fail7
    movzbl 6(%rsi), %eax
    cmp $31, %eax
    jne fail7
    movb $0x5a, (%rsi)
    movb $0x5a, 6(%rsi)
    movabs $sym9, %rsi
    test $31, %rsi
    jnz fail9
    movzbl 0(%rsi), %eax
    cmp $146, %eax
    jne fail9
    movzbl 2(%rsi), %eax
    cmp $146, %eax
    jne fail9
    movabs $sym10, %rsi
    test $63, %rsi
    jnz fail10
    movzbl 0(%rsi), %eax
    cmp $222, %eax
    jne fail10
    movzbl 6(%rsi), %eax
    cmp $222, %eax
    jne fail10
    movb $0x5a, (%rsi)
    movb $0x5a, 6(%rsi)
    mov $60, %eax
    xor %edi, %edi
    syscall
fail0:
    mov $60, %eax
    mov $1, %edi
    syscall
fail1:
    mov $60, %eax
    mov $2, %edi
    syscall
fail2:
    mov $60, %eax
    mov $3, %edi
    syscall
fail3:
    mov $60, %eax
    mov $4, %edi
    syscall
fail4:
    mov $60, %eax
    mov $5, %edi
    syscall
fail6:
    mov $60, %eax
    mov $7, %edi
    syscall
fail7:
    mov $60, %eax
    mov $8, %edi
    syscall
fail9:
    mov $60, %eax
    mov $10, %edi
    syscall
fail10:
    mov $60, %eax
    mov $11, %edi
    syscall
