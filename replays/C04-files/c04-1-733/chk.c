#include <stdint.h>
extern volatile unsigned char sym0[];
extern volatile unsigned char sym1[];
extern __thread volatile unsigned char sym2[];
extern __thread volatile unsigned char sym3[];
extern volatile unsigned char sym4[];
extern volatile unsigned char sym5[];
extern volatile unsigned char sym6[];
extern void sym7(void);
extern volatile unsigned char sym8[];
extern __thread volatile unsigned char sym9[];
extern volatile unsigned char sym10[];

__attribute__((aligned(32))) volatile int own_data[5] = {1, 2, 3, 4, 5};
volatile char own_bss[300];
__thread volatile int own_tls = 7;
__thread volatile char own_tbss[40];
static volatile int ctor_ran;
__attribute__((constructor)) static void ctor(void) { ctor_ran = 1; }
static const char *const relro_tab[] = {"a", "b", "c"};
const char *const *volatile relro_ptr = relro_tab;
static int chk(volatile unsigned char *p, unsigned long n, unsigned v, int w, unsigned long al) {
  if (al <= 4096 && (uintptr_t)p % al) return 1;
  for (unsigned long i = 0; i < n; i++) if (p[i] != v) return 1;
  if (w) for (unsigned long i = 0; i < n; i++) p[i] = (unsigned char)~v;
  return 0;
}
int main(void) {
  if (!ctor_ran) return 201;
  if (own_data[4] != 5 || own_bss[299] != 0 || own_tls != 7 || own_tbss[39] != 0 || relro_ptr[2][0] != 'c') return 202;
  own_tls = 8; own_tbss[39] = 1; own_bss[0] = 1;
  if (chk((volatile unsigned char *)sym0, 24, 0, 1, 32768)) return 1;
  if (chk((volatile unsigned char *)sym1, 100, 123, 1, 1024)) return 2;
  if (chk((volatile unsigned char *)sym2, 3, 50, 1, 2)) return 3;
  if (chk((volatile unsigned char *)sym3, 9000, 0, 1, 4)) return 4;
  if (chk((volatile unsigned char *)sym4, 4097, 250, 0, 4)) return 5;
  if (chk((volatile unsigned char *)sym5, 255, 0, 1, 32)) return 6;
  if (chk((volatile unsigned char *)sym6, 9000, 182, 0, 4096)) return 7;
  sym7();
  if ((uintptr_t)&sym7 % 16) return 8;
  if (chk((volatile unsigned char *)sym8, 100, 238, 0, 128)) return 9;
  if (chk((volatile unsigned char *)sym9, 1, 198, 1, 2)) return 10;
  if (chk((volatile unsigned char *)sym10, 1000, 188, 1, 1)) return 11;
  return 0;
}
