    .section .bss.x0,"aw",@nobits
    .balign 32768
    .globl sym0
sym0:
    .zero 24
    .size sym0, 24
    .section .cs_data1,"aw",@progbits
    .balign 1024
    .globl sym1
sym1:
    .fill 100,1,123
    .size sym1, 100
    .section .cs_tdata2,"awT",@progbits
    .balign 2
    .globl sym2
    .type sym2,@object
sym2:
    .fill 3,1,50
    .size sym2, 3
    .section cs_tbss3,"awT",@nobits
    .balign 4
    .globl sym3
    .type sym3,@object
sym3:
    .zero 9000
    .size sym3, 9000
    .section cs_ro4,"aM",@progbits,1
    .balign 4
    .globl sym4
sym4:
    .fill 4097,1,250
    .size sym4, 4097
    .section cs_bss5,"aw",@nobits
    .balign 32
    .globl sym5
sym5:
    .zero 255
    .size sym5, 255
    .section cs_ro6,"a",@progbits
    .balign 4096
    .globl sym6
sym6:
    .fill 9000,1,182
    .size sym6, 9000
    .section .cs_exec7,"ax",@progbits
    .balign 16
    .globl sym7
sym7:
    .fill 255,1,195
    .size sym7, 255
    .section .cs_ro8,"a",@progbits
    .balign 128
    .globl sym8
sym8:
    .fill 100,1,238
    .size sym8, 100
    .section .tdata.x9,"awT",@progbits
    .balign 2
    .globl sym9
    .type sym9,@object
sym9:
    .fill 1,1,198
    .size sym9, 1
    .section .cs_data10,"aw",@progbits
    .balign 1
    .globl sym10
sym10:
    .fill 1000,1,188
    .size sym10, 1000
