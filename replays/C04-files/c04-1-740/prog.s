    .section cs_ro0,"a",@progbits
    .balign 1
    .globl sym0
sym0:
    .fill 9000,1,5
    .size sym0, 9000
    .section .note.cs1,"a",@note
    .balign 4
    .globl sym1
sym1:
    .long 4, 4, 0x4304
    .asciz "CS4"
    .long 0
    .size sym1, 20
    .section .cs_ro2,"aM",@progbits,1
    .balign 1024
    .globl sym2
sym2:
    .size sym2, 0
    .section .cs_bss3,"aw",@nobits
    .balign 1024
    .globl sym3
sym3:
    .zero 9000
    .size sym3, 9000
    .section .cs_data4,"aw",@progbits
    .balign 65536
    .globl sym4
sym4:
    .fill 8,1,151
    .size sym4, 8
    .section .cs_data5,"aw",@progbits
    .balign 4
    .globl sym5
sym5:
    .fill 8,1,59
    .size sym5, 8
    .section .cs_na6,"",@progbits
    .balign 256
    .globl sym6
sym6:
    .size sym6, 0
    .section cs_bss7,"aw",@nobits
    .balign 4
    .globl sym7
sym7:
    .zero 0
    .size sym7, 0
    .section .cs_bss8,"aw",@nobits
    .balign 512
    .globl sym8
sym8:
    .zero 3
    .size sym8, 3
    .section .cs_ro9,"a",@progbits
    .balign 256
    .globl sym9
sym9:
    .fill 1,1,26
    .size sym9, 1
    .section .note.cs10,"a",@note
    .balign 4
    .globl sym10
sym10:
    .long 4, 4, 0x4304
    .asciz "CS4"
    .long 0
    .size sym10, 20
    .section .cs_bss11,"aw",@nobits
    .balign 512
    .globl sym11
sym11:
    .zero 3
    .size sym11, 3
    .text
    .globl _start
_start:
    movabs $sym0, %rsi
    test $0, %rsi
    jnz fail0
    movzbl 0(%rsi), %eax
    cmp $5, %eax
    jne fail0
    movzbl 8999(%rsi), %eax
    cmp $5, %eax
    jne fail0
    movabs $sym3, %rsi
    test $1023, %rsi
    jnz fail3
    movzbl 0(%rsi), %eax
    cmp $0, %eax
    jne fail3
    movzbl 8999(%rsi), %eax
    cmp $0, %eax
    jne fail3
    movb $0x5a, (%rsi)
    movb $0x5a, 8999(%rsi)
    movabs $sym4, %rsi
    movzbl 0(%rsi), %eax
    cmp $151, %eax
    jne fail4
    movzbl 7(%rsi), %eax
    cmp $151, %eax
    jne fail4
    movb $0x5a, (%rsi)
    movb $0x5a, 7(%rsi)
    movabs $sym5, %rsi
    test $3, %rsi
    jnz fail5
    movzbl 0(%rsi), %eax
    cmp $59, %eax
    jne fail5
    movzbl 7(%rsi), %eax
    cmp $59, %eax
    jne fail5
    movb $0x5a, (%rsi)
    movb $0x5a, 7(%rsi)
    movabs $sym8, %rsi
    test $511, %rsi
    jnz fail8
    movzbl 0(%rsi), %eax
    cmp $0, %eax
    jne fail8
    movzbl 2(%rsi), %eax
    cmp $0, %eax
    jne fail8
    movb $0x5a, (%rsi)
    movb $0x5a, 2(%rsi)
    movabs $sym9, %rsi
    test $255, %rsi
    jnz fail9
    movzbl 0(%rsi), %eax
    cmp $26, %eax
    jne fail9
    movabs $sym11, %rsi
    test $511, %rsi
    jnz fail11
    movzbl 0(%rsi), %eax
    cmp $0, %eax
    jne fail11
    movzbl 2(%rsi), %eax
    cmp $0, %eax
    jne fail11
    movb $0x5a, (%rsi)
    movb $0x5a, 2(%rsi)
    mov $60, %eax
    xor %edi, %edi
    syscall
fail0:
    mov $60, %eax
    mov $1, %edi
    syscall
fail3:
    mov $60, %eax
    mov $4, %edi
    syscall
fail4:
    mov $60, %eax
    mov $5, %edi
    syscall
fail5:
    mov $60, %eax
    mov $6, %edi
    syscall
fail8:
    mov $60, %eax
    mov $9, %edi
    syscall
fail9:
    mov $60, %eax
    mov $10, %edi
    syscall
fail11:
    mov $60, %eax
    mov $12, %edi
    syscall
