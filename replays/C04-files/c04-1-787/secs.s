    .section .note.cs0,"a",@note
    .balign 4
    .globl sym0
sym0:
    .long 4, 4, 0x4304
    .asciz "CS4"
    .long 0
    .size sym0, 20
    .section cs_ro1,"a",@progbits
    .balign 16
    .globl sym1
sym1:
    .fill 9000,1,89
    .size sym1, 9000
    .section .note.cs2,"a",@note
    .balign 4
    .globl sym2
sym2:
    .long 4, 4, 0x4304
    .asciz "CS4"
    .long 0
    .size sym2, 20
    .section .data.x3,"aw",@progbits
    .balign 512
    .globl sym3
sym3:
    .fill 70000,1,225
    .size sym3, 70000
    .section .cs_bss4,"aw",@nobits
    .balign 1024
    .globl sym4
sym4:
    .zero 4097
    .size sym4, 4097
    .section .cs_na5,"",@progbits
    .balign 256
    .globl sym5
sym5:
    .fill 8,1,99
    .size sym5, 8
    .section .cs_bss6,"aw",@nobits
    .balign 8192
    .globl sym6
sym6:
    .zero 8
    .size sym6, 8
    .section .tbss,"awT",@nobits
    .balign 512
    .globl sym7
    .type sym7,@object
sym7:
    .zero 7
    .size sym7, 7
    .section cs_ro8,"aM",@progbits,1
    .balign 1
    .globl sym8
sym8:
    .fill 9000,1,222
    .size sym8, 9000
    .section .cs_ro9,"aM",@progbits,1
    .balign 256
    .globl sym9
sym9:
    .fill 4097,1,45
    .size sym9, 4097
    .section .cs_ro10,"aM",@progbits,1
    .balign 128
    .globl sym10
sym10:
    .fill 70000,1,61
    .size sym10, 70000
    .section .cs_data11,"aw",@progbits
    .balign 8
    .globl sym11
sym11:
    .fill 9000,1,147
    .size sym11, 9000
