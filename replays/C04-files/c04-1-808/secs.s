    .section .cs_ro0,"a",@progbits
    .balign 8
    .globl sym0
sym0:
    .size sym0, 0
    .section .rodata,"aM",@progbits,1
    .balign 64
    .globl sym1
sym1:
    .fill 8,1,194
    .size sym1, 8
    .section .rodata,"aM",@progbits,1
    .balign 512
    .globl sym2
sym2:
    .fill 7,1,133
    .size sym2, 7
    .section .tbss,"awT",@nobits
    .balign 8
    .globl sym3
    .type sym3,@object
sym3:
    .zero 4097
    .size sym3, 4097
    .section .cs_exec4,"ax",@progbits
    .balign 8
    .globl sym4
sym4:
    .fill 7,1,195
    .size sym4, 7
    .section cs_exec5,"ax",@progbits
    .balign 2
    .globl sym5
sym5:
    .fill 8,1,195
    .size sym5, 8
    .section .cs_exec6,"ax",@progbits
    .balign 16384
    .globl sym6
sym6:
    .fill 255,1,195
    .size sym6, 255
    .section .cs_na7,"",@progbits
    .balign 8
    .globl sym7
sym7:
    .fill 1,1,90
    .size sym7, 1
    .section .data.x8,"aw",@progbits
    .balign 64
    .globl sym8
sym8:
    .size sym8, 0
    .section .cs_data9,"aw",@progbits
    .balign 128
    .globl sym9
sym9:
    .fill 100,1,31
    .size sym9, 100
    .section cs_data10,"aw",@progbits
    .balign 4
    .globl sym10
sym10:
    .fill 24,1,233
    .size sym10, 24
    .section .tdata,"awT",@progbits
    .balign 256
    .globl sym11
    .type sym11,@object
sym11:
    .fill 255,1,28
    .size sym11, 255
    .section .cs_ro12,"aM",@progbits,1
    .balign 1
    .globl sym12
sym12:
    .fill 8,1,238
    .size sym12, 8
    .section cs_ro13,"aM",@progbits,1
    .balign 128
    .globl sym13
sym13:
    .fill 24,1,224
    .size sym13, 24
