    .section cs_exec0,"ax",@progbits
    .balign 65536
    .globl sym0
sym0:
    .fill 1000,1,195
    .size sym0, 1000
    .section .cs_na1,"",@progbits
    .balign 1
    .globl sym1
sym1:
    .fill 3,1,40
    .size sym1, 3
    .section .cs_na2,"",@progbits
    .balign 4
    .globl sym2
sym2:
    .fill 1,1,243
    .size sym2, 1
    .section .text.x3,"ax",@progbits
    .balign 16
    .globl sym3
sym3:
    .fill 1000,1,195
    .size sym3, 1000
    .section .cs_ro4,"aM",@progbits,1
    .balign 16
    .globl sym4
sym4:
    .fill 100,1,136
    .size sym4, 100
    .section cs_data5,"aw",@progbits
    .balign 512
    .globl sym5
sym5:
    .fill 70000,1,21
    .size sym5, 70000
    .section cs_data6,"aw",@progbits
    .balign 4
    .globl sym6
sym6:
    .fill 4097,1,200
    .size sym6, 4097
    .section .cs_data7,"aw",@progbits
    .balign 8
    .globl sym7
sym7:
    .fill 255,1,155
    .size sym7, 255
    .section .note.cs8,"a",@note
    .balign 4
    .globl sym8
sym8:
    .long 4, 4, 0x4304
    .asciz "CS4"
    .long 0
    .size sym8, 20
    .section cs_data9,"aw",@progbits
    .balign 4
    .globl sym9
sym9:
    .fill 100,1,195
    .size sym9, 100
    .section .cs_ro10,"a",@progbits
    .balign 1
    .globl sym10
sym10:
    .fill 255,1,205
    .size sym10, 255
    .text
    .globl _start
_start:
    movabs $sym0, %rsi
    movzbl 0(%rsi), %eax
    cmp $195, %eax
    jne fail0
    movzbl 999(%rsi), %eax
    cmp $195, %eax
    jne fail0
    movabs $sym3, %rsi
    test $15, %rsi
    jnz fail3
    movzbl 0(%rsi), %eax
    cmp $195, %eax
    jne fail3
    movzbl 999(%rsi), %eax
    cmp $195, %eax
    jne fail3
    movabs $sym4, %rsi
    test $15, %rsi
    jnz fail4
    movzbl 0(%rsi), %eax
    cmp $136, %eax
    jne fail4
    movzbl 99(%rsi), %eax
    cmp $136, %eax
    jne fail4
    movabs $sym5, %rsi
    test $511, %rsi
    jnz fail5
    movzbl 0(%rsi), %eax
    cmp $21, %eax
    jne fail5
    movzbl 69999(%rsi), %eax
    cmp $21, %eax
    jne fail5
    movb $0x5a, (%rsi)
    movb $0x5a, 69999(%rsi)
    movabs $sym6, %rsi
    test $3, %rsi
    jnz fail6
    movzbl 0(%rsi), %eax
    cmp $200, %eax
    jne fail6
    movzbl 4096(%rsi), %eax
    cmp $200, %eax
    jne fail6
    movb $0x5a, (%rsi)
    movb $0x5a, 4096(%rsi)
    movabs $sym7, %rsi
    test $7, %rsi
    jnz fail7
    movzbl 0(%rsi), %eax
    cmp $155, %eax
    jne fail7
    movzbl 254(%rsi), %eax
    cmp $155, %eax
    jne fail7
    movb $0x5a, (%rsi)
    movb $0x5a, 254(%rsi)
    movabs $sym9, %rsi
    test $3, %rsi
    jnz fail9
    movzbl 0(%rsi), %eax
    cmp $195, %eax
    jne fail9
    movzbl 99(%rsi), %eax
    cmp $195, %eax
    jne fail9
    movb $0x5a, (%rsi)
    movb $0x5a, 99(%rsi)
    movabs $sym10, %rsi
    test $0, %rsi
    jnz fail10
    movzbl 0(%rsi), %eax
    cmp $205, %eax
    jne fail10
    movzbl 254(%rsi), %eax
    cmp $205, %eax
    jne fail10
    mov $60, %eax
    xor %edi, %edi
    syscall
fail0:
    mov $60, %eax
    mov $1, %edi
    syscall
fail3:
    mov $60, %eax
    mov $4, %edi
    syscall
fail4:
    mov $60, %eax
    mov $5, %edi
    syscall
fail5:
    mov $60, %eax
    mov $6, %edi
    syscall
fail6:
    mov $60, %eax
    mov $7, %edi
    syscall
fail7:
    mov $60, %eax
    mov $8, %edi
    syscall
fail9:
    mov $60, %eax
    mov $10, %edi
    syscall
fail10:
    mov $60, %eax
    mov $11, %edi
    syscall
