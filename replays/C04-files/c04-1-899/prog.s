    .section .cs_exec0,"ax",@progbits
    .balign 16
    .globl sym0
sym0:
    .fill 7,1,195
    .size sym0, 7
    .section cs_data1,"aw",@progbits
    .balign 128
    .globl sym1
sym1:
    .fill 4097,1,176
    .size sym1, 4097
    .section cs_ro2,"a",@progbits
    .balign 4
    .globl sym2
sym2:
    .fill 9000,1,48
    .size sym2, 9000
    .section .data.rel.ro.x3,"aw",@progbits
    .balign 128
    .globl sym3
sym3:
    .fill 70000,1,91
    .size sym3, 70000
    .section .cs_data4,"aw",@progbits
    .balign 2
    .globl sym4
sym4:
    .size sym4, 0
    .section .text.hot.x5,"ax",@progbits
    .balign 1
    .globl sym5
sym5:
    .fill 24,1,195
    .size sym5, 24
    .section .cs_exec6,"ax",@progbits
    .balign 32
    .globl sym6
sym6:
    .fill 255,1,195
    .size sym6, 255
    .section .cs_ro7,"a",@progbits
    .balign 65536
    .globl sym7
sym7:
    .fill 3,1,158
    .size sym7, 3
    .section cs_ro8,"aM",@progbits,1
    .balign 2
    .globl sym8
sym8:
    .fill 24,1,212
    .size sym8, 24
    .section .cs_bss9,"aw",@nobits
    .balign 8192
    .globl sym9
sym9:
    .zero 24
    .size sym9, 24
    .section cs_exec10,"ax",@progbits
    .balign 16
    .globl sym10
sym10:
    .fill 70000,1,195
    .size sym10, 70000
    .section .cs_ro11,"a",@progbits
    .balign 64
    .globl sym11
sym11:
    .fill 8,1,68
    .size sym11, 8
    .section .cs_na12,"",@progbits
    .balign 8192
    .globl sym12
sym12:
    .size sym12, 0
    .text
    .globl _start
_start:
    movabs $sym0, %rsi
    test $15, %rsi
    jnz fail0
    movzbl 0(%rsi), %eax
    cmp $195, %eax
    jne fail0
    movzbl 6(%rsi), %eax
    cmp $195, %eax
    jne fail0
    movabs $sym1, %rsi
    test $127, %rsi
    jnz fail1
    movzbl 0(%rsi), %eax
    cmp $176, %eax
    jne fail1
    movzbl 4096(%rsi), %eax
    cmp $176, %eax
    jne fail1
    movb $0x5a, (%rsi)
    movb $0x5a, 4096(%rsi)
    movabs $sym2, %rsi
    test $3, %rsi
    jnz fail2
    movzbl 0(%rsi), %eax
    cmp $48, %eax
    jne fail2
    movzbl 8999(%rsi), %eax
    cmp $48, %eax
    jne fail2
    movabs $sym3, %rsi
    test $127, %rsi
    jnz fail3
    movzbl 0(%rsi), %eax
    cmp $91, %eax
    jne fail3
    movzbl 69999(%rsi), %eax
    cmp $91, %eax
    jne fail3
    movabs $sym5, %rsi
    test $0, %rsi
    jnz fail5
    movzbl 0(%rsi), %eax
    cmp $195, %eax
    jne fail5
    movzbl 23(%rsi), %eax
    cmp $195, %eax
    jne fail5
    movabs $sym6, %rsi
    test $31, %rsi
    jnz fail6
    movzbl 0(%rsi), %eax
    cmp $195, %eax
    jne fail6
    movzbl 254(%rsi), %eax
    cmp $195, %eax
    jne fail6
    movabs $sym7, %rsi
    movzbl 0(%rsi), %eax
    cmp $158, %eax
    jne fail7
    movzbl 2(%rsi), %eax
    cmp $158, %eax
    jne fail7
    movabs $sym8, %rsi
    test $1, %rsi
    jnz fail8
    movzbl 0(%rsi), %eax
    cmp $212, %eax
    jne fail8
    movzbl 23(%rsi), %eax
    cmp $212, %eax
    jne fail8
    movabs $sym9, %rsi
    movzbl 0(%rsi), %eax
    cmp $0, %eax
    jne fail9
    movzbl 23(%rsi), %eax
    cmp $0, %eax
    jne fail9
    movb $0x5a, (%rsi)
    movb $0x5a, 23(%rsi)
    movabs $sym10, %rsi
    test $15, %rsi
    jnz fail10
    movzbl 0(%rsi), %eax
    cmp $195, %eax
    jne fail10
    movzbl 69999(%rsi), %eax
    cmp $195, %eax
    jne fail10
    movabs $sym11, %rsi
    test $63, %rsi
    jnz fail11
    movzbl 0(%rsi), %eax
    cmp $68, %eax
    jne fail11
    movzbl 7(%rsi), %eax
    cmp $68, %eax
    jne fail11
    mov $60, %eax
    xor %edi, %edi
    syscall
fail0:
    mov $60, %eax
    mov $1, %edi
    syscall
fail1:
    mov $60, %eax
    mov $2, %edi
    syscall
fail2:
    mov $60, %eax
    mov $3, %edi
    syscall
fail3:
    mov $60, %eax
    mov $4, %edi
    syscall
fail5:
    mov $60, %eax
    mov $6, %edi
    syscall
fail6:
    mov $60, %eax
    mov $7, %edi
    syscall
fail7:
    mov $60, %eax
    mov $8, %edi
    syscall
fail8:
    mov $60, %eax
    mov $9, %edi
    syscall
fail9:
    mov $60, %eax
    mov $10, %edi
    syscall
fail10:
    mov $60, %eax
    mov $11, %edi
    syscall
fail11:
    mov $60, %eax
    mov $12, %edi
    syscall
