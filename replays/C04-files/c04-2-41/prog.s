    .section .cs_bss0,"aw",@nobits
    .balign 4
    .globl sym0
sym0:
    .zero 1000
    .size sym0, 1000
    .section .rodata.x1,"aM",@progbits,1
    .balign 512
    .globl sym1
sym1:
    .fill 1,1,128
    .size sym1, 1
    .section cs_data2,"aw",@progbits
    .balign 32
    .globl sym2
sym2:
    .fill 100,1,146
    .size sym2, 100
    .section cs_data3,"aw",@progbits
    .balign 64
    .globl sym3
sym3:
    .fill 100,1,162
    .size sym3, 100
    .text
    .globl _start
_start:
    movabs $sym0, %rsi
    test $3, %rsi
    jnz fail0
    movzbl 0(%rsi), %eax
    cmp $0, %eax
    jne fail0
    movzbl 999(%rsi), %eax
    cmp $0, %eax
    jne fail0
    movb $0x5a, (%rsi)
    movb $0x5a, 999(%rsi)
    movabs $sym1, %rsi
    test $511, %rsi
    jnz fail1
    movzbl 0(%rsi), %eax
    cmp $128, %eax
    jne fail1
    movabs $sym2, %rsi
    test $31, %rsi
    jnz fail2
    movzbl 0(%rsi), %eax
    cmp $146, %eax
    jne fail2
    movzbl 99(%rsi), %eax
    cmp $146, %eax
    jne fail2
    movb $0x5a, (%rsi)
    movb $0x5a, 99(%rsi)
    movabs $sym3, %rsi
    test $63, %rsi
    jnz fail3
    movzbl 0(%rsi), %eax
    cmp $162, %eax
    jne fail3
    movzbl 99(%rsi), %eax
    cmp $162, %eax
    jne fail3
    movb $0x5a, (%rsi)
    movb $0x5a, 99(%rsi)
    mov $60, %eax
    xor %edi, %edi
    syscall
fail0:
    mov $60, %eax
    mov $1, %edi
    syscall
fail1:
    mov $60, %eax
    mov $2, %edi
    syscall
fail2:
    mov $60, %eax
    mov $3, %edi
    syscall
fail3:
    mov $60, %eax
    mov $4, %edi
    syscall
