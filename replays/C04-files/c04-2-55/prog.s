    .section .cs_ro0,"a",@progbits
    .balign 128
    .globl sym0
sym0:
    .size sym0, 0
    .section .cs_ro1,"a",@progbits
    .balign 16
    .globl sym1
sym1:
    .fill 24,1,242
    .size sym1, 24
    .section .cs_data2,"aw",@progbits
    .balign 32
    .globl sym2
sym2:
    .fill 24,1,20
    .size sym2, 24
    .section .cs_bss3,"aw",@nobits
    .balign 16
    .globl sym3
sym3:
    .zero 7
    .size sym3, 7
    .section cs_bss4,"aw",@nobits
    .balign 1024
    .globl sym4
sym4:
    .zero 70000
    .size sym4, 70000
    .section .cs_data5,"aw",@progbits
    .balign 1024
    .globl sym5
sym5:
    .fill 3,1,60
    .size sym5, 3
    .section cs_data6,"aw",@progbits
    .balign 1
    .globl sym6
sym6:
    .fill 255,1,36
    .size sym6, 255
    .section .cs_bss7,"aw",@nobits
    .balign 64
    .globl sym7
sym7:
    .zero 255
    .size sym7, 255
    .section .bss.x8,"aw",@nobits
    .balign 128
    .globl sym8
sym8:
    .zero 100
    .size sym8, 100
    .section .cs_exec9,"ax",@progbits
    .balign 16
    .globl sym9
sym9:
    .fill 1000,1,195
    .size sym9, 1000
    .text
    .globl _start
_start:
    movabs $sym1, %rsi
    test $15, %rsi
    jnz fail1
    movzbl 0(%rsi), %eax
    cmp $242, %eax
    jne fail1
    movzbl 23(%rsi), %eax
    cmp $242, %eax
    jne fail1
    movabs $sym2, %rsi
    test $31, %rsi
    jnz fail2
    movzbl 0(%rsi), %eax
    cmp $20, %eax
    jne fail2
    movzbl 23(%rsi), %eax
    cmp $20, %eax
    jne fail2
    movb $0x5a, (%rsi)
    movb $0x5a, 23(%rsi)
    movabs $sym3, %rsi
    test $15, %rsi
    jnz fail3
    movzbl 0(%rsi), %eax
    cmp $0, %eax
    jne fail3
    movzbl 6(%rsi), %eax
    cmp $0, %eax
    jne fail3
    movb $0x5a, (%rsi)
    movb $0x5a, 6(%rsi)
    movabs $sym4, %rsi
    test $1023, %rsi
    jnz fail4
    movzbl 0(%rsi), %eax
    cmp $0, %eax
    jne fail4
    movzbl 69999(%rsi), %eax
    cmp $0, %eax
    jne fail4
    movb $0x5a, (%rsi)
    movb $0x5a, 69999(%rsi)
    movabs $sym5, %rsi
    test $1023, %rsi
    jnz fail5
    movzbl 0(%rsi), %eax
    cmp $60, %eax
    jne fail5
    movzbl 2(%rsi), %eax
    cmp $60, %eax
    jne fail5
    movb $0x5a, (%rsi)
    movb $0x5a, 2(%rsi)
    movabs $sym6, %rsi
    test $0, %rsi
    jnz fail6
    movzbl 0(%rsi), %eax
    cmp $36, %eax
    jne fail6
    movzbl 254(%rsi), %eax
    cmp $36, %eax
    jne fail6
    movb $0x5a, (%rsi)
    movb $0x5a, 254(%rsi)
    movabs $sym7, %rsi
    test $63, %rsi
    jnz fail7
    movzbl 0(%rsi), %eax
    cmp $0, %eax
    jne fail7
    movzbl 254(%rsi), %eax
    cmp $0, %eax
    jne fail7
    movb $0x5a, (%rsi)
    movb $0x5a, 254(%rsi)
    movabs $sym8, %rsi
    test $127, %rsi
    jnz fail8
    movzbl 0(%rsi), %eax
    cmp $0, %eax
    jne fail8
    movzbl 99(%rsi), %eax
    cmp $0, %eax
    jne fail8
    movb $0x5a, (%rsi)
    movb $0x5a, 99(%rsi)
    movabs $sym9, %rsi
    test $15, %rsi
    jnz fail9
    movzbl 0(%rsi), %eax
    cmp $195, %eax
    jne fail9
    movzbl 999(%rsi), %eax
    cmp $195, %eax
    jne fail9
    mov $60, %eax
    xor %edi, %edi
    syscall
fail1:
    mov $60, %eax
    mov $2, %edi
    syscall
fail2:
    mov $60, %eax
    mov $3, %edi
    syscall
fail3:
    mov $60, %eax
    mov $4, %edi
    syscall
fail4:
    mov $60, %eax
    mov $5, %edi
    syscall
fail5:
    mov $60, %eax
    mov $6, %edi
    syscall
fail6:
    mov $60, %eax
    mov $7, %edi
    syscall
fail7:
    mov $60, %eax
    mov $8, %edi
    syscall
fail8:
    mov $60, %eax
    mov $9, %edi
    syscall
fail9:
    mov $60, %eax
    mov $10, %edi
    syscall
