    .section .cs_data0,"aw",@progbits
    .balign 8192
    .globl sym0
sym0:
    .fill 100,1,169
    .size sym0, 100
    .section .cs_data1,"aw",@progbits
    .balign 1
    .globl sym1
sym1:
    .fill 255,1,247
    .size sym1, 255
    .section .cs_data2,"aw",@progbits
    .balign 4
    .globl sym2
sym2:
    .fill 100,1,32
    .size sym2, 100
    .section .cs_bss3,"aw",@nobits
    .balign 256
    .globl sym3
sym3:
    .zero 0
    .size sym3, 0
    .section cs_data4,"aw",@progbits
    .balign 4
    .globl sym4
sym4:
    .fill 24,1,67
    .size sym4, 24
    .section .data.rel.ro.x5,"aw",@progbits
    .balign 4
    .globl sym5
sym5:
    .fill 1,1,204
    .size sym5, 1
    .text
    .globl _start
_start:
    movabs $sym0, %rsi
    movzbl 0(%rsi), %eax
    cmp $169, %eax
    jne fail0
    movzbl 99(%rsi), %eax
    cmp $169, %eax
    jne fail0
    movb $0x5a, (%rsi)
    movb $0x5a, 99(%rsi)
    movabs $sym1, %rsi
    test $0, %rsi
    jnz fail1
    movzbl 0(%rsi), %eax
    cmp $247, %eax
    jne fail1
    movzbl 254(%rsi), %eax
    cmp $247, %eax
    jne fail1
    movb $0x5a, (%rsi)
    movb $0x5a, 254(%rsi)
    movabs $sym2, %rsi
    test $3, %rsi
    jnz fail2
    movzbl 0(%rsi), %eax
    cmp $32, %eax
    jne fail2
    movzbl 99(%rsi), %eax
    cmp $32, %eax
    jne fail2
    movb $0x5a, (%rsi)
    movb $0x5a, 99(%rsi)
    movabs $sym4, %rsi
    test $3, %rsi
    jnz fail4
    movzbl 0(%rsi), %eax
    cmp $67, %eax
    jne fail4
    movzbl 23(%rsi), %eax
    cmp $67, %eax
    jne fail4
    movb $0x5a, (%rsi)
    movb $0x5a, 23(%rsi)
    movabs $sym5, %rsi
    test $3, %rsi
    jnz fail5
    movzbl 0(%rsi), %eax
    cmp $204, %eax
    jne fail5
    mov $60, %eax
    xor %edi, %edi
    syscall
fail0:
    mov $60, %eax
    mov $1, %edi
    syscall
fail1:
    mov $60, %eax
    mov $2, %edi
    syscall
fail2:
    mov $60, %eax
    mov $3, %edi
    syscall
fail4:
    mov $60, %eax
    mov $5, %edi
    syscall
fail5:
    mov $60, %eax
    mov $6, %edi
    syscall
