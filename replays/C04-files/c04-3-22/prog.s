    .section .cs_exec0,"ax",@progbits
    .balign 256
    .globl sym0
sym0:
    .fill 9000,1,195
    .size sym0, 9000
    .section cs_exec1,"ax",@progbits
    .balign 2048
    .globl sym1
sym1:
    .fill 24,1,195
    .size sym1, 24
    .section cs_data2,"aw",@progbits
    .balign 256
    .globl sym2
sym2:
    .fill 7,1,117
    .size sym2, 7
    .section cs_ro3,"aM",@progbits,1
    .balign 64
    .globl sym3
sym3:
    .fill 1,1,4
    .size sym3, 1
    .section .rodata,"a",@progbits
    .balign 8
    .globl sym4
sym4:
    .fill 1,1,180
    .size sym4, 1
    .section .cs_ro5,"a",@progbits
    .balign 65536
    .globl sym5
sym5:
    .fill 9000,1,76
    .size sym5, 9000
    .section .cs_data6,"aw",@progbits
    .balign 1
    .globl sym6
sym6:
    .fill 4097,1,93
    .size sym6, 4097
    .section .cs_ro7,"a",@progbits
    .balign 2048
    .globl sym7
sym7:
    .fill 3,1,192
    .size sym7, 3
    .section cs_exec8,"ax",@progbits
    .balign 16
    .globl sym8
sym8:
    .fill 8,1,195
    .size sym8, 8
    .section .cs_data9,"aw",@progbits
    .balign 32
    .globl sym9
sym9:
    .fill 8,1,108
    .size sym9, 8
    .section .cs_exec10,"ax",@progbits
    .balign 4
    .globl sym10
sym10:
    .fill 1000,1,195
    .size sym10, 1000
    .section .data.x11,"aw",@progbits
    .balign 512
    .globl sym11
sym11:
    .size sym11, 0
    .section .note.cs12,"a",@note
    .balign 4
    .globl sym12
sym12:
    .long 4, 4, 0x4304
    .asciz "CS4"
    .long 0
    .size sym12, 20
    .text
    .globl _start
_start:
    movabs $sym0, %rsi
    test $255, %rsi
    jnz fail0
    movzbl 0(%rsi), %eax
    cmp $195, %eax
    jne fail0
    movzbl 8999(%rsi), %eax
    cmp $195, %eax
    jne fail0
    movabs $sym1, %rsi
    test $2047, %rsi
    jnz fail1
    movzbl 0(%rsi), %eax
    cmp $195, %eax
    jne fail1
    movzbl 23(%rsi), %eax
    cmp $195, %eax
    jne fail1
    movabs $sym2, %rsi
    test $255, %rsi
    jnz fail2
    movzbl 0(%rsi), %eax
    cmp $117, %eax
    jne fail2
    movzbl 6(%rsi), %eax
    cmp $117, %eax
    jne fail2
    movb $0x5a, (%rsi)
    movb $0x5a, 6(%rsi)
    movabs $sym3, %rsi
    test $63, %rsi
    jnz fail3
    movzbl 0(%rsi), %eax
    cmp $4, %eax
    jne fail3
    movabs $sym4, %rsi
    test $7, %rsi
    jnz fail4
    movzbl 0(%rsi), %eax
    cmp $180, %eax
    jne fail4
    movabs $sym5, %rsi
    movzbl 0(%rsi), %eax
    cmp $76, %eax
    jne fail5
    movzbl 8999(%rsi), %eax
    cmp $76, %eax
    jne fail5
    movabs $sym6, %rsi
    test $0, %rsi
    jnz fail6
    movzbl 0(%rsi), %eax
    cmp $93, %eax
    jne fail6
    movzbl 4096(%rsi), %eax
    cmp $93, %eax
    jne fail6
    movb $0x5a, (%rsi)
    movb $0x5a, 4096(%rsi)
    movabs $sym7, %rsi
    test $2047, %rsi
    jnz fail7
    movzbl 0(%rsi), %eax
    cmp $192, %eax
    jne fail7
    movzbl 2(%rsi), %eax
    cmp $192, %eax
    jne fail7
    movabs $sym8, %rsi
    test $15, %rsi
    jnz fail8
    movzbl 0(%rsi), %eax
    cmp $195, %eax
    jne fail8
    movzbl 7(%rsi), %eax
    cmp $195, %eax
    jne fail8
    movabs $sym9, %rsi
    test $31, %rsi
    jnz fail9
    movzbl 0(%rsi), %eax
    cmp $108, %eax
    jne fail9
    movzbl 7(%rsi), %eax
    cmp $108, %eax
    jne fail9
    movb $0x5a, (%rsi)
    movb $0x5a, 7(%rsi)
    movabs $sym10, %rsi
    test $3, %rsi
    jnz fail10
    movzbl 0(%rsi), %eax
    cmp $195, %eax
    jne fail10
    movzbl 999(%rsi), %eax
    cmp $195, %eax
    jne fail10
    mov $60, %eax
    xor %edi, %edi
    syscall
fail0:
    mov $60, %eax
    mov $1, %edi
    syscall
fail1:
    mov $60, %eax
    mov $2, %edi
    syscall
fail2:
    mov $60, %eax
    mov $3, %edi
    syscall
fail3:
    mov $60, %eax
    mov $4, %edi
    syscall
fail4:
    mov $60, %eax
    mov $5, %edi
    syscall
fail5:
    mov $60, %eax
    mov $6, %edi
    syscall
fail6:
    mov $60, %eax
    mov $7, %edi
    syscall
fail7:
    mov $60, %eax
    mov $8, %edi
    syscall
fail8:
    mov $60, %eax
    mov $9, %edi
    syscall
fail9:
    mov $60, %eax
    mov $10, %edi
    syscall
fail10:
    mov $60, %eax
    mov $11, %edi
    syscall
