    .section .note.cs0,"a",@note
    .balign 4
    .globl sym0
sym0:
    .long 4, 4, 0x4304
    .asciz "CS4"
    .long 0
    .size sym0, 20
    .section .bss.x1,"aw",@nobits
    .balign 1
    .globl sym1
sym1:
    .zero 70000
    .size sym1, 70000
    .section .data.x2,"aw",@progbits
    .balign 2
    .globl sym2
sym2:
    .fill 1000,1,157
    .size sym2, 1000
    .section cs_data3,"aw",@progbits
    .balign 2
    .globl sym3
sym3:
    .fill 100,1,36
    .size sym3, 100
    .section .data,"aw",@progbits
    .balign 16
    .globl sym4
sym4:
    .fill 70000,1,215
    .size sym4, 70000
    .section .cs_data5,"aw",@progbits
    .balign 8
    .globl sym5
sym5:
    .fill 3,1,144
    .size sym5, 3
    .section cs_data6,"aw",@progbits
    .balign 2
    .globl sym6
sym6:
    .fill 1,1,132
    .size sym6, 1
    .section .data,"aw",@progbits
    .balign 1
    .globl sym7
sym7:
    .fill 1,1,30
    .size sym7, 1
    .section cs_exec8,"ax",@progbits
    .balign 16
    .globl sym8
sym8:
    .fill 100,1,195
    .size sym8, 100
    .section .cs_data9,"aw",@progbits
    .balign 16
    .globl sym9
sym9:
    .size sym9, 0
    .section .data.rel.ro,"aw",@progbits
    .balign 256
    .globl sym10
sym10:
    .fill 100,1,74
    .size sym10, 100
    .section .data.rel.ro,"aw",@progbits
    .balign 2048
    .globl sym11
sym11:
    .fill 3,1,244
    .size sym11, 3
    .section cs_exec12,"ax",@progbits
    .balign 128
    .globl sym12
sym12:
    .fill 1000,1,195
    .size sym12, 1000
    .text
    .globl _start
_start:
    movabs $sym1, %rsi
    test $0, %rsi
    jnz fail1
    movzbl 0(%rsi), %eax
    cmp $0, %eax
    jne fail1
    movzbl 69999(%rsi), %eax
    cmp $0, %eax
    jne fail1
    movb $0x5a, (%rsi)
    movb $0x5a, 69999(%rsi)
    movabs $sym2, %rsi
    test $1, %rsi
    jnz fail2
    movzbl 0(%rsi), %eax
    cmp $157, %eax
    jne fail2
    movzbl 999(%rsi), %eax
    cmp $157, %eax
    jne fail2
    movb $0x5a, (%rsi)
    movb $0x5a, 999(%rsi)
    movabs $sym3, %rsi
    test $1, %rsi
    jnz fail3
    movzbl 0(%rsi), %eax
    cmp $36, %eax
    jne fail3
    movzbl 99(%rsi), %eax
    cmp $36, %eax
    jne fail3
    movb $0x5a, (%rsi)
    movb $0x5a, 99(%rsi)
    movabs $sym4, %rsi
    test $15, %rsi
    jnz fail4
    movzbl 0(%rsi), %eax
    cmp $215, %eax
    jne fail4
    movzbl 69999(%rsi), %eax
    cmp $215, %eax
    jne fail4
    movb $0x5a, (%rsi)
    movb $0x5a, 69999(%rsi)
    movabs $sym5, %rsi
    test $7, %rsi
    jnz fail5
    movzbl 0(%rsi), %eax
    cmp $144, %eax
    jne fail5
    movzbl 2(%rsi), %eax
    cmp $144, %eax
    jne fail5
    movb $0x5a, (%rsi)
    movb $0x5a, 2(%rsi)
    movabs $sym6, %rsi
    test $1, %rsi
    jnz fail6
    movzbl 0(%rsi), %eax
    cmp $132, %eax
    jne fail6
    movb $0x5a, (%rsi)
    movb $0x5a, 0(%rsi)
    movabs $sym7, %rsi
    test $0, %rsi
    jnz fail7
    movzbl 0(%rsi), %eax
    cmp $30, %eax
    jne fail7
    movb $0x5a, (%rsi)
    movb $0x5a, 0(%rsi)
    movabs $sym8, %rsi
    test $15, %rsi
    jnz fail8
    movzbl 0(%rsi), %eax
    cmp $195, %eax
    jne fail8
    movzbl 99(%rsi), %eax
    cmp $195, %eax
    jne fail8
    movabs $sym10, %rsi
    test $255, %rsi
    jnz fail10
    movzbl 0(%rsi), %eax
    cmp $74, %eax
    jne fail10
    movzbl 99(%rsi), %eax
    cmp $74, %eax
    jne fail10
    movabs $sym11, %rsi
    test $2047, %rsi
    jnz fail11
    movzbl 0(%rsi), %eax
    cmp $244, %eax
    jne fail11
    movzbl 2(%rsi), %eax
    cmp $244, %eax
    jne fail11
    movabs $sym12, %rsi
    test $127, %rsi
    jnz fail12
    movzbl 0(%rsi), %eax
    cmp $195, %eax
    jne fail12
    movzbl 999(%rsi), %eax
    cmp $195, %eax
    jne fail12
    mov $60, %eax
    xor %edi, %edi
    syscall
fail1:
    mov $60, %eax
    mov $2, %edi
    syscall
fail2:
    mov $60, %eax
    mov $3, %edi
    syscall
fail3:
    mov $60, %eax
    mov $4, %edi
    syscall
fail4:
    mov $60, %eax
    mov $5, %edi
    syscall
fail5:
    mov $60, %eax
    mov $6, %edi
    syscall
fail6:
    mov $60, %eax
    mov $7, %edi
    syscall
fail7:
    mov $60, %eax
    mov $8, %edi
    syscall
fail8:
    mov $60, %eax
    mov $9, %edi
    syscall
fail10:
    mov $60, %eax
    mov $11, %edi
    syscall
fail11:
    mov $60, %eax
    mov $12, %edi
    syscall
fail12:
    mov $60, %eax
    mov $13, %edi
    syscall
