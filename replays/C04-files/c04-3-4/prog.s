    .section .cs_ro0,"aM",@progbits,1
    .balign 1024
    .globl sym0
sym0:
    .fill 24,1,161
    .size sym0, 24
    .section .cs_exec1,"ax",@progbits
    .balign 2
    .globl sym1
sym1:
    .fill 8,1,195
    .size sym1, 8
    .section .cs_data2,"aw",@progbits
    .balign 4096
    .globl sym2
sym2:
    .fill 9000,1,157
    .size sym2, 9000
    .section cs_data3,"aw",@progbits
    .balign 8
    .globl sym3
sym3:
    .fill 3,1,128
    .size sym3, 3
    .section .cs_bss4,"aw",@nobits
    .balign 128
    .globl sym4
sym4:
    .zero 0
    .size sym4, 0
    .section .data,"aw",@progbits
    .balign 1
    .globl sym5
sym5:
    .fill 8,1,220
    .size sym5, 8
    .section cs_bss6,"aw",@nobits
    .balign 16
    .globl sym6
sym6:
    .zero 1000
    .size sym6, 1000
    .section cs_data7,"aw",@progbits
    .balign 1
    .globl sym7
sym7:
    .fill 100,1,112
    .size sym7, 100
    .section cs_data8,"aw",@progbits
    .balign 8
    .globl sym8
sym8:
    .fill 70000,1,125
    .size sym8, 70000
    .text
    .globl _start
_start:
    movabs $sym0, %rsi
    test $1023, %rsi
    jnz fail0
    movzbl 0(%rsi), %eax
    cmp $161, %eax
    jne fail0
    movzbl 23(%rsi), %eax
    cmp $161, %eax
    jne fail0
    movabs $sym1, %rsi
    test $1, %rsi
    jnz fail1
    movzbl 0(%rsi), %eax
    cmp $195, %eax
    jne fail1
    movzbl 7(%rsi), %eax
    cmp $195, %eax
    jne fail1
    movabs $sym2, %rsi
    test $4095, %rsi
    jnz fail2
    movzbl 0(%rsi), %eax
    cmp $157, %eax
    jne fail2
    movzbl 8999(%rsi), %eax
    cmp $157, %eax
    jne fail2
    movb $0x5a, (%rsi)
    movb $0x5a, 8999(%rsi)
    movabs $sym3, %rsi
    test $7, %rsi
    jnz fail3
    movzbl 0(%rsi), %eax
    cmp $128, %eax
    jne fail3
    movzbl 2(%rsi), %eax
    cmp $128, %eax
    jne fail3
    movb $0x5a, (%rsi)
    movb $0x5a, 2(%rsi)
    movabs $sym5, %rsi
    test $0, %rsi
    jnz fail5
    movzbl 0(%rsi), %eax
    cmp $220, %eax
    jne fail5
    movzbl 7(%rsi), %eax
    cmp $220, %eax
    jne fail5
    movb $0x5a, (%rsi)
    movb $0x5a, 7(%rsi)
    movabs $sym6, %rsi
    test $15, %rsi
    jnz fail6
    movzbl 0(%rsi), %eax
    cmp $0, %eax
    jne fail6
    movzbl 999(%rsi), %eax
    cmp $0, %eax
    jne fail6
    movb $0x5a, (%rsi)
    movb $0x5a, 999(%rsi)
    movabs $sym7, %rsi
    test $0, %rsi
    jnz fail7
    movzbl 0(%rsi), %eax
    cmp $112, %eax
    jne fail7
    movzbl 99(%rsi), %eax
    cmp $112, %eax
    jne fail7
    movb $0x5a, (%rsi)
    movb $0x5a, 99(%rsi)
    movabs $sym8, %rsi
    test $7, %rsi
    jnz fail8
    movzbl 0(%rsi), %eax
    cmp $125, %eax
    jne fail8
    movzbl 69999(%rsi), %eax
    cmp $125, %eax
    jne fail8
    movb $0x5a, (%rsi)
    movb $0x5a, 69999(%rsi)
    mov $60, %eax
    xor %edi, %edi
    syscall
fail0:
    mov $60, %eax
    mov $1, %edi
    syscall
fail1:
    mov $60, %eax
    mov $2, %edi
    syscall
fail2:
    mov $60, %eax
    mov $3, %edi
    syscall
fail3:
    mov $60, %eax
    mov $4, %edi
    syscall
fail5:
    mov $60, %eax
    mov $6, %edi
    syscall
fail6:
    mov $60, %eax
    mov $7, %edi
    syscall
fail7:
    mov $60, %eax
    mov $8, %edi
    syscall
fail8:
    mov $60, %eax
    mov $9, %edi
    syscall
