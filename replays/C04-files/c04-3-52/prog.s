    .section cs_ro0,"a",@progbits
    .balign 64
    .globl sym0
sym0:
    .fill 7,1,130
    .size sym0, 7
    .section .cs_exec1,"ax",@progbits
    .balign 4
    .globl sym1
sym1:
    .fill 255,1,195
    .size sym1, 255
    .section .cs_data2,"aw",@progbits
    .balign 4
    .globl sym2
sym2:
    .fill 3,1,12
    .size sym2, 3
    .section .cs_data3,"aw",@progbits
    .balign 4
    .globl sym3
sym3:
    .fill 8,1,30
    .size sym3, 8
    .section .note.cs4,"a",@note
    .balign 4
    .globl sym4
sym4:
    .long 4, 4, 0x4304
    .asciz "CS4"
    .long 0
    .size sym4, 20
    .section .cs_na5,"",@progbits
    .balign 8
    .globl sym5
sym5:
    .fill 7,1,76
    .size sym5, 7
    .section cs_bss6,"aw",@nobits
    .balign 1
    .globl sym6
sym6:
    .zero 255
    .size sym6, 255
    .section cs_exec7,"ax",@progbits
    .balign 1
    .globl sym7
sym7:
    .fill 8,1,195
    .size sym7, 8
    .section .note.cs8,"a",@note
    .balign 4
    .globl sym8
sym8:
    .long 4, 4, 0x4304
    .asciz "CS4"
    .long 0
    .size sym8, 20
    .text
    .globl _start
_start:
    movabs $sym0, %rsi
    test $63, %rsi
    jnz fail0
    movzbl 0(%rsi), %eax
    cmp $130, %eax
    jne fail0
    movzbl 6(%rsi), %eax
    cmp $130, %eax
    jne fail0
    movabs $sym1, %rsi
    test $3, %rsi
    jnz fail1
    movzbl 0(%rsi), %eax
    cmp $195, %eax
    jne fail1
    movzbl 254(%rsi), %eax
    cmp $195, %eax
    jne fail1
    movabs $sym2, %rsi
    test $3, %rsi
    jnz fail2
    movzbl 0(%rsi), %eax
    cmp $12, %eax
    jne fail2
    movzbl 2(%rsi), %eax
    cmp $12, %eax
    jne fail2
    movb $0x5a, (%rsi)
    movb $0x5a, 2(%rsi)
    movabs $sym3, %rsi
    test $3, %rsi
    jnz fail3
    movzbl 0(%rsi), %eax
    cmp $30, %eax
    jne fail3
    movzbl 7(%rsi), %eax
    cmp $30, %eax
    jne fail3
    movb $0x5a, (%rsi)
    movb $0x5a, 7(%rsi)
    movabs $sym6, %rsi
    test $0, %rsi
    jnz fail6
    movzbl 0(%rsi), %eax
    cmp $0, %eax
    jne fail6
    movzbl 254(%rsi), %eax
    cmp $0, %eax
    jne fail6
    movb $0x5a, (%rsi)
    movb $0x5a, 254(%rsi)
    movabs $sym7, %rsi
    test $0, %rsi
    jnz fail7
    movzbl 0(%rsi), %eax
    cmp $195, %eax
    jne fail7
    movzbl 7(%rsi), %eax
    cmp $195, %eax
    jne fail7
    mov $60, %eax
    xor %edi, %edi
    syscall
fail0:
    mov $60, %eax
    mov $1, %edi
    syscall
fail1:
    mov $60, %eax
    mov $2, %edi
    syscall
fail2:
    mov $60, %eax
    mov $3, %edi
    syscall
fail3:
    mov $60, %eax
    mov $4, %edi
    syscall
fail6:
    mov $60, %eax
    mov $7, %edi
    syscall
fail7:
    mov $60, %eax
    mov $8, %edi
    syscall
