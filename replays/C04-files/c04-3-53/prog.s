    .section .data,"aw",@progbits
    .balign 512
    .globl sym0
sym0:
    .fill 9000,1,143
    .size sym0, 9000
    .section .data.rel.ro.x1,"aw",@progbits
    .balign 65536
    .globl sym1
sym1:
    .fill 70000,1,89
    .size sym1, 70000
    .section cs_data2,"aw",@progbits
    .balign 512
    .globl sym2
sym2:
    .fill 100,1,182
    .size sym2, 100
    .section cs_data3,"aw",@progbits
    .balign 4
    .globl sym3
sym3:
    .fill 9000,1,236
    .size sym3, 9000
    .section cs_data4,"aw",@progbits
    .balign 1024
    .globl sym4
sym4:
    .fill 4097,1,107
    .size sym4, 4097
    .section .text.hot.x5,"ax",@progbits
    .balign 128
    .globl sym5
sym5:
    .fill 24,1,195
    .size sym5, 24
    .section .cs_ro6,"a",@progbits
    .balign 16384
    .globl sym6
sym6:
    .fill 4097,1,195
    .size sym6, 4097
    .section .cs_ro7,"a",@progbits
    .balign 16
    .globl sym7
sym7:
    .fill 8,1,45
    .size sym7, 8
    .section .cs_data8,"aw",@progbits
    .balign 256
    .globl sym8
sym8:
    .fill 8,1,220
    .size sym8, 8
    .section .cs_data9,"aw",@progbits
    .balign 8192
    .globl sym9
sym9:
    .fill 7,1,180
    .size sym9, 7
    .section .note.cs10,"a",@note
    .balign 4
    .globl sym10
sym10:
    .long 4, 4, 0x4304
    .asciz "CS4"
    .long 0
    .size sym10, 20
    .text
    .globl _start
_start:
    movabs $sym0, %rsi
    test $511, %rsi
    jnz fail0
    movzbl 0(%rsi), %eax
    cmp $143, %eax
    jne fail0
    movzbl 8999(%rsi), %eax
    cmp $143, %eax
    jne fail0
    movb $0x5a, (%rsi)
    movb $0x5a, 8999(%rsi)
    movabs $sym1, %rsi
    movzbl 0(%rsi), %eax
    cmp $89, %eax
    jne fail1
    movzbl 69999(%rsi), %eax
    cmp $89, %eax
    jne fail1
    movabs $sym2, %rsi
    test $511, %rsi
    jnz fail2
    movzbl 0(%rsi), %eax
    cmp $182, %eax
    jne fail2
    movzbl 99(%rsi), %eax
    cmp $182, %eax
    jne fail2
    movb $0x5a, (%rsi)
    movb $0x5a, 99(%rsi)
    movabs $sym3, %rsi
    test $3, %rsi
    jnz fail3
    movzbl 0(%rsi), %eax
    cmp $236, %eax
    jne fail3
    movzbl 8999(%rsi), %eax
    cmp $236, %eax
    jne fail3
    movb $0x5a, (%rsi)
    movb $0x5a, 8999(%rsi)
    movabs $sym4, %rsi
    test $1023, %rsi
    jnz fail4
    movzbl 0(%rsi), %eax
    cmp $107, %eax
    jne fail4
    movzbl 4096(%rsi), %eax
    cmp $107, %eax
    jne fail4
    movb $0x5a, (%rsi)
    movb $0x5a, 4096(%rsi)
    movabs $sym5, %rsi
    test $127, %rsi
    jnz fail5
    movzbl 0(%rsi), %eax
    cmp $195, %eax
    jne fail5
    movzbl 23(%rsi), %eax
    cmp $195, %eax
    jne fail5
    movabs $sym6, %rsi
    movzbl 0(%rsi), %eax
    cmp $195, %eax
    jne fail6
    movzbl 4096(%rsi), %eax
    cmp $195, %eax
    jne fail6
    movabs $sym7, %rsi
    test $15, %rsi
    jnz fail7
    movzbl 0(%rsi), %eax
    cmp $45, %eax
    jne fail7
    movzbl 7(%rsi), %eax
    cmp $45, %eax
    jne fail7
    movabs $sym8, %rsi
    test $255, %rsi
    jnz fail8
    movzbl 0(%rsi), %eax
    cmp $220, %eax
    jne fail8
    movzbl 7(%rsi), %eax
    cmp $220, %eax
    jne fail8
    movb $0x5a, (%rsi)
    movb $0x5a, 7(%rsi)
    movabs $sym9, %rsi
    movzbl 0(%rsi), %eax
    cmp $180, %eax
    jne fail9
    movzbl 6(%rsi), %eax
    cmp $180, %eax
    jne fail9
    movb $0x5a, (%rsi)
    movb $0x5a, 6(%rsi)
    mov $60, %eax
    xor %edi, %edi
    syscall
fail0:
    mov $60, %eax
    mov $1, %edi
    syscall
fail1:
    mov $60, %eax
    mov $2, %edi
    syscall
fail2:
    mov $60, %eax
    mov $3, %edi
    syscall
fail3:
    mov $60, %eax
    mov $4, %edi
    syscall
fail4:
    mov $60, %eax
    mov $5, %edi
    syscall
fail5:
    mov $60, %eax
    mov $6, %edi
    syscall
fail6:
    mov $60, %eax
    mov $7, %edi
    syscall
fail7:
    mov $60, %eax
    mov $8, %edi
    syscall
fail8:
    mov $60, %eax
    mov $9, %edi
    syscall
fail9:
    mov $60, %eax
    mov $10, %edi
    syscall
