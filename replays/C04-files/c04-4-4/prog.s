    .section .cs_ro0,"a",@progbits
    .balign 8
    .globl sym0
sym0:
    .size sym0, 0
    .section .rodata,"a",@progbits
    .balign 4
    .globl sym1
sym1:
    .fill 4097,1,203
    .size sym1, 4097
    .section .data.rel.ro,"aw",@progbits
    .balign 512
    .globl sym2
sym2:
    .fill 4097,1,202
    .size sym2, 4097
    .section cs_bss3,"aw",@nobits
    .balign 16
    .globl sym3
sym3:
    .zero 1
    .size sym3, 1
    .section cs_data4,"aw",@progbits
    .balign 4
    .globl sym4
sym4:
    .fill 24,1,103
    .size sym4, 24
    .section .cs_data5,"aw",@progbits
    .balign 65536
    .globl sym5
sym5:
    .fill 4097,1,129
    .size sym5, 4097
    .section cs_data6,"aw",@progbits
    .balign 512
    .globl sym6
sym6:
    .fill 7,1,57
    .size sym6, 7
    .section .cs_ro7,"a",@progbits
    .balign 1024
    .globl sym7
sym7:
    .fill 100,1,31
    .size sym7, 100
    .section .cs_data8,"aw",@progbits
    .balign 32
    .globl sym8
sym8:
    .fill 100,1,187
    .size sym8, 100
    .section cs_data9,"aw",@progbits
    .balign 1024
    .globl sym9
sym9:
    .fill 100,1,188
    .size sym9, 100
    .section .cs_ro10,"a",@progbits
    .balign 16
    .globl sym10
sym10:
    .fill 3,1,72
    .size sym10, 3
    .text
    .globl _start
_start:
    movabs $sym1, %rsi
    test $3, %rsi
    jnz fail1
    movzbl 0(%rsi), %eax
    cmp $203, %eax
    jne fail1
    movzbl 4096(%rsi), %eax
    cmp $203, %eax
    jne fail1
    movabs $sym2, %rsi
    test $511, %rsi
    jnz fail2
    movzbl 0(%rsi), %eax
    cmp $202, %eax
    jne fail2
    movzbl 4096(%rsi), %eax
    cmp $202, %eax
    jne fail2
    movabs $sym3, %rsi
    test $15, %rsi
    jnz fail3
    movzbl 0(%rsi), %eax
    cmp $0, %eax
    jne fail3
    movb $0x5a, (%rsi)
    movb $0x5a, 0(%rsi)
    movabs $sym4, %rsi
    test $3, %rsi
    jnz fail4
    movzbl 0(%rsi), %eax
    cmp $103, %eax
    jne fail4
    movzbl 23(%rsi), %eax
    cmp $103, %eax
    jne fail4
    movb $0x5a, (%rsi)
    movb $0x5a, 23(%rsi)
    movabs $sym5, %rsi
    movzbl 0(%rsi), %eax
    cmp $129, %eax
    jne fail5
    movzbl 4096(%rsi), %eax
    cmp $129, %eax
    jne fail5
    movb $0x5a, (%rsi)
    movb $0x5a, 4096(%rsi)
    movabs $sym6, %rsi
    test $511, %rsi
    jnz fail6
    movzbl 0(%rsi), %eax
    cmp $57, %eax
    jne fail6
    movzbl 6(%rsi), %eax
    cmp $57, %eax
    jne fail6
    movb $0x5a, (%rsi)
    movb $0x5a, 6(%rsi)
    movabs $sym7, %rsi
    test $1023, %rsi
    jnz fail7
    movzbl 0(%rsi), %eax
    cmp $31, %eax
    jne fail7
    movzbl 99(%rsi), %eax
    cmp $31, %eax
    jne fail7
    movabs $sym8, %rsi
    test $31, %rsi
    jnz fail8
    movzbl 0(%rsi), %eax
    cmp $187, %eax
    jne fail8
    movzbl 99(%rsi), %eax
    cmp $187, %eax
    jne fail8
    movb $0x5a, (%rsi)
    movb $0x5a, 99(%rsi)
    movabs $sym9, %rsi
    test $1023, %rsi
    jnz fail9
    movzbl 0(%rsi), %eax
    cmp $188, %eax
    jne fail9
    movzbl 99(%rsi), %eax
    cmp $188, %eax
    jne fail9
    movb $0x5a, (%rsi)
    movb $0x5a, 99(%rsi)
    movabs $sym10, %rsi
    test $15, %rsi
    jnz fail10
    movzbl 0(%rsi), %eax
    cmp $72, %eax
    jne fail10
    movzbl 2(%rsi), %eax
    cmp $72, %eax
    jne fail10
    mov $60, %eax
    xor %edi, %edi
    syscall
fail1:
    mov $60, %eax
    mov $2, %edi
    syscall
fail2:
    mov $60, %eax
    mov $3, %edi
    syscall
fail3:
    mov $60, %eax
    mov $4, %edi
    syscall
fail4:
    mov $60, %eax
    mov $5, %edi
    syscall
fail5:
    mov $60, %eax
    mov $6, %edi
    syscall
fail6:
    mov $60, %eax
    mov $7, %edi
    syscall
fail7:
    mov $60, %eax
    mov $8, %edi
    syscall
fail8:
    mov $60, %eax
    mov $9, %edi
    syscall
fail9:
    mov $60, %eax
    mov $10, %edi
    syscall
fail10:
    mov $60, %eax
    mov $11, %edi
    syscall
