    .section .data,"aw",@progbits
    .balign 1
    .globl sym0
sym0:
    .fill 255,1,90
    .size sym0, 255
    .section .cs_data1,"aw",@progbits
    .balign 1
    .globl sym1
sym1:
    .fill 100,1,99
    .size sym1, 100
    .section cs_ro2,"a",@progbits
    .balign 2
    .globl sym2
sym2:
    .fill 100,1,148
    .size sym2, 100
    .section cs_data3,"aw",@progbits
    .balign 256
    .globl sym3
sym3:
    .fill 8,1,240
    .size sym3, 8
    .section .data,"aw",@progbits
    .balign 2048
    .globl sym4
sym4:
    .fill 70000,1,18
    .size sym4, 70000
    .section .cs_data5,"aw",@progbits
    .balign 32
    .globl sym5
sym5:
    .fill 3,1,41
    .size sym5, 3
    .section .cs_bss6,"aw",@nobits
    .balign 1
    .globl sym6
sym6:
    .zero 8
    .size sym6, 8
    .section .cs_exec7,"ax",@progbits
    .balign 4
    .globl sym7
sym7:
    .fill 8,1,195
    .size sym7, 8
    .section .cs_ro8,"aM",@progbits,1
    .balign 1024
    .globl sym8
sym8:
    .fill 255,1,5
    .size sym8, 255
    .section .cs_data9,"aw",@progbits
    .balign 16
    .globl sym9
sym9:
    .fill 8,1,150
    .size sym9, 8
    .section .rodata.x10,"aM",@progbits,1
    .balign 8
    .globl sym10
sym10:
    .fill 100,1,246
    .size sym10, 100
    .section .text.x11,"ax",@progbits
    .balign 8
    .globl sym11
sym11:
    .fill 255,1,195
    .size sym11, 255
    .text
    .globl _start
_start:
    movabs $sym0, %rsi
    test $0, %rsi
    jnz fail0
    movzbl 0(%rsi), %eax
    cmp $90, %eax
    jne fail0
    movzbl 254(%rsi), %eax
    cmp $90, %eax
    jne fail0
    movb $0x5a, (%rsi)
    movb $0x5a, 254(%rsi)
    movabs $sym1, %rsi
    test $0, %rsi
    jnz fail1
    movzbl 0(%rsi), %eax
    cmp $99, %eax
    jne fail1
    movzbl 99(%rsi), %eax
    cmp $99, %eax
    jne fail1
    movb $0x5a, (%rsi)
    movb $0x5a, 99(%rsi)
    movabs $sym2, %rsi
    test $1, %rsi
    jnz fail2
    movzbl 0(%rsi), %eax
    cmp $148, %eax
    jne fail2
    movzbl 99(%rsi), %eax
    cmp $148, %eax
    jne fail2
    movabs $sym3, %rsi
    test $255, %rsi
    jnz fail3
    movzbl 0(%rsi), %eax
    cmp $240, %eax
    jne fail3
    movzbl 7(%rsi), %eax
    cmp $240, %eax
    jne fail3
    movb $0x5a, (%rsi)
    movb $0x5a, 7(%rsi)
    movabs $sym4, %rsi
    test $2047, %rsi
    jnz fail4
    movzbl 0(%rsi), %eax
    cmp $18, %eax
    jne fail4
    movzbl 69999(%rsi), %eax
    cmp $18, %eax
    jne fail4
    movb $0x5a, (%rsi)
    movb $0x5a, 69999(%rsi)
    movabs $sym5, %rsi
    test $31, %rsi
    jnz fail5
    movzbl 0(%rsi), %eax
    cmp $41, %eax
    jne fail5
    movzbl 2(%rsi), %eax
    cmp $41, %eax
    jne fail5
    movb $0x5a, (%rsi)
    movb $0x5a, 2(%rsi)
    movabs $sym6, %rsi
    test $0, %rsi
    jnz fail6
    movzbl 0(%rsi), %eax
    cmp $0, %eax
    jne fail6
    movzbl 7(%rsi), %eax
    cmp $0, %eax
    jne fail6
    movb $0x5a, (%rsi)
    movb $0x5a, 7(%rsi)
    movabs $sym7, %rsi
    test $3, %rsi
    jnz fail7
    movzbl 0(%rsi), %eax
    cmp $195, %eax
    jne fail7
    movzbl 7(%rsi), %eax
    cmp $195, %eax
    jne fail7
    movabs $sym8, %rsi
    test $1023, %rsi
    jnz fail8
    movzbl 0(%rsi), %eax
    cmp $5, %eax
    jne fail8
    movzbl 254(%rsi), %eax
    cmp $5, %eax
    jne fail8
    movabs $sym9, %rsi
    test $15, %rsi
    jnz fail9
    movzbl 0(%rsi), %eax
    cmp $150, %eax
    jne fail9
    movzbl 7(%rsi), %eax
    cmp $150, %eax
    jne fail9
    movb $0x5a, (%rsi)
    movb $0x5a, 7(%rsi)
    movabs $sym10, %rsi
    test $7, %rsi
    jnz fail10
    movzbl 0(%rsi), %eax
    cmp $246, %eax
    jne fail10
    movzbl 99(%rsi), %eax
    cmp $246, %eax
    jne fail10
    movabs $sym11, %rsi
    test $7, %rsi
    jnz fail11
    movzbl 0(%rsi), %eax
    cmp $195, %eax
    jne fail11
    movzbl 254(%rsi), %eax
    cmp $195, %eax
    jne fail11
    mov $60, %eax
    xor %edi, %edi
    syscall
fail0:
    mov $60, %eax
    mov $1, %edi
    syscall
fail1:
    mov $60, %eax
    mov $2, %edi
    syscall
fail2:
    mov $60, %eax
    mov $3, %edi
    syscall
fail3:
    mov $60, %eax
    mov $4, %edi
    syscall
fail4:
    mov $60, %eax
    mov $5, %edi
    syscall
fail5:
    mov $60, %eax
    mov $6, %edi
    syscall
fail6:
    mov $60, %eax
    mov $7, %edi
    syscall
fail7:
    mov $60, %eax
    mov $8, %edi
    syscall
fail8:
    mov $60, %eax
    mov $9, %edi
    syscall
fail9:
    mov $60, %eax
    mov $10, %edi
    syscall
fail10:
    mov $60, %eax
    mov $11, %edi
    syscall
fail11:
    mov $60, %eax
    mov $12, %edi
    syscall
