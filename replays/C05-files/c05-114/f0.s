    .section .text.f0,"ax",@progbits
    .section myset0,"aw",@progbits
    .section .text.f7,"ax",@progbits
    .section .text.f8,"ax",@progbits
    .section .text.f9,"ax",@progbits
    .section .text._start,"ax",@progbits
    .globl _start
_start:
    xor %ebp, %ebp
    and $-16, %rsp
    call n_0@PLT
    call finish@PLT
    .section .data.pulls,"aw",@progbits
    .quad pull_2
    .section .text.f0,"ax",@progbits
    .skip 4, 0xcc
    .globl n_0
    .type n_0, @function
n_0:
    sub $8, %rsp
    mov $0, %edi
    call visit_fn@PLT
    test %eax, %eax
    jz 9f
9:  add $8, %rsp
    ret
    .size n_0, .-n_0
    .section myset0,"aw",@progbits
n_1:
    .quad 4, 1
    .reloc ., R_X86_64_NONE, n_0
    .quad 5, 0
    .quad 0, .text.f9+16
    .section .text.f7,"ax",@progbits
    .globl n_7
    .type n_7, @function
n_7:
    sub $8, %rsp
    mov $7, %edi
    call visit_fn@PLT
    test %eax, %eax
    jz 9f
9:  add $8, %rsp
    ret
    .size n_7, .-n_7
    .section .text.f8,"ax",@progbits
    .skip 4, 0xcc
    .type n_8, @function
n_8:
    sub $8, %rsp
    mov $8, %edi
    call visit_fn@PLT
    test %eax, %eax
    jz 9f
    mov __stop_myset0@GOTPCREL(%rip), %rsi
    lea -64(%rsi), %rdi
    call walk_set@PLT
9:  add $8, %rsp
    ret
    .size n_8, .-n_8
    .section .text.f9,"ax",@progbits
    .skip 16, 0xcc
    .type n_9, @function
n_9:
    sub $8, %rsp
    mov $9, %edi
    call visit_fn@PLT
    test %eax, %eax
    jz 9f
9:  add $8, %rsp
    ret
    .size n_9, .-n_9
