    .section .text.f2,"axR",@progbits
    .section .data.d3,"aw",@progbits
    .section .text.f4,"ax",@progbits
    .section myset0,"aw",@progbits
    .section .text.f12,"ax",@progbits
    .section .text.f13,"ax",@progbits
    .section .text.f2,"axR",@progbits
    .skip 16, 0xcc
    .globl n_2
    .type n_2, @function
n_2:
    sub $8, %rsp
    mov $2, %edi
    call visit_fn@PLT
    test %eax, %eax
    jz 9f
    mov n_10@GOTPCREL(%rip), %rdi
    call walk_data@PLT
    mov n_5@GOTPCREL(%rip), %rdi
    call walk_data@PLT
9:  add $8, %rsp
    ret
    .size n_2, .-n_2
    .section .data.d3,"aw",@progbits
    .globl n_3
    .hidden n_3
n_3:
    .quad 3
    .quad 0
    .section .text.f4,"ax",@progbits
    .skip 8, 0xcc
    .globl n_4
    .type n_4, @function
n_4:
    sub $8, %rsp
    mov $4, %edi
    call visit_fn@PLT
    test %eax, %eax
    jz 9f
    call n_12@PLT
    call n_13@PLT
9:  add $8, %rsp
    ret
    .size n_4, .-n_4
    .section myset0,"aw",@progbits
n_6:
    .quad 4, 6
    .section .text.f12,"ax",@progbits
    .globl n_12
    .type n_12, @function
n_12:
    sub $8, %rsp
    mov $12, %edi
    call visit_fn@PLT
    test %eax, %eax
    jz 9f
    .reloc ., R_X86_64_NONE, n_13
9:  add $8, %rsp
    ret
    .size n_12, .-n_12
    .section .text.f13,"ax",@progbits
    .skip 8, 0xcc
    .globl n_13
    .type n_13, @function
n_13:
    sub $8, %rsp
    mov $13, %edi
    call visit_fn@PLT
    test %eax, %eax
    jz 9f
    mov n_5@GOTPCREL(%rip), %rdi
    call walk_data@PLT
9:  add $8, %rsp
    ret
    .size n_13, .-n_13
