    .section .text.f11,"ax",@progbits
    .data
    .globl pull_2
pull_2: .quad 0
    .section .text.f11,"ax",@progbits
    .skip 16, 0xcc
    .type n_11, @function
n_11:
    sub $8, %rsp
    mov $11, %edi
    call visit_fn@PLT
    test %eax, %eax
    jz 9f
9:  add $8, %rsp
    ret
    .size n_11, .-n_11
