    .section .data.d5,"aw",@progbits
    .section .data.d10,"aw",@progbits
    .section .data.d5,"aw",@progbits
    .globl n_5
n_5:
    .quad 5
    .quad 0
    .section .data.d10,"aw",@progbits
    .skip 8
    .globl n_10
n_10:
    .quad 10
    .quad 2
    .quad 1, .data.d10+8
    .reloc ., R_X86_64_NONE, n_5
    .quad 5, 0
