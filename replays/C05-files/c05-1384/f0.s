    .section .text.f0,"ax",@progbits
    .section .text.f1,"ax",@progbits
    .section myset1,"aw",@progbits
    .section .data.d13,"aw",@progbits
    .section .data.d15,"aw",@progbits
    .section .text._start,"ax",@progbits
    .globl _start
_start:
    xor %ebp, %ebp
    and $-16, %rsp
    call n_0@PLT
    call finish@PLT
    .section .text.f0,"ax",@progbits
    .skip 16, 0xcc
    .globl n_0
    .type n_0, @function
n_0:
    sub $8, %rsp
    mov $0, %edi
    call visit_fn@PLT
    test %eax, %eax
    jz 9f
    .reloc ., R_X86_64_NONE, n_12
9:  add $8, %rsp
    ret
    .size n_0, .-n_0
    .section .text.f1,"ax",@progbits
    .skip 16, 0xcc
    .globl n_1
    .hidden n_1
    .type n_1, @function
n_1:
    sub $8, %rsp
    mov $1, %edi
    call visit_fn@PLT
    test %eax, %eax
    jz 9f
    mov __start_myset0@GOTPCREL(%rip), %rdi
    mov __stop_myset0@GOTPCREL(%rip), %rsi
    call walk_set@PLT
9:  add $8, %rsp
    ret
    .size n_1, .-n_1
    .section myset1,"aw",@progbits
    .globl n_9
    .hidden n_9
n_9:
    .quad 4, 9
    .quad 1, n_15
    .quad 0, n_0
    .section .data.d13,"aw",@progbits
    .skip 8
n_13:
    .quad 13
    .quad 4
    .quad 0, .text.f0+16
    .quad 2, n_9
    .quad 3, n_9+48
    .quad 0, .text.f0+16
    .section .data.d15,"aw",@progbits
    .skip 4
    .globl n_15
    .hidden n_15
n_15:
    .quad 15
    .quad 2
    .quad 0, n_12
    .quad 0, n_7
