    .section .text.f3,"ax",@progbits
    .section .tdata.t4,"awT",@progbits
    .section .text.f6,"ax",@progbits
    .section .text.f7,"ax",@progbits
    .section .data.d11,"aw",@progbits
    .section myset1,"aw",@progbits
    .section .text.f3,"ax",@progbits
    .type n_3, @function
n_3:
    sub $8, %rsp
    mov $3, %edi
    call visit_fn@PLT
    test %eax, %eax
    jz 9f
    lea n_9(%rip), %rdi
    lea 48(%rdi), %rsi
    call walk_set@PLT
    lea n_5(%rip), %rdi
    lea 16(%rdi), %rsi
    call walk_set@PLT
    .reloc ., R_X86_64_NONE, n_6
9:  add $8, %rsp
    ret
    .size n_3, .-n_3
    .section .tdata.t4,"awT",@progbits
    .globl n_4
    .hidden n_4
n_4:
    .quad 4
    .reloc ., R_X86_64_NONE, n_5
    .reloc ., R_X86_64_NONE, n_4
    .section .text.f6,"ax",@progbits
    .skip 8, 0xcc
    .type n_6, @function
n_6:
    sub $8, %rsp
    mov $6, %edi
    call visit_fn@PLT
    test %eax, %eax
    jz 9f
    call n_0@PLT
9:  add $8, %rsp
    ret
    .size n_6, .-n_6
    .section .text.f7,"ax",@progbits
    .skip 8, 0xcc
    .globl n_7
    .hidden n_7
    .type n_7, @function
n_7:
    sub $8, %rsp
    mov $7, %edi
    call visit_fn@PLT
    test %eax, %eax
    jz 9f
    .reloc ., R_X86_64_NONE, n_2
    call n_0@PLT
    .reloc ., R_X86_64_NONE, .text.f3+0
9:  add $8, %rsp
    ret
    .size n_7, .-n_7
    .section .data.d11,"aw",@progbits
    .globl n_11
n_11:
    .quad 11
    .quad 0
    .section myset1,"aw",@progbits
    .globl n_16
n_16:
    .quad 4, 16
    .quad 1, n_15
    .quad 0, .text.f6+8
