    .section .data.d2,"aw",@progbits
    .section myset1,"aw",@progbits
    .section .data.d8,"aw",@progbits
    .section myset0,"aw",@progbits
    .section .text.f12,"ax",@progbits
    .section .data.d2,"aw",@progbits
    .skip 8
    .globl n_2
n_2:
    .quad 2
    .quad 0
    .section myset1,"aw",@progbits
    .globl n_5
    .hidden n_5
n_5:
    .quad 4, 5
    .section .data.d8,"aw",@progbits
    .globl n_8
n_8:
    .quad 8
    .quad 2
    .quad 2, __start_myset1
    .quad 3, __start_myset1+112
    .section myset0,"aw",@progbits
n_10:
    .quad 4, 10
    .quad 0, n_1
    .section .text.f12,"ax",@progbits
    .skip 4, 0xcc
    .globl n_12
    .type n_12, @function
n_12:
    .cfi_startproc
    .cfi_personality 0x1b, n_7
    .cfi_lsda 0x1b, n_8
    sub $8, %rsp
    mov $12, %edi
    call visit_fn@PLT
    test %eax, %eax
    jz 9f
    call n_0@PLT
9:  add $8, %rsp
    ret
    .cfi_endproc
    .size n_12, .-n_12
