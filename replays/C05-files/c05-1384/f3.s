    .section .data.d14,"aw",@progbits
    .section .data.d14,"aw",@progbits
    .skip 4
    .globl n_14
n_14:
    .quad 14
    .quad 1
    .quad 0, n_0
