    .section .text.f0,"ax",@progbits
    .section .text.f2,"ax",@progbits
    .section myset1,"aw",@progbits
    .section .text.f5,"ax",@progbits
    .section .text.f7,"ax",@progbits
    .section .text.f8,"ax",@progbits
    .section .text._start,"ax",@progbits
    .globl _start
_start:
    xor %ebp, %ebp
    and $-16, %rsp
    call n_0@PLT
    call finish@PLT
    .section .text.f0,"ax",@progbits
    .skip 4, 0xcc
    .globl n_0
    .type n_0, @function
n_0:
    sub $8, %rsp
    mov $0, %edi
    call visit_fn@PLT
    test %eax, %eax
    jz 9f
9:  add $8, %rsp
    ret
    .size n_0, .-n_0
    .section .text.f2,"ax",@progbits
    .skip 8, 0xcc
    .globl n_2
    .type n_2, @function
n_2:
    sub $8, %rsp
    mov $2, %edi
    call visit_fn@PLT
    test %eax, %eax
    jz 9f
    call .text.f8+16
9:  add $8, %rsp
    ret
    .size n_2, .-n_2
    .section myset1,"aw",@progbits
n_4:
    .quad 4, 4
    .quad 0, .text.f7+8
    .section .text.f5,"ax",@progbits
    .skip 4, 0xcc
    .type n_5, @function
n_5:
    sub $8, %rsp
    mov $5, %edi
    call visit_fn@PLT
    test %eax, %eax
    jz 9f
    mov __start_myset1@GOTPCREL(%rip), %rdi
    mov __stop_myset1@GOTPCREL(%rip), %rsi
    call walk_set@PLT
9:  add $8, %rsp
    ret
    .size n_5, .-n_5
    .section .text.f7,"ax",@progbits
    .skip 8, 0xcc
    .globl n_7
    .hidden n_7
    .type n_7, @function
n_7:
    sub $8, %rsp
    mov $7, %edi
    call visit_fn@PLT
    test %eax, %eax
    jz 9f
    .reloc ., R_X86_64_NONE, n_2
    call .text.f8+16
9:  add $8, %rsp
    ret
    .size n_7, .-n_7
    .section .text.f8,"ax",@progbits
    .skip 16, 0xcc
    .globl n_8
    .type n_8, @function
n_8:
    sub $8, %rsp
    mov $8, %edi
    call visit_fn@PLT
    test %eax, %eax
    jz 9f
    .reloc ., R_X86_64_NONE, n_2
    call n_2@PLT
9:  add $8, %rsp
    ret
    .size n_8, .-n_8
