    .section .text.f1,"ax",@progbits
    .section .text.f3,"ax",@progbits
    .section myset0,"aw",@progbits
    .section .text.f1,"ax",@progbits
    .type n_1, @function
n_1:
    sub $8, %rsp
    mov $1, %edi
    call visit_fn@PLT
    test %eax, %eax
    jz 9f
    call n_7
    mov __stop_myset1@GOTPCREL(%rip), %rsi
    lea -32(%rsi), %rdi
    call walk_set@PLT
9:  add $8, %rsp
    ret
    .size n_1, .-n_1
    .section .text.f3,"ax",@progbits
    .skip 16, 0xcc
    .type n_3, @function
n_3:
    sub $8, %rsp
    mov $3, %edi
    call visit_fn@PLT
    test %eax, %eax
    jz 9f
    call n_2@PLT
    call n_0@PLT
    mov __start_myset0@GOTPCREL(%rip), %rdi
    mov __stop_myset0@GOTPCREL(%rip), %rsi
    call walk_set@PLT
9:  add $8, %rsp
    ret
    .size n_3, .-n_3
    .section myset0,"aw",@progbits
    .globl n_6
    .hidden n_6
n_6:
    .quad 4, 6
    .quad 0, n_3
    .reloc ., R_X86_64_NONE, n_7
    .quad 5, 0
