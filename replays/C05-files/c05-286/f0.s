    .section .text.f0,"ax",@progbits
    .section .text.f6,"ax",@progbits
    .section .text.f15,"ax",@progbits
    .section .text._start,"ax",@progbits
    .globl _start
_start:
    xor %ebp, %ebp
    and $-16, %rsp
    call n_0@PLT
    call finish@PLT
    .section .text.f0,"ax",@progbits
    .globl n_0
    .type n_0, @function
n_0:
    sub $8, %rsp
    mov $0, %edi
    call visit_fn@PLT
    test %eax, %eax
    jz 9f
    lea n_1(%rip), %rdi
    lea 16(%rdi), %rsi
    call walk_set@PLT
    call n_9@PLT
    .reloc ., R_X86_64_NONE, n_5
9:  add $8, %rsp
    ret
    .size n_0, .-n_0
    .section .text.f6,"ax",@progbits
    .globl n_6
    .type n_6, @function
n_6:
    sub $8, %rsp
    mov $6, %edi
    call visit_fn@PLT
    test %eax, %eax
    jz 9f
    mov n_8@GOTPCREL(%rip), %rdi
    call walk_data@PLT
9:  add $8, %rsp
    ret
    .size n_6, .-n_6
    .section .text.f15,"ax",@progbits
    .skip 8, 0xcc
    .globl n_15
    .hidden n_15
    .type n_15, @function
n_15:
    sub $8, %rsp
    mov $15, %edi
    call visit_fn@PLT
    test %eax, %eax
    jz 9f
    .reloc ., R_X86_64_NONE, n_8
9:  add $8, %rsp
    ret
    .size n_15, .-n_15
