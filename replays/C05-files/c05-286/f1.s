    .section myset0,"aw",@progbits
    .section .data.d5,"aw",@progbits
    .section .text.f12,"ax",@progbits
    .section .text.f13,"ax",@progbits
    .type n_10, @tls_object
    .section myset0,"aw",@progbits
    .globl n_2
    .hidden n_2
n_2:
    .quad 4, 2
    .reloc ., R_X86_64_NONE, n_10
    .quad 5, 0
    .section .data.d5,"aw",@progbits
    .skip 16
    .globl n_5
    .hidden n_5
n_5:
    .quad 5
    .quad 0
    .section .text.f12,"ax",@progbits
    .skip 4, 0xcc
    .globl n_12
    .type n_12, @function
n_12:
    sub $8, %rsp
    mov $12, %edi
    call visit_fn@PLT
    test %eax, %eax
    jz 9f
9:  add $8, %rsp
    ret
    .size n_12, .-n_12
    .section .text.f13,"ax",@progbits
    .globl n_13
    .type n_13, @function
n_13:
    sub $8, %rsp
    mov $13, %edi
    call visit_fn@PLT
    test %eax, %eax
    jz 9f
    .reloc ., R_X86_64_NONE, n_6
9:  add $8, %rsp
    ret
    .size n_13, .-n_13
