    .section myset0,"aw",@progbits
    .section .data.d3,"aw",@progbits
    .section .text.f4,"ax",@progbits
    .section .text.f7,"ax",@progbits
    .section .data.d8,"aw",@progbits
    .section .text.f9,"ax",@progbits
    .section .tdata.t10,"awT",@progbits
    .section .text.f11,"ax",@progbits
    .section .text.f14,"ax",@progbits
    .section .data.d16,"aw",@progbits
    .section myset0,"aw",@progbits
    .globl n_1
    .hidden n_1
n_1:
    .quad 4, 1
    .section .data.d3,"aw",@progbits
    .skip 4
    .globl n_3
n_3:
    .quad 3
    .quad 0
    .section .text.f4,"ax",@progbits
    .skip 4, 0xcc
    .type n_4, @function
n_4:
    sub $8, %rsp
    mov $4, %edi
    call visit_fn@PLT
    test %eax, %eax
    jz 9f
    lea n_2(%rip), %rdi
    lea 32(%rdi), %rsi
    call walk_set@PLT
9:  add $8, %rsp
    ret
    .size n_4, .-n_4
    .section .text.f7,"ax",@progbits
    .skip 16, 0xcc
    .globl n_7
    .hidden n_7
    .type n_7, @function
n_7:
    sub $8, %rsp
    mov $7, %edi
    call visit_fn@PLT
    test %eax, %eax
    jz 9f
    .reloc ., R_X86_64_NONE, .data.d3+4
    call n_6@PLT
    .reloc ., R_X86_64_NONE, n_6
    mov __stop_myset0@GOTPCREL(%rip), %rsi
    lea -48(%rsi), %rdi
    call walk_set@PLT
9:  add $8, %rsp
    ret
    .size n_7, .-n_7
    .section .data.d8,"aw",@progbits
    .skip 16
    .globl n_8
n_8:
    .quad 8
    .quad 0
    .section .text.f9,"ax",@progbits
    .globl n_9
    .type n_9, @function
n_9:
    sub $8, %rsp
    mov $9, %edi
    call visit_fn@PLT
    test %eax, %eax
    jz 9f
9:  add $8, %rsp
    ret
    .size n_9, .-n_9
    .section .tdata.t10,"awT",@progbits
    .globl n_10
n_10:
    .quad 10
    .section .text.f11,"ax",@progbits
    .type n_11, @function
n_11:
    sub $8, %rsp
    mov $11, %edi
    call visit_fn@PLT
    test %eax, %eax
    jz 9f
    call n_0@PLT
9:  add $8, %rsp
    ret
    .size n_11, .-n_11
    .section .text.f14,"ax",@progbits
    .globl n_14
    .hidden n_14
    .type n_14, @function
n_14:
    sub $8, %rsp
    mov $14, %edi
    call visit_fn@PLT
    test %eax, %eax
    jz 9f
    lea .data.d8+16(%rip), %rdi
    call walk_data@PLT
9:  add $8, %rsp
    ret
    .size n_14, .-n_14
    .section .data.d16,"aw",@progbits
    .skip 8
n_16:
    .quad 16
    .quad 1
    .quad 0, n_12
