    .section .text.f3,"ax",@progbits
    .section myset1,"aw",@progbits
    .section .tdata.t5,"awT",@progbits
    .section .text.f3,"ax",@progbits
    .skip 8, 0xcc
    .globl n_3
    .hidden n_3
    .type n_3, @function
n_3:
    sub $8, %rsp
    mov $3, %edi
    call visit_fn@PLT
    test %eax, %eax
    jz 9f
    .reloc ., R_X86_64_NONE, n_5
    jmp 7f
    leaq n_5@tlsld(%rip), %rdi
    call __tls_get_addr@PLT
7:
    mov __start_myset0@GOTPCREL(%rip), %rdi
    mov __stop_myset0@GOTPCREL(%rip), %rsi
    call walk_set@PLT
9:  add $8, %rsp
    ret
    .size n_3, .-n_3
    .section myset1,"aw",@progbits
n_4:
    .quad 4, 4
    .reloc ., R_X86_64_NONE, n_5
    .quad 5, 0
    .section .tdata.t5,"awT",@progbits
    .globl n_5
n_5:
    .quad 5
