    .section .text.f1,"ax",@progbits
    .section .data.d2,"aw",@progbits
    .section myset0,"aw",@progbits
    .type n_5, @tls_object
    .section .text.f1,"ax",@progbits
    .skip 16, 0xcc
    .type n_1, @function
n_1:
    sub $8, %rsp
    mov $1, %edi
    call visit_fn@PLT
    test %eax, %eax
    jz 9f
    jmp 7f
    leaq n_5@tlsld(%rip), %rdi
    call __tls_get_addr@PLT
7:
    .reloc ., R_X86_64_NONE, .data.d2+0
9:  add $8, %rsp
    ret
    .size n_1, .-n_1
    .section .data.d2,"aw",@progbits
n_2:
    .quad 2
    .quad 1
    .quad 0, n_3
    .section myset0,"aw",@progbits
n_6:
    .quad 4, 6
    .quad 0, n_0
    .reloc ., R_X86_64_NONE, n_5
    .quad 5, 0
