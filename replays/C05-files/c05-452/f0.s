    .section .text.f0,"ax",@progbits
    .section .data.d1,"aw",@progbits
    .section myset0,"aw",@progbits
    .section .text.f6,"ax",@progbits
    .section .data.d7,"aw",@progbits
    .section .text.f8,"ax",@progbits
    .section .text.f10,"ax",@progbits
    .section .text._start,"ax",@progbits
    .globl _start
_start:
    xor %ebp, %ebp
    and $-16, %rsp
    call n_0@PLT
    call finish@PLT
    .section .text.f0,"ax",@progbits
    .skip 4, 0xcc
    .globl n_0
    .type n_0, @function
n_0:
    sub $8, %rsp
    mov $0, %edi
    call visit_fn@PLT
    test %eax, %eax
    jz 9f
    call n_3
9:  add $8, %rsp
    ret
    .size n_0, .-n_0
    .section .data.d1,"aw",@progbits
    .skip 16
    .globl n_1
    .hidden n_1
n_1:
    .quad 1
    .quad 2
    .quad 0, n_3
    .reloc ., R_X86_64_NONE, n_0
    .quad 5, 0
    .section myset0,"aw",@progbits
    .globl n_5
    .hidden n_5
n_5:
    .quad 4, 5
    .quad 0, n_12
    .section .text.f6,"ax",@progbits
    .globl n_6
    .hidden n_6
    .type n_6, @function
n_6:
    sub $8, %rsp
    mov $6, %edi
    call visit_fn@PLT
    test %eax, %eax
    jz 9f
9:  add $8, %rsp
    ret
    .size n_6, .-n_6
    .section .data.d7,"aw",@progbits
    .skip 4
    .globl n_7
    .hidden n_7
n_7:
    .quad 7
    .quad 0
    .section .text.f8,"ax",@progbits
    .skip 4, 0xcc
    .globl n_8
    .type n_8, @function
n_8:
    sub $8, %rsp
    mov $8, %edi
    call visit_fn@PLT
    test %eax, %eax
    jz 9f
9:  add $8, %rsp
    ret
    .size n_8, .-n_8
    .section .text.f10,"ax",@progbits
    .globl n_10
    .type n_10, @function
n_10:
    sub $8, %rsp
    mov $10, %edi
    call visit_fn@PLT
    test %eax, %eax
    jz 9f
    .reloc ., R_X86_64_NONE, n_10
    call n_8@PLT
9:  add $8, %rsp
    ret
    .size n_10, .-n_10
