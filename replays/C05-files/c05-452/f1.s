    .section .text.f3,"ax",@progbits
    .section myset0,"aw",@progbits
    .section .text.f12,"ax",@progbits
    .section .text.f3,"ax",@progbits
    .globl n_3
    .hidden n_3
    .type n_3, @function
n_3:
    sub $8, %rsp
    mov $3, %edi
    call visit_fn@PLT
    test %eax, %eax
    jz 9f
9:  add $8, %rsp
    ret
    .size n_3, .-n_3
    .section myset0,"aw",@progbits
    .globl n_4
n_4:
    .quad 4, 4
    .quad 1, n_1
    .section .text.f12,"ax",@progbits
    .skip 4, 0xcc
    .globl n_12
    .hidden n_12
    .type n_12, @function
n_12:
    sub $8, %rsp
    mov $12, %edi
    call visit_fn@PLT
    test %eax, %eax
    jz 9f
    mov n_9@GOTPCREL(%rip), %rdi
    lea 32(%rdi), %rsi
    call walk_set@PLT
    mov n_9@GOTPCREL(%rip), %rdi
    lea 32(%rdi), %rsi
    call walk_set@PLT
    .reloc ., R_X86_64_NONE, n_14
    mov __stop_myset0@GOTPCREL(%rip), %rsi
    lea -96(%rsi), %rdi
    call walk_set@PLT
9:  add $8, %rsp
    ret
    .size n_12, .-n_12
