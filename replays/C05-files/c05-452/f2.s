    .section .data.d2,"aw",@progbits
    .section myset0,"aw",@progbits
    .section .data.d11,"aw",@progbits
    .section .text.f13,"ax",@progbits
    .section .data.d14,"aw",@progbits
    .section .data.d2,"aw",@progbits
n_2:
    .quad 2
    .quad 1
    .reloc ., R_X86_64_NONE, n_1
    .quad 5, 0
    .section myset0,"aw",@progbits
    .globl n_9
n_9:
    .quad 4, 9
    .quad 0, n_6
    .section .data.d11,"aw",@progbits
    .globl n_11
    .hidden n_11
n_11:
    .quad 11
    .quad 1
    .quad 0, n_8
    .section .text.f13,"ax",@progbits
    .skip 8, 0xcc
    .type n_13, @function
n_13:
    sub $8, %rsp
    mov $13, %edi
    call visit_fn@PLT
    test %eax, %eax
    jz 9f
    call n_6
    call n_10@PLT
    mov __start_myset0@GOTPCREL(%rip), %rdi
    lea 96(%rdi), %rsi
    call walk_set@PLT
9:  add $8, %rsp
    ret
    .size n_13, .-n_13
    .section .data.d14,"aw",@progbits
    .skip 16
    .globl n_14
    .hidden n_14
n_14:
    .quad 14
    .quad 0
    .section .init_array,"aw",@init_array
    .quad n_8
