    .section .text.f0,"ax",@progbits
    .section .text.f11,"ax",@progbits
    .section .text.f14,"ax",@progbits
    .section .text._start,"ax",@progbits
    .globl _start
_start:
    xor %ebp, %ebp
    and $-16, %rsp
    call n_0@PLT
    call finish@PLT
    .type n_13, @tls_object
    .section .text.f0,"ax",@progbits
    .skip 4, 0xcc
    .globl n_0
    .type n_0, @function
n_0:
    sub $8, %rsp
    mov $0, %edi
    call visit_fn@PLT
    test %eax, %eax
    jz 9f
    lea n_1(%rip), %rdi
    call walk_data@PLT
9:  add $8, %rsp
    ret
    .size n_0, .-n_0
    .section .text.f11,"ax",@progbits
    .skip 4, 0xcc
    .globl n_11
    .type n_11, @function
n_11:
    sub $8, %rsp
    mov $11, %edi
    call visit_fn@PLT
    test %eax, %eax
    jz 9f
    .reloc ., R_X86_64_NONE, n_16
    .reloc ., R_X86_64_NONE, n_13
9:  add $8, %rsp
    ret
    .size n_11, .-n_11
    .section .text.f14,"ax",@progbits
    .skip 4, 0xcc
    .globl n_14
    .type n_14, @function
n_14:
    sub $8, %rsp
    mov $14, %edi
    call visit_fn@PLT
    test %eax, %eax
    jz 9f
    call .text.f11+4
9:  add $8, %rsp
    ret
    .size n_14, .-n_14
