    .section .data.d1,"aw",@progbits
    .section .data.d6,"aw",@progbits
    .section .tdata.t13,"awT",@progbits
    .section .text.f16,"axR",@progbits
    .section .data.d1,"aw",@progbits
    .skip 4
    .globl n_1
    .hidden n_1
n_1:
    .quad 1
    .quad 0
    .section .data.d6,"aw",@progbits
    .globl n_6
n_6:
    .quad 6
    .quad 2
    .quad 0, n_4
    .quad 0, n_14
    .section .tdata.t13,"awT",@progbits
    .globl n_13
n_13:
    .quad 13
    .section .text.f16,"axR",@progbits
    .skip 8, 0xcc
    .globl n_16
    .type n_16, @function
n_16:
    sub $8, %rsp
    mov $16, %edi
    call visit_fn@PLT
    test %eax, %eax
    jz 9f
    lea n_1(%rip), %rdi
    call walk_data@PLT
    jmp 7f
    leaq n_13@tlsld(%rip), %rdi
    call __tls_get_addr@PLT
7:
    mov __stop_myset0@GOTPCREL(%rip), %rsi
    lea -32(%rsi), %rdi
    call walk_set@PLT
9:  add $8, %rsp
    ret
    .size n_16, .-n_16
