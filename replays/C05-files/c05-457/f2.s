    .section .text.f2,"ax",@progbits
    .section .text.f4,"ax",@progbits
    .section .data.d5,"aw",@progbits
    .section .text.f8,"ax",@progbits
    .section myset1,"aw",@progbits
    .section .text.f10,"ax",@progbits
    .section .text.f2,"ax",@progbits
    .type n_2, @function
n_2:
    sub $8, %rsp
    mov $2, %edi
    call visit_fn@PLT
    test %eax, %eax
    jz 9f
9:  add $8, %rsp
    ret
    .size n_2, .-n_2
    .section .text.f4,"ax",@progbits
    .globl n_4
    .type n_4, @function
n_4:
    sub $8, %rsp
    mov $4, %edi
    call visit_fn@PLT
    test %eax, %eax
    jz 9f
    mov n_5@GOTPCREL(%rip), %rdi
    call walk_data@PLT
    call n_16@PLT
    .reloc ., R_X86_64_NONE, n_6
9:  add $8, %rsp
    ret
    .size n_4, .-n_4
    .section .data.d5,"aw",@progbits
    .skip 16
    .globl n_5
n_5:
    .quad 5
    .quad 6
    .quad 2, n_7
    .quad 3, n_7+32
    .reloc ., R_X86_64_NONE, n_1
    .quad 5, 0
    .quad 0, n_0
    .quad 2, __stop_myset0-32
    .quad 3, __stop_myset0
    .section .text.f8,"ax",@progbits
    .skip 4, 0xcc
    .type n_8, @function
n_8:
    sub $8, %rsp
    mov $8, %edi
    call visit_fn@PLT
    test %eax, %eax
    jz 9f
    call .text.f10+0
9:  add $8, %rsp
    ret
    .size n_8, .-n_8
    .section myset1,"aw",@progbits
n_9:
    .quad 4, 9
    .section .text.f10,"ax",@progbits
    .type n_10, @function
n_10:
    sub $8, %rsp
    mov $10, %edi
    call visit_fn@PLT
    test %eax, %eax
    jz 9f
9:  add $8, %rsp
    ret
    .size n_10, .-n_10
