    .section .text.f3,"ax",@progbits
    .section myset1,"aw",@progbits
    .section myset0,"aw",@progbits
    .section .text.f15,"ax",@progbits
    .section .text.f3,"ax",@progbits
    .skip 8, 0xcc
    .type n_3, @function
n_3:
    sub $8, %rsp
    mov $3, %edi
    call visit_fn@PLT
    test %eax, %eax
    jz 9f
    call n_15
    mov __start_myset1@GOTPCREL(%rip), %rdi
    lea 48(%rdi), %rsi
    call walk_set@PLT
9:  add $8, %rsp
    ret
    .size n_3, .-n_3
    .section myset1,"aw",@progbits
    .globl n_7
n_7:
    .quad 4, 7
    .quad 0, n_15
    .section myset0,"aw",@progbits
    .globl n_12
n_12:
    .quad 4, 12
    .quad 1, n_6
    .section .text.f15,"ax",@progbits
    .skip 8, 0xcc
    .type n_15, @function
n_15:
    sub $8, %rsp
    mov $15, %edi
    call visit_fn@PLT
    test %eax, %eax
    jz 9f
    call n_4@PLT
    call n_0@PLT
9:  add $8, %rsp
    ret
    .size n_15, .-n_15
