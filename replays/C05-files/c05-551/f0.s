    .section .text.f0,"ax",@progbits
    .section .text.f5,"ax",@progbits
    .section .text._start,"ax",@progbits
    .globl _start
_start:
    xor %ebp, %ebp
    and $-16, %rsp
    call n_0@PLT
    call finish@PLT
    .section .text.f0,"ax",@progbits
    .skip 8, 0xcc
    .globl n_0
    .type n_0, @function
n_0:
    sub $8, %rsp
    mov $0, %edi
    call visit_fn@PLT
    test %eax, %eax
    jz 9f
9:  add $8, %rsp
    ret
    .size n_0, .-n_0
    .section .text.f5,"ax",@progbits
    .skip 8, 0xcc
    .type n_5, @function
n_5:
    sub $8, %rsp
    mov $5, %edi
    call visit_fn@PLT
    test %eax, %eax
    jz 9f
    call n_6
9:  add $8, %rsp
    ret
    .size n_5, .-n_5
