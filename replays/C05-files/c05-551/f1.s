    .section .text.f1,"ax",@progbits
    .section myset0,"aw",@progbits
    .section .text.f1,"ax",@progbits
    .skip 8, 0xcc
    .globl n_1
    .hidden n_1
    .type n_1, @function
n_1:
    sub $8, %rsp
    mov $1, %edi
    call visit_fn@PLT
    test %eax, %eax
    jz 9f
    call n_0@PLT
9:  add $8, %rsp
    ret
    .size n_1, .-n_1
    .section myset0,"aw",@progbits
    .globl n_4
    .hidden n_4
n_4:
    .quad 4, 4
    .quad 0, n_6
    .quad 0, n_0
