    .section .text.f6,"ax",@progbits
    .section .text.f6,"ax",@progbits
    .skip 4, 0xcc
    .globl n_6
    .hidden n_6
    .type n_6, @function
n_6:
    sub $8, %rsp
    mov $6, %edi
    call visit_fn@PLT
    test %eax, %eax
    jz 9f
    .reloc ., R_X86_64_NONE, n_1
    call n_1
9:  add $8, %rsp
    ret
    .size n_6, .-n_6
