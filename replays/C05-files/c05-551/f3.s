    .section .data.d2,"aw",@progbits
    .section .text.f3,"ax",@progbits
    .section .data.d2,"aw",@progbits
    .skip 4
n_2:
    .quad 2
    .quad 3
    .reloc ., R_X86_64_NONE, n_3
    .quad 5, 0
    .quad 2, __start_myset0
    .quad 3, __start_myset0+48
    .section .text.f3,"ax",@progbits
    .type n_3, @function
n_3:
    sub $8, %rsp
    mov $3, %edi
    call visit_fn@PLT
    test %eax, %eax
    jz 9f
    call n_6
    call n_0@PLT
    .reloc ., R_X86_64_NONE, n_0
9:  add $8, %rsp
    ret
    .size n_3, .-n_3
