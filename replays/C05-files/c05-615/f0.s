    .section .text.f0,"ax",@progbits
    .section .text.f5,"ax",@progbits
    .section .text.f12,"ax",@progbits
    .section .text.f14,"ax",@progbits
    .section .text.f15,"ax",@progbits
    .section myset1,"aw",@progbits
    .section .text._start,"ax",@progbits
    .globl _start
_start:
    xor %ebp, %ebp
    and $-16, %rsp
    call n_0@PLT
    call finish@PLT
    .type n_2, @tls_object
    .section .text.f0,"ax",@progbits
    .skip 16, 0xcc
    .globl n_0
    .type n_0, @function
n_0:
    sub $8, %rsp
    mov $0, %edi
    call visit_fn@PLT
    test %eax, %eax
    jz 9f
    call .text.f15+4
    .reloc ., R_X86_64_NONE, n_11
9:  add $8, %rsp
    ret
    .size n_0, .-n_0
    .section .text.f5,"ax",@progbits
    .globl n_5
    .type n_5, @function
n_5:
    sub $8, %rsp
    mov $5, %edi
    call visit_fn@PLT
    test %eax, %eax
    jz 9f
    call .text.f5+0
    .reloc ., R_X86_64_NONE, n_2
9:  add $8, %rsp
    ret
    .size n_5, .-n_5
    .section .text.f12,"ax",@progbits
    .globl n_12
    .type n_12, @function
n_12:
    sub $8, %rsp
    mov $12, %edi
    call visit_fn@PLT
    test %eax, %eax
    jz 9f
    .reloc ., R_X86_64_NONE, n_8
9:  add $8, %rsp
    ret
    .size n_12, .-n_12
    .section .text.f14,"ax",@progbits
    .skip 8, 0xcc
    .type n_14, @function
n_14:
    sub $8, %rsp
    mov $14, %edi
    call visit_fn@PLT
    test %eax, %eax
    jz 9f
    jmp 7f
    leaq n_2@tlsld(%rip), %rdi
    call __tls_get_addr@PLT
7:
    mov __start_myset1@GOTPCREL(%rip), %rdi
    mov __stop_myset1@GOTPCREL(%rip), %rsi
    call walk_set@PLT
9:  add $8, %rsp
    ret
    .size n_14, .-n_14
    .section .text.f15,"ax",@progbits
    .skip 4, 0xcc
    .globl n_15
    .type n_15, @function
n_15:
    sub $8, %rsp
    mov $15, %edi
    call visit_fn@PLT
    test %eax, %eax
    jz 9f
    mov n_6@GOTPCREL(%rip), %rdi
    call walk_data@PLT
9:  add $8, %rsp
    ret
    .size n_15, .-n_15
    .section myset1,"aw",@progbits
    .globl n_16
    .hidden n_16
n_16:
    .quad 4, 16
    .quad 1, n_3
