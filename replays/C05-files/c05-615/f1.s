    .section .tdata.t1,"awT",@progbits
    .section .data.d11,"aw",@progbits
    .section .tdata.t1,"awT",@progbits
    .globl n_1
n_1:
    .quad 1
    .reloc ., R_X86_64_NONE, n_16
    .section .data.d11,"aw",@progbits
    .skip 8
    .globl n_11
    .hidden n_11
n_11:
    .quad 11
    .quad 1
    .quad 0, n_12
