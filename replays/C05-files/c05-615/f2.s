    .section .data.d6,"aw",@progbits
    .section myset1,"aw",@progbits
    .section .text.f8,"ax",@progbits
    .section .data.d10,"aw",@progbits
    .section .data.d6,"aw",@progbits
    .skip 4
    .globl n_6
n_6:
    .quad 6
    .quad 4
    .quad 2, n_16
    .quad 3, n_16+32
    .quad 2, __stop_myset1-96
    .quad 3, __stop_myset1
    .section myset1,"aw",@progbits
    .globl n_7
n_7:
    .quad 4, 7
    .quad 0, n_15
    .quad 0, n_5
    .quad 0, n_5
    .section .text.f8,"ax",@progbits
    .globl n_8
    .hidden n_8
    .type n_8, @function
n_8:
    sub $8, %rsp
    mov $8, %edi
    call visit_fn@PLT
    test %eax, %eax
    jz 9f
    lea .data.d10+0(%rip), %rdi
    call walk_data@PLT
    lea n_10(%rip), %rdi
    call walk_data@PLT
9:  add $8, %rsp
    ret
    .size n_8, .-n_8
    .section .data.d10,"aw",@progbits
n_10:
    .quad 10
    .quad 3
    .quad 0, n_12
    .quad 2, n_7
    .quad 3, n_7+64
