    .section .tdata.t2,"awT",@progbits
    .section .data.d3,"aw",@progbits
    .section .data.d4,"aw",@progbits
    .section myset0,"aw",@progbits
    .section .data.d13,"aw",@progbits
    .section .tdata.t2,"awT",@progbits
    .globl n_2
n_2:
    .quad 2
    .reloc ., R_X86_64_NONE, n_7
    .reloc ., R_X86_64_NONE, n_0
    .section .data.d3,"aw",@progbits
    .skip 8
    .globl n_3
    .hidden n_3
n_3:
    .quad 3
    .quad 3
    .quad 2, n_7
    .quad 3, n_7+64
    .quad 1, n_13
    .section .data.d4,"aw",@progbits
n_4:
    .quad 4
    .quad 3
    .quad 0, n_5
    .quad 2, __start_myset0
    .quad 3, __stop_myset0
    .section myset0,"aw",@progbits
n_9:
    .quad 4, 9
    .quad 0, n_8
    .section .data.d13,"aw",@progbits
    .skip 8
    .globl n_13
n_13:
    .quad 13
    .quad 2
    .quad 2, n_7
    .quad 3, n_7+64
