    .section .data.d2,"aw",@progbits
    .section .data.d2,"aw",@progbits
    .globl n_2
n_2:
    .quad 2
    .quad 0
    .section .init_array,"aw",@init_array
    .quad n_1
