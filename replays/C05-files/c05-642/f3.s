    .section .text.f1,"ax",@progbits
    .section myset0,"aw",@progbits
    .section .text.f5,"ax",@progbits
    .section .text.f1,"ax",@progbits
    .skip 16, 0xcc
    .globl n_1
    .hidden n_1
    .type n_1, @function
n_1:
    sub $8, %rsp
    mov $1, %edi
    call visit_fn@PLT
    test %eax, %eax
    jz 9f
    mov n_2@GOTPCREL(%rip), %rdi
    call walk_data@PLT
9:  add $8, %rsp
    ret
    .size n_1, .-n_1
    .section myset0,"aw",@progbits
    .globl n_3
    .hidden n_3
n_3:
    .quad 4, 3
    .quad 1, n_2
    .quad 1, n_2
    .section .text.f5,"ax",@progbits
    .skip 16, 0xcc
    .type n_5, @function
n_5:
    sub $8, %rsp
    mov $5, %edi
    call visit_fn@PLT
    test %eax, %eax
    jz 9f
    mov __start_myset0@GOTPCREL(%rip), %rdi
    mov __stop_myset0@GOTPCREL(%rip), %rsi
    call walk_set@PLT
9:  add $8, %rsp
    ret
    .size n_5, .-n_5
