    .section .text.f0,"ax",@progbits
    .section .text.f1,"ax",@progbits
    .section myset0,"aw",@progbits
    .section .text._start,"ax",@progbits
    .globl _start
_start:
    xor %ebp, %ebp
    and $-16, %rsp
    call n_0@PLT
    call finish@PLT
    .section .text.f0,"ax",@progbits
    .globl n_0
    .type n_0, @function
n_0:
    sub $8, %rsp
    mov $0, %edi
    call visit_fn@PLT
    test %eax, %eax
    jz 9f
    call n_5@PLT
9:  add $8, %rsp
    ret
    .size n_0, .-n_0
    .section .text.f1,"ax",@progbits
    .globl n_1
    .type n_1, @function
n_1:
    sub $8, %rsp
    mov $1, %edi
    call visit_fn@PLT
    test %eax, %eax
    jz 9f
9:  add $8, %rsp
    ret
    .size n_1, .-n_1
    .section myset0,"aw",@progbits
n_7:
    .quad 4, 7
