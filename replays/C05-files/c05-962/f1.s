    .section .text.f3,"ax",@progbits
    .section .data.d4,"aw",@progbits
    .section .text.f3,"ax",@progbits
    .skip 16, 0xcc
    .globl n_3
    .type n_3, @function
n_3:
    sub $8, %rsp
    mov $3, %edi
    call visit_fn@PLT
    test %eax, %eax
    jz 9f
    .reloc ., R_X86_64_NONE, n_1
    .reloc ., R_X86_64_NONE, n_4
9:  add $8, %rsp
    ret
    .size n_3, .-n_3
    .section .data.d4,"aw",@progbits
    .skip 4
n_4:
    .quad 4
    .quad 1
    .quad 0, n_0
