    .section .text.f2,"ax",@progbits
    .section .text.f5,"ax",@progbits
    .section .text.f6,"ax",@progbits
    .section .text.f2,"ax",@progbits
    .type n_2, @function
n_2:
    sub $8, %rsp
    mov $2, %edi
    call visit_fn@PLT
    test %eax, %eax
    jz 9f
    call n_0@PLT
    mov __stop_myset0@GOTPCREL(%rip), %rsi
    lea -16(%rsi), %rdi
    call walk_set@PLT
9:  add $8, %rsp
    ret
    .size n_2, .-n_2
    .section .text.f5,"ax",@progbits
    .skip 8, 0xcc
    .globl n_5
    .type n_5, @function
n_5:
    sub $8, %rsp
    mov $5, %edi
    call visit_fn@PLT
    test %eax, %eax
    jz 9f
    call .text.f5+8
    .reloc ., R_X86_64_NONE, n_1
9:  add $8, %rsp
    ret
    .size n_5, .-n_5
    .section .text.f6,"ax",@progbits
    .skip 8, 0xcc
    .globl n_6
    .type n_6, @function
n_6:
    sub $8, %rsp
    mov $6, %edi
    call visit_fn@PLT
    test %eax, %eax
    jz 9f
    call .text.f6+8
    call n_1@PLT
    call n_6@PLT
9:  add $8, %rsp
    ret
    .size n_6, .-n_6
