int m0_1(int);
int a2_0(int);
int a2_1(int);
int a2_2(int);
int a3_0(int);
__attribute__((noinline)) int c1_0(int d) { int r = d; r += a2_2(d); return r; }
__attribute__((noinline)) int c1_1(int d) { int r = d; return r; }
__attribute__((noinline)) int c1_2(int d) { int r = d; r += a2_1(d); r += a2_1(d); return r; }
__attribute__((noinline)) int c1_3(int d) { int r = d; return r; }
__attribute__((noinline)) int c1_4(int d) { int r = d; r += a2_2(d); return r; }
