    .section .text.a3_0,"ax",@progbits
    .globl a3_0
    .type a3_0, @function
a3_0:
    .cfi_startproc
    push %rbp
    .cfi_def_cfa_offset 16
    .cfi_offset 6, -16
    call a3_1
    pop %rbp
    .cfi_def_cfa_offset 8
    ret
    .cfi_endproc
    .size a3_0, .-a3_0
    .section .text.a3_1,"ax",@progbits
    .type a3_1, @function
a3_1:
    .cfi_startproc
    .cfi_endproc
    .size a3_1, 0
