    .section .text.m0_0,"ax",@progbits
    .globl m0_0
    .type m0_0, @function
m0_0:
.Lb_m0_0:
    push %rbx
    call inl_2
    pop %rbx
    ret
.Le_m0_0:
    .size m0_0, .-m0_0
    .section .text.m0_1,"ax",@progbits
    .globl m0_1
    nop
    nop
    nop
    .type m0_1, @function
m0_1:
.Lb_m0_1:
    push %rbx
    call m2_3
    call m2_1
    pop %rbx
    ret
.Le_m0_1:
    .size m0_1, .-m0_1
    .section .eh_frame,"a",@progbits
.Lcie0_p0:
    .long .Lcie0_p0_e - .Lcie0_p0_s
.Lcie0_p0_s:
    .long 0
    .byte 1
    .asciz "zR"
    .uleb128 1
    .sleb128 -8
    .uleb128 16
    .uleb128 1
    .byte 0x1b
    .byte 0x0c, 7, 8
    .byte 0x90, 1
    .balign 8
.Lcie0_p0_e:
.Lfde0_m0_0:
    .long .Lfde0_m0_0_e - .Lfde0_m0_0_s
.Lfde0_m0_0_s:
    .long .Lfde0_m0_0_s - .Lcie0_p0
    .long .Lb_m0_0 - .
    .long .Le_m0_0 - .Lb_m0_0
    .uleb128 0
    .balign 8
.Lfde0_m0_0_e:
.Lfde0_m0_1:
    .long .Lfde0_m0_1_e - .Lfde0_m0_1_s
.Lfde0_m0_1_s:
    .long .Lfde0_m0_1_s - .Lcie0_p0
    .long .Lb_m0_1 - .
    .long .Le_m0_1 - .Lb_m0_1
    .uleb128 0
    .byte 0x41, 0x0e, 16
    .byte 0x41, 0x0e, 16
    .byte 0x41, 0x0e, 16
    .byte 0x41, 0x0e, 16
    .byte 0x41, 0x0e, 16
    .byte 0x41, 0x0e, 16
    .byte 0x41, 0x0e, 16
    .byte 0x41, 0x0e, 16
    .balign 8
.Lfde0_m0_1_e:
    .section .text.inl_2,"axG",@progbits,inl_2,comdat
    .weak inl_2
    .type inl_2, @function
inl_2:
.Lb0_inl_2:
    push %rbx
    push %r12
    pop %r12
    pop %rbx
    ret
.Le0_inl_2:
    .size inl_2, .-inl_2
    .section .eh_frame,"aG",@progbits,inl_2,comdat
.Lcie0_g2:
    .long .Lcie0_g2_e - .Lcie0_g2_s
.Lcie0_g2_s:
    .long 0
    .byte 1
    .asciz "zR"
    .uleb128 1
    .sleb128 -8
    .uleb128 16
    .uleb128 1
    .byte 0x1b
    .byte 0x0c, 7, 8
    .byte 0x90, 1
    .byte 0x0e, 8
    .balign 8
.Lcie0_g2_e:
.Lfde0_g2:
    .long .Lfde0_g2_e - .Lfde0_g2_s
.Lfde0_g2_s:
    .long .Lfde0_g2_s - .Lcie0_g2
    .long .Lb0_inl_2 - .
    .long .Le0_inl_2 - .Lb0_inl_2
    .uleb128 0
    .byte 0x41, 0x0e, 16
    .byte 0x41, 0x0e, 16
    .byte 0x41, 0x0e, 16
    .byte 0x41, 0x0e, 16
    .balign 8
.Lfde0_g2_e:
