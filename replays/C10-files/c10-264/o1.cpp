struct G { int v; ~G(); };
extern "C" {
int sink(int);
int m0_0(int);
int m0_1(int);
int m2_1(int);
int m2_2(int);
int x3_0(int);
int x3_1(int);
int x3_2(int);
int a4_0(int);
int a4_1(int);
int a4_3(int);
int inl_2(int);
}
inline int incl_common(int x) { G g{x}; return sink(x) + 1; }
extern "C" __attribute__((noinline)) int x1_0(int d) { G g{d}; int r = d; r += incl_common(d); return r; }
extern "C" __attribute__((noinline)) int x1_1(int d) { G g{d}; int r = d; r += m2_1(d); r += x3_1(d); return r; }
extern "C" __attribute__((noinline)) int x1_2(int d) { G g{d}; int r = d; r += x3_2(d); r += x3_2(d); r += incl_common(d); return r; }
