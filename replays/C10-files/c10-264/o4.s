    .section .text.a4_0,"ax",@progbits
    .globl a4_0
    .type a4_0, @function
a4_0:
    .cfi_startproc
    push %rbp
    .cfi_def_cfa_offset 16
    .cfi_offset 6, -16
    pop %rbp
    .cfi_def_cfa_offset 8
    ret
    .cfi_endproc
    .size a4_0, .-a4_0
    .section .text.a4_1,"ax",@progbits
    .globl a4_1
    .type a4_1, @function
a4_1:
    .cfi_startproc
    push %rbp
    .cfi_def_cfa_offset 16
    .cfi_offset 6, -16
    pop %rbp
    .cfi_def_cfa_offset 8
    ret
    .cfi_endproc
    .size a4_1, .-a4_1
    .section .text.a4_2,"ax",@progbits
    .type a4_2, @function
a4_2:
    .cfi_startproc
    push %rbp
    .cfi_def_cfa_offset 16
    .cfi_offset 6, -16
    call x3_2
    call a4_3
    pop %rbp
    .cfi_def_cfa_offset 8
    ret
    .cfi_endproc
    .size a4_2, .-a4_2
    .section .text.a4_3,"ax",@progbits
    .globl a4_3
    .type a4_3, @function
a4_3:
    .cfi_startproc
    .cfi_signal_frame
    push %rbp
    .cfi_def_cfa_offset 16
    .cfi_offset 6, -16
    call m2_3
    call a4_4
    pop %rbp
    .cfi_def_cfa_offset 8
    ret
    .cfi_endproc
    .size a4_3, .-a4_3
    .section .text.a4_4,"ax",@progbits
    .globl a4_4
    .type a4_4, @function
a4_4:
    .cfi_startproc
    .cfi_endproc
    .size a4_4, 0
