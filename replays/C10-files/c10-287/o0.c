int m2_0(int);
int m2_1(int);
int m2_3(int);
int a3_0(int);
int a3_2(int);
int inl_0(int);
int inl_2(int);
__attribute__((noinline)) int c0_0(int d) { int r = d; r += m2_1(d); return r; }
__attribute__((noinline)) int c0_1(int d) { int r = d; r += inl_2(d); r += inl_0(d); return r; }
__attribute__((noinline)) int c0_2(int d) { int r = d; r += a3_2(d); r += m2_0(d); return r; }
__attribute__((noinline)) int c0_3(int d) { int r = d; return r; }
__attribute__((noinline)) int c0_4(int d) { int r = d; r += inl_2(d); return r; }
