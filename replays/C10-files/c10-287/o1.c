int c0_1(int);
int c0_2(int);
int c0_3(int);
__attribute__((noinline)) int c1_0(int d) { int r = d; r += c0_1(d); return r; }
__attribute__((noinline)) int c1_1(int d) { int r = d; return r; }
