    .section .text.m2_0,"ax",@progbits
    .globl m2_0
    .type m2_0, @function
m2_0:
.Lb_m2_0:
    push %rbx
    call c1_1
    pop %rbx
    ret
.Le_m2_0:
    .size m2_0, .-m2_0
    .section .text.m2_1,"ax",@progbits
    .globl m2_1
    nop
    nop
    nop
    .type m2_1, @function
m2_1:
.Lb_m2_1:
    push %rbx
    call a3_0
    call inl_0
    pop %rbx
    ret
.Le_m2_1:
    .size m2_1, .-m2_1
    .section .text.m2_2,"ax",@progbits
    nop
    nop
    nop
    .type m2_2, @function
m2_2:
.Lb_m2_2:
    push %rbx
    call c1_1
    call m2_3
    call inl_2
    pop %rbx
    ret
.Le_m2_2:
    .size m2_2, .-m2_2
    .section .text.m2_3,"ax",@progbits
    .globl m2_3
    nop
    nop
    nop
    nop
    nop
    nop
    nop
    nop
    nop
    nop
    nop
    nop
    nop
    nop
    nop
    nop
    nop
    .type m2_3, @function
m2_3:
.Lb_m2_3:
    push %rbx
    call c0_2
    call a3_2
    call inl_2
    pop %rbx
    ret
.Le_m2_3:
    .size m2_3, .-m2_3
    .section .text.m2_4,"ax",@progbits
    nop
    nop
    nop
    nop
    nop
    nop
    nop
    nop
    nop
    nop
    nop
    nop
    nop
    nop
    nop
    nop
    nop
    .type m2_4, @function
m2_4:
.Lb_m2_4:
    push %rbx
    call inl_0
    pop %rbx
    ret
.Le_m2_4:
    .size m2_4, .-m2_4
    .section .eh_frame,"a",@progbits
.Lcie2_p0:
    .long .Lcie2_p0_e - .Lcie2_p0_s
.Lcie2_p0_s:
    .long 0
    .byte 1
    .asciz "zR"
    .uleb128 1
    .sleb128 -8
    .uleb128 16
    .uleb128 1
    .byte 0x1b
    .byte 0x0c, 7, 8
    .byte 0x90, 1
    .balign 8
.Lcie2_p0_e:
.Lfde2_m2_0:
    .long .Lfde2_m2_0_e - .Lfde2_m2_0_s
.Lfde2_m2_0_s:
    .long .Lfde2_m2_0_s - .Lcie2_p0
    .long .Lb_m2_0 - .
    .long .Le_m2_0 - .Lb_m2_0
    .uleb128 0
    .byte 0x41, 0x0e, 16
    .byte 0x41, 0x0e, 16
    .byte 0x41, 0x0e, 16
    .byte 0x41, 0x0e, 16
    .byte 0x41, 0x0e, 16
    .byte 0x41, 0x0e, 16
    .byte 0x41, 0x0e, 16
    .byte 0x41, 0x0e, 16
    .balign 8
.Lfde2_m2_0_e:
.Lfde2_m2_1:
    .long .Lfde2_m2_1_e - .Lfde2_m2_1_s
.Lfde2_m2_1_s:
    .long .Lfde2_m2_1_s - .Lcie2_p0
    .long .Lb_m2_1 - .
    .long .Le_m2_1 - .Lb_m2_1
    .uleb128 0
    .balign 8
.Lfde2_m2_1_e:
.Lfde2_m2_2:
    .long .Lfde2_m2_2_e - .Lfde2_m2_2_s
.Lfde2_m2_2_s:
    .long .Lfde2_m2_2_s - .Lcie2_p0
    .long .Lb_m2_2 - .
    .long .Le_m2_2 - .Lb_m2_2
    .uleb128 0
    .balign 8
.Lfde2_m2_2_e:
.Lfde2_m2_3:
    .long .Lfde2_m2_3_e - .Lfde2_m2_3_s
.Lfde2_m2_3_s:
    .long .Lfde2_m2_3_s - .Lcie2_p0
    .long m2_3 - .
    .long .Le_m2_3 - m2_3
    .uleb128 0
    .byte 0x41, 0x0e, 16
    .byte 0x41, 0x0e, 16
    .byte 0x41, 0x0e, 16
    .byte 0x41, 0x0e, 16
    .byte 0x41, 0x0e, 16
    .byte 0x41, 0x0e, 16
    .byte 0x41, 0x0e, 16
    .byte 0x41, 0x0e, 16
    .balign 8
.Lfde2_m2_3_e:
.Lfde2_m2_4:
    .long .Lfde2_m2_4_e - .Lfde2_m2_4_s
.Lfde2_m2_4_s:
    .long .Lfde2_m2_4_s - .Lcie2_p0
    .long .Lb_m2_4 - .
    .long .Le_m2_4 - .Lb_m2_4
    .uleb128 0
    .balign 8
.Lfde2_m2_4_e:
    .section .text.inl_0,"axG",@progbits,inl_0,comdat
    .weak inl_0
    .type inl_0, @function
inl_0:
.Lb2_inl_0:
    push %rbx
    push %r12
    nop
    nop
    pop %r12
    pop %rbx
    ret
.Le2_inl_0:
    .size inl_0, .-inl_0
    .section .eh_frame,"aG",@progbits,inl_0,comdat
.Lcie2_g0:
    .long .Lcie2_g0_e - .Lcie2_g0_s
.Lcie2_g0_s:
    .long 0
    .byte 1
    .asciz "zR"
    .uleb128 1
    .sleb128 -8
    .uleb128 16
    .uleb128 1
    .byte 0x1b
    .byte 0x0c, 7, 8
    .byte 0x90, 1
    .byte 0, 0, 0, 0, 0, 0, 0, 0
    .balign 8
.Lcie2_g0_e:
.Lfde2_g0:
    .long .Lfde2_g0_e - .Lfde2_g0_s
.Lfde2_g0_s:
    .long .Lfde2_g0_s - .Lcie2_g0
    .long .Lb2_inl_0 - .
    .long .Le2_inl_0 - .Lb2_inl_0
    .uleb128 0
    .byte 0x41, 0x0e, 16
    .byte 0x41, 0x0e, 16
    .byte 0x41, 0x0e, 16
    .byte 0x41, 0x0e, 16
    .byte 0x41, 0x0e, 16
    .byte 0x41, 0x0e, 16
    .balign 8
.Lfde2_g0_e:
    .section .text.inl_2,"axG",@progbits,inl_2,comdat
    .weak inl_2
    .type inl_2, @function
inl_2:
.Lb2_inl_2:
    push %rbx
    push %r12
    nop
    nop
    pop %r12
    pop %rbx
    ret
.Le2_inl_2:
    .size inl_2, .-inl_2
    .section .eh_frame,"aG",@progbits,inl_2,comdat
.Lcie2_g2:
    .long .Lcie2_g2_e - .Lcie2_g2_s
.Lcie2_g2_s:
    .long 0
    .byte 1
    .asciz "zR"
    .uleb128 1
    .sleb128 -8
    .uleb128 16
    .uleb128 1
    .byte 0x1b
    .byte 0x0c, 7, 8
    .byte 0x90, 1
    .byte 0x0e, 8
    .balign 8
.Lcie2_g2_e:
.Lfde2_g2:
    .long .Lfde2_g2_e - .Lfde2_g2_s
.Lfde2_g2_s:
    .long .Lfde2_g2_s - .Lcie2_g2
    .long .Lb2_inl_2 - .
    .long .Le2_inl_2 - .Lb2_inl_2
    .uleb128 0
    .byte 0x41, 0x0e, 16
    .byte 0x41, 0x0e, 16
    .balign 8
.Lfde2_g2_e:
