    .section .text.a3_0,"ax",@progbits
    .globl a3_0
    .type a3_0, @function
a3_0:
    .cfi_startproc
    push %rbp
    .cfi_def_cfa_offset 16
    .cfi_offset 6, -16
    call inl_0
    call c0_2
    call a3_1
    pop %rbp
    .cfi_def_cfa_offset 8
    ret
    .cfi_endproc
    .size a3_0, .-a3_0
    .section .text.a3_1,"ax",@progbits
    .globl a3_1
    .type a3_1, @function
a3_1:
    .cfi_startproc
    .cfi_signal_frame
    push %rbp
    .cfi_def_cfa_offset 16
    .cfi_offset 6, -16
    call inl_0
    call m2_3
    call a3_2
    pop %rbp
    .cfi_def_cfa_offset 8
    ret
    .cfi_endproc
    .size a3_1, .-a3_1
    .section .text.a3_2,"ax",@progbits
    .globl a3_2
    .type a3_2, @function
a3_2:
    .cfi_startproc
    .cfi_endproc
    .size a3_2, 0
    .section .text.pers_3,"ax",@progbits
    .type pers_3, @function
pers_3:
    .cfi_startproc
    ret
    .cfi_endproc
    .size pers_3, .-pers_3
    .section .gcc_except_table.l3,"a",@progbits
lsda_3:
    .quad 0
