    .section .text.a1_0,"ax",@progbits
    .globl a1_0
    .type a1_0, @function
a1_0:
    .cfi_startproc
    push %rbp
    .cfi_def_cfa_offset 16
    .cfi_offset 6, -16
    call a1_1
    pop %rbp
    .cfi_def_cfa_offset 8
    ret
    .cfi_endproc
    .size a1_0, .-a1_0
    .section .text.a1_1,"ax",@progbits
    .globl a1_1
    .type a1_1, @function
a1_1:
    .cfi_startproc
    .cfi_endproc
    .size a1_1, 0
    .section .text.a1_2,"ax",@progbits
    .type a1_2, @function
a1_2:
    .cfi_startproc
    push %rbp
    .cfi_def_cfa_offset 16
    .cfi_offset 6, -16
    call m0_3
    call m0_3
    pop %rbp
    .cfi_def_cfa_offset 8
    ret
    .cfi_endproc
    .size a1_2, .-a1_2
    .section .text.a1_3,"ax",@progbits
    .globl a1_3
    .type a1_3, @function
a1_3:
    .cfi_startproc
    .cfi_endproc
    .size a1_3, 0
    .section .text.a1_4,"ax",@progbits
    .type a1_4, @function
a1_4:
    .size a1_4, 0
    .section .text.pers_1,"ax",@progbits
    .type pers_1, @function
pers_1:
    .cfi_startproc
    ret
    .cfi_endproc
    .size pers_1, .-pers_1
    .section .gcc_except_table.l1,"a",@progbits
lsda_1:
    .quad 0
