    .section .text.a1_0,"ax",@progbits
    .globl a1_0
    .type a1_0, @function
a1_0:
    .cfi_startproc
    .cfi_endproc
    .size a1_0, 0
    .section .text.a1_1,"ax",@progbits
    .type a1_1, @function
a1_1:
    .cfi_startproc
    push %rbp
    .cfi_def_cfa_offset 16
    .cfi_offset 6, -16
    call inl_1
    call a1_2
    pop %rbp
    .cfi_def_cfa_offset 8
    ret
    .cfi_endproc
    .size a1_1, .-a1_1
    .section .text.a1_2,"ax",@progbits
    .type a1_2, @function
a1_2:
    .cfi_startproc
    .cfi_endproc
    .size a1_2, 0
