    .section .text.a2_0,"ax",@progbits
    .globl a2_0
    .type a2_0, @function
a2_0:
    .cfi_startproc
    .cfi_signal_frame
    push %rbp
    .cfi_def_cfa_offset 16
    .cfi_offset 6, -16
    call m0_0
    pop %rbp
    .cfi_def_cfa_offset 8
    ret
    .cfi_endproc
    .size a2_0, .-a2_0
    .section .text.a2_1,"ax",@progbits
    .type a2_1, @function
a2_1:
    .cfi_startproc
    push %rbp
    .cfi_def_cfa_offset 16
    .cfi_offset 6, -16
    call a1_0
    pop %rbp
    .cfi_def_cfa_offset 8
    ret
    .cfi_endproc
    .size a2_1, .-a2_1
    .section .text.a2_2,"ax",@progbits
    .globl a2_2
    .type a2_2, @function
a2_2:
    .cfi_startproc
    .cfi_endproc
    .size a2_2, 0
