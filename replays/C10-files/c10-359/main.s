    .section .text._start,"ax",@progbits
    .globl _start
    .type _start, @function
_start:
    .cfi_startproc
    .cfi_undefined rip
    cmp $0, %rsp
    jne 1f
    mov $1, %edi
    call x0_1
    mov $1, %edi
    call x0_3
    mov $1, %edi
    call x0_4
    mov $1, %edi
    call m1_0
    mov $1, %edi
    call m1_1
    mov $1, %edi
    call a2_0
    mov $1, %edi
    call inl_1
    mov $1, %edi
    call inl_2
1:  mov $60, %eax
    xor %edi, %edi
    syscall
    .cfi_endproc
    .size _start, .-_start
    .section .text.sink,"ax",@progbits
    .globl sink
    .type sink, @function
sink:
    .cfi_startproc
    mov %edi, %eax
    ret
    .cfi_endproc
    .size sink, .-sink
    .section .text.dtor,"ax",@progbits
    .globl _ZN1GD1Ev, _ZN1GD2Ev
_ZN1GD1Ev:
_ZN1GD2Ev:
    ret

    .section .text.stubs,"ax",@progbits
    .globl __gxx_personality_v0, _Unwind_Resume, __cxa_begin_catch, __cxa_end_catch, __cxa_allocate_exception, __cxa_throw, _ZTIi, __stack_chk_fail, _ZSt9terminatev, __cxa_call_terminate
__gxx_personality_v0:
_Unwind_Resume:
__cxa_begin_catch:
__cxa_end_catch:
__cxa_allocate_exception:
__cxa_throw:
__stack_chk_fail:
_ZSt9terminatev:
__cxa_call_terminate:
    ud2
    .data
_ZTIi: .quad 0
