struct G { int v; ~G(); };
extern "C" {
int sink(int);
int m1_0(int);
int m1_1(int);
int a2_0(int);
int inl_1(int);
}
inline int incl_common(int x) { G g{x}; return sink(x) + 1; }
extern "C" __attribute__((noinline)) int x0_0(int d) { G g{d}; int r = d; r += m1_0(d); r += inl_1(d); return r; }
extern "C" __attribute__((noinline)) int x0_1(int d) { G g{d}; int r = d; r += m1_1(d); return r; }
extern "C" __attribute__((noinline)) int x0_2(int d) { G g{d}; int r = d; r += m1_1(d); r += a2_0(d); return r; }
extern "C" __attribute__((noinline)) int x0_3(int d) { G g{d}; int r = d; return r; }
extern "C" __attribute__((noinline)) int x0_4(int d) { G g{d}; int r = d; r += inl_1(d); return r; }
