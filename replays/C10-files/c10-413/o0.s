    .section .text.a0_0,"ax",@progbits
    .globl a0_0
    .type a0_0, @function
a0_0:
    .cfi_startproc
    .cfi_signal_frame
    push %rbp
    .cfi_def_cfa_offset 16
    .cfi_offset 6, -16
    call a1_2
    call a1_2
    call a0_1
    pop %rbp
    .cfi_def_cfa_offset 8
    ret
    .cfi_endproc
    .size a0_0, .-a0_0
    .section .text.a0_1,"ax",@progbits
    .globl a0_1
    .type a0_1, @function
a0_1:
    .cfi_startproc
    push %rbp
    .cfi_def_cfa_offset 16
    .cfi_offset 6, -16
    call a1_2
    pop %rbp
    .cfi_def_cfa_offset 8
    ret
    .cfi_endproc
    .size a0_1, .-a0_1
    .section .text.a0_2,"ax",@progbits
    .globl a0_2
    .type a0_2, @function
a0_2:
    .cfi_startproc
    push %rbp
    .cfi_def_cfa_offset 16
    .cfi_offset 6, -16
    pop %rbp
    .cfi_def_cfa_offset 8
    ret
    .cfi_endproc
    .size a0_2, .-a0_2
