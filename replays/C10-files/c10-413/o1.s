    .section .text.a1_0,"ax",@progbits
    .globl a1_0
    .type a1_0, @function
a1_0:
    .cfi_startproc
    .cfi_personality 0x1b, pers_1
    .cfi_lsda 0x1b, lsda_1
    push %rbp
    .cfi_def_cfa_offset 16
    .cfi_offset 6, -16
    call a2_0
    call a1_1
    pop %rbp
    .cfi_def_cfa_offset 8
    ret
    .cfi_endproc
    .size a1_0, .-a1_0
    .section .text.a1_1,"ax",@progbits
    .globl a1_1
    .type a1_1, @function
a1_1:
    .cfi_startproc
    push %rbp
    .cfi_def_cfa_offset 16
    .cfi_offset 6, -16
    call a2_0
    call a1_2
    pop %rbp
    .cfi_def_cfa_offset 8
    ret
    .cfi_endproc
    .size a1_1, .-a1_1
    .section .text.a1_2,"ax",@progbits
    .globl a1_2
    .type a1_2, @function
a1_2:
    .cfi_startproc
    push %rbp
    .cfi_def_cfa_offset 16
    .cfi_offset 6, -16
    call a0_1
    call a1_3
    pop %rbp
    .cfi_def_cfa_offset 8
    ret
    .cfi_endproc
    .size a1_2, .-a1_2
    .section .text.a1_3,"ax",@progbits
    .globl a1_3
    .type a1_3, @function
a1_3:
    .cfi_startproc
    .cfi_endproc
    .size a1_3, 0
    .section .text.a1_4,"ax",@progbits
    .type a1_4, @function
a1_4:
    .cfi_startproc
    .cfi_signal_frame
    push %rbp
    .cfi_def_cfa_offset 16
    .cfi_offset 6, -16
    call a2_0
    call a2_0
    pop %rbp
    .cfi_def_cfa_offset 8
    ret
    .cfi_endproc
    .size a1_4, .-a1_4
    .section .text.pers_1,"ax",@progbits
    .type pers_1, @function
pers_1:
    .cfi_startproc
    ret
    .cfi_endproc
    .size pers_1, .-pers_1
    .section .gcc_except_table.l1,"a",@progbits
lsda_1:
    .quad 0
