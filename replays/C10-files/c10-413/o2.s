    .section .text.a2_0,"ax",@progbits
    .globl a2_0
    .type a2_0, @function
a2_0:
    .cfi_startproc
    push %rbp
    .cfi_def_cfa_offset 16
    .cfi_offset 6, -16
    call a2_1
    pop %rbp
    .cfi_def_cfa_offset 8
    ret
    .cfi_endproc
    .size a2_0, .-a2_0
    .section .text.a2_1,"ax",@progbits
    .globl a2_1
    .type a2_1, @function
a2_1:
    .cfi_startproc
    push %rbp
    .cfi_def_cfa_offset 16
    .cfi_offset 6, -16
    call a0_1
    call a0_0
    pop %rbp
    .cfi_def_cfa_offset 8
    ret
    .cfi_endproc
    .size a2_1, .-a2_1
    .section .text.a2_2,"ax",@progbits
    .globl a2_2
    .type a2_2, @function
a2_2:
    .cfi_startproc
    .cfi_endproc
    .size a2_2, 0
    .section .text.pers_2,"ax",@progbits
    .type pers_2, @function
pers_2:
    .cfi_startproc
    ret
    .cfi_endproc
    .size pers_2, .-pers_2
    .section .gcc_except_table.l2,"a",@progbits
lsda_2:
    .quad 0
