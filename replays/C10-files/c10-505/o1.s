    .section .text.a1_0,"ax",@progbits
    .globl a1_0
    .type a1_0, @function
a1_0:
    .cfi_startproc
    push %rbp
    .cfi_def_cfa_offset 16
    .cfi_offset 6, -16
    call m0_1
    call a1_1
    pop %rbp
    .cfi_def_cfa_offset 8
    ret
    .cfi_endproc
    .size a1_0, .-a1_0
    .section .text.a1_1,"ax",@progbits
    .type a1_1, @function
a1_1:
    .cfi_startproc
    .cfi_endproc
    .size a1_1, 0
