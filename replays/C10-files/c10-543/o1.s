    .section .text.inl_2,"axG",@progbits,inl_2,comdat
    .weak inl_2
    .type inl_2, @function
inl_2:
.Lb1_inl_2:
    push %rbx
    push %r12
    nop
    pop %r12
    pop %rbx
    ret
.Le1_inl_2:
    .size inl_2, .-inl_2
    .section .eh_frame,"aG",@progbits,inl_2,comdat
.Lcie1_g2:
    .long .Lcie1_g2_e - .Lcie1_g2_s
.Lcie1_g2_s:
    .long 0
    .byte 1
    .asciz "zR"
    .uleb128 1
    .sleb128 -8
    .uleb128 16
    .uleb128 1
    .byte 0x1b
    .byte 0x0c, 7, 8
    .byte 0x90, 1
    .byte 0, 0, 0, 0, 0, 0, 0, 0
    .balign 8
.Lcie1_g2_e:
.Lfde1_g2:
    .long .Lfde1_g2_e - .Lfde1_g2_s
.Lfde1_g2_s:
    .long .Lfde1_g2_s - .Lcie1_g2
    .long .Lb1_inl_2 - .
    .long .Le1_inl_2 - .Lb1_inl_2
    .uleb128 0
    .byte 0x41, 0x0e, 16
    .byte 0x41, 0x0e, 16
    .byte 0x41, 0x0e, 16
    .byte 0x41, 0x0e, 16
    .byte 0x41, 0x0e, 16
    .byte 0x41, 0x0e, 16
    .balign 8
.Lfde1_g2_e:
    .section .text.inl_0,"axG",@progbits,inl_0,comdat
    .weak inl_0
    .type inl_0, @function
inl_0:
.Lb1_inl_0:
    push %rbx
    push %r12
    nop
    pop %r12
    pop %rbx
    ret
.Le1_inl_0:
    .size inl_0, .-inl_0
    .section .eh_frame,"aG",@progbits,inl_0,comdat
.Lcie1_g0:
    .long .Lcie1_g0_e - .Lcie1_g0_s
.Lcie1_g0_s:
    .long 0
    .byte 1
    .asciz "zR"
    .uleb128 1
    .sleb128 -8
    .uleb128 16
    .uleb128 1
    .byte 0x1b
    .byte 0x0c, 7, 8
    .byte 0x90, 1
    .byte 0, 0, 0, 0, 0, 0, 0, 0
    .balign 8
.Lcie1_g0_e:
.Lfde1_g0:
    .long .Lfde1_g0_e - .Lfde1_g0_s
.Lfde1_g0_s:
    .long .Lfde1_g0_s - .Lcie1_g0
    .long .Lb1_inl_0 - .
    .long .Le1_inl_0 - .Lb1_inl_0
    .uleb128 0
    .byte 0x41, 0x0e, 16
    .byte 0x41, 0x0e, 16
    .byte 0x41, 0x0e, 16
    .byte 0x41, 0x0e, 16
    .balign 8
.Lfde1_g0_e:
    .section .text.inl_1,"axG",@progbits,inl_1,comdat
    .weak inl_1
    .type inl_1, @function
inl_1:
.Lb1_inl_1:
    push %rbx
    push %r12
    nop
    pop %r12
    pop %rbx
    ret
.Le1_inl_1:
    .size inl_1, .-inl_1
    .section .eh_frame,"aG",@progbits,inl_1,comdat
.Lcie1_g1:
    .long .Lcie1_g1_e - .Lcie1_g1_s
.Lcie1_g1_s:
    .long 0
    .byte 1
    .asciz "zR"
    .uleb128 1
    .sleb128 -8
    .uleb128 16
    .uleb128 1
    .byte 0x1b
    .byte 0x0c, 7, 8
    .byte 0x90, 1
    .balign 8
.Lcie1_g1_e:
.Lfde1_g1:
    .long .Lfde1_g1_e - .Lfde1_g1_s
.Lfde1_g1_s:
    .long .Lfde1_g1_s - .Lcie1_g1
    .long .Lb1_inl_1 - .
    .long .Le1_inl_1 - .Lb1_inl_1
    .uleb128 0
    .byte 0x41, 0x0e, 16
    .byte 0x41, 0x0e, 16
    .byte 0x41, 0x0e, 16
    .byte 0x41, 0x0e, 16
    .byte 0x41, 0x0e, 16
    .byte 0x41, 0x0e, 16
    .byte 0x41, 0x0e, 16
    .byte 0x41, 0x0e, 16
    .byte 0x41, 0x0e, 16
    .byte 0x41, 0x0e, 16
    .balign 8
.Lfde1_g1_e:
    .section .text.m1_0,"ax",@progbits
    .globl m1_0
    nop
    nop
    nop
    nop
    nop
    nop
    nop
    nop
    nop
    nop
    nop
    nop
    nop
    nop
    nop
    nop
    nop
    .type m1_0, @function
m1_0:
.Lb_m1_0:
    push %rbx
    call c4_1
    call a3_1
    call inl_0
    call inl_1
    pop %rbx
    ret
.Le_m1_0:
    .size m1_0, .-m1_0
    .section .text.m1_1,"ax",@progbits
    .globl m1_1
    .type m1_1, @function
m1_1:
.Lb_m1_1:
    push %rbx
    call c4_1
    call inl_1
    pop %rbx
    ret
.Le_m1_1:
    .size m1_1, .-m1_1
    .section .text.m1_2,"ax",@progbits
    .globl m1_2
    nop
    nop
    nop
    nop
    nop
    nop
    nop
    nop
    .type m1_2, @function
m1_2:
.Lb_m1_2:
    push %rbx
    call m2_1
    call m0_2
    call inl_1
    call inl_2
    pop %rbx
    ret
.Le_m1_2:
    .size m1_2, .-m1_2
    .section .eh_frame,"a",@progbits
.Lcie1_p0:
    .long .Lcie1_p0_e - .Lcie1_p0_s
.Lcie1_p0_s:
    .long 0
    .byte 1
    .asciz "zR"
    .uleb128 1
    .sleb128 -8
    .uleb128 16
    .uleb128 1
    .byte 0x1b
    .byte 0x0c, 7, 8
    .byte 0x90, 1
    .byte 0, 0, 0, 0, 0, 0, 0, 0
    .balign 8
.Lcie1_p0_e:
.Lfde1_m1_0:
    .long .Lfde1_m1_0_e - .Lfde1_m1_0_s
.Lfde1_m1_0_s:
    .long .Lfde1_m1_0_s - .Lcie1_p0
    .long .Lb_m1_0 - .
    .long .Le_m1_0 - .Lb_m1_0
    .uleb128 0
    .byte 0x41, 0x0e, 16
    .byte 0x41, 0x0e, 16
    .byte 0x41, 0x0e, 16
    .byte 0x41, 0x0e, 16
    .balign 8
.Lfde1_m1_0_e:
.Lfde1_m1_1:
    .long .Lfde1_m1_1_e - .Lfde1_m1_1_s
.Lfde1_m1_1_s:
    .long .Lfde1_m1_1_s - .Lcie1_p0
    .long m1_1 - .
    .long .Le_m1_1 - m1_1
    .uleb128 0
    .byte 0x41, 0x0e, 16
    .byte 0x41, 0x0e, 16
    .byte 0x41, 0x0e, 16
    .byte 0x41, 0x0e, 16
    .byte 0x41, 0x0e, 16
    .byte 0x41, 0x0e, 16
    .byte 0x41, 0x0e, 16
    .byte 0x41, 0x0e, 16
    .balign 8
.Lfde1_m1_1_e:
.Lfde1_m1_2:
    .long .Lfde1_m1_2_e - .Lfde1_m1_2_s
.Lfde1_m1_2_s:
    .long .Lfde1_m1_2_s - .Lcie1_p0
    .long .Lb_m1_2 - .
    .long .Le_m1_2 - .Lb_m1_2
    .uleb128 0
    .byte 0x41, 0x0e, 16
    .byte 0x41, 0x0e, 16
    .balign 8
.Lfde1_m1_2_e:
