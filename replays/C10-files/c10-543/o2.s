    .section .text.inl_1,"axG",@progbits,inl_1,comdat
    .weak inl_1
    .type inl_1, @function
inl_1:
.Lb2_inl_1:
    push %rbx
    push %r12
    nop
    nop
    pop %r12
    pop %rbx
    ret
.Le2_inl_1:
    .size inl_1, .-inl_1
    .section .eh_frame,"aG",@progbits,inl_1,comdat
.Lcie2_g1:
    .long .Lcie2_g1_e - .Lcie2_g1_s
.Lcie2_g1_s:
    .long 0
    .byte 1
    .asciz "zR"
    .uleb128 1
    .sleb128 -8
    .uleb128 16
    .uleb128 1
    .byte 0x1b
    .byte 0x0c, 7, 8
    .byte 0x90, 1
    .byte 0, 0, 0, 0, 0, 0, 0, 0
    .balign 8
.Lcie2_g1_e:
.Lfde2_g1:
    .long .Lfde2_g1_e - .Lfde2_g1_s
.Lfde2_g1_s:
    .long .Lfde2_g1_s - .Lcie2_g1
    .long .Lb2_inl_1 - .
    .long .Le2_inl_1 - .Lb2_inl_1
    .uleb128 0
    .byte 0x41, 0x0e, 16
    .byte 0x41, 0x0e, 16
    .byte 0x41, 0x0e, 16
    .byte 0x41, 0x0e, 16
    .byte 0x41, 0x0e, 16
    .byte 0x41, 0x0e, 16
    .balign 8
.Lfde2_g1_e:
    .section .text.m2_0,"ax",@progbits
    .type m2_0, @function
m2_0:
.Lb_m2_0:
    push %rbx
    call a3_2
    call inl_1
    pop %rbx
    ret
.Le_m2_0:
    .size m2_0, .-m2_0
    .section .text.m2_2,"ax",@progbits
    .globl m2_2
    nop
    nop
    nop
    .type m2_2, @function
m2_2:
.Lb_m2_2:
    push %rbx
    call a3_2
    pop %rbx
    ret
.Le_m2_2:
    .size m2_2, .-m2_2
    .section .text.m2_1,"ax",@progbits
    .globl m2_1
    nop
    nop
    nop
    nop
    nop
    nop
    nop
    nop
    nop
    nop
    nop
    nop
    nop
    nop
    nop
    nop
    nop
    .type m2_1, @function
m2_1:
.Lb_m2_1:
    push %rbx
    call c4_1
    call a3_2
    pop %rbx
    ret
.Le_m2_1:
    .size m2_1, .-m2_1
    .section .eh_frame,"a",@progbits
.Lcie2_p0:
    .long .Lcie2_p0_e - .Lcie2_p0_s
.Lcie2_p0_s:
    .long 0
    .byte 1
    .asciz "zR"
    .uleb128 1
    .sleb128 -8
    .uleb128 16
    .uleb128 1
    .byte 0x1b
    .byte 0x0c, 7, 8
    .byte 0x90, 1
    .byte 0, 0, 0, 0, 0, 0, 0, 0
    .balign 8
.Lcie2_p0_e:
.Lfde2_m2_0:
    .long .Lfde2_m2_0_e - .Lfde2_m2_0_s
.Lfde2_m2_0_s:
    .long .Lfde2_m2_0_s - .Lcie2_p0
    .long .Lb_m2_0 - .
    .long .Le_m2_0 - .Lb_m2_0
    .uleb128 0
    .balign 8
.Lfde2_m2_0_e:
.Lfde2_m2_2:
    .long .Lfde2_m2_2_e - .Lfde2_m2_2_s
.Lfde2_m2_2_s:
    .long .Lfde2_m2_2_s - .Lcie2_p0
    .long m2_2 - .
    .long .Le_m2_2 - m2_2
    .uleb128 0
    .balign 8
.Lfde2_m2_2_e:
.Lcie2_p1:
    .long .Lcie2_p1_e - .Lcie2_p1_s
.Lcie2_p1_s:
    .long 0
    .byte 1
    .asciz "zR"
    .uleb128 1
    .sleb128 -8
    .uleb128 16
    .uleb128 1
    .byte 0x1b
    .byte 0x0c, 7, 8
    .byte 0x90, 1
    .byte 0, 0, 0, 0, 0, 0, 0, 0
    .balign 8
.Lcie2_p1_e:
.Lfde2_m2_1:
    .long .Lfde2_m2_1_e - .Lfde2_m2_1_s
.Lfde2_m2_1_s:
    .long .Lfde2_m2_1_s - .Lcie2_p1
    .long .Lb_m2_1 - .
    .long .Le_m2_1 - .Lb_m2_1
    .uleb128 0
    .byte 0x41, 0x0e, 16
    .byte 0x41, 0x0e, 16
    .byte 0x41, 0x0e, 16
    .byte 0x41, 0x0e, 16
    .balign 8
.Lfde2_m2_1_e:
    .section .text.inl_0,"axG",@progbits,inl_0,comdat
    .weak inl_0
    .type inl_0, @function
inl_0:
.Lb2_inl_0:
    push %rbx
    push %r12
    nop
    nop
    pop %r12
    pop %rbx
    ret
.Le2_inl_0:
    .size inl_0, .-inl_0
    .section .eh_frame,"aG",@progbits,inl_0,comdat
.Lcie2_g0:
    .long .Lcie2_g0_e - .Lcie2_g0_s
.Lcie2_g0_s:
    .long 0
    .byte 1
    .asciz "zR"
    .uleb128 1
    .sleb128 -8
    .uleb128 16
    .uleb128 1
    .byte 0x1b
    .byte 0x0c, 7, 8
    .byte 0x90, 1
    .byte 0x0e, 8
    .balign 8
.Lcie2_g0_e:
.Lfde2_g0:
    .long .Lfde2_g0_e - .Lfde2_g0_s
.Lfde2_g0_s:
    .long .Lfde2_g0_s - .Lcie2_g0
    .long .Lb2_inl_0 - .
    .long .Le2_inl_0 - .Lb2_inl_0
    .uleb128 0
    .byte 0x41, 0x0e, 16
    .byte 0x41, 0x0e, 16
    .balign 8
.Lfde2_g0_e:
