int m0_1(int);
int m0_2(int);
int m0_4(int);
int m1_1(int);
int a3_1(int);
int a3_2(int);
int inl_0(int);
__attribute__((noinline)) int c4_0(int d) { int r = d; r += m0_2(d); r += a3_1(d); return r; }
__attribute__((noinline)) int c4_1(int d) { int r = d; return r; }
__attribute__((noinline)) int c4_2(int d) { int r = d; r += m0_1(d); r += m1_1(d); return r; }
__attribute__((noinline)) int c4_3(int d) { int r = d; return r; }
