struct G { int v; ~G(); };
extern "C" {
int sink(int);
int x1_0(int);
int x1_1(int);
int m3_0(int);
int m3_3(int);
int a4_0(int);
int a4_1(int);
int inl_2(int);
}
inline int incl_common(int x) { G g{x}; return sink(x) + 1; }
extern "C" __attribute__((noinline)) int x0_0(int d) { G g{d}; int r = d; return r; }
extern "C" __attribute__((noinline)) int x0_1(int d) { G g{d}; int r = d; r += a4_1(d); r += incl_common(d); return r; }
extern "C" __attribute__((noinline)) int x0_2(int d) { G g{d}; int r = d; r += incl_common(d); return r; }
extern "C" __attribute__((noinline)) int x0_3(int d) { G g{d}; int r = d; r += a4_1(d); return r; }
