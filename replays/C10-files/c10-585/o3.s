    .section .text.inl_0,"axG",@progbits,inl_0,comdat
    .weak inl_0
    .type inl_0, @function
inl_0:
.Lb3_inl_0:
    push %rbx
    push %r12
    pop %r12
    pop %rbx
    ret
.Le3_inl_0:
    .size inl_0, .-inl_0
    .section .eh_frame,"aG",@progbits,inl_0,comdat
.Lcie3_g0:
    .long .Lcie3_g0_e - .Lcie3_g0_s
.Lcie3_g0_s:
    .long 0
    .byte 1
    .asciz "zR"
    .uleb128 1
    .sleb128 -8
    .uleb128 16
    .uleb128 1
    .byte 0x1b
    .byte 0x0c, 7, 8
    .byte 0x90, 1
    .byte 0x0e, 8
    .balign 8
.Lcie3_g0_e:
.Lfde3_g0:
    .long .Lfde3_g0_e - .Lfde3_g0_s
.Lfde3_g0_s:
    .long .Lfde3_g0_s - .Lcie3_g0
    .long .Lb3_inl_0 - .
    .long .Le3_inl_0 - .Lb3_inl_0
    .uleb128 0
    .balign 8
.Lfde3_g0_e:
    .section .text.m3_0,"ax",@progbits
    .globl m3_0
    nop
    nop
    nop
    .type m3_0, @function
m3_0:
.Lb_m3_0:
    push %rbx
    call a4_0
    call m2_1
    call m3_1
    pop %rbx
    ret
.Le_m3_0:
    .size m3_0, .-m3_0
    .section .text.m3_2,"ax",@progbits
    .globl m3_2
    nop
    nop
    nop
    nop
    nop
    nop
    nop
    nop
    .type m3_2, @function
m3_2:
.Lb_m3_2:
    push %rbx
    call m3_3
    call inl_0
    pop %rbx
    ret
.Le_m3_2:
    .size m3_2, .-m3_2
    .section .text.m3_1,"ax",@progbits
    .globl m3_1
    .type m3_1, @function
m3_1:
.Lb_m3_1:
    push %rbx
    call a4_0
    call inl_0
    pop %rbx
    ret
.Le_m3_1:
    .size m3_1, .-m3_1
    .section .text.m3_3,"ax",@progbits
    .globl m3_3
    .type m3_3, @function
m3_3:
.Lb_m3_3:
    push %rbx
    call inl_1
    pop %rbx
    ret
.Le_m3_3:
    .size m3_3, .-m3_3
    .section .eh_frame,"a",@progbits
.Lcie3_p0:
    .long .Lcie3_p0_e - .Lcie3_p0_s
.Lcie3_p0_s:
    .long 0
    .byte 1
    .asciz "zR"
    .uleb128 1
    .sleb128 -8
    .uleb128 16
    .uleb128 1
    .byte 0x1b
    .byte 0x0c, 7, 8
    .byte 0x90, 1
    .byte 0x0e, 8
    .balign 8
.Lcie3_p0_e:
.Lfde3_m3_0:
    .long .Lfde3_m3_0_e - .Lfde3_m3_0_s
.Lfde3_m3_0_s:
    .long .Lfde3_m3_0_s - .Lcie3_p0
    .long m3_0 - .
    .long .Le_m3_0 - m3_0
    .uleb128 0
    .balign 8
.Lfde3_m3_0_e:
.Lfde3_m3_2:
    .long .Lfde3_m3_2_e - .Lfde3_m3_2_s
.Lfde3_m3_2_s:
    .long .Lfde3_m3_2_s - .Lcie3_p0
    .long m3_2 - .
    .long .Le_m3_2 - m3_2
    .uleb128 0
    .balign 8
.Lfde3_m3_2_e:
.Lcie3_p1:
    .long .Lcie3_p1_e - .Lcie3_p1_s
.Lcie3_p1_s:
    .long 0
    .byte 1
    .asciz "zR"
    .uleb128 1
    .sleb128 -8
    .uleb128 16
    .uleb128 1
    .byte 0x1b
    .byte 0x0c, 7, 8
    .byte 0x90, 1
    .byte 0, 0, 0, 0, 0, 0, 0, 0
    .balign 8
.Lcie3_p1_e:
.Lfde3_m3_1:
    .long .Lfde3_m3_1_e - .Lfde3_m3_1_s
.Lfde3_m3_1_s:
    .long .Lfde3_m3_1_s - .Lcie3_p1
    .long .Lb_m3_1 - .
    .long .Le_m3_1 - .Lb_m3_1
    .uleb128 0
    .byte 0x41, 0x0e, 16
    .byte 0x41, 0x0e, 16
    .byte 0x41, 0x0e, 16
    .byte 0x41, 0x0e, 16
    .balign 8
.Lfde3_m3_1_e:
.Lfde3_m3_3:
    .long .Lfde3_m3_3_e - .Lfde3_m3_3_s
.Lfde3_m3_3_s:
    .long .Lfde3_m3_3_s - .Lcie3_p1
    .long .Lb_m3_3 - .
    .long .Le_m3_3 - .Lb_m3_3
    .uleb128 0
    .byte 0x41, 0x0e, 16
    .byte 0x41, 0x0e, 16
    .balign 8
.Lfde3_m3_3_e:
    .section .text.inl_1,"axG",@progbits,inl_1,comdat
    .weak inl_1
    .type inl_1, @function
inl_1:
.Lb3_inl_1:
    push %rbx
    push %r12
    pop %r12
    pop %rbx
    ret
.Le3_inl_1:
    .size inl_1, .-inl_1
    .section .eh_frame,"aG",@progbits,inl_1,comdat
.Lcie3_g1:
    .long .Lcie3_g1_e - .Lcie3_g1_s
.Lcie3_g1_s:
    .long 0
    .byte 1
    .asciz "zR"
    .uleb128 1
    .sleb128 -8
    .uleb128 16
    .uleb128 1
    .byte 0x1b
    .byte 0x0c, 7, 8
    .byte 0x90, 1
    .balign 8
.Lcie3_g1_e:
.Lfde3_g1:
    .long .Lfde3_g1_e - .Lfde3_g1_s
.Lfde3_g1_s:
    .long .Lfde3_g1_s - .Lcie3_g1
    .long .Lb3_inl_1 - .
    .long .Le3_inl_1 - .Lb3_inl_1
    .uleb128 0
    .byte 0x41, 0x0e, 16
    .byte 0x41, 0x0e, 16
    .byte 0x41, 0x0e, 16
    .byte 0x41, 0x0e, 16
    .balign 8
.Lfde3_g1_e:
