    .section .text.a4_0,"ax",@progbits
    .globl a4_0
    .type a4_0, @function
a4_0:
    .cfi_startproc
    .cfi_endproc
    .size a4_0, 0
    .section .text.a4_1,"ax",@progbits
    .globl a4_1
    .type a4_1, @function
a4_1:
    .cfi_startproc
    push %rbp
    .cfi_def_cfa_offset 16
    .cfi_offset 6, -16
    pop %rbp
    .cfi_def_cfa_offset 8
    ret
    .cfi_endproc
    .size a4_1, .-a4_1
    .section .text.pers_4,"ax",@progbits
    .type pers_4, @function
pers_4:
    .cfi_startproc
    ret
    .cfi_endproc
    .size pers_4, .-pers_4
    .section .gcc_except_table.l4,"a",@progbits
lsda_4:
    .quad 0
