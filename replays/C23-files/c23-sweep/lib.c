
int ext_var = 7;
int ext_arr[4] = {1, 2, 3, 4};
__thread int ext_tls = 9;
int ext_func(int x) { return x + ext_var; }
int ext_func2(int x) { return x * 2; }
__attribute__((visibility("protected"))) int prot_func(int x) { return x - 1; }
