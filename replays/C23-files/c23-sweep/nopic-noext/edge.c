
void unreach1(void) { __builtin_unreachable(); }
void unreach2(int x) { (void)x; __builtin_unreachable(); }
void empty_fn(void) {}
char zero_size_obj[0] __attribute__((section(".data.zero")));
void (*edge_tab[])(void) = { unreach1, (void (*)(void))unreach2, empty_fn };
char *edge_zero = zero_size_obj;
