
static int impl_a(int x) { return x + 10; }
static int impl_b(int x) { return x + 20; }
static int (*resolve_ifn(void))(int) { return impl_a; }
int ifn(int) __attribute__((ifunc("resolve_ifn")));
static int (*resolve_hid(void))(int) { return impl_b; }
__attribute__((visibility("hidden"))) int ifn_hid(int) __attribute__((ifunc("resolve_hid")));
int (*ifn_ptr)(int) = ifn;
int (*ifn_hid_ptr)(int) = ifn_hid;
int ifn_user(int x) {
  int (*volatile p)(int) = ifn;
  int (*volatile q)(int) = ifn_hid;
  return ifn(x) + ifn_hid(x) + p(x) + q(x) + ifn_ptr(x) + ifn_hid_ptr(x) + (p == ifn_ptr);
}
