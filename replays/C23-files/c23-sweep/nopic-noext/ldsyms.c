
extern char _end[], _etext[], _edata[], __bss_start[];
char *c23_ld_syms[] = { _end, _etext, _edata, __bss_start };
