extern void (*edge_tab[])(void); extern char *edge_zero;

#ifndef NO_EXT
extern int ext_var, ext_arr[4];
extern int ext_func(int), ext_func2(int);
#endif
extern int weak_und(int) __attribute__((weak));
extern int weak_var __attribute__((weak));
__attribute__((visibility("hidden"))) int hid_func(int x) { return x + 1; }
__attribute__((visibility("protected"))) int prot_local(int x) { return x + 2; }
static int stat_func(int x) { return x + 3; }
int glob_func(int x) { return x + 4; }
int glob_var = 5;
static int stat_var = 6;
int (*fptr_tab[])(int) = {hid_func, prot_local, stat_func, glob_func
#ifndef NO_EXT
  , ext_func
#endif
};
int *vptr_tab[] = {&glob_var, &stat_var
#ifndef NO_EXT
  , &ext_var, &ext_arr[2]
#endif
};
int ifn_user(int);
int tls_user(int);
int run(int x) {
  int s = hid_func(x) + prot_local(x) + stat_func(x) + glob_func(x) + glob_var + stat_var;
  if (weak_und) s += weak_und(x);
  if (&weak_var) s += weak_var;
#ifndef NO_EXT
  s += ext_func(x) + ext_var + ext_arr[1];
  int (*p)(int) = ext_func2;
  s += p(x);
#endif
  for (unsigned i = 0; i < sizeof fptr_tab / sizeof *fptr_tab; i++) s += fptr_tab[i](x);
  for (unsigned i = 0; i < sizeof vptr_tab / sizeof *vptr_tab; i++) s += *vptr_tab[i];
  s += (edge_tab[2] != 0) + (edge_zero != 0) - 2; return s + ifn_user(x) + tls_user(x);
}
void _start(void) {
  int r = run(1);
  __asm__ volatile("syscall" : : "a"(60), "D"(r & 127) : "rcx", "r11", "memory");
  for (;;) {}
}
