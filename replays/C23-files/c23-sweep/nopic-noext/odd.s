
    .section .data.c23a,"aw",@progbits
    .byte 7
    .section .data.c23b,"aw",@progbits
c23_tab:
    .quad c23_tgt
    .byte 1
    .quad c23_tgt+1
    .section .c23own,"aw",@progbits
    .byte 1, 2, 3
    .quad c23_tgt
    .data
c23_tgt: .byte 1, 2
