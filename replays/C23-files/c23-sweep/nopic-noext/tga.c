
void *__tls_get_addr(void *p) { return p; }
