
#define TM(m) __attribute__((tls_model(m)))
__thread int t_gd TM("global-dynamic") = 1;
static __thread int t_ld1 TM("local-dynamic") = 2;
static __thread int t_ld2 TM("local-dynamic");
__thread int t_ie TM("initial-exec") = 3;
__attribute__((visibility("hidden"))) __thread int t_ie_hid TM("initial-exec") = 4;
__thread int t_multi = 5;
extern __thread int t_weak_hid __attribute__((weak, visibility("hidden"))) TM("initial-exec");
extern __thread int t_weak __attribute__((weak)) TM("initial-exec");
#ifndef SHARED
static __thread int t_le TM("local-exec") = 6;
#endif
#ifndef NO_EXT
extern __thread int ext_tls;
extern __thread int ext_tls_ie TM("initial-exec") __attribute__((weak));
#endif
int tlsdesc_user(int);
int *t_multi_addr(void);
int tls_user(int x) {
  int s = t_gd + t_ld1 + t_ld2 + t_ie + t_ie_hid + t_multi + *t_multi_addr();
  if (&t_weak_hid) s += 1;
  if (&t_weak) s += 1;
#ifndef SHARED
  s += t_le;
#endif
#ifndef NO_EXT
  s += ext_tls;
#endif
  return s + x + tlsdesc_user(x);
}
