
extern __thread int t_multi;
__thread int t_desc = 8;
static __thread int t_desc_loc = 9;
int *t_multi_addr(void) { return &t_multi; }
int tlsdesc_user(int x) { return t_desc + t_desc_loc + t_multi + x; }
