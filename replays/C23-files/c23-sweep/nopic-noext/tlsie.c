
extern __thread int t_multi __attribute__((tls_model("initial-exec")));
extern __thread int t_gd __attribute__((tls_model("initial-exec")));
int tls_ie_extra(void) { return t_multi + t_gd; }
