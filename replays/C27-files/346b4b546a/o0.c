
typedef unsigned long u64; typedef unsigned int u32; typedef unsigned short u16;
struct eh { unsigned char id[16]; u16 type, machine; u32 version; u64 entry, phoff, shoff; u32 flags; u16 ehsize, phentsize, phnum; };
struct ph { u32 type, flags; u64 offset, vaddr, paddr, filesz, memsz, align; };
extern struct eh __ehdr_start;
extern void (*__init_array_start[])(void); extern void (*__init_array_end[])(void);
u64 acc = 7;
static char tlsblock[1024] __attribute__((aligned(64)));
extern void f_1(void);
extern void f_2(void);
extern void f_3(void);
extern void f_4(void);
extern void f_5(void);
extern void f_6(void);
extern void f_7(void);

static long sys3(long n, long a, long b, long c) { long r; __asm__ volatile("syscall" : "=a"(r) : "a"(n), "D"(a), "S"(b), "d"(c) : "rcx", "r11", "memory"); return r; }
void cstart(void) {
  struct ph *p = (struct ph *)((char *)&__ehdr_start + __ehdr_start.phoff);
  char *tp = tlsblock + 768;
  for (int i = 0; i < __ehdr_start.phnum; i++) if (p[i].type == 7) {
    u64 sz = (p[i].memsz + p[i].align - 1) & ~(p[i].align - 1);
    char *d = tp - sz; const char *s = (const char *)p[i].vaddr;
    for (u64 j = 0; j < p[i].filesz; j++) d[j] = s[j];
  }
  *(char **)tp = tp;
  sys3(158, 0x1002, (long)tp, 0);
  for (void (**f)(void) = __init_array_start; f < __init_array_end; f++) (*f)();
  f_1(); f_5(); f_4(); f_2(); f_3(); f_6(); f_7(); f_1(); f_5();
  char buf[20]; u64 v = acc; int n = 0;
  for (int i = 15; i >= 0; i--) { int d = (v >> (4 * i)) & 15; buf[n++] = d < 10 ? '0' + d : 'a' + d - 10; }
  buf[n++] = '\n';
  sys3(1, 1, (long)buf, n);
  sys3(60, acc & 0x7f, 0, 0);
}
__asm__(".globl _start\n_start:\n and $-16, %rsp\n call cstart\n");
