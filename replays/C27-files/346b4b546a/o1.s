    .text
    .balign 16
    .globl f_1
    .type f_1, @function
f_1:
    mov acc(%rip), %rax
    imul $31, %rax, %rax
    add ldata+8(%rip), %rax
    mov lptr(%rip), %rcx
    add (%rcx), %rax
    lea lbss+40(%rip), %rcx
    and $63, %ecx
    add %rcx, %rax
    add gd_1+16(%rip), %rax
    call lfun
    add ws_0(%rip), %rax
    add ws_1(%rip), %rax
    addq $1, cm_1(%rip)
    add cm_1(%rip), %rax
    mov %fs:tv_1@tpoff, %rcx
    add %rcx, %rax
    addq $1, %fs:tv_1@tpoff
    lea .LCs(%rip), %rcx
    movzbl 1(%rcx), %ecx
    add %rcx, %rax
    add $abs_1, %rax
    mov hp_1(%rip), %rcx
    add (%rcx), %rax
    mov %rax, acc(%rip)
    ret
    .size f_1, .-f_1
lfun:
    add $47084, %rax
    ret
    .globl abs_1
    .set abs_1, 257
init_l:
    mov acc(%rip), %rax
    lea (%rax,%rax,2), %rax
    add $1, %rax
    mov %rax, acc(%rip)
    ret
    .section .init_array,"aw",@init_array
    .balign 8
    .quad init_l
    .data
    .balign 16
    .byte 1
    .balign 8
ldata:
    .quad 2787, 17856, 1
lptr:
    .quad lro+8
    .globl gd_1
    .type gd_1, @object
gd_1:
    .quad 1, 47084, 2788, 5
    .size gd_1, 32
    .globl hv_1
    .hidden hv_1
hv_1:
    .quad 17857
hp_1:
    .quad hv_1
    .section .rodata
    .balign 1
    .byte 1
    .balign 8
lro:
    .quad 47085, 2789, 17859
    .bss
    .balign 64
lbss:
    .skip 100
    .section .tdata,"awT",@progbits
    .balign 8
    .globl tv_1
tv_1:
    .quad 47085
    .section .rodata.str1.1,"aMS",@progbits,1
.LCa:
    .string "beta"
.LCs:
    .string "x"
    .data
    .balign 8
    .weak ws_1
ws_1:
    .quad 2001
    .comm cm_1,64,8
    .section .note.GNU-stack,"",@progbits
