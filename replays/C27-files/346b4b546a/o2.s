    .text
    .balign 1
    .globl f_2
    .type f_2, @function
f_2:
    mov acc(%rip), %rax
    imul $31, %rax, %rax
    add ldata+8(%rip), %rax
    mov lptr(%rip), %rcx
    add (%rcx), %rax
    lea lbss+40(%rip), %rcx
    and $63, %ecx
    add %rcx, %rax
    add gd_5+16(%rip), %rax
    call lfun
    add ws_0(%rip), %rax
    add ws_2(%rip), %rax
    addq $2, cm_0(%rip)
    add cm_0(%rip), %rax
    push %rax
    call cd_0
    pop %rcx
    add %rcx, %rax
    mov %fs:tv_2@tpoff, %rcx
    add %rcx, %rax
    addq $1, %fs:tv_2@tpoff
    lea .LCs(%rip), %rcx
    movzbl 1(%rcx), %ecx
    add %rcx, %rax
    add wk_ptr(%rip), %rax
    add $abs_2, %rax
    mov hp_2(%rip), %rcx
    add (%rcx), %rax
    mov %rax, acc(%rip)
    ret
    .size f_2, .-f_2
lfun:
    add $54469, %rax
    ret
    .globl abs_2
    .set abs_2, 258
init_l:
    mov acc(%rip), %rax
    lea (%rax,%rax,2), %rax
    add $2, %rax
    mov %rax, acc(%rip)
    ret
    .section .init_array.00200,"aw",@init_array
    .balign 8
    .quad init_l
    .data
    .balign 32
    .byte 2
    .balign 8
ldata:
    .quad 8821, 50367, 2
lptr:
    .quad lro+8
    .weak nowhere_weak
wk_ptr:
    .quad nowhere_weak
    .globl gd_2
    .type gd_2, @object
gd_2:
    .quad 2, 54469, 8823, 5
    .size gd_2, 32
    .globl hv_2
    .hidden hv_2
hv_2:
    .quad 50368
hp_2:
    .quad hv_2
    .section .rodata
    .balign 8
    .byte 1
    .balign 8
lro:
    .quad 54470, 8823, 50370
    .bss
    .balign 64
lbss:
    .skip 100
    .section .tdata,"awT",@progbits
    .balign 8
    .globl tv_2
tv_2:
    .quad 54471
    .section .rodata.str1.1,"aMS",@progbits,1
.LCa:
    .string "partial"
.LCs:
    .string "alpha"
    .data
    .balign 8
    .weak ws_1
ws_1:
    .quad 2002
    .data
    .balign 8
    .globl ws_2
ws_2:
    .quad 3002
    .comm cm_0,8,8
    .section .text.cd_0,"axG",@progbits,cd_0,comdat
    .globl cd_0
    .type cd_0, @function
cd_0:
    mov $77, %eax
    ret
    .section .note.GNU-stack,"",@progbits
