    .text
    .balign 1
    .globl f_3
    .type f_3, @function
f_3:
    mov acc(%rip), %rax
    imul $31, %rax, %rax
    add ldata+8(%rip), %rax
    mov lptr(%rip), %rcx
    add (%rcx), %rax
    lea lbss+40(%rip), %rcx
    and $63, %ecx
    add %rcx, %rax
    add gd_5+16(%rip), %rax
    call lfun
    add ws_1(%rip), %rax
    add ws_2(%rip), %rax
    mov %fs:tv_3@tpoff, %rcx
    add %rcx, %rax
    addq $1, %fs:tv_3@tpoff
    lea .LCs(%rip), %rcx
    movzbl 1(%rcx), %ecx
    add %rcx, %rax
    add $abs_3, %rax
    mov hp_3(%rip), %rcx
    add (%rcx), %rax
    mov %rax, acc(%rip)
    ret
    .size f_3, .-f_3
lfun:
    add $54906, %rax
    ret
    .globl abs_3
    .set abs_3, 259
init_l:
    mov acc(%rip), %rax
    lea (%rax,%rax,2), %rax
    add $3, %rax
    mov %rax, acc(%rip)
    ret
    .section .init_array.00200,"aw",@init_array
    .balign 8
    .quad init_l
    .data
    .balign 8
    .byte 3
    .balign 8
ldata:
    .quad 23546, 21283, 3
lptr:
    .quad lro+8
    .globl gd_3
    .type gd_3, @object
gd_3:
    .quad 3, 54906, 23549, 5
    .size gd_3, 32
    .globl hv_3
    .hidden hv_3
hv_3:
    .quad 21284
hp_3:
    .quad hv_3
    .section .rodata
    .balign 8
    .byte 1
    .balign 8
lro:
    .quad 54907, 23548, 21286
    .bss
    .balign 64
lbss:
    .skip 100
    .section .tdata,"awT",@progbits
    .balign 8
    .globl tv_3
tv_3:
    .quad 54905
    .section .rodata.str1.1,"aMS",@progbits,1
.LCa:
    .string "relocatable"
.LCs:
    .string "beta"
    .data
    .balign 8
    .weak ws_0
ws_0:
    .quad 1003
    .data
    .balign 8
    .weak ws_2
ws_2:
    .quad 3003
    .section .note.GNU-stack,"",@progbits
