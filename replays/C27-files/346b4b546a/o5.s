    .text
    .balign 16
    .globl f_5
    .type f_5, @function
f_5:
    mov acc(%rip), %rax
    imul $31, %rax, %rax
    add ldata+8(%rip), %rax
    mov lptr(%rip), %rcx
    add (%rcx), %rax
    lea lbss+40(%rip), %rcx
    and $63, %ecx
    add %rcx, %rax
    add gd_5+16(%rip), %rax
    call lfun
    add ws_1(%rip), %rax
    add ws_2(%rip), %rax
    mov %fs:tv_5@tpoff, %rcx
    add %rcx, %rax
    addq $1, %fs:tv_5@tpoff
    lea .LCs(%rip), %rcx
    movzbl 1(%rcx), %ecx
    add %rcx, %rax
    add $abs_5, %rax
    mov hp_5(%rip), %rcx
    add (%rcx), %rax
    mov %rax, acc(%rip)
    ret
    .size f_5, .-f_5
lfun:
    add $32457, %rax
    ret
    .globl abs_5
    .set abs_5, 261
init_l:
    mov acc(%rip), %rax
    lea (%rax,%rax,2), %rax
    add $5, %rax
    mov %rax, acc(%rip)
    ret
    .section .init_array,"aw",@init_array
    .balign 8
    .quad init_l
    .data
    .balign 8
    .byte 5
    .balign 8
ldata:
    .quad 27768, 16483, 5
lptr:
    .quad lro+8
    .globl gd_5
    .type gd_5, @object
gd_5:
    .quad 5, 32457, 27773, 5
    .size gd_5, 32
    .globl hv_5
    .hidden hv_5
hv_5:
    .quad 16484
hp_5:
    .quad hv_5
    .section .rodata
    .balign 16
    .byte 1
    .balign 8
lro:
    .quad 32458, 27770, 16486
    .bss
    .balign 64
lbss:
    .skip 100
    .section .tdata,"awT",@progbits
    .balign 8
    .globl tv_5
tv_5:
    .quad 32460
    .section .rodata.str1.1,"aMS",@progbits,1
.LCa:
    .string "shared-string"
.LCs:
    .string "shared-string"
    .data
    .balign 8
    .weak ws_0
ws_0:
    .quad 1005
    .data
    .balign 8
    .weak ws_1
ws_1:
    .quad 2005
    .section .note.GNU-stack,"",@progbits
