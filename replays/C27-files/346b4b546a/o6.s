    .text
    .balign 1
    .globl f_6
    .type f_6, @function
f_6:
    mov acc(%rip), %rax
    imul $31, %rax, %rax
    add ldata+8(%rip), %rax
    mov lptr(%rip), %rcx
    add (%rcx), %rax
    lea lbss+40(%rip), %rcx
    and $63, %ecx
    add %rcx, %rax
    add gd_6+16(%rip), %rax
    call lfun
    add ws_2(%rip), %rax
    addq $6, cm_0(%rip)
    add cm_0(%rip), %rax
    addq $6, cm_1(%rip)
    add cm_1(%rip), %rax
    mov %fs:tv_6@tpoff, %rcx
    add %rcx, %rax
    addq $1, %fs:tv_6@tpoff
    lea .LCs(%rip), %rcx
    movzbl 1(%rcx), %ecx
    add %rcx, %rax
    add $abs_6, %rax
    mov hp_6(%rip), %rcx
    add (%rcx), %rax
    mov %rax, acc(%rip)
    ret
    .size f_6, .-f_6
lfun:
    add $50808, %rax
    ret
    .globl abs_6
    .set abs_6, 262
init_l:
    mov acc(%rip), %rax
    lea (%rax,%rax,2), %rax
    add $6, %rax
    mov %rax, acc(%rip)
    ret
    .section .init_array,"aw",@init_array
    .balign 8
    .quad init_l
    .data
    .balign 8
    .byte 6
    .balign 8
ldata:
    .quad 1352, 24634, 6
lptr:
    .quad lro+8
    .globl gd_6
    .type gd_6, @object
gd_6:
    .quad 6, 50808, 1358, 5
    .size gd_6, 32
    .globl hv_6
    .hidden hv_6
hv_6:
    .quad 24635
hp_6:
    .quad hv_6
    .section .rodata
    .balign 8
    .byte 1
    .balign 8
lro:
    .quad 50809, 1354, 24637
    .bss
    .balign 64
lbss:
    .skip 100
    .section .tdata,"awT",@progbits
    .balign 8
    .globl tv_6
tv_6:
    .quad 50814
    .section .rodata.str1.1,"aMS",@progbits,1
.LCa:
    .string "relocatable"
.LCs:
    .string "partial"
    .data
    .balign 8
    .globl ws_0
ws_0:
    .quad 1006
    .comm cm_0,64,8
    .comm cm_1,64,8
    .section .note.GNU-stack,"",@progbits
