    .text
    .balign 1
    .globl f_7
    .type f_7, @function
f_7:
    mov acc(%rip), %rax
    imul $31, %rax, %rax
    add ldata+8(%rip), %rax
    mov lptr(%rip), %rcx
    add (%rcx), %rax
    lea lbss+40(%rip), %rcx
    and $63, %ecx
    add %rcx, %rax
    add gd_3+16(%rip), %rax
    call lfun
    add ws_0(%rip), %rax
    addq $7, cm_1(%rip)
    add cm_1(%rip), %rax
    push %rax
    call cd_0
    pop %rcx
    add %rcx, %rax
    mov %fs:tv_7@tpoff, %rcx
    add %rcx, %rax
    addq $1, %fs:tv_7@tpoff
    lea .LCs(%rip), %rcx
    movzbl 1(%rcx), %ecx
    add %rcx, %rax
    add wk_ptr(%rip), %rax
    add $abs_7, %rax
    mov hp_7(%rip), %rcx
    add (%rcx), %rax
    mov %rax, acc(%rip)
    ret
    .size f_7, .-f_7
lfun:
    add $34834, %rax
    ret
    .globl abs_7
    .set abs_7, 263
init_l:
    mov acc(%rip), %rax
    lea (%rax,%rax,2), %rax
    add $7, %rax
    mov %rax, acc(%rip)
    ret
    .section .init_array,"aw",@init_array
    .balign 8
    .quad init_l
    .data
    .balign 16
    .byte 7
    .balign 8
ldata:
    .quad 23143, 14983, 7
lptr:
    .quad lro+8
    .weak nowhere_weak
wk_ptr:
    .quad nowhere_weak
    .globl gd_7
    .type gd_7, @object
gd_7:
    .quad 7, 34834, 23150, 5
    .size gd_7, 32
    .globl hv_7
    .hidden hv_7
hv_7:
    .quad 14984
hp_7:
    .quad hv_7
    .section .rodata
    .balign 4
    .byte 1
    .balign 8
lro:
    .quad 34835, 23145, 14986
    .bss
    .balign 64
lbss:
    .skip 100
    .section .tdata,"awT",@progbits
    .balign 8
    .globl tv_7
tv_7:
    .quad 34837
    .section .rodata.str1.1,"aMS",@progbits,1
.LCa:
    .string "relocatable"
.LCs:
    .string "alpha"
    .data
    .balign 8
    .weak ws_0
ws_0:
    .quad 1007
    .data
    .balign 8
    .weak ws_1
ws_1:
    .quad 2007
    .comm cm_1,16,8
    .section .text.cd_0,"axG",@progbits,cd_0,comdat
    .globl cd_0
    .type cd_0, @function
cd_0:
    mov $77, %eax
    ret
    .section .note.GNU-stack,"",@progbits
