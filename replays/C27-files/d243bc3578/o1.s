    .text
    .balign 1
    .globl f_1
    .type f_1, @function
f_1:
    mov acc(%rip), %rax
    imul $31, %rax, %rax
    add ldata+8(%rip), %rax
    mov lptr(%rip), %rcx
    add (%rcx), %rax
    lea lbss+40(%rip), %rcx
    and $63, %ecx
    add %rcx, %rax
    add gd_1+16(%rip), %rax
    call lfun
    add ws_2(%rip), %rax
    addq $1, cm_0(%rip)
    add cm_0(%rip), %rax
    push %rax
    call cd_1
    pop %rcx
    add %rcx, %rax
    mov %fs:tv_1@tpoff, %rcx
    add %rcx, %rax
    addq $1, %fs:tv_1@tpoff
    lea .LCs(%rip), %rcx
    movzbl 1(%rcx), %ecx
    add %rcx, %rax
    add $abs_1, %rax
    mov hp_1(%rip), %rcx
    add (%rcx), %rax
    mov %rax, acc(%rip)
    ret
    .size f_1, .-f_1
lfun:
    add $2299, %rax
    ret
    .globl abs_1
    .set abs_1, 257
init_l:
    mov acc(%rip), %rax
    lea (%rax,%rax,2), %rax
    add $1, %rax
    mov %rax, acc(%rip)
    ret
    .section .init_array.00200,"aw",@init_array
    .balign 8
    .quad init_l
    .data
    .balign 8
    .byte 1
    .balign 8
ldata:
    .quad 27455, 30102, 1
lptr:
    .quad lro+8
    .globl gd_1
    .type gd_1, @object
gd_1:
    .quad 1, 2299, 27456, 5
    .size gd_1, 32
    .globl hv_1
    .hidden hv_1
hv_1:
    .quad 30103
hp_1:
    .quad hv_1
    .section .rodata
    .balign 16
    .byte 1
    .balign 8
lro:
    .quad 2300, 27457, 30105
    .bss
    .balign 64
lbss:
    .skip 100
    .section .tdata,"awT",@progbits
    .balign 8
    .globl tv_1
tv_1:
    .quad 2298
    .section .rodata.str1.1,"aMS",@progbits,1
.LCa:
    .string "alpha"
.LCs:
    .string "wild"
    .data
    .balign 8
    .weak ws_0
ws_0:
    .quad 1001
    .data
    .balign 8
    .weak ws_1
ws_1:
    .quad 2001
    .data
    .balign 8
    .weak ws_2
ws_2:
    .quad 3001
    .comm cm_0,32,8
    .section .text.cd_1,"axG",@progbits,cd_1,comdat
    .weak cd_1
    .type cd_1, @function
cd_1:
    mov $78, %eax
    ret
    .section .note.GNU-stack,"",@progbits
