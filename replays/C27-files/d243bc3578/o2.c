
typedef unsigned long u64;
extern u64 acc; extern u64 gd_4[4]; extern u64 hid_helper_2(u64);
static u64 sq(u64 x) { return x * 573 + 83; }
static u64 tw(u64 x) { return x ^ 871; }
static u64 (*const tab[2])(u64) = { sq, tw };
static const char *names[] = { "x", "shared-string", "c2-only" };
static u64 sdata[4] = { 19, 56, 3, 4 };
u64 *pd_2 = &sdata[2];
__thread u64 tc_2 = 707;
__attribute__((constructor)) static void init_c(void) { acc = acc * 3 + 2; }
__attribute__((visibility("hidden"))) u64 hid_helper_2(u64 x) { return x + names[x % 3][0]; }
void f_2(void) {
  u64 v = tab[acc & 1](acc) + *pd_2 + gd_4[1] + hid_helper_2(acc) + names[1][1] + tc_2;
  tc_2 += 1;
  switch (acc & 3) { case 0: v += 11; break; case 1: v ^= 0x55; break; case 2: v *= 3; break; default: v -= 7; }
  acc = acc * 31 + v;
}
u64 gd_2[4] = { 2, 773, 14, 9 };
