    .text
    .balign 1
    .globl f_3
    .type f_3, @function
f_3:
    mov acc(%rip), %rax
    imul $31, %rax, %rax
    add ldata+8(%rip), %rax
    mov lptr(%rip), %rcx
    add (%rcx), %rax
    lea lbss+40(%rip), %rcx
    and $63, %ecx
    add %rcx, %rax
    add gd_2+16(%rip), %rax
    call lfun
    add ws_0(%rip), %rax
    add ws_1(%rip), %rax
    add ws_2(%rip), %rax
    addq $3, cm_0(%rip)
    add cm_0(%rip), %rax
    addq $3, cm_1(%rip)
    add cm_1(%rip), %rax
    push %rax
    call cd_0
    pop %rcx
    add %rcx, %rax
    push %rax
    call cd_1
    pop %rcx
    add %rcx, %rax
    mov %fs:tv_3@tpoff, %rcx
    add %rcx, %rax
    addq $1, %fs:tv_3@tpoff
    lea .LCs(%rip), %rcx
    movzbl 1(%rcx), %ecx
    add %rcx, %rax
    add wk_ptr(%rip), %rax
    add $abs_3, %rax
    mov hp_3(%rip), %rcx
    add (%rcx), %rax
    mov %rax, acc(%rip)
    ret
    .size f_3, .-f_3
lfun:
    add $3239, %rax
    ret
    .globl abs_3
    .set abs_3, 259
init_l:
    mov acc(%rip), %rax
    lea (%rax,%rax,2), %rax
    add $3, %rax
    mov %rax, acc(%rip)
    ret
    .section .init_array,"aw",@init_array
    .balign 8
    .quad init_l
    .data
    .balign 16
    .byte 3
    .balign 8
ldata:
    .quad 52038, 12554, 3
lptr:
    .quad lro+8
    .weak nowhere_weak
wk_ptr:
    .quad nowhere_weak
    .globl gd_3
    .type gd_3, @object
gd_3:
    .quad 3, 3239, 52041, 5
    .size gd_3, 32
    .globl hv_3
    .hidden hv_3
hv_3:
    .quad 12555
hp_3:
    .quad hv_3
    .section .rodata
    .balign 16
    .byte 1
    .balign 8
lro:
    .quad 3240, 52040, 12557
    .bss
    .balign 64
lbss:
    .skip 100
    .section .tdata,"awT",@progbits
    .balign 8
    .globl tv_3
tv_3:
    .quad 3236
    .section .rodata.str1.1,"aMS",@progbits,1
.LCa:
    .string "partial"
.LCs:
    .string "wild"
    .data
    .balign 8
    .globl ws_0
ws_0:
    .quad 1003
    .comm cm_0,16,8
    .comm cm_1,16,8
    .section .text.cd_0,"axG",@progbits,cd_0,comdat
    .weak cd_0
    .type cd_0, @function
cd_0:
    mov $77, %eax
    ret
    .section .text.cd_1,"axG",@progbits,cd_1,comdat
    .weak cd_1
    .type cd_1, @function
cd_1:
    mov $78, %eax
    ret
    .section .note.GNU-stack,"",@progbits
