
typedef unsigned long u64;
extern u64 acc; extern u64 gd_1[4]; extern u64 hid_helper_4(u64);
static u64 sq(u64 x) { return x * 855 + 268; }
static u64 tw(u64 x) { return x ^ 710; }
static u64 (*const tab[2])(u64) = { sq, tw };
static const char *names[] = { "x", "partial", "c4-only" };
static u64 sdata[4] = { 74, 540, 3, 4 };
u64 *pd_4 = &sdata[0];
__thread u64 tc_4 = 279;
__attribute__((constructor)) static void init_c(void) { acc = acc * 3 + 4; }
__attribute__((visibility("hidden"))) u64 hid_helper_4(u64 x) { return x + names[x % 3][0]; }
void f_4(void) {
  u64 v = tab[acc & 1](acc) + *pd_4 + gd_1[1] + hid_helper_4(acc) + names[1][1] + tc_4;
  tc_4 += 1;
  switch (acc & 3) { case 0: v += 11; break; case 1: v ^= 0x55; break; case 2: v *= 3; break; default: v -= 7; }
  acc = acc * 31 + v;
}
u64 gd_4[4] = { 4, 1255, 28, 9 };
