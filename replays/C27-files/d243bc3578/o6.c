
typedef unsigned long u64;
extern u64 acc; extern u64 gd_5[4]; extern u64 hid_helper_6(u64);
static u64 sq(u64 x) { return x * 763 + 970; }
static u64 tw(u64 x) { return x ^ 41; }
static u64 (*const tab[2])(u64) = { sq, tw };
static const char *names[] = { "shared-string", "partial", "c6-only" };
static u64 sdata[4] = { 618, 724, 3, 4 };
u64 *pd_6 = &sdata[2];
__thread u64 tc_6 = 673;
__attribute__((constructor)) static void init_c(void) { acc = acc * 3 + 6; }
__attribute__((visibility("hidden"))) u64 hid_helper_6(u64 x) { return x + names[x % 3][0]; }
void f_6(void) {
  u64 v = tab[acc & 1](acc) + *pd_6 + gd_5[1] + hid_helper_6(acc) + names[1][1] + tc_6;
  tc_6 += 1;
  switch (acc & 3) { case 0: v += 11; break; case 1: v ^= 0x55; break; case 2: v *= 3; break; default: v -= 7; }
  acc = acc * 31 + v;
}
u64 gd_6[4] = { 6, 1362, 42, 9 };
