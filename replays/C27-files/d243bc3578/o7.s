    .text
    .balign 1
    .globl f_7
    .type f_7, @function
f_7:
    mov acc(%rip), %rax
    imul $31, %rax, %rax
    add ldata+8(%rip), %rax
    mov lptr(%rip), %rcx
    add (%rcx), %rax
    lea lbss+40(%rip), %rcx
    and $63, %ecx
    add %rcx, %rax
    add gd_5+16(%rip), %rax
    call lfun
    add ws_0(%rip), %rax
    add ws_2(%rip), %rax
    push %rax
    call cd_1
    pop %rcx
    add %rcx, %rax
    mov %fs:tv_7@tpoff, %rcx
    add %rcx, %rax
    addq $1, %fs:tv_7@tpoff
    lea .LCs(%rip), %rcx
    movzbl 1(%rcx), %ecx
    add %rcx, %rax
    add wk_ptr(%rip), %rax
    add $abs_7, %rax
    mov hp_7(%rip), %rcx
    add (%rcx), %rax
    mov %rax, acc(%rip)
    ret
    .size f_7, .-f_7
lfun:
    add $30921, %rax
    ret
    .globl abs_7
    .set abs_7, 263
init_l:
    mov acc(%rip), %rax
    lea (%rax,%rax,2), %rax
    add $7, %rax
    mov %rax, acc(%rip)
    ret
    .section .init_array,"aw",@init_array
    .balign 8
    .quad init_l
    .data
    .balign 16
    .byte 7
    .balign 8
ldata:
    .quad 38265, 3403, 7
lptr:
    .quad lro+8
    .weak nowhere_weak
wk_ptr:
    .quad nowhere_weak
    .globl gd_7
    .type gd_7, @object
gd_7:
    .quad 7, 30921, 38272, 5
    .size gd_7, 32
    .globl hv_7
    .hidden hv_7
hv_7:
    .quad 3404
hp_7:
    .quad hv_7
    .section .rodata
    .balign 8
    .byte 1
    .balign 8
lro:
    .quad 30922, 38267, 3406
    .bss
    .balign 64
lbss:
    .skip 100
    .section .tdata,"awT",@progbits
    .balign 8
    .globl tv_7
tv_7:
    .quad 30926
    .section .rodata.str1.1,"aMS",@progbits,1
.LCa:
    .string "partial"
.LCs:
    .string "shared-string"
    .data
    .balign 8
    .weak ws_2
ws_2:
    .quad 3007
    .section .text.cd_1,"axG",@progbits,cd_1,comdat
    .weak cd_1
    .type cd_1, @function
cd_1:
    mov $78, %eax
    ret
    .section .note.GNU-stack,"",@progbits
