__thread char tls_fill[25];
