__thread char tls_fill[16];
