#include <stdio.h>
#include <string.h>
#include <stdint.h>
static unsigned long h; static void mix(unsigned long v){ h = (h ^ v) * 1099511628211UL + 7; }
static void mixs(const char *s){ while (*s) mix((unsigned char)*s++); mix(255); }
const char *const s0 = "alphabet"; static const char sa0[] = "alphabet";
const char *const s1 = "\n"; static const char sa1[] = "\n";
const char *const s2 = ""; static const char sa2[] = "";
const char *const s3 = "omega_x"; static const char sa3[] = "omega_x";
const char *const s4 = "gammadelta"; static const char sa4[] = "gammadelta";
const char *const s5 = "gammadelta\n"; static const char sa5[] = "gammadelta\n";
const char *const s6 = "mega"; static const char sa6[] = "mega";
const char *const *const strtab[] = {&s0, &s1, &s2, &s3, &s4, &s5, &s6};
int arr0[7] = {658, 183, 51, 137, 897, 547, 496}; int *parr0 = &arr0[6]; const int carr0[7] = {658, 183, 51, 137, 897, 547, 496}; const int *const pc0 = &carr0[1];
int arr1[2] = {994, 586}; int *parr1 = &arr1[1]; const int carr1[2] = {994, 586}; const int *const pc1 = &carr1[0];
int arr2[8] = {635, 397, 146, 747, 352, 386, 106, 890}; int *parr2 = &arr2[6]; const int carr2[8] = {635, 397, 146, 747, 352, 386, 106, 890}; const int *const pc2 = &carr2[3];
int arr3[3] = {530, 116, 723}; int *parr3 = &arr3[0]; const int carr3[3] = {530, 116, 723}; const int *const pc3 = &carr3[2];
int arr4[2] = {974, 21}; int *parr4 = &arr4[0]; const int carr4[2] = {974, 21}; const int *const pc4 = &carr4[0];
__thread int tl0 = 22; static __thread int stl0; __thread char tbuf0[17];
static int f0(int x){ return x + 1; } static int f1(int x){ return x * 3; } int f2(int x){ return x - 5; }
int (*const ftab[])(int) = { f0, f1, f2 }; int (*volatile fp)(int) = f2;
static int ifimpl(int x){ return x ^ 0x55; } static void *ifres(void){ return (void*)ifimpl; } int ifn(int) __attribute__((ifunc("ifres")));
int (*volatile ifp)(int) = ifn;
static int ctor_ran; __attribute__((constructor)) static void ctor(void){ ctor_ran = 41; }
extern char __executable_start, etext, edata, end; 
__attribute__((weak)) extern int undefined_weak_sym; __attribute__((weak)) int weak_fn(void);
extern int lib_data[4]; extern int lib_fn(int); extern const char *lib_str(void); extern __thread int lib_tls; extern int *lib_tls_addr(void); extern int lib_cb(int (*)(int), int);
extern __thread int gd_a; extern __thread long gd_b[]; extern int tlsd_get(void); extern void tlsd_bump(int); extern long tlsd_sum(void); extern int *tlsd_addr(void); extern int *tlsd_tl0_addr(void); extern long tlsd_gap(void); extern unsigned tlsd_align(void);
extern __thread char tls_fill[];
extern int tlsl_get(void); extern void tlsl_bump(int); extern long tlsl_sum(void); extern long tlsl_gap(void); static unsigned long h2; static void mix2(unsigned long v){ h2 = (h2 ^ v) * 1099511628211UL + 11; }
int main(void){
    mix(tlsd_get()); mix(tlsd_sum()); tlsd_bump(44); mix(tlsd_get()); mix(tlsd_sum()); mix(gd_a); gd_a += 4; mix(tlsd_get());
    mix(tlsd_addr() == &gd_a); mix(tlsd_tl0_addr() == &tl0); mix(tlsd_gap()); mix(tlsd_align()); gd_b[0] = 39; tlsd_bump(3); mix(tlsd_sum());
    tls_fill[0] += 1; mix(tls_fill[0]);
    mix2(tlsl_get()); mix2(tlsl_sum()); tlsl_bump(37); mix2(tlsl_get()); mix2(tlsl_sum()); mix2(tlsl_gap()); tlsl_bump(3); mix2(tlsl_sum());
    for (unsigned i = 0; i < 7; i++) mixs(*strtab[i]);
    mixs(sa0); mix(strcmp(s0, sa0) == 0);
    mixs(sa1); mix(strcmp(s1, sa1) == 0);
    mixs(sa2); mix(strcmp(s2, sa2) == 0);
    mixs(sa3); mix(strcmp(s3, sa3) == 0);
    mixs(sa4); mix(strcmp(s4, sa4) == 0);
    mixs(sa5); mix(strcmp(s5, sa5) == 0);
    mixs(sa6); mix(strcmp(s6, sa6) == 0);
    mix(*parr0); mix(*pc0); mix(parr0 - arr0); mix(pc0 - carr0); arr0[0] += 3; mix(arr0[0]);
    mix(*parr1); mix(*pc1); mix(parr1 - arr1); mix(pc1 - carr1); arr1[0] += 3; mix(arr1[0]);
    mix(*parr2); mix(*pc2); mix(parr2 - arr2); mix(pc2 - carr2); arr2[0] += 3; mix(arr2[0]);
    mix(*parr3); mix(*pc3); mix(parr3 - arr3); mix(pc3 - carr3); arr3[0] += 3; mix(arr3[0]);
    mix(*parr4); mix(*pc4); mix(parr4 - arr4); mix(pc4 - carr4); arr4[0] += 3; mix(arr4[0]);
    mix(tl0); stl0 += tl0 + 2; mix(stl0); tbuf0[0] = 9; mix(tbuf0[0]); mix((uintptr_t)&tl0 % __alignof__(int));
    for (int i = 0; i < 3; i++) mix(ftab[i](i + 10)); mix(fp(100)); mix(fp == f2);
    mix(ifn(7)); mix(ifp(9)); mix(ifp == ifn);
    mix(ctor_ran); mix(&undefined_weak_sym == 0); mix(weak_fn == 0);
    mix(&etext > &__executable_start); mix(&end >= &edata);
    mix(lib_data[1]); lib_data[2] = 77; mix(lib_fn(5)); mixs(lib_str()); mix(lib_tls); lib_tls = 5; mix(*lib_tls_addr()); mix(lib_tls_addr() == &lib_tls);
    mix(lib_cb(f2, 50)); mix(lib_cb(ifn, 3));
    printf("%lx\n%lx\n", h, h2); return (int)(h & 63); }
