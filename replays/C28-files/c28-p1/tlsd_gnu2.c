#include <stdint.h>
__thread int gd_a = 269; __thread long gd_b[2] = {269, 187}; __thread char gd_z[64];
extern __thread int tl0; extern __thread int lib_tls;
int tlsd_get(void){ return gd_a * 3 + gd_z[0]; }
void tlsd_bump(int v){ gd_a += v; gd_b[1] += tl0; gd_z[0] += 2; lib_tls += v; }
long tlsd_sum(void){ long t = gd_z[0]; for (int i = 0; i < 2; i++) t = t * 31 + gd_b[i]; return t + lib_tls; }
int *tlsd_addr(void){ return &gd_a; } int *tlsd_tl0_addr(void){ return &tl0; } long tlsd_gap(void){ return (char*)&gd_b[1] - (char*)&gd_b[0]; }
unsigned tlsd_align(void){ return (unsigned)((uintptr_t)&gd_b[0] % __alignof__(long)); }
