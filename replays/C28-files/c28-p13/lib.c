int lib_data[4] = {11, 22, 33, 44}; __thread int lib_tls = 3; static const char ls[] = "libstring";
int lib_fn(int x){ return x + lib_data[2]; } const char *lib_str(void){ return ls; } int *lib_tls_addr(void){ return &lib_tls; }
int lib_cb(int (*f)(int), int v){ return f(v) + 1; }
