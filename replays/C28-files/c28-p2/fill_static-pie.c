__thread char tls_fill[21];
