#include <stdint.h>
static __thread struct { long lo[8]; int a; long z; char buf[5]; long hi[8]; } sd = { .lo = {1, 2, 3, 4, 5, 6, 7, 8}, .a = 404, .z = 38, .hi = {9, 8, 7, 6, 5, 4, 3, 2} };
static __thread struct { long lo[8]; long z; char buf[1]; long hi[8]; } sb;
int tlsl_get(void){ return sd.a * 3 + (int)sb.z + (int)sd.z; }
void tlsl_bump(int v){ sd.a ^= v; sd.buf[4] = (char)v; sb.z += sd.z + 1; sb.buf[0] += 2; }
long tlsl_sum(void){ long t = sd.buf[4] + sd.buf[0] + sb.z + sb.buf[0]; for (int i = 0; i < 8; i++) t = t * 31 + sd.lo[i] + sd.hi[i] + sb.lo[i] + sb.hi[i]; return t; }
long tlsl_gap(void){ return ((char*)&sd.z - (char*)&sd.a) + ((uintptr_t)&sb.z % __alignof__(long)); }
