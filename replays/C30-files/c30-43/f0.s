
    .globl _start
    .text
_start:
    lea __preinit_array_start(%rip), %rbx
    lea __preinit_array_end(%rip), %r12
1:  cmp %r12, %rbx
    jae 2f
    call *(%rbx)
    add $8, %rbx
    jmp 1b
2:  lea __init_array_start(%rip), %rbx
    lea __init_array_end(%rip), %r12
3:  cmp %r12, %rbx
    jae 4f
    call *(%rbx)
    add $8, %rbx
    jmp 3b
4:  lea __fini_array_end(%rip), %rbx
    lea __fini_array_start(%rip), %r12
5:  cmp %r12, %rbx
    jbe 6f
    sub $8, %rbx
    call *(%rbx)
    jmp 5b
6:  mov $1, %eax
    mov $1, %edi
    lea buf(%rip), %rsi
    mov pos(%rip), %rdx
    syscall
    mov $60, %eax
    xor %edi, %edi
    syscall
    .bss
    .globl buf, pos
buf: .skip 4096
pos: .skip 8
    .text
    .globl fn_1
    .type fn_1, @function
fn_1:
    mov pos(%rip), %rax
    lea buf(%rip), %rcx
    movb $1, (%rcx,%rax)
    incq pos(%rip)
    ret
    .size fn_1, .-fn_1
    .text
    .globl fn_2
    .type fn_2, @function
fn_2:
    mov pos(%rip), %rax
    lea buf(%rip), %rcx
    movb $2, (%rcx,%rax)
    incq pos(%rip)
    ret
    .size fn_2, .-fn_2
    .text
    .globl fn_3
    .type fn_3, @function
fn_3:
    mov pos(%rip), %rax
    lea buf(%rip), %rcx
    movb $3, (%rcx,%rax)
    incq pos(%rip)
    ret
    .size fn_3, .-fn_3
    .section .ctors.1,"aw",@progbits
    .balign 8
    .quad fn_1
    .quad fn_2
    .quad fn_3
    .text
    .globl fn_11
    .type fn_11, @function
fn_11:
    mov pos(%rip), %rax
    lea buf(%rip), %rcx
    movb $11, (%rcx,%rax)
    incq pos(%rip)
    ret
    .size fn_11, .-fn_11
    .section .init_array.65534,"aw",@init_array
    .balign 8
    .quad fn_11
    .text
    .globl fn_4
    .type fn_4, @function
fn_4:
    mov pos(%rip), %rax
    lea buf(%rip), %rcx
    movb $4, (%rcx,%rax)
    incq pos(%rip)
    ret
    .size fn_4, .-fn_4
    .section .ctors.1,"aw",@progbits
    .balign 8
    .quad fn_4
    .text
    .globl fn_12
    .type fn_12, @function
fn_12:
    mov pos(%rip), %rax
    lea buf(%rip), %rcx
    movb $12, (%rcx,%rax)
    incq pos(%rip)
    ret
    .size fn_12, .-fn_12
    .text
    .globl fn_13
    .type fn_13, @function
fn_13:
    mov pos(%rip), %rax
    lea buf(%rip), %rcx
    movb $13, (%rcx,%rax)
    incq pos(%rip)
    ret
    .size fn_13, .-fn_13
    .section .dtors.65536,"aw",@progbits
    .balign 8
    .quad fn_12
    .quad fn_13
    .text
    .globl fn_8
    .type fn_8, @function
fn_8:
    mov pos(%rip), %rax
    lea buf(%rip), %rcx
    movb $8, (%rcx,%rax)
    incq pos(%rip)
    ret
    .size fn_8, .-fn_8
    .text
    .globl fn_9
    .type fn_9, @function
fn_9:
    mov pos(%rip), %rax
    lea buf(%rip), %rcx
    movb $9, (%rcx,%rax)
    incq pos(%rip)
    ret
    .size fn_9, .-fn_9
    .text
    .globl fn_10
    .type fn_10, @function
fn_10:
    mov pos(%rip), %rax
    lea buf(%rip), %rcx
    movb $10, (%rcx,%rax)
    incq pos(%rip)
    ret
    .size fn_10, .-fn_10
    .section .init_array.70000,"aw",@init_array
    .balign 8
    .quad fn_8
    .quad fn_9
    .quad fn_10
    .text
    .globl fn_5
    .type fn_5, @function
fn_5:
    mov pos(%rip), %rax
    lea buf(%rip), %rcx
    movb $5, (%rcx,%rax)
    incq pos(%rip)
    ret
    .size fn_5, .-fn_5
    .text
    .globl fn_6
    .type fn_6, @function
fn_6:
    mov pos(%rip), %rax
    lea buf(%rip), %rcx
    movb $6, (%rcx,%rax)
    incq pos(%rip)
    ret
    .size fn_6, .-fn_6
    .section .dtors.65535,"aw",@progbits
    .balign 8
    .quad fn_5
    .quad fn_6
