    .text
    .globl fn_14
    .type fn_14, @function
fn_14:
    mov pos(%rip), %rax
    lea buf(%rip), %rcx
    movb $14, (%rcx,%rax)
    incq pos(%rip)
    ret
    .size fn_14, .-fn_14
    .section .init_array,"aw",@init_array
    .balign 8
    .quad fn_14
    .text
    .globl fn_7
    .type fn_7, @function
fn_7:
    mov pos(%rip), %rax
    lea buf(%rip), %rcx
    movb $7, (%rcx,%rax)
    incq pos(%rip)
    ret
    .size fn_7, .-fn_7
    .section .fini_array.32768,"aw",@fini_array
    .balign 8
    .quad fn_7
