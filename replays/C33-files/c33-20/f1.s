    .data
    .weak sym_10
    .balign 8
sym_10:
    .quad 6510516211317538826
