    .globl present_2
    .data
    .balign 8
present_2:
    .quad 6510516211317669887
    .data
    .globl sym_0
    .balign 8
sym_0:
    .quad 6510516211317604352
    .data
    .globl __wrap_sym_10
    .balign 8
__wrap_sym_10:
    .quad 6510516211317605362
