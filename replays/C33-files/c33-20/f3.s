    .globl present_3
    .data
    .balign 8
present_3:
    .quad 6510516211317735423
    .data
    .balign 8
    .globl ref_3_10
ref_3_10:
    .quad sym_10
