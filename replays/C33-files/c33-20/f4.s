    .globl present_4
    .data
    .balign 8
present_4:
    .quad 6510516211317800959
    .data
    .weak sym_0
    .balign 8
sym_0:
    .quad 6510516211317735424
    .data
    .globl sym_10
    .balign 8
sym_10:
    .quad 6510516211317735434
