    .globl present_3
    .data
    .balign 8
present_3:
    .quad 6510516211317735423
    .data
    .weak sym_0
    .balign 8
sym_0:
    .quad 6510516211317669888
