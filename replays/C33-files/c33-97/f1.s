    .globl present_1
    .data
    .balign 8
present_1:
    .quad 6510516211317604351
    .data
    .weak sym_10
    .balign 8
sym_10:
    .quad 6510516211317538826
