    .globl present_2
    .data
    .balign 8
present_2:
    .quad 6510516211317669887
    .data
    .weak sym_10
    .balign 8
sym_10:
    .quad 6510516211317604362
