    .globl present_3
    .data
    .balign 8
present_3:
    .quad 6510516211317735423
    .data
    .globl __wrap_sym_10
    .balign 8
__wrap_sym_10:
    .quad 6510516211317670898
    .data
    .balign 8
    .globl ref_3_2010
ref_3_2010:
    .quad __real_sym_10
