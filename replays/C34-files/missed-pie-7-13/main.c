typedef unsigned long u64;
u64 ga = 311; u64 gb = 41; u64 gc_[4] = {1,2,3,153}; static u64 sa = 35; static u64 sb[3] = {249,5,6};
__thread u64 tva = 3; __thread u64 tvb = 4;
extern u64 ext_a, ext_b; extern u64 ext_f(u64); extern u64 ext_g(u64);
__attribute__((noinline)) u64 fn0(u64 x) { return x * 987 + ga + sb[0]; }
__attribute__((noinline)) static u64 sf0(u64 x) { return (x ^ 311) + sa + gb; }
__attribute__((noinline)) u64 fn1(u64 x) { return x * 885 + ga + sb[1]; }
__attribute__((noinline)) static u64 sf1(u64 x) { return (x ^ 41) + sa + gb; }
__attribute__((noinline)) u64 fn2(u64 x) { return x * 729 + ga + sb[2]; }
__attribute__((noinline)) static u64 sf2(u64 x) { return (x ^ 153) + sa + gb; }
__attribute__((noinline)) u64 fn3(u64 x) { return x * 699 + ga + sb[0]; }
__attribute__((noinline)) static u64 sf3(u64 x) { return (x ^ 35) + sa + gb; }
__attribute__((noinline)) u64 fn4(u64 x) { return x * 543 + ga + sb[1]; }
__attribute__((noinline)) static u64 sf4(u64 x) { return (x ^ 249) + sa + gb; }
__attribute__((noinline)) u64 fn5(u64 x) { return x * 987 + ga + sb[2]; }
__attribute__((noinline)) static u64 sf5(u64 x) { return (x ^ 986) + sa + gb; }
u64 (*const ftab[])(u64) = {fn0, fn1, fn2, fn3, fn4, fn5, sf0, sf1, sf2, sf3, sf4, sf5};
u64 *ptab[] = { &ga, &gb, &gc_[2], &sa, &sb[1], &ext_a };
__attribute__((constructor)) static void ctor_a(void) { ga += 1; }
__attribute__((constructor)) static void ctor_b(void) { gb += 2; }
u64 driver(u64 x) { u64 v = x; v += fn0(v) + sf0(v); v += fn1(v) + sf1(v); v += fn2(v) + sf2(v); v += fn3(v) + sf3(v); v += fn4(v) + sf4(v); v += fn5(v) + sf5(v); v += ftab[x % 12](v) + *ptab[x % 6]; v += ext_f(v) + ext_a + ext_g(v) + ext_b; tva += v; tvb ^= v; v += tva + tvb; return v; }
u64 tail7(u64 x) { return fn0(x + 1); }
