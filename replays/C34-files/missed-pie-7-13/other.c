typedef unsigned long u64;
u64 ext_a = 11; u64 ext_b = 22;
__attribute__((noinline)) u64 ext_f(u64 x) { return x + ext_a; }
__attribute__((noinline)) u64 ext_g(u64 x) { return x ^ ext_b; }
u64 driver(u64);
void _start(void) { u64 v = driver(5); __asm__ volatile("syscall" :: "a"(60), "D"(v & 0x7f)); }
