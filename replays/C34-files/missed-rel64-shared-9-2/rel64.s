    .data
    .p2align 3
    .globl r64_a
    .protected r64_a
    .type r64_a,@object
r64_a:
    .quad 252
    .size r64_a, 8
    .globl r64_b
    .protected r64_b
    .type r64_b,@object
r64_b:
    .quad 559
    .size r64_b, 8
    .globl rel64_tab
    .type rel64_tab,@object
rel64_tab:
.Lrel64_tab:
    .quad r64_b - . -8
    .quad r64_f - . +0
    .quad r64_a - . +0
    .quad r64_a@GOTOFF -8
    .quad r64_f@GOTOFF +0
    .quad r64_b@GOTOFF +0
    .quad r64_f - . +0
    .quad r64_f@GOTOFF +0
    .quad r64_f@GOTOFF +0
    .size rel64_tab, . - rel64_tab
    .text
    .globl r64_f
    .protected r64_f
    .type r64_f,@function
r64_f:
.Lr64_f:
    lea .Lrel64_tab(%rip), %rax
    lea _GLOBAL_OFFSET_TABLE_(%rip), %rdx
    add (%rax), %rdx
    ret
    .size r64_f, . - r64_f
    .section .init_array,"aw"
    .p2align 3
    .quad .Lr64_f
