typedef unsigned long u64;
u64 ga = 433; u64 gb = 982; u64 gc_[4] = {1,2,3,255}; static u64 sa = 393; static u64 sb[3] = {969,5,6};
__thread u64 tva = 3; __thread u64 tvb = 4;
extern u64 ext_a, ext_b; extern u64 ext_f(u64); extern u64 ext_g(u64);
__attribute__((noinline)) u64 fn0(u64 x) { return x * 151 + ga + sb[0]; }
__attribute__((noinline)) static u64 sf0(u64 x) { return (x ^ 433) + sa + gb; }
__attribute__((noinline)) u64 fn1(u64 x) { return x * 719 + ga + sb[1]; }
__attribute__((noinline)) static u64 sf1(u64 x) { return (x ^ 982) + sa + gb; }
__attribute__((noinline)) u64 fn2(u64 x) { return x * 353 + ga + sb[2]; }
__attribute__((noinline)) static u64 sf2(u64 x) { return (x ^ 255) + sa + gb; }
u64 (*const ftab[])(u64) = {fn0, fn1, fn2, sf0, sf1, sf2};
u64 *ptab[] = { &ga, &gb, &gc_[2], &sa, &sb[1], &ext_a };
__attribute__((constructor)) static void ctor_a(void) { ga += 1; }
__attribute__((constructor)) static void ctor_b(void) { gb += 2; }
u64 driver(u64 x) { u64 v = x; v += fn0(v) + sf0(v); v += fn1(v) + sf1(v); v += fn2(v) + sf2(v); v += ftab[x % 6](v) + *ptab[x % 6]; v += ext_f(v) + ext_a + ext_g(v) + ext_b; tva += v; tvb ^= v; v += tva + tvb; return v; }
u64 tail5(u64 x) { return fn0(x + 1); }
