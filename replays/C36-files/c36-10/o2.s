.globl _start
.text
_start:
 mov $60,%eax
 xor %edi,%edi
 syscall
.section .note.GNU-stack,"x",@progbits
