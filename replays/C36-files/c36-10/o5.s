.text
 nop
.section .note.GNU-stack,"x",@progbits
