.text
 nop
.section .note.gnu.property,"a"
.align 8
.section .note.GNU-stack,"",@progbits
