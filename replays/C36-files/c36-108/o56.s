.globl _start
.text
_start:
 mov $60,%eax
 xor %edi,%edi
 syscall
.section .note.gnu.property,"a"
.align 8
 .long 4
 .long 16
 .long 5
 .asciz "GNU"
 .long 0x3
 .long 4
 .long 0x1
 .zero 4
.section .note.GNU-stack,"",@progbits
