.text
 nop
.section .note.gnu.property,"a"
.align 8
 .long 4
 .long 16
 .long 5
 .asciz "GNU"
 .long 0x3
 .long 4
 .long 0x2
 .zero 4
.section .note.GNU-stack,"",@progbits
