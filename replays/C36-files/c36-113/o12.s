.text
 nop
.section .note.gnu.property,"a"
.align 8
 .long 4
 .long 16
 .long 5
 .asciz "GNU"
 .long 0xc0000002
 .long 4
 .long 0x3
 .zero 4
.section .note.GNU-stack,"",@progbits
