.text
 nop
.section .note.gnu.property,"a"
.align 8
 .long 4
 .long 32
 .long 5
 .asciz "GNU"
 .long 0xc0010002
 .long 4
 .long 0x80000000
 .zero 4
 .long 0xc0010001
 .long 4
 .long 0x8
 .zero 4
