.text
 nop
.section .note.gnu.property,"a"
.align 8
 .long 4
 .long 80
 .long 5
 .asciz "GNU"
 .long 0xc0010001
 .long 4
 .long 0x10
 .zero 4
 .long 0xc0000002
 .long 4
 .long 0x7
 .zero 4
 .long 0xc0010002
 .long 4
 .long 0x4
 .zero 4
 .long 0xb000ffff
 .long 4
 .long 0x0
 .zero 4
 .long 0xc0000002
 .long 4
 .long 0x1
 .zero 4
