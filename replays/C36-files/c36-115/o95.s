.text
 nop
.section .note.gnu.property,"a"
.align 8
