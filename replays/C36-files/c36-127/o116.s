.globl _start
.text
_start:
 mov $60,%eax
 xor %edi,%edi
 syscall
.section .note.gnu.property,"a"
.align 8
 .long 4
 .long 64
 .long 5
 .asciz "GNU"
 .long 0xc0000002
 .long 4
 .long 0x3
 .zero 4
 .long 0xc0010002
 .long 4
 .long 0x4
 .zero 4
 .long 0xc0008002
 .long 4
 .long 0x10
 .zero 4
 .long 0xc0010000
 .long 4
 .long 0x80000000
 .zero 4
.section .note.GNU-stack,"x",@progbits
