.text
 nop
.section .note.gnu.property,"a"
.align 8
 .long 4
 .long 48
 .long 5
 .asciz "GNU"
 .long 0xc0000002
 .long 4
 .long 0x3
 .zero 4
 .long 0xc0010002
 .long 4
 .long 0x2
 .zero 4
 .long 0xc0008002
 .long 4
 .long 0x8
 .zero 4
.section .note.GNU-stack,"",@progbits
