.globl _start
.text
_start:
 mov $60,%eax
 xor %edi,%edi
 syscall
