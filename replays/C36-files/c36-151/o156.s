.text
 nop
.section .note.gnu.property,"a"
.align 8
 .long 4
 .long 32
 .long 5
 .asciz "GNU"
 .long 0xc0010001
 .long 4
 .long 0x3
 .zero 4
 .long 0xc0010001
 .long 4
 .long 0xf0
 .zero 4
.section .note.GNU-stack,"x",@progbits
