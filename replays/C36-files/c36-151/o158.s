.text
 nop
.section .note.gnu.property,"a"
.align 8
 .long 4
 .long 16
 .long 5
 .asciz "GNU"
 .long 0xc0010001
 .long 4
 .long 0x1
 .zero 4
