.globl _start
.text
_start:
 mov $60,%eax
 xor %edi,%edi
 syscall
.section .note.gnu.property,"a"
.align 8
 .long 4
 .long 48
 .long 5
 .asciz "GNU"
 .long 0xc0010001
 .long 4
 .long 0x4
 .zero 4
 .long 0xc0000002
 .long 4
 .long 0x1
 .zero 4
 .long 0xb0007fff
 .long 4
 .long 0x0
 .zero 4
.section .note.GNU-stack,"",@progbits
