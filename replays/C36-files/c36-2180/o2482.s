.globl _start
.text
_start:
 mov $60,%eax
 xor %edi,%edi
 syscall
.section .note.gnu.property,"a"
.align 8
 .long 4
 .long 32
 .long 5
 .asciz "GNU"
 .long 0xc0010002
 .long 4
 .long 0x2
 .zero 4
 .long 0xb000ffff
 .long 4
 .long 0x0
 .zero 4
.section .note.GNU-stack,"",@progbits
