.text
 nop
.section .note.GNU-stack,"",@progbits
