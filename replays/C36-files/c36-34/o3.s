.text
 nop
