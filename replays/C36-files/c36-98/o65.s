.text
 nop
.section .note.gnu.property,"a"
.align 8
 .long 4
 .long 8
 .long 5
 .asciz "GNU"
 .long 0x2
 .long 0
.section .note.GNU-stack,"",@progbits
