    .globl present_0
    .data
    .balign 8
present_0:
    .quad 6510516211317538815
    .text
    .globl _start
_start:
    mov $60, %eax
    xor %edi, %edi
    syscall
    .data
    .balign 8
    .globl ref_0_103
ref_0_103:
    .quad sym_103
