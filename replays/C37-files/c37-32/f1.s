    .globl present_1
    .data
    .balign 8
present_1:
    .quad 6510516211317604351
    .data
    .globl sym_0
    .balign 8
sym_0:
    .quad 6510516211317538816
    .data
    .globl sym_101
    .balign 8
sym_101:
    .quad 6510516211317538917
