    .data
    .globl sym_0
    .balign 8
sym_0:
    .quad 6510516211317604352
