    .globl present_3
    .data
    .balign 8
present_3:
    .quad 6510516211317735423
    .data
    .balign 8
    .globl ref_3_0
ref_3_0:
    .quad sym_0
    .data
    .globl sym_103
    .balign 8
sym_103:
    .quad 6510516211317669991
