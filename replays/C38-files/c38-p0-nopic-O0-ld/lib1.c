int lfunc_0(void){ return 130; }
void *addr_lfunc_0(void){ return (void*)lfunc_0; }
extern int lfunc_0(void); void *l1_addr_lfunc_0(void){ return (void*)lfunc_0; }
int ldata_1[16] = { 21 };
const void *addr_ldata_1(void){ return ldata_1; } int read_ldata_1(void){ return ldata_1[0]; }
extern int ldata_1[]; const void *l1_addr_ldata_1(void){ return ldata_1; } int l1_read_ldata_1(void){ return ldata_1[0]; }
extern int edata_2[]; void *l1_addr_edata_2(void){ return edata_2; } int l1_read_edata_2(void){ return edata_2[0]; }
static int impl_lifunc_3(void){ return 33; } static void *res_lifunc_3(void){ return (void*)impl_lifunc_3; } int lifunc_3(void) __attribute__((ifunc("res_lifunc_3"))); void *addr_lifunc_3(void){ return (void*)lifunc_3; }
const int ldata_ro_4[16] = { 181 };
const void *addr_ldata_ro_4(void){ return ldata_ro_4; } int read_ldata_ro_4(void){ return ldata_ro_4[0]; }
extern const int ldata_ro_4[]; const void *l1_addr_ldata_ro_4(void){ return ldata_ro_4; } int l1_read_ldata_ro_4(void){ return ldata_ro_4[0]; }
extern int efunc_5(void); void *l1_addr_efunc_5(void){ return (void*)efunc_5; } int l1_call_efunc_5(void){ return efunc_5(); }
#ifdef EIFUNC_FROM_LIB
extern int eifunc_6(void); void *l1_addr_eifunc_6(void){ return (void*)eifunc_6; } int l1_call_eifunc_6(void){ return eifunc_6(); }
#endif
int lalias_sw_7[16]; extern __typeof(lalias_sw_7) w_lalias_sw_7 __attribute__((weak, alias("lalias_sw_7")));
void *addr_lalias_sw_7(void){ return (void*)w_lalias_sw_7; } int read_lalias_sw_7(void){ return w_lalias_sw_7[0]; } void write_lalias_sw_7(int v){ w_lalias_sw_7[0] = v; } void *waddr_lalias_sw_7(void){ return (void*)w_lalias_sw_7; }
int lalias_ts_8[16]; extern __typeof(lalias_ts_8) t_lalias_ts_8 __attribute__((alias("lalias_ts_8")));
void *addr_lalias_ts_8(void){ return (void*)lalias_ts_8; } int read_lalias_ts_8(void){ return lalias_ts_8[0]; } void write_lalias_ts_8(int v){ lalias_ts_8[0] = v; } void *waddr_lalias_ts_8(void){ return (void*)lalias_ts_8; }
