#include <stdio.h>
static int bad; static void fail(const char *what){ printf("MISMATCH %s\n", what); bad++; }
extern int lfunc_0(void); extern void *addr_lfunc_0(void); extern void *l1_addr_lfunc_0(void); int (*volatile fp_lfunc_0)(void) = lfunc_0;
extern int ldata_1[]; extern const void *addr_ldata_1(void); extern const void *l1_addr_ldata_1(void); extern int read_ldata_1(void); extern int l1_read_ldata_1(void); int *volatile dp_ldata_1 = ldata_1;
int edata_2[2] = { 134 }; extern void *l1_addr_edata_2(void); extern int l1_read_edata_2(void);
extern int lifunc_3(void); extern void *addr_lifunc_3(void); int (*volatile fp_lifunc_3)(void) = lifunc_3;
extern const int ldata_ro_4[]; extern const void *addr_ldata_ro_4(void); extern const void *l1_addr_ldata_ro_4(void); extern int read_ldata_ro_4(void); extern int l1_read_ldata_ro_4(void); const int *volatile dp_ldata_ro_4 = ldata_ro_4;
int efunc_5(void){ return 95; } extern void *l1_addr_efunc_5(void); extern int l1_call_efunc_5(void);
static int impl_eifunc_6(void){ return 117; } static void *res_eifunc_6(void){ return (void*)impl_eifunc_6; } int eifunc_6(void) __attribute__((ifunc("res_eifunc_6"))); extern void *l1_addr_eifunc_6(void); extern int l1_call_eifunc_6(void); int (*volatile fp_eifunc_6)(void) = eifunc_6;
extern int lalias_sw_7[]; extern void *addr_lalias_sw_7(void); extern void *waddr_lalias_sw_7(void); extern int read_lalias_sw_7(void); extern void write_lalias_sw_7(int);
extern int t_lalias_ts_8[]; extern void *addr_lalias_ts_8(void); extern void *waddr_lalias_ts_8(void); extern int read_lalias_ts_8(void); extern void write_lalias_ts_8(int);
int main(void){
    if ((void*)lfunc_0 != addr_lfunc_0()) fail("lfunc_0: exe vs defining library");
    if ((void*)lfunc_0 != l1_addr_lfunc_0()) fail("lfunc_0: exe vs lib1");
    if ((void*)fp_lfunc_0 != (void*)lfunc_0) fail("lfunc_0: data pointer vs code reference in exe");
    if (fp_lfunc_0() != 130 || lfunc_0() != 130) fail("lfunc_0: call result");
    if ((const void*)ldata_1 != addr_ldata_1()) fail("ldata_1: exe vs defining library");
    if ((const void*)ldata_1 != l1_addr_ldata_1()) fail("ldata_1: exe vs lib1");
    if ((const void*)dp_ldata_1 != (const void*)ldata_1) fail("ldata_1: data pointer vs code reference in exe");
    if (ldata_1[0] != 21 || read_ldata_1() != 21) fail("ldata_1: initial value");
    ldata_1[0] = 1021; if (read_ldata_1() != 1021 || l1_read_ldata_1() != 1021) fail("ldata_1: write through exe not seen by library");
    if ((void*)edata_2 != l1_addr_edata_2()) fail("edata_2: exe data seen from lib1");
    edata_2[0] = 139; if (l1_read_edata_2() != 139) fail("edata_2: write in exe not seen by lib1");
    if ((void*)lifunc_3 != addr_lifunc_3()) fail("lifunc_3: library ifunc address exe vs library");
    if ((void*)fp_lifunc_3 != (void*)lifunc_3) fail("lifunc_3: library ifunc address data vs code in exe");
    if (lifunc_3() != 33 || fp_lifunc_3() != 33) fail("lifunc_3: ifunc call result");
    if ((const void*)ldata_ro_4 != addr_ldata_ro_4()) fail("ldata_ro_4: exe vs defining library");
    if ((const void*)ldata_ro_4 != l1_addr_ldata_ro_4()) fail("ldata_ro_4: exe vs lib1");
    if ((const void*)dp_ldata_ro_4 != (const void*)ldata_ro_4) fail("ldata_ro_4: data pointer vs code reference in exe");
    if (ldata_ro_4[0] != 181 || read_ldata_ro_4() != 181) fail("ldata_ro_4: initial value");
    if ((void*)efunc_5 != l1_addr_efunc_5()) fail("efunc_5: exe function seen from lib1");
    if (l1_call_efunc_5() != 95) fail("efunc_5: call from lib1");
    if ((void*)fp_eifunc_6 != (void*)eifunc_6) fail("eifunc_6: ifunc address in data vs code in exe");
    
#ifdef EIFUNC_FROM_LIB
    if ((void*)eifunc_6 != l1_addr_eifunc_6()) fail("eifunc_6: exe ifunc address seen from lib1"); if (l1_call_eifunc_6() != 117) fail("eifunc_6: ifunc call from lib1");
#endif
    if (eifunc_6() != 117 || fp_eifunc_6() != 117) fail("eifunc_6: ifunc call result");
    if ((void*)lalias_sw_7 != addr_lalias_sw_7() || (void*)lalias_sw_7 != waddr_lalias_sw_7()) fail("lalias_sw_7: symbol in exe vs its alias used by the library");
    if (lalias_sw_7[0] != 0 || read_lalias_sw_7() != 0) fail("lalias_sw_7: initial value");
    lalias_sw_7[0] = 1115; if (read_lalias_sw_7() != 1115) fail("lalias_sw_7: write in exe not seen by the library through the alias");
    write_lalias_sw_7(122); if (lalias_sw_7[0] != 122) fail("lalias_sw_7: write by the library through the alias not seen in exe");
    if ((void*)t_lalias_ts_8 != addr_lalias_ts_8() || (void*)t_lalias_ts_8 != waddr_lalias_ts_8()) fail("lalias_ts_8: symbol in exe vs its alias used by the library");
    if (t_lalias_ts_8[0] != 0 || read_lalias_ts_8() != 0) fail("lalias_ts_8: initial value");
    t_lalias_ts_8[0] = 1106; if (read_lalias_ts_8() != 1106) fail("lalias_ts_8: write in exe not seen by the library through the alias");
    write_lalias_ts_8(113); if (t_lalias_ts_8[0] != 113) fail("lalias_ts_8: write by the library through the alias not seen in exe");
    if (!bad) printf("OK\n"); return bad ? 1 : 0; }
