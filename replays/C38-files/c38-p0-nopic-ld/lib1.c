int lfunc_0(void){ return 12; }
void *addr_lfunc_0(void){ return (void*)lfunc_0; }
extern int lfunc_0(void); void *l1_addr_lfunc_0(void){ return (void*)lfunc_0; }
int ldata_1[2] = { 127 };
const void *addr_ldata_1(void){ return ldata_1; } int read_ldata_1(void){ return ldata_1[0]; }
extern int ldata_1[]; const void *l1_addr_ldata_1(void){ return ldata_1; } int l1_read_ldata_1(void){ return ldata_1[0]; }
int ldata_bss_2[4];
const void *addr_ldata_bss_2(void){ return ldata_bss_2; } int read_ldata_bss_2(void){ return ldata_bss_2[0]; }
extern int ldata_bss_2[]; const void *l1_addr_ldata_bss_2(void){ return ldata_bss_2; } int l1_read_ldata_bss_2(void){ return ldata_bss_2[0]; }
#ifdef EIFUNC_FROM_LIB
extern int eifunc_3(void); void *l1_addr_eifunc_3(void){ return (void*)eifunc_3; } int l1_call_eifunc_3(void){ return eifunc_3(); }
#endif
extern int l2func_4(void); void *l1_addr_l2func_4(void){ return (void*)l2func_4; }
extern int efunc_5(void); void *l1_addr_efunc_5(void){ return (void*)efunc_5; } int l1_call_efunc_5(void){ return efunc_5(); }
#ifdef EIFUNC_FROM_LIB
extern int eifunc_6(void); void *l1_addr_eifunc_6(void){ return (void*)eifunc_6; } int l1_call_eifunc_6(void){ return eifunc_6(); }
#endif
int lalias_sw_7 = 68; extern __typeof(lalias_sw_7) w_lalias_sw_7 __attribute__((weak, alias("lalias_sw_7")));
void *addr_lalias_sw_7(void){ return (void*)&w_lalias_sw_7; } int read_lalias_sw_7(void){ return w_lalias_sw_7; } void write_lalias_sw_7(int v){ w_lalias_sw_7 = v; } void *waddr_lalias_sw_7(void){ return (void*)&w_lalias_sw_7; }
int lalias_ts_8[16]; extern __typeof(lalias_ts_8) t_lalias_ts_8 __attribute__((alias("lalias_ts_8")));
void *addr_lalias_ts_8(void){ return (void*)lalias_ts_8; } int read_lalias_ts_8(void){ return lalias_ts_8[0]; } void write_lalias_ts_8(int v){ lalias_ts_8[0] = v; } void *waddr_lalias_ts_8(void){ return (void*)lalias_ts_8; }
