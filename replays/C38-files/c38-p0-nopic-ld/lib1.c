int lfunc_0(void){ return 194; }
void *addr_lfunc_0(void){ return (void*)lfunc_0; }
extern int lfunc_0(void); void *l1_addr_lfunc_0(void){ return (void*)lfunc_0; }
int ldata_1[16] = { 83 };
const void *addr_ldata_1(void){ return ldata_1; } int read_ldata_1(void){ return ldata_1[0]; }
extern int ldata_1[]; const void *l1_addr_ldata_1(void){ return ldata_1; } int l1_read_ldata_1(void){ return ldata_1[0]; }
extern int edata_2[]; void *l1_addr_edata_2(void){ return edata_2; } int l1_read_edata_2(void){ return edata_2[0]; }
const int ldata_ro_3[16] = { 173 };
const void *addr_ldata_ro_3(void){ return ldata_ro_3; } int read_ldata_ro_3(void){ return ldata_ro_3[0]; }
extern const int ldata_ro_3[]; const void *l1_addr_ldata_ro_3(void){ return ldata_ro_3; } int l1_read_ldata_ro_3(void){ return ldata_ro_3[0]; }
extern int efunc_4(void); void *l1_addr_efunc_4(void){ return (void*)efunc_4; } int l1_call_efunc_4(void){ return efunc_4(); }
#ifdef EIFUNC_FROM_LIB
extern int eifunc_5(void); void *l1_addr_eifunc_5(void){ return (void*)eifunc_5; } int l1_call_eifunc_5(void){ return eifunc_5(); }
#endif
int lalias_sw_6[16]; extern __typeof(lalias_sw_6) w_lalias_sw_6 __attribute__((weak, alias("lalias_sw_6")));
void *addr_lalias_sw_6(void){ return (void*)w_lalias_sw_6; } int read_lalias_sw_6(void){ return w_lalias_sw_6[0]; } void write_lalias_sw_6(int v){ w_lalias_sw_6[0] = v; } void *waddr_lalias_sw_6(void){ return (void*)w_lalias_sw_6; }
int lalias_ts_7 = 66; extern __typeof(lalias_ts_7) t_lalias_ts_7 __attribute__((alias("lalias_ts_7")));
void *addr_lalias_ts_7(void){ return (void*)&lalias_ts_7; } int read_lalias_ts_7(void){ return lalias_ts_7; } void write_lalias_ts_7(int v){ lalias_ts_7 = v; } void *waddr_lalias_ts_7(void){ return (void*)&lalias_ts_7; }
