int lfunc_0(void){ return 99; }
void *addr_lfunc_0(void){ return (void*)lfunc_0; }
extern int lfunc_0(void); void *l1_addr_lfunc_0(void){ return (void*)lfunc_0; }
int ldata_1[4] = { 13 };
const void *addr_ldata_1(void){ return ldata_1; } int read_ldata_1(void){ return ldata_1[0]; }
extern int ldata_1[]; const void *l1_addr_ldata_1(void){ return ldata_1; } int l1_read_ldata_1(void){ return ldata_1[0]; }
static int impl_lifunc_2(void){ return 55; } static void *res_lifunc_2(void){ return (void*)impl_lifunc_2; } int lifunc_2(void) __attribute__((ifunc("res_lifunc_2"))); void *addr_lifunc_2(void){ return (void*)lifunc_2; }
int lfunc_3(void){ return 34; }
void *addr_lfunc_3(void){ return (void*)lfunc_3; }
extern int lfunc_3(void); void *l1_addr_lfunc_3(void){ return (void*)lfunc_3; }
int lfunc_4(void){ return 21; }
void *addr_lfunc_4(void){ return (void*)lfunc_4; }
extern int lfunc_4(void); void *l1_addr_lfunc_4(void){ return (void*)lfunc_4; }
int ldata_5[16] = { 187 };
const void *addr_ldata_5(void){ return ldata_5; } int read_ldata_5(void){ return ldata_5[0]; }
extern int ldata_5[]; const void *l1_addr_ldata_5(void){ return ldata_5; } int l1_read_ldata_5(void){ return ldata_5[0]; }
extern int efunc_6(void); void *l1_addr_efunc_6(void){ return (void*)efunc_6; } int l1_call_efunc_6(void){ return efunc_6(); }
#ifdef EIFUNC_FROM_LIB
extern int eifunc_7(void); void *l1_addr_eifunc_7(void){ return (void*)eifunc_7; } int l1_call_eifunc_7(void){ return eifunc_7(); }
#endif
int lalias_sw_8[16]; extern __typeof(lalias_sw_8) w_lalias_sw_8 __attribute__((weak, alias("lalias_sw_8")));
void *addr_lalias_sw_8(void){ return (void*)w_lalias_sw_8; } int read_lalias_sw_8(void){ return w_lalias_sw_8[0]; } void write_lalias_sw_8(int v){ w_lalias_sw_8[0] = v; } void *waddr_lalias_sw_8(void){ return (void*)w_lalias_sw_8; }
int lalias_ts_9 = 182; extern __typeof(lalias_ts_9) t_lalias_ts_9 __attribute__((alias("lalias_ts_9")));
void *addr_lalias_ts_9(void){ return (void*)&lalias_ts_9; } int read_lalias_ts_9(void){ return lalias_ts_9; } void write_lalias_ts_9(int v){ lalias_ts_9 = v; } void *waddr_lalias_ts_9(void){ return (void*)&lalias_ts_9; }
