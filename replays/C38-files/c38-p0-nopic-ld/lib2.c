int l2func_4(void){ return 124; }
void *addr_l2func_4(void){ return (void*)l2func_4; }
