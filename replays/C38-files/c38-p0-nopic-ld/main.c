#include <stdio.h>
static int bad; static void fail(const char *what){ printf("MISMATCH %s\n", what); bad++; }
extern int lfunc_0(void); extern void *addr_lfunc_0(void); extern void *l1_addr_lfunc_0(void); int (*volatile fp_lfunc_0)(void) = lfunc_0;
extern int ldata_1[]; extern const void *addr_ldata_1(void); extern const void *l1_addr_ldata_1(void); extern int read_ldata_1(void); extern int l1_read_ldata_1(void); int *volatile dp_ldata_1 = ldata_1;
extern int lifunc_2(void); extern void *addr_lifunc_2(void); int (*volatile fp_lifunc_2)(void) = lifunc_2;
extern int lfunc_3(void); extern void *addr_lfunc_3(void); extern void *l1_addr_lfunc_3(void); int (*volatile fp_lfunc_3)(void) = lfunc_3;
extern int lfunc_4(void); extern void *addr_lfunc_4(void); extern void *l1_addr_lfunc_4(void); int (*volatile fp_lfunc_4)(void) = lfunc_4;
extern int ldata_5[]; extern const void *addr_ldata_5(void); extern const void *l1_addr_ldata_5(void); extern int read_ldata_5(void); extern int l1_read_ldata_5(void); int *volatile dp_ldata_5 = ldata_5;
int efunc_6(void){ return 41; } extern void *l1_addr_efunc_6(void); extern int l1_call_efunc_6(void);
static int impl_eifunc_7(void){ return 55; } static void *res_eifunc_7(void){ return (void*)impl_eifunc_7; } int eifunc_7(void) __attribute__((ifunc("res_eifunc_7"))); extern void *l1_addr_eifunc_7(void); extern int l1_call_eifunc_7(void); int (*volatile fp_eifunc_7)(void) = eifunc_7;
extern int lalias_sw_8[]; extern void *addr_lalias_sw_8(void); extern void *waddr_lalias_sw_8(void); extern int read_lalias_sw_8(void); extern void write_lalias_sw_8(int);
extern int t_lalias_ts_9; extern void *addr_lalias_ts_9(void); extern void *waddr_lalias_ts_9(void); extern int read_lalias_ts_9(void); extern void write_lalias_ts_9(int);
int main(void){
    if ((void*)lfunc_0 != addr_lfunc_0()) fail("lfunc_0: exe vs defining library");
    if ((void*)lfunc_0 != l1_addr_lfunc_0()) fail("lfunc_0: exe vs lib1");
    if ((void*)fp_lfunc_0 != (void*)lfunc_0) fail("lfunc_0: data pointer vs code reference in exe");
    if (fp_lfunc_0() != 99 || lfunc_0() != 99) fail("lfunc_0: call result");
    if ((const void*)ldata_1 != addr_ldata_1()) fail("ldata_1: exe vs defining library");
    if ((const void*)ldata_1 != l1_addr_ldata_1()) fail("ldata_1: exe vs lib1");
    if ((const void*)dp_ldata_1 != (const void*)ldata_1) fail("ldata_1: data pointer vs code reference in exe");
    if (ldata_1[0] != 13 || read_ldata_1() != 13) fail("ldata_1: initial value");
    ldata_1[0] = 1013; if (read_ldata_1() != 1013 || l1_read_ldata_1() != 1013) fail("ldata_1: write through exe not seen by library");
    if ((void*)lifunc_2 != addr_lifunc_2()) fail("lifunc_2: library ifunc address exe vs library");
    if ((void*)fp_lifunc_2 != (void*)lifunc_2) fail("lifunc_2: library ifunc address data vs code in exe");
    if (lifunc_2() != 55 || fp_lifunc_2() != 55) fail("lifunc_2: ifunc call result");
    if ((void*)lfunc_3 != addr_lfunc_3()) fail("lfunc_3: exe vs defining library");
    if ((void*)lfunc_3 != l1_addr_lfunc_3()) fail("lfunc_3: exe vs lib1");
    if ((void*)fp_lfunc_3 != (void*)lfunc_3) fail("lfunc_3: data pointer vs code reference in exe");
    if (fp_lfunc_3() != 34 || lfunc_3() != 34) fail("lfunc_3: call result");
    if ((void*)lfunc_4 != addr_lfunc_4()) fail("lfunc_4: exe vs defining library");
    if ((void*)lfunc_4 != l1_addr_lfunc_4()) fail("lfunc_4: exe vs lib1");
    if ((void*)fp_lfunc_4 != (void*)lfunc_4) fail("lfunc_4: data pointer vs code reference in exe");
    if (fp_lfunc_4() != 21 || lfunc_4() != 21) fail("lfunc_4: call result");
    if ((const void*)ldata_5 != addr_ldata_5()) fail("ldata_5: exe vs defining library");
    if ((const void*)ldata_5 != l1_addr_ldata_5()) fail("ldata_5: exe vs lib1");
    if ((const void*)dp_ldata_5 != (const void*)ldata_5) fail("ldata_5: data pointer vs code reference in exe");
    if (ldata_5[0] != 187 || read_ldata_5() != 187) fail("ldata_5: initial value");
    ldata_5[0] = 1187; if (read_ldata_5() != 1187 || l1_read_ldata_5() != 1187) fail("ldata_5: write through exe not seen by library");
    if ((void*)efunc_6 != l1_addr_efunc_6()) fail("efunc_6: exe function seen from lib1");
    if (l1_call_efunc_6() != 41) fail("efunc_6: call from lib1");
    if ((void*)fp_eifunc_7 != (void*)eifunc_7) fail("eifunc_7: ifunc address in data vs code in exe");
    
#ifdef EIFUNC_FROM_LIB
    if ((void*)eifunc_7 != l1_addr_eifunc_7()) fail("eifunc_7: exe ifunc address seen from lib1"); if (l1_call_eifunc_7() != 55) fail("eifunc_7: ifunc call from lib1");
#endif
    if (eifunc_7() != 55 || fp_eifunc_7() != 55) fail("eifunc_7: ifunc call result");
    if ((void*)lalias_sw_8 != addr_lalias_sw_8() || (void*)lalias_sw_8 != waddr_lalias_sw_8()) fail("lalias_sw_8: symbol in exe vs its alias used by the library");
    if (lalias_sw_8[0] != 0 || read_lalias_sw_8() != 0) fail("lalias_sw_8: initial value");
    lalias_sw_8[0] = 1171; if (read_lalias_sw_8() != 1171) fail("lalias_sw_8: write in exe not seen by the library through the alias");
    write_lalias_sw_8(178); if (lalias_sw_8[0] != 178) fail("lalias_sw_8: write by the library through the alias not seen in exe");
    if ((void*)&t_lalias_ts_9 != addr_lalias_ts_9() || (void*)&t_lalias_ts_9 != waddr_lalias_ts_9()) fail("lalias_ts_9: symbol in exe vs its alias used by the library");
    if (t_lalias_ts_9 != 182 || read_lalias_ts_9() != 182) fail("lalias_ts_9: initial value");
    t_lalias_ts_9 = 1182; if (read_lalias_ts_9() != 1182) fail("lalias_ts_9: write in exe not seen by the library through the alias");
    write_lalias_ts_9(189); if (t_lalias_ts_9 != 189) fail("lalias_ts_9: write by the library through the alias not seen in exe");
    if (!bad) printf("OK\n"); return bad ? 1 : 0; }
