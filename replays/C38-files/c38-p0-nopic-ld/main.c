#include <stdio.h>
static int bad; static void fail(const char *what){ printf("MISMATCH %s\n", what); bad++; }
extern int lfunc_0(void); extern void *addr_lfunc_0(void); extern void *l1_addr_lfunc_0(void); int (*volatile fp_lfunc_0)(void) = lfunc_0;
extern int ldata_1[]; extern const void *addr_ldata_1(void); extern const void *l1_addr_ldata_1(void); extern int read_ldata_1(void); extern int l1_read_ldata_1(void); int *volatile dp_ldata_1 = ldata_1;
int edata_2[16] = { 89 }; extern void *l1_addr_edata_2(void); extern int l1_read_edata_2(void);
extern const int ldata_ro_3[]; extern const void *addr_ldata_ro_3(void); extern const void *l1_addr_ldata_ro_3(void); extern int read_ldata_ro_3(void); extern int l1_read_ldata_ro_3(void); const int *volatile dp_ldata_ro_3 = ldata_ro_3;
int efunc_4(void){ return 189; } extern void *l1_addr_efunc_4(void); extern int l1_call_efunc_4(void);
static int impl_eifunc_5(void){ return 83; } static void *res_eifunc_5(void){ return (void*)impl_eifunc_5; } int eifunc_5(void) __attribute__((ifunc("res_eifunc_5"))); extern void *l1_addr_eifunc_5(void); extern int l1_call_eifunc_5(void); int (*volatile fp_eifunc_5)(void) = eifunc_5;
extern int lalias_sw_6[]; extern void *addr_lalias_sw_6(void); extern void *waddr_lalias_sw_6(void); extern int read_lalias_sw_6(void); extern void write_lalias_sw_6(int);
extern int t_lalias_ts_7; extern void *addr_lalias_ts_7(void); extern void *waddr_lalias_ts_7(void); extern int read_lalias_ts_7(void); extern void write_lalias_ts_7(int);
int main(void){
    if ((void*)lfunc_0 != addr_lfunc_0()) fail("lfunc_0: exe vs defining library");
    if ((void*)lfunc_0 != l1_addr_lfunc_0()) fail("lfunc_0: exe vs lib1");
    if ((void*)fp_lfunc_0 != (void*)lfunc_0) fail("lfunc_0: data pointer vs code reference in exe");
    if (fp_lfunc_0() != 194 || lfunc_0() != 194) fail("lfunc_0: call result");
    if ((const void*)ldata_1 != addr_ldata_1()) fail("ldata_1: exe vs defining library");
    if ((const void*)ldata_1 != l1_addr_ldata_1()) fail("ldata_1: exe vs lib1");
    if ((const void*)dp_ldata_1 != (const void*)ldata_1) fail("ldata_1: data pointer vs code reference in exe");
    if (ldata_1[0] != 83 || read_ldata_1() != 83) fail("ldata_1: initial value");
    ldata_1[0] = 1083; if (read_ldata_1() != 1083 || l1_read_ldata_1() != 1083) fail("ldata_1: write through exe not seen by library");
    if ((void*)edata_2 != l1_addr_edata_2()) fail("edata_2: exe data seen from lib1");
    edata_2[0] = 94; if (l1_read_edata_2() != 94) fail("edata_2: write in exe not seen by lib1");
    if ((const void*)ldata_ro_3 != addr_ldata_ro_3()) fail("ldata_ro_3: exe vs defining library");
    if ((const void*)ldata_ro_3 != l1_addr_ldata_ro_3()) fail("ldata_ro_3: exe vs lib1");
    if ((const void*)dp_ldata_ro_3 != (const void*)ldata_ro_3) fail("ldata_ro_3: data pointer vs code reference in exe");
    if (ldata_ro_3[0] != 173 || read_ldata_ro_3() != 173) fail("ldata_ro_3: initial value");
    if ((void*)efunc_4 != l1_addr_efunc_4()) fail("efunc_4: exe function seen from lib1");
    if (l1_call_efunc_4() != 189) fail("efunc_4: call from lib1");
    if ((void*)fp_eifunc_5 != (void*)eifunc_5) fail("eifunc_5: ifunc address in data vs code in exe");
    
#ifdef EIFUNC_FROM_LIB
    if ((void*)eifunc_5 != l1_addr_eifunc_5()) fail("eifunc_5: exe ifunc address seen from lib1"); if (l1_call_eifunc_5() != 83) fail("eifunc_5: ifunc call from lib1");
#endif
    if (eifunc_5() != 83 || fp_eifunc_5() != 83) fail("eifunc_5: ifunc call result");
    if ((void*)lalias_sw_6 != addr_lalias_sw_6() || (void*)lalias_sw_6 != waddr_lalias_sw_6()) fail("lalias_sw_6: symbol in exe vs its alias used by the library");
    if (lalias_sw_6[0] != 0 || read_lalias_sw_6() != 0) fail("lalias_sw_6: initial value");
    lalias_sw_6[0] = 1113; if (read_lalias_sw_6() != 1113) fail("lalias_sw_6: write in exe not seen by the library through the alias");
    write_lalias_sw_6(120); if (lalias_sw_6[0] != 120) fail("lalias_sw_6: write by the library through the alias not seen in exe");
    if ((void*)&t_lalias_ts_7 != addr_lalias_ts_7() || (void*)&t_lalias_ts_7 != waddr_lalias_ts_7()) fail("lalias_ts_7: symbol in exe vs its alias used by the library");
    if (t_lalias_ts_7 != 66 || read_lalias_ts_7() != 66) fail("lalias_ts_7: initial value");
    t_lalias_ts_7 = 1066; if (read_lalias_ts_7() != 1066) fail("lalias_ts_7: write in exe not seen by the library through the alias");
    write_lalias_ts_7(73); if (t_lalias_ts_7 != 73) fail("lalias_ts_7: write by the library through the alias not seen in exe");
    if (!bad) printf("OK\n"); return bad ? 1 : 0; }
