#include <stdio.h>
static int bad; static void fail(const char *what){ printf("MISMATCH %s\n", what); bad++; }
extern int lfunc_0(void); extern void *addr_lfunc_0(void); extern void *l1_addr_lfunc_0(void); int (*volatile fp_lfunc_0)(void) = lfunc_0;
extern int ldata_1[]; extern const void *addr_ldata_1(void); extern const void *l1_addr_ldata_1(void); extern int read_ldata_1(void); extern int l1_read_ldata_1(void); int *volatile dp_ldata_1 = ldata_1;
extern int ldata_bss_2[]; extern const void *addr_ldata_bss_2(void); extern const void *l1_addr_ldata_bss_2(void); extern int read_ldata_bss_2(void); extern int l1_read_ldata_bss_2(void); int *volatile dp_ldata_bss_2 = ldata_bss_2;
static int impl_eifunc_3(void){ return 11; } static void *res_eifunc_3(void){ return (void*)impl_eifunc_3; } int eifunc_3(void) __attribute__((ifunc("res_eifunc_3"))); extern void *l1_addr_eifunc_3(void); extern int l1_call_eifunc_3(void); int (*volatile fp_eifunc_3)(void) = eifunc_3;
extern int l2func_4(void); extern void *addr_l2func_4(void); extern void *l1_addr_l2func_4(void); int (*volatile fp_l2func_4)(void) = l2func_4;
int efunc_5(void){ return 192; } extern void *l1_addr_efunc_5(void); extern int l1_call_efunc_5(void);
static int impl_eifunc_6(void){ return 88; } static void *res_eifunc_6(void){ return (void*)impl_eifunc_6; } int eifunc_6(void) __attribute__((ifunc("res_eifunc_6"))); extern void *l1_addr_eifunc_6(void); extern int l1_call_eifunc_6(void); int (*volatile fp_eifunc_6)(void) = eifunc_6;
extern int lalias_sw_7; extern void *addr_lalias_sw_7(void); extern void *waddr_lalias_sw_7(void); extern int read_lalias_sw_7(void); extern void write_lalias_sw_7(int);
extern int t_lalias_ts_8[]; extern void *addr_lalias_ts_8(void); extern void *waddr_lalias_ts_8(void); extern int read_lalias_ts_8(void); extern void write_lalias_ts_8(int);
int main(void){
    if ((void*)lfunc_0 != addr_lfunc_0()) fail("lfunc_0: exe vs defining library");
    if ((void*)lfunc_0 != l1_addr_lfunc_0()) fail("lfunc_0: exe vs lib1");
    if ((void*)fp_lfunc_0 != (void*)lfunc_0) fail("lfunc_0: data pointer vs code reference in exe");
    if (fp_lfunc_0() != 12 || lfunc_0() != 12) fail("lfunc_0: call result");
    if ((const void*)ldata_1 != addr_ldata_1()) fail("ldata_1: exe vs defining library");
    if ((const void*)ldata_1 != l1_addr_ldata_1()) fail("ldata_1: exe vs lib1");
    if ((const void*)dp_ldata_1 != (const void*)ldata_1) fail("ldata_1: data pointer vs code reference in exe");
    if (ldata_1[0] != 127 || read_ldata_1() != 127) fail("ldata_1: initial value");
    ldata_1[0] = 1127; if (read_ldata_1() != 1127 || l1_read_ldata_1() != 1127) fail("ldata_1: write through exe not seen by library");
    if ((const void*)ldata_bss_2 != addr_ldata_bss_2()) fail("ldata_bss_2: exe vs defining library");
    if ((const void*)ldata_bss_2 != l1_addr_ldata_bss_2()) fail("ldata_bss_2: exe vs lib1");
    if ((const void*)dp_ldata_bss_2 != (const void*)ldata_bss_2) fail("ldata_bss_2: data pointer vs code reference in exe");
    if (ldata_bss_2[0] != 0 || read_ldata_bss_2() != 0) fail("ldata_bss_2: initial value");
    ldata_bss_2[0] = 1155; if (read_ldata_bss_2() != 1155 || l1_read_ldata_bss_2() != 1155) fail("ldata_bss_2: write through exe not seen by library");
    if ((void*)fp_eifunc_3 != (void*)eifunc_3) fail("eifunc_3: ifunc address in data vs code in exe");
    
#ifdef EIFUNC_FROM_LIB
    if ((void*)eifunc_3 != l1_addr_eifunc_3()) fail("eifunc_3: exe ifunc address seen from lib1"); if (l1_call_eifunc_3() != 11) fail("eifunc_3: ifunc call from lib1");
#endif
    if (eifunc_3() != 11 || fp_eifunc_3() != 11) fail("eifunc_3: ifunc call result");
    if ((void*)l2func_4 != addr_l2func_4()) fail("l2func_4: exe vs defining library");
    if ((void*)l2func_4 != l1_addr_l2func_4()) fail("l2func_4: exe vs lib1");
    if ((void*)fp_l2func_4 != (void*)l2func_4) fail("l2func_4: data pointer vs code reference in exe");
    if (fp_l2func_4() != 124 || l2func_4() != 124) fail("l2func_4: call result");
    if ((void*)efunc_5 != l1_addr_efunc_5()) fail("efunc_5: exe function seen from lib1");
    if (l1_call_efunc_5() != 192) fail("efunc_5: call from lib1");
    if ((void*)fp_eifunc_6 != (void*)eifunc_6) fail("eifunc_6: ifunc address in data vs code in exe");
    
#ifdef EIFUNC_FROM_LIB
    if ((void*)eifunc_6 != l1_addr_eifunc_6()) fail("eifunc_6: exe ifunc address seen from lib1"); if (l1_call_eifunc_6() != 88) fail("eifunc_6: ifunc call from lib1");
#endif
    if (eifunc_6() != 88 || fp_eifunc_6() != 88) fail("eifunc_6: ifunc call result");
    if ((void*)&lalias_sw_7 != addr_lalias_sw_7() || (void*)&lalias_sw_7 != waddr_lalias_sw_7()) fail("lalias_sw_7: symbol in exe vs its alias used by the library");
    if (lalias_sw_7 != 68 || read_lalias_sw_7() != 68) fail("lalias_sw_7: initial value");
    lalias_sw_7 = 1068; if (read_lalias_sw_7() != 1068) fail("lalias_sw_7: write in exe not seen by the library through the alias");
    write_lalias_sw_7(75); if (lalias_sw_7 != 75) fail("lalias_sw_7: write by the library through the alias not seen in exe");
    if ((void*)t_lalias_ts_8 != addr_lalias_ts_8() || (void*)t_lalias_ts_8 != waddr_lalias_ts_8()) fail("lalias_ts_8: symbol in exe vs its alias used by the library");
    if (t_lalias_ts_8[0] != 0 || read_lalias_ts_8() != 0) fail("lalias_ts_8: initial value");
    t_lalias_ts_8[0] = 1079; if (read_lalias_ts_8() != 1079) fail("lalias_ts_8: write in exe not seen by the library through the alias");
    write_lalias_ts_8(86); if (t_lalias_ts_8[0] != 86) fail("lalias_ts_8: write by the library through the alias not seen in exe");
    if (!bad) printf("OK\n"); return bad ? 1 : 0; }
