int lfunc_0(void){ return 98; }
void *addr_lfunc_0(void){ return (void*)lfunc_0; }
extern int lfunc_0(void); void *l1_addr_lfunc_0(void){ return (void*)lfunc_0; }
int ldata_1[4] = { 124 };
const void *addr_ldata_1(void){ return ldata_1; } int read_ldata_1(void){ return ldata_1[0]; }
extern int ldata_1[]; const void *l1_addr_ldata_1(void){ return ldata_1; } int l1_read_ldata_1(void){ return ldata_1[0]; }
int ldata_2[2] = { 102 };
const void *addr_ldata_2(void){ return ldata_2; } int read_ldata_2(void){ return ldata_2[0]; }
extern int ldata_2[]; const void *l1_addr_ldata_2(void){ return ldata_2; } int l1_read_ldata_2(void){ return ldata_2[0]; }
int lfunc_3(void){ return 184; }
void *addr_lfunc_3(void){ return (void*)lfunc_3; }
extern int lfunc_3(void); void *l1_addr_lfunc_3(void){ return (void*)lfunc_3; }
const int ldata_ro_4[16] = { 133 };
const void *addr_ldata_ro_4(void){ return ldata_ro_4; } int read_ldata_ro_4(void){ return ldata_ro_4[0]; }
extern const int ldata_ro_4[]; const void *l1_addr_ldata_ro_4(void){ return ldata_ro_4; } int l1_read_ldata_ro_4(void){ return ldata_ro_4[0]; }
int real_lalias_5 = 66; extern int lalias_5 __attribute__((weak, alias("real_lalias_5")));
void *addr_lalias_5(void){ return &real_lalias_5; } int read_lalias_5(void){ return real_lalias_5; } void write_lalias_5(int v){ real_lalias_5 = v; }
int lalias_sw_6[16]; extern __typeof(lalias_sw_6) w_lalias_sw_6 __attribute__((weak, alias("lalias_sw_6")));
void *addr_lalias_sw_6(void){ return (void*)w_lalias_sw_6; } int read_lalias_sw_6(void){ return w_lalias_sw_6[0]; } void write_lalias_sw_6(int v){ w_lalias_sw_6[0] = v; } void *waddr_lalias_sw_6(void){ return (void*)w_lalias_sw_6; }
int lalias_st_7[16]; extern __typeof(lalias_st_7) t_lalias_st_7 __attribute__((alias("lalias_st_7")));
void *addr_lalias_st_7(void){ return (void*)t_lalias_st_7; } int read_lalias_st_7(void){ return t_lalias_st_7[0]; } void write_lalias_st_7(int v){ t_lalias_st_7[0] = v; } void *waddr_lalias_st_7(void){ return (void*)t_lalias_st_7; }
