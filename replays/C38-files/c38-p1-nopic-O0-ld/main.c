#include <stdio.h>
static int bad; static void fail(const char *what){ printf("MISMATCH %s\n", what); bad++; }
extern int lfunc_0(void); extern void *addr_lfunc_0(void); extern void *l1_addr_lfunc_0(void); int (*volatile fp_lfunc_0)(void) = lfunc_0;
extern int ldata_1[]; extern const void *addr_ldata_1(void); extern const void *l1_addr_ldata_1(void); extern int read_ldata_1(void); extern int l1_read_ldata_1(void); int *volatile dp_ldata_1 = ldata_1;
extern int ldata_2[]; extern const void *addr_ldata_2(void); extern const void *l1_addr_ldata_2(void); extern int read_ldata_2(void); extern int l1_read_ldata_2(void); int *volatile dp_ldata_2 = ldata_2;
extern int lfunc_3(void); extern void *addr_lfunc_3(void); extern void *l1_addr_lfunc_3(void); int (*volatile fp_lfunc_3)(void) = lfunc_3;
extern const int ldata_ro_4[]; extern const void *addr_ldata_ro_4(void); extern const void *l1_addr_ldata_ro_4(void); extern int read_ldata_ro_4(void); extern int l1_read_ldata_ro_4(void); const int *volatile dp_ldata_ro_4 = ldata_ro_4;
extern int lalias_5; extern void *addr_lalias_5(void); extern int read_lalias_5(void); extern void write_lalias_5(int);
extern int lalias_sw_6[]; extern void *addr_lalias_sw_6(void); extern void *waddr_lalias_sw_6(void); extern int read_lalias_sw_6(void); extern void write_lalias_sw_6(int);
extern int lalias_st_7[]; extern void *addr_lalias_st_7(void); extern void *waddr_lalias_st_7(void); extern int read_lalias_st_7(void); extern void write_lalias_st_7(int);
int main(void){
    if ((void*)lfunc_0 != addr_lfunc_0()) fail("lfunc_0: exe vs defining library");
    if ((void*)lfunc_0 != l1_addr_lfunc_0()) fail("lfunc_0: exe vs lib1");
    if ((void*)fp_lfunc_0 != (void*)lfunc_0) fail("lfunc_0: data pointer vs code reference in exe");
    if (fp_lfunc_0() != 98 || lfunc_0() != 98) fail("lfunc_0: call result");
    if ((const void*)ldata_1 != addr_ldata_1()) fail("ldata_1: exe vs defining library");
    if ((const void*)ldata_1 != l1_addr_ldata_1()) fail("ldata_1: exe vs lib1");
    if ((const void*)dp_ldata_1 != (const void*)ldata_1) fail("ldata_1: data pointer vs code reference in exe");
    if (ldata_1[0] != 124 || read_ldata_1() != 124) fail("ldata_1: initial value");
    ldata_1[0] = 1124; if (read_ldata_1() != 1124 || l1_read_ldata_1() != 1124) fail("ldata_1: write through exe not seen by library");
    if ((const void*)ldata_2 != addr_ldata_2()) fail("ldata_2: exe vs defining library");
    if ((const void*)ldata_2 != l1_addr_ldata_2()) fail("ldata_2: exe vs lib1");
    if ((const void*)dp_ldata_2 != (const void*)ldata_2) fail("ldata_2: data pointer vs code reference in exe");
    if (ldata_2[0] != 102 || read_ldata_2() != 102) fail("ldata_2: initial value");
    ldata_2[0] = 1102; if (read_ldata_2() != 1102 || l1_read_ldata_2() != 1102) fail("ldata_2: write through exe not seen by library");
    if ((void*)lfunc_3 != addr_lfunc_3()) fail("lfunc_3: exe vs defining library");
    if ((void*)lfunc_3 != l1_addr_lfunc_3()) fail("lfunc_3: exe vs lib1");
    if ((void*)fp_lfunc_3 != (void*)lfunc_3) fail("lfunc_3: data pointer vs code reference in exe");
    if (fp_lfunc_3() != 184 || lfunc_3() != 184) fail("lfunc_3: call result");
    if ((const void*)ldata_ro_4 != addr_ldata_ro_4()) fail("ldata_ro_4: exe vs defining library");
    if ((const void*)ldata_ro_4 != l1_addr_ldata_ro_4()) fail("ldata_ro_4: exe vs lib1");
    if ((const void*)dp_ldata_ro_4 != (const void*)ldata_ro_4) fail("ldata_ro_4: data pointer vs code reference in exe");
    if (ldata_ro_4[0] != 133 || read_ldata_ro_4() != 133) fail("ldata_ro_4: initial value");
    if ((void*)&lalias_5 != addr_lalias_5()) fail("lalias_5: weak alias in exe vs strong symbol in library");
    write_lalias_5(73); if (lalias_5 != 73) fail("lalias_5: write through strong symbol not seen through alias");
    lalias_5 = 75; if (read_lalias_5() != 75) fail("lalias_5: write through alias not seen through strong symbol");
    if ((void*)lalias_sw_6 != addr_lalias_sw_6() || (void*)lalias_sw_6 != waddr_lalias_sw_6()) fail("lalias_sw_6: symbol in exe vs its alias used by the library");
    if (lalias_sw_6[0] != 0 || read_lalias_sw_6() != 0) fail("lalias_sw_6: initial value");
    lalias_sw_6[0] = 1197; if (read_lalias_sw_6() != 1197) fail("lalias_sw_6: write in exe not seen by the library through the alias");
    write_lalias_sw_6(204); if (lalias_sw_6[0] != 204) fail("lalias_sw_6: write by the library through the alias not seen in exe");
    if ((void*)lalias_st_7 != addr_lalias_st_7() || (void*)lalias_st_7 != waddr_lalias_st_7()) fail("lalias_st_7: symbol in exe vs its alias used by the library");
    if (lalias_st_7[0] != 0 || read_lalias_st_7() != 0) fail("lalias_st_7: initial value");
    lalias_st_7[0] = 1012; if (read_lalias_st_7() != 1012) fail("lalias_st_7: write in exe not seen by the library through the alias");
    write_lalias_st_7(19); if (lalias_st_7[0] != 19) fail("lalias_st_7: write by the library through the alias not seen in exe");
    if (!bad) printf("OK\n"); return bad ? 1 : 0; }
