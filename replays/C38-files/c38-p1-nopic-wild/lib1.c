int lfunc_0(void){ return 199; }
void *addr_lfunc_0(void){ return (void*)lfunc_0; }
extern int lfunc_0(void); void *l1_addr_lfunc_0(void){ return (void*)lfunc_0; }
int ldata_1[1] = { 194 };
const void *addr_ldata_1(void){ return ldata_1; } int read_ldata_1(void){ return ldata_1[0]; }
extern int ldata_1[]; const void *l1_addr_ldata_1(void){ return ldata_1; } int l1_read_ldata_1(void){ return ldata_1[0]; }
int lfunc_2(void){ return 189; }
void *addr_lfunc_2(void){ return (void*)lfunc_2; }
extern int lfunc_2(void); void *l1_addr_lfunc_2(void){ return (void*)lfunc_2; }
extern int l2func_3(void); void *l1_addr_l2func_3(void){ return (void*)l2func_3; }
int real_lalias_4 = 156; extern int lalias_4 __attribute__((weak, alias("real_lalias_4")));
void *addr_lalias_4(void){ return &real_lalias_4; } int read_lalias_4(void){ return real_lalias_4; } void write_lalias_4(int v){ real_lalias_4 = v; }
int lalias_sw_5 = 119; extern __typeof(lalias_sw_5) w_lalias_sw_5 __attribute__((weak, alias("lalias_sw_5")));
void *addr_lalias_sw_5(void){ return (void*)&w_lalias_sw_5; } int read_lalias_sw_5(void){ return w_lalias_sw_5; } void write_lalias_sw_5(int v){ w_lalias_sw_5 = v; } void *waddr_lalias_sw_5(void){ return (void*)&w_lalias_sw_5; }
int lalias_st_6[4]; extern __typeof(lalias_st_6) t_lalias_st_6 __attribute__((alias("lalias_st_6")));
void *addr_lalias_st_6(void){ return (void*)t_lalias_st_6; } int read_lalias_st_6(void){ return t_lalias_st_6[0]; } void write_lalias_st_6(int v){ t_lalias_st_6[0] = v; } void *waddr_lalias_st_6(void){ return (void*)t_lalias_st_6; }
