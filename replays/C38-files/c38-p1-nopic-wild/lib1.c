int lfunc_0(void){ return 114; }
void *addr_lfunc_0(void){ return (void*)lfunc_0; }
extern int lfunc_0(void); void *l1_addr_lfunc_0(void){ return (void*)lfunc_0; }
int ldata_1[2] = { 88 };
const void *addr_ldata_1(void){ return ldata_1; } int read_ldata_1(void){ return ldata_1[0]; }
extern int ldata_1[]; const void *l1_addr_ldata_1(void){ return ldata_1; } int l1_read_ldata_1(void){ return ldata_1[0]; }
int real_lalias_2 = 182; extern int lalias_2 __attribute__((weak, alias("real_lalias_2")));
void *addr_lalias_2(void){ return &real_lalias_2; } int read_lalias_2(void){ return real_lalias_2; } void write_lalias_2(int v){ real_lalias_2 = v; }
const int ldata_ro_3[16] = { 84 };
const void *addr_ldata_ro_3(void){ return ldata_ro_3; } int read_ldata_ro_3(void){ return ldata_ro_3[0]; }
extern const int ldata_ro_3[]; const void *l1_addr_ldata_ro_3(void){ return ldata_ro_3; } int l1_read_ldata_ro_3(void){ return ldata_ro_3[0]; }
int lfunc_4(void){ return 188; }
void *addr_lfunc_4(void){ return (void*)lfunc_4; }
extern int lfunc_4(void); void *l1_addr_lfunc_4(void){ return (void*)lfunc_4; }
extern int l2func_5(void); void *l1_addr_l2func_5(void){ return (void*)l2func_5; }
int real_lalias_6 = 62; extern int lalias_6 __attribute__((weak, alias("real_lalias_6")));
void *addr_lalias_6(void){ return &real_lalias_6; } int read_lalias_6(void){ return real_lalias_6; } void write_lalias_6(int v){ real_lalias_6 = v; }
int lalias_sw_7[16]; extern __typeof(lalias_sw_7) w_lalias_sw_7 __attribute__((weak, alias("lalias_sw_7")));
void *addr_lalias_sw_7(void){ return (void*)w_lalias_sw_7; } int read_lalias_sw_7(void){ return w_lalias_sw_7[0]; } void write_lalias_sw_7(int v){ w_lalias_sw_7[0] = v; } void *waddr_lalias_sw_7(void){ return (void*)w_lalias_sw_7; }
int lalias_st_8[4]; extern __typeof(lalias_st_8) t_lalias_st_8 __attribute__((alias("lalias_st_8")));
void *addr_lalias_st_8(void){ return (void*)t_lalias_st_8; } int read_lalias_st_8(void){ return t_lalias_st_8[0]; } void write_lalias_st_8(int v){ t_lalias_st_8[0] = v; } void *waddr_lalias_st_8(void){ return (void*)t_lalias_st_8; }
