int l2func_3(void){ return 110; }
void *addr_l2func_3(void){ return (void*)l2func_3; }
