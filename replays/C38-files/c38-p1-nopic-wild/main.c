#include <stdio.h>
static int bad; static void fail(const char *what){ printf("MISMATCH %s\n", what); bad++; }
extern int lfunc_0(void); extern void *addr_lfunc_0(void); extern void *l1_addr_lfunc_0(void); int (*volatile fp_lfunc_0)(void) = lfunc_0;
extern int ldata_1[]; extern const void *addr_ldata_1(void); extern const void *l1_addr_ldata_1(void); extern int read_ldata_1(void); extern int l1_read_ldata_1(void); int *volatile dp_ldata_1 = ldata_1;
extern int lfunc_2(void); extern void *addr_lfunc_2(void); extern void *l1_addr_lfunc_2(void); int (*volatile fp_lfunc_2)(void) = lfunc_2;
extern int l2func_3(void); extern void *addr_l2func_3(void); extern void *l1_addr_l2func_3(void); int (*volatile fp_l2func_3)(void) = l2func_3;
extern int lalias_4; extern void *addr_lalias_4(void); extern int read_lalias_4(void); extern void write_lalias_4(int);
extern int lalias_sw_5; extern void *addr_lalias_sw_5(void); extern void *waddr_lalias_sw_5(void); extern int read_lalias_sw_5(void); extern void write_lalias_sw_5(int);
extern int lalias_st_6[]; extern void *addr_lalias_st_6(void); extern void *waddr_lalias_st_6(void); extern int read_lalias_st_6(void); extern void write_lalias_st_6(int);
int main(void){
    if ((void*)lfunc_0 != addr_lfunc_0()) fail("lfunc_0: exe vs defining library");
    if ((void*)lfunc_0 != l1_addr_lfunc_0()) fail("lfunc_0: exe vs lib1");
    if ((void*)fp_lfunc_0 != (void*)lfunc_0) fail("lfunc_0: data pointer vs code reference in exe");
    if (fp_lfunc_0() != 199 || lfunc_0() != 199) fail("lfunc_0: call result");
    if ((const void*)ldata_1 != addr_ldata_1()) fail("ldata_1: exe vs defining library");
    if ((const void*)ldata_1 != l1_addr_ldata_1()) fail("ldata_1: exe vs lib1");
    if ((const void*)dp_ldata_1 != (const void*)ldata_1) fail("ldata_1: data pointer vs code reference in exe");
    if (ldata_1[0] != 194 || read_ldata_1() != 194) fail("ldata_1: initial value");
    ldata_1[0] = 1194; if (read_ldata_1() != 1194 || l1_read_ldata_1() != 1194) fail("ldata_1: write through exe not seen by library");
    if ((void*)lfunc_2 != addr_lfunc_2()) fail("lfunc_2: exe vs defining library");
    if ((void*)lfunc_2 != l1_addr_lfunc_2()) fail("lfunc_2: exe vs lib1");
    if ((void*)fp_lfunc_2 != (void*)lfunc_2) fail("lfunc_2: data pointer vs code reference in exe");
    if (fp_lfunc_2() != 189 || lfunc_2() != 189) fail("lfunc_2: call result");
    if ((void*)l2func_3 != addr_l2func_3()) fail("l2func_3: exe vs defining library");
    if ((void*)l2func_3 != l1_addr_l2func_3()) fail("l2func_3: exe vs lib1");
    if ((void*)fp_l2func_3 != (void*)l2func_3) fail("l2func_3: data pointer vs code reference in exe");
    if (fp_l2func_3() != 110 || l2func_3() != 110) fail("l2func_3: call result");
    if ((void*)&lalias_4 != addr_lalias_4()) fail("lalias_4: weak alias in exe vs strong symbol in library");
    write_lalias_4(163); if (lalias_4 != 163) fail("lalias_4: write through strong symbol not seen through alias");
    lalias_4 = 165; if (read_lalias_4() != 165) fail("lalias_4: write through alias not seen through strong symbol");
    if ((void*)&lalias_sw_5 != addr_lalias_sw_5() || (void*)&lalias_sw_5 != waddr_lalias_sw_5()) fail("lalias_sw_5: symbol in exe vs its alias used by the library");
    if (lalias_sw_5 != 119 || read_lalias_sw_5() != 119) fail("lalias_sw_5: initial value");
    lalias_sw_5 = 1119; if (read_lalias_sw_5() != 1119) fail("lalias_sw_5: write in exe not seen by the library through the alias");
    write_lalias_sw_5(126); if (lalias_sw_5 != 126) fail("lalias_sw_5: write by the library through the alias not seen in exe");
    if ((void*)lalias_st_6 != addr_lalias_st_6() || (void*)lalias_st_6 != waddr_lalias_st_6()) fail("lalias_st_6: symbol in exe vs its alias used by the library");
    if (lalias_st_6[0] != 0 || read_lalias_st_6() != 0) fail("lalias_st_6: initial value");
    lalias_st_6[0] = 1001; if (read_lalias_st_6() != 1001) fail("lalias_st_6: write in exe not seen by the library through the alias");
    write_lalias_st_6(8); if (lalias_st_6[0] != 8) fail("lalias_st_6: write by the library through the alias not seen in exe");
    if (!bad) printf("OK\n"); return bad ? 1 : 0; }
