#include <stdio.h>
static int bad; static void fail(const char *what){ printf("MISMATCH %s\n", what); bad++; }
extern int lfunc_0(void); extern void *addr_lfunc_0(void); extern void *l1_addr_lfunc_0(void); int (*volatile fp_lfunc_0)(void) = lfunc_0;
extern int ldata_1[]; extern const void *addr_ldata_1(void); extern const void *l1_addr_ldata_1(void); extern int read_ldata_1(void); extern int l1_read_ldata_1(void); int *volatile dp_ldata_1 = ldata_1;
extern int lalias_2; extern void *addr_lalias_2(void); extern int read_lalias_2(void); extern void write_lalias_2(int);
extern const int ldata_ro_3[]; extern const void *addr_ldata_ro_3(void); extern const void *l1_addr_ldata_ro_3(void); extern int read_ldata_ro_3(void); extern int l1_read_ldata_ro_3(void); const int *volatile dp_ldata_ro_3 = ldata_ro_3;
extern int lfunc_4(void); extern void *addr_lfunc_4(void); extern void *l1_addr_lfunc_4(void); int (*volatile fp_lfunc_4)(void) = lfunc_4;
extern int l2func_5(void); extern void *addr_l2func_5(void); extern void *l1_addr_l2func_5(void); int (*volatile fp_l2func_5)(void) = l2func_5;
extern int lalias_6; extern void *addr_lalias_6(void); extern int read_lalias_6(void); extern void write_lalias_6(int);
extern int lalias_sw_7[]; extern void *addr_lalias_sw_7(void); extern void *waddr_lalias_sw_7(void); extern int read_lalias_sw_7(void); extern void write_lalias_sw_7(int);
extern int lalias_st_8[]; extern void *addr_lalias_st_8(void); extern void *waddr_lalias_st_8(void); extern int read_lalias_st_8(void); extern void write_lalias_st_8(int);
int main(void){
    if ((void*)lfunc_0 != addr_lfunc_0()) fail("lfunc_0: exe vs defining library");
    if ((void*)lfunc_0 != l1_addr_lfunc_0()) fail("lfunc_0: exe vs lib1");
    if ((void*)fp_lfunc_0 != (void*)lfunc_0) fail("lfunc_0: data pointer vs code reference in exe");
    if (fp_lfunc_0() != 114 || lfunc_0() != 114) fail("lfunc_0: call result");
    if ((const void*)ldata_1 != addr_ldata_1()) fail("ldata_1: exe vs defining library");
    if ((const void*)ldata_1 != l1_addr_ldata_1()) fail("ldata_1: exe vs lib1");
    if ((const void*)dp_ldata_1 != (const void*)ldata_1) fail("ldata_1: data pointer vs code reference in exe");
    if (ldata_1[0] != 88 || read_ldata_1() != 88) fail("ldata_1: initial value");
    ldata_1[0] = 1088; if (read_ldata_1() != 1088 || l1_read_ldata_1() != 1088) fail("ldata_1: write through exe not seen by library");
    if ((void*)&lalias_2 != addr_lalias_2()) fail("lalias_2: weak alias in exe vs strong symbol in library");
    write_lalias_2(189); if (lalias_2 != 189) fail("lalias_2: write through strong symbol not seen through alias");
    lalias_2 = 191; if (read_lalias_2() != 191) fail("lalias_2: write through alias not seen through strong symbol");
    if ((const void*)ldata_ro_3 != addr_ldata_ro_3()) fail("ldata_ro_3: exe vs defining library");
    if ((const void*)ldata_ro_3 != l1_addr_ldata_ro_3()) fail("ldata_ro_3: exe vs lib1");
    if ((const void*)dp_ldata_ro_3 != (const void*)ldata_ro_3) fail("ldata_ro_3: data pointer vs code reference in exe");
    if (ldata_ro_3[0] != 84 || read_ldata_ro_3() != 84) fail("ldata_ro_3: initial value");
    if ((void*)lfunc_4 != addr_lfunc_4()) fail("lfunc_4: exe vs defining library");
    if ((void*)lfunc_4 != l1_addr_lfunc_4()) fail("lfunc_4: exe vs lib1");
    if ((void*)fp_lfunc_4 != (void*)lfunc_4) fail("lfunc_4: data pointer vs code reference in exe");
    if (fp_lfunc_4() != 188 || lfunc_4() != 188) fail("lfunc_4: call result");
    if ((void*)l2func_5 != addr_l2func_5()) fail("l2func_5: exe vs defining library");
    if ((void*)l2func_5 != l1_addr_l2func_5()) fail("l2func_5: exe vs lib1");
    if ((void*)fp_l2func_5 != (void*)l2func_5) fail("l2func_5: data pointer vs code reference in exe");
    if (fp_l2func_5() != 68 || l2func_5() != 68) fail("l2func_5: call result");
    if ((void*)&lalias_6 != addr_lalias_6()) fail("lalias_6: weak alias in exe vs strong symbol in library");
    write_lalias_6(69); if (lalias_6 != 69) fail("lalias_6: write through strong symbol not seen through alias");
    lalias_6 = 71; if (read_lalias_6() != 71) fail("lalias_6: write through alias not seen through strong symbol");
    if ((void*)lalias_sw_7 != addr_lalias_sw_7() || (void*)lalias_sw_7 != waddr_lalias_sw_7()) fail("lalias_sw_7: symbol in exe vs its alias used by the library");
    if (lalias_sw_7[0] != 0 || read_lalias_sw_7() != 0) fail("lalias_sw_7: initial value");
    lalias_sw_7[0] = 1153; if (read_lalias_sw_7() != 1153) fail("lalias_sw_7: write in exe not seen by the library through the alias");
    write_lalias_sw_7(160); if (lalias_sw_7[0] != 160) fail("lalias_sw_7: write by the library through the alias not seen in exe");
    if ((void*)lalias_st_8 != addr_lalias_st_8() || (void*)lalias_st_8 != waddr_lalias_st_8()) fail("lalias_st_8: symbol in exe vs its alias used by the library");
    if (lalias_st_8[0] != 0 || read_lalias_st_8() != 0) fail("lalias_st_8: initial value");
    lalias_st_8[0] = 1015; if (read_lalias_st_8() != 1015) fail("lalias_st_8: write in exe not seen by the library through the alias");
    write_lalias_st_8(22); if (lalias_st_8[0] != 22) fail("lalias_st_8: write by the library through the alias not seen in exe");
    if (!bad) printf("OK\n"); return bad ? 1 : 0; }
