#include <stdio.h>
static int bad; static void fail(const char *what){ printf("MISMATCH %s\n", what); bad++; }
extern int lfunc_0(void); extern void *addr_lfunc_0(void); extern void *l1_addr_lfunc_0(void); int (*volatile fp_lfunc_0)(void) = lfunc_0;
extern int ldata_1[]; extern const void *addr_ldata_1(void); extern const void *l1_addr_ldata_1(void); extern int read_ldata_1(void); extern int l1_read_ldata_1(void); int *volatile dp_ldata_1 = ldata_1;
extern int ldata_bss_2[]; extern const void *addr_ldata_bss_2(void); extern const void *l1_addr_ldata_bss_2(void); extern int read_ldata_bss_2(void); extern int l1_read_ldata_bss_2(void); int *volatile dp_ldata_bss_2 = ldata_bss_2;
extern int ldata_bss_3[]; extern const void *addr_ldata_bss_3(void); extern const void *l1_addr_ldata_bss_3(void); extern int read_ldata_bss_3(void); extern int l1_read_ldata_bss_3(void); int *volatile dp_ldata_bss_3 = ldata_bss_3;
static int impl_eifunc_4(void){ return 186; } static void *res_eifunc_4(void){ return (void*)impl_eifunc_4; } int eifunc_4(void) __attribute__((ifunc("res_eifunc_4"))); extern void *l1_addr_eifunc_4(void); extern int l1_call_eifunc_4(void); int (*volatile fp_eifunc_4)(void) = eifunc_4;
extern int lalias_sw_5[]; extern void *addr_lalias_sw_5(void); extern void *waddr_lalias_sw_5(void); extern int read_lalias_sw_5(void); extern void write_lalias_sw_5(int);
extern int t_lalias_ts_6; extern void *addr_lalias_ts_6(void); extern void *waddr_lalias_ts_6(void); extern int read_lalias_ts_6(void); extern void write_lalias_ts_6(int);
int main(void){
    if ((void*)lfunc_0 != addr_lfunc_0()) fail("lfunc_0: exe vs defining library");
    if ((void*)lfunc_0 != l1_addr_lfunc_0()) fail("lfunc_0: exe vs lib1");
    if ((void*)fp_lfunc_0 != (void*)lfunc_0) fail("lfunc_0: data pointer vs code reference in exe");
    if (fp_lfunc_0() != 145 || lfunc_0() != 145) fail("lfunc_0: call result");
    if ((const void*)ldata_1 != addr_ldata_1()) fail("ldata_1: exe vs defining library");
    if ((const void*)ldata_1 != l1_addr_ldata_1()) fail("ldata_1: exe vs lib1");
    if ((const void*)dp_ldata_1 != (const void*)ldata_1) fail("ldata_1: data pointer vs code reference in exe");
    if (ldata_1[0] != 60 || read_ldata_1() != 60) fail("ldata_1: initial value");
    ldata_1[0] = 1060; if (read_ldata_1() != 1060 || l1_read_ldata_1() != 1060) fail("ldata_1: write through exe not seen by library");
    if ((const void*)ldata_bss_2 != addr_ldata_bss_2()) fail("ldata_bss_2: exe vs defining library");
    if ((const void*)ldata_bss_2 != l1_addr_ldata_bss_2()) fail("ldata_bss_2: exe vs lib1");
    if ((const void*)dp_ldata_bss_2 != (const void*)ldata_bss_2) fail("ldata_bss_2: data pointer vs code reference in exe");
    if (ldata_bss_2[0] != 0 || read_ldata_bss_2() != 0) fail("ldata_bss_2: initial value");
    ldata_bss_2[0] = 1078; if (read_ldata_bss_2() != 1078 || l1_read_ldata_bss_2() != 1078) fail("ldata_bss_2: write through exe not seen by library");
    if ((const void*)ldata_bss_3 != addr_ldata_bss_3()) fail("ldata_bss_3: exe vs defining library");
    if ((const void*)ldata_bss_3 != l1_addr_ldata_bss_3()) fail("ldata_bss_3: exe vs lib1");
    if ((const void*)dp_ldata_bss_3 != (const void*)ldata_bss_3) fail("ldata_bss_3: data pointer vs code reference in exe");
    if (ldata_bss_3[0] != 0 || read_ldata_bss_3() != 0) fail("ldata_bss_3: initial value");
    ldata_bss_3[0] = 1056; if (read_ldata_bss_3() != 1056 || l1_read_ldata_bss_3() != 1056) fail("ldata_bss_3: write through exe not seen by library");
    if ((void*)fp_eifunc_4 != (void*)eifunc_4) fail("eifunc_4: ifunc address in data vs code in exe");
    
#ifdef EIFUNC_FROM_LIB
    if ((void*)eifunc_4 != l1_addr_eifunc_4()) fail("eifunc_4: exe ifunc address seen from lib1"); if (l1_call_eifunc_4() != 186) fail("eifunc_4: ifunc call from lib1");
#endif
    if (eifunc_4() != 186 || fp_eifunc_4() != 186) fail("eifunc_4: ifunc call result");
    if ((void*)lalias_sw_5 != addr_lalias_sw_5() || (void*)lalias_sw_5 != waddr_lalias_sw_5()) fail("lalias_sw_5: symbol in exe vs its alias used by the library");
    if (lalias_sw_5[0] != 0 || read_lalias_sw_5() != 0) fail("lalias_sw_5: initial value");
    lalias_sw_5[0] = 1100; if (read_lalias_sw_5() != 1100) fail("lalias_sw_5: write in exe not seen by the library through the alias");
    write_lalias_sw_5(107); if (lalias_sw_5[0] != 107) fail("lalias_sw_5: write by the library through the alias not seen in exe");
    if ((void*)&t_lalias_ts_6 != addr_lalias_ts_6() || (void*)&t_lalias_ts_6 != waddr_lalias_ts_6()) fail("lalias_ts_6: symbol in exe vs its alias used by the library");
    if (t_lalias_ts_6 != 31 || read_lalias_ts_6() != 31) fail("lalias_ts_6: initial value");
    t_lalias_ts_6 = 1031; if (read_lalias_ts_6() != 1031) fail("lalias_ts_6: write in exe not seen by the library through the alias");
    write_lalias_ts_6(38); if (t_lalias_ts_6 != 38) fail("lalias_ts_6: write by the library through the alias not seen in exe");
    if (!bad) printf("OK\n"); return bad ? 1 : 0; }
