int lfunc_0(void){ return 160; }
void *addr_lfunc_0(void){ return (void*)lfunc_0; }
extern int lfunc_0(void); void *l1_addr_lfunc_0(void){ return (void*)lfunc_0; }
int ldata_1[1] = { 117 };
const void *addr_ldata_1(void){ return ldata_1; } int read_ldata_1(void){ return ldata_1[0]; }
extern int ldata_1[]; const void *l1_addr_ldata_1(void){ return ldata_1; } int l1_read_ldata_1(void){ return ldata_1[0]; }
int ldata_bss_2[2];
const void *addr_ldata_bss_2(void){ return ldata_bss_2; } int read_ldata_bss_2(void){ return ldata_bss_2[0]; }
extern int ldata_bss_2[]; const void *l1_addr_ldata_bss_2(void){ return ldata_bss_2; } int l1_read_ldata_bss_2(void){ return ldata_bss_2[0]; }
int ldata_bss_3[2];
const void *addr_ldata_bss_3(void){ return ldata_bss_3; } int read_ldata_bss_3(void){ return ldata_bss_3[0]; }
extern int ldata_bss_3[]; const void *l1_addr_ldata_bss_3(void){ return ldata_bss_3; } int l1_read_ldata_bss_3(void){ return ldata_bss_3[0]; }
int real_lalias_4 = 21; extern int lalias_4 __attribute__((weak, alias("real_lalias_4")));
void *addr_lalias_4(void){ return &real_lalias_4; } int read_lalias_4(void){ return real_lalias_4; } void write_lalias_4(int v){ real_lalias_4 = v; }
int real_lalias_5 = 134; extern int lalias_5 __attribute__((weak, alias("real_lalias_5")));
void *addr_lalias_5(void){ return &real_lalias_5; } int read_lalias_5(void){ return real_lalias_5; } void write_lalias_5(int v){ real_lalias_5 = v; }
int lalias_sw_6 = 55; extern __typeof(lalias_sw_6) w_lalias_sw_6 __attribute__((weak, alias("lalias_sw_6")));
void *addr_lalias_sw_6(void){ return (void*)&w_lalias_sw_6; } int read_lalias_sw_6(void){ return w_lalias_sw_6; } void write_lalias_sw_6(int v){ w_lalias_sw_6 = v; } void *waddr_lalias_sw_6(void){ return (void*)&w_lalias_sw_6; }
int lalias_st_7[4]; extern __typeof(lalias_st_7) t_lalias_st_7 __attribute__((alias("lalias_st_7")));
void *addr_lalias_st_7(void){ return (void*)t_lalias_st_7; } int read_lalias_st_7(void){ return t_lalias_st_7[0]; } void write_lalias_st_7(int v){ t_lalias_st_7[0] = v; } void *waddr_lalias_st_7(void){ return (void*)t_lalias_st_7; }
