#include <stdio.h>
static int bad; static void fail(const char *what){ printf("MISMATCH %s\n", what); bad++; }
extern int lfunc_0(void); extern void *addr_lfunc_0(void); extern void *l1_addr_lfunc_0(void); int (*volatile fp_lfunc_0)(void) = lfunc_0;
extern int ldata_1[]; extern const void *addr_ldata_1(void); extern const void *l1_addr_ldata_1(void); extern int read_ldata_1(void); extern int l1_read_ldata_1(void); int *volatile dp_ldata_1 = ldata_1;
extern int ldata_bss_2[]; extern const void *addr_ldata_bss_2(void); extern const void *l1_addr_ldata_bss_2(void); extern int read_ldata_bss_2(void); extern int l1_read_ldata_bss_2(void); int *volatile dp_ldata_bss_2 = ldata_bss_2;
extern int ldata_bss_3[]; extern const void *addr_ldata_bss_3(void); extern const void *l1_addr_ldata_bss_3(void); extern int read_ldata_bss_3(void); extern int l1_read_ldata_bss_3(void); int *volatile dp_ldata_bss_3 = ldata_bss_3;
extern int lalias_4; extern void *addr_lalias_4(void); extern int read_lalias_4(void); extern void write_lalias_4(int);
extern int lalias_5; extern void *addr_lalias_5(void); extern int read_lalias_5(void); extern void write_lalias_5(int);
extern int lalias_sw_6; extern void *addr_lalias_sw_6(void); extern void *waddr_lalias_sw_6(void); extern int read_lalias_sw_6(void); extern void write_lalias_sw_6(int);
extern int lalias_st_7[]; extern void *addr_lalias_st_7(void); extern void *waddr_lalias_st_7(void); extern int read_lalias_st_7(void); extern void write_lalias_st_7(int);
int main(void){
    if ((void*)lfunc_0 != addr_lfunc_0()) fail("lfunc_0: exe vs defining library");
    if ((void*)lfunc_0 != l1_addr_lfunc_0()) fail("lfunc_0: exe vs lib1");
    if ((void*)fp_lfunc_0 != (void*)lfunc_0) fail("lfunc_0: data pointer vs code reference in exe");
    if (fp_lfunc_0() != 160 || lfunc_0() != 160) fail("lfunc_0: call result");
    if ((const void*)ldata_1 != addr_ldata_1()) fail("ldata_1: exe vs defining library");
    if ((const void*)ldata_1 != l1_addr_ldata_1()) fail("ldata_1: exe vs lib1");
    if ((const void*)dp_ldata_1 != (const void*)ldata_1) fail("ldata_1: data pointer vs code reference in exe");
    if (ldata_1[0] != 117 || read_ldata_1() != 117) fail("ldata_1: initial value");
    ldata_1[0] = 1117; if (read_ldata_1() != 1117 || l1_read_ldata_1() != 1117) fail("ldata_1: write through exe not seen by library");
    if ((const void*)ldata_bss_2 != addr_ldata_bss_2()) fail("ldata_bss_2: exe vs defining library");
    if ((const void*)ldata_bss_2 != l1_addr_ldata_bss_2()) fail("ldata_bss_2: exe vs lib1");
    if ((const void*)dp_ldata_bss_2 != (const void*)ldata_bss_2) fail("ldata_bss_2: data pointer vs code reference in exe");
    if (ldata_bss_2[0] != 0 || read_ldata_bss_2() != 0) fail("ldata_bss_2: initial value");
    ldata_bss_2[0] = 1064; if (read_ldata_bss_2() != 1064 || l1_read_ldata_bss_2() != 1064) fail("ldata_bss_2: write through exe not seen by library");
    if ((const void*)ldata_bss_3 != addr_ldata_bss_3()) fail("ldata_bss_3: exe vs defining library");
    if ((const void*)ldata_bss_3 != l1_addr_ldata_bss_3()) fail("ldata_bss_3: exe vs lib1");
    if ((const void*)dp_ldata_bss_3 != (const void*)ldata_bss_3) fail("ldata_bss_3: data pointer vs code reference in exe");
    if (ldata_bss_3[0] != 0 || read_ldata_bss_3() != 0) fail("ldata_bss_3: initial value");
    ldata_bss_3[0] = 1023; if (read_ldata_bss_3() != 1023 || l1_read_ldata_bss_3() != 1023) fail("ldata_bss_3: write through exe not seen by library");
    if ((void*)&lalias_4 != addr_lalias_4()) fail("lalias_4: weak alias in exe vs strong symbol in library");
    write_lalias_4(28); if (lalias_4 != 28) fail("lalias_4: write through strong symbol not seen through alias");
    lalias_4 = 30; if (read_lalias_4() != 30) fail("lalias_4: write through alias not seen through strong symbol");
    if ((void*)&lalias_5 != addr_lalias_5()) fail("lalias_5: weak alias in exe vs strong symbol in library");
    write_lalias_5(141); if (lalias_5 != 141) fail("lalias_5: write through strong symbol not seen through alias");
    lalias_5 = 143; if (read_lalias_5() != 143) fail("lalias_5: write through alias not seen through strong symbol");
    if ((void*)&lalias_sw_6 != addr_lalias_sw_6() || (void*)&lalias_sw_6 != waddr_lalias_sw_6()) fail("lalias_sw_6: symbol in exe vs its alias used by the library");
    if (lalias_sw_6 != 55 || read_lalias_sw_6() != 55) fail("lalias_sw_6: initial value");
    lalias_sw_6 = 1055; if (read_lalias_sw_6() != 1055) fail("lalias_sw_6: write in exe not seen by the library through the alias");
    write_lalias_sw_6(62); if (lalias_sw_6 != 62) fail("lalias_sw_6: write by the library through the alias not seen in exe");
    if ((void*)lalias_st_7 != addr_lalias_st_7() || (void*)lalias_st_7 != waddr_lalias_st_7()) fail("lalias_st_7: symbol in exe vs its alias used by the library");
    if (lalias_st_7[0] != 0 || read_lalias_st_7() != 0) fail("lalias_st_7: initial value");
    lalias_st_7[0] = 1142; if (read_lalias_st_7() != 1142) fail("lalias_st_7: write in exe not seen by the library through the alias");
    write_lalias_st_7(149); if (lalias_st_7[0] != 149) fail("lalias_st_7: write by the library through the alias not seen in exe");
    if (!bad) printf("OK\n"); return bad ? 1 : 0; }
