int l2data_3[1] = { 101 };
const void *addr_l2data_3(void){ return l2data_3; } int read_l2data_3(void){ return l2data_3[0]; }
