#include <stdio.h>
static int bad; static void fail(const char *what){ printf("MISMATCH %s\n", what); bad++; }
extern int lfunc_0(void); extern void *addr_lfunc_0(void); extern void *l1_addr_lfunc_0(void); int (*volatile fp_lfunc_0)(void) = lfunc_0;
extern int ldata_1[]; extern const void *addr_ldata_1(void); extern const void *l1_addr_ldata_1(void); extern int read_ldata_1(void); extern int l1_read_ldata_1(void); int *volatile dp_ldata_1 = ldata_1;
extern int ldata_2[]; extern const void *addr_ldata_2(void); extern const void *l1_addr_ldata_2(void); extern int read_ldata_2(void); extern int l1_read_ldata_2(void); int *volatile dp_ldata_2 = ldata_2;
extern int l2data_3[]; extern const void *addr_l2data_3(void); extern const void *l1_addr_l2data_3(void); extern int read_l2data_3(void); extern int l1_read_l2data_3(void); int *volatile dp_l2data_3 = l2data_3;
extern int lifunc_4(void); extern void *addr_lifunc_4(void); int (*volatile fp_lifunc_4)(void) = lifunc_4;
extern int lalias_st_5; extern void *addr_lalias_st_5(void); extern void *waddr_lalias_st_5(void); extern int read_lalias_st_5(void); extern void write_lalias_st_5(int);
extern int lalias_multi_6[]; extern void *addr_lalias_multi_6(void); extern void *waddr_lalias_multi_6(void); extern int read_lalias_multi_6(void); extern void write_lalias_multi_6(int);
int main(void){
    if ((void*)lfunc_0 != addr_lfunc_0()) fail("lfunc_0: exe vs defining library");
    if ((void*)lfunc_0 != l1_addr_lfunc_0()) fail("lfunc_0: exe vs lib1");
    if ((void*)fp_lfunc_0 != (void*)lfunc_0) fail("lfunc_0: data pointer vs code reference in exe");
    if (fp_lfunc_0() != 52 || lfunc_0() != 52) fail("lfunc_0: call result");
    if ((const void*)ldata_1 != addr_ldata_1()) fail("ldata_1: exe vs defining library");
    if ((const void*)ldata_1 != l1_addr_ldata_1()) fail("ldata_1: exe vs lib1");
    if ((const void*)dp_ldata_1 != (const void*)ldata_1) fail("ldata_1: data pointer vs code reference in exe");
    if (ldata_1[0] != 181 || read_ldata_1() != 181) fail("ldata_1: initial value");
    ldata_1[0] = 1181; if (read_ldata_1() != 1181 || l1_read_ldata_1() != 1181) fail("ldata_1: write through exe not seen by library");
    if ((const void*)ldata_2 != addr_ldata_2()) fail("ldata_2: exe vs defining library");
    if ((const void*)ldata_2 != l1_addr_ldata_2()) fail("ldata_2: exe vs lib1");
    if ((const void*)dp_ldata_2 != (const void*)ldata_2) fail("ldata_2: data pointer vs code reference in exe");
    if (ldata_2[0] != 8 || read_ldata_2() != 8) fail("ldata_2: initial value");
    ldata_2[0] = 1008; if (read_ldata_2() != 1008 || l1_read_ldata_2() != 1008) fail("ldata_2: write through exe not seen by library");
    if ((const void*)l2data_3 != addr_l2data_3()) fail("l2data_3: exe vs defining library");
    if ((const void*)l2data_3 != l1_addr_l2data_3()) fail("l2data_3: exe vs lib1");
    if ((const void*)dp_l2data_3 != (const void*)l2data_3) fail("l2data_3: data pointer vs code reference in exe");
    if (l2data_3[0] != 101 || read_l2data_3() != 101) fail("l2data_3: initial value");
    l2data_3[0] = 1101; if (read_l2data_3() != 1101 || l1_read_l2data_3() != 1101) fail("l2data_3: write through exe not seen by library");
    if ((void*)lifunc_4 != addr_lifunc_4()) fail("lifunc_4: library ifunc address exe vs library");
    if ((void*)fp_lifunc_4 != (void*)lifunc_4) fail("lifunc_4: library ifunc address data vs code in exe");
    if (lifunc_4() != 137 || fp_lifunc_4() != 137) fail("lifunc_4: ifunc call result");
    if ((void*)&lalias_st_5 != addr_lalias_st_5() || (void*)&lalias_st_5 != waddr_lalias_st_5()) fail("lalias_st_5: symbol in exe vs its alias used by the library");
    if (lalias_st_5 != 74 || read_lalias_st_5() != 74) fail("lalias_st_5: initial value");
    lalias_st_5 = 1074; if (read_lalias_st_5() != 1074) fail("lalias_st_5: write in exe not seen by the library through the alias");
    write_lalias_st_5(81); if (lalias_st_5 != 81) fail("lalias_st_5: write by the library through the alias not seen in exe");
    if ((void*)lalias_multi_6 != addr_lalias_multi_6() || (void*)lalias_multi_6 != waddr_lalias_multi_6()) fail("lalias_multi_6: symbol in exe vs its alias used by the library");
    if (lalias_multi_6[0] != 0 || read_lalias_multi_6() != 0) fail("lalias_multi_6: initial value");
    lalias_multi_6[0] = 1192; if (read_lalias_multi_6() != 1192) fail("lalias_multi_6: write in exe not seen by the library through the alias");
    write_lalias_multi_6(199); if (lalias_multi_6[0] != 199) fail("lalias_multi_6: write by the library through the alias not seen in exe");
    if (!bad) printf("OK\n"); return bad ? 1 : 0; }
