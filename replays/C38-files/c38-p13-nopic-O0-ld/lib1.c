int lfunc_0(void){ return 97; }
void *addr_lfunc_0(void){ return (void*)lfunc_0; }
extern int lfunc_0(void); void *l1_addr_lfunc_0(void){ return (void*)lfunc_0; }
int ldata_1[1] = { 94 };
const void *addr_ldata_1(void){ return ldata_1; } int read_ldata_1(void){ return ldata_1[0]; }
extern int ldata_1[]; const void *l1_addr_ldata_1(void){ return ldata_1; } int l1_read_ldata_1(void){ return ldata_1[0]; }
int real_lalias_2 = 12; extern int lalias_2 __attribute__((weak, alias("real_lalias_2")));
void *addr_lalias_2(void){ return &real_lalias_2; } int read_lalias_2(void){ return real_lalias_2; } void write_lalias_2(int v){ real_lalias_2 = v; }
int ldata_bss_3[2];
const void *addr_ldata_bss_3(void){ return ldata_bss_3; } int read_ldata_bss_3(void){ return ldata_bss_3[0]; }
extern int ldata_bss_3[]; const void *l1_addr_ldata_bss_3(void){ return ldata_bss_3; } int l1_read_ldata_bss_3(void){ return ldata_bss_3[0]; }
int lalias_sw_4 = 74; extern __typeof(lalias_sw_4) w_lalias_sw_4 __attribute__((weak, alias("lalias_sw_4")));
void *addr_lalias_sw_4(void){ return (void*)&w_lalias_sw_4; } int read_lalias_sw_4(void){ return w_lalias_sw_4; } void write_lalias_sw_4(int v){ w_lalias_sw_4 = v; } void *waddr_lalias_sw_4(void){ return (void*)&w_lalias_sw_4; }
int lalias_multi_5 = 193; extern __typeof(lalias_multi_5) w_lalias_multi_5 __attribute__((weak, alias("lalias_multi_5"))); extern __typeof(lalias_multi_5) t_lalias_multi_5 __attribute__((alias("lalias_multi_5")));
void *addr_lalias_multi_5(void){ return (void*)&w_lalias_multi_5; } int read_lalias_multi_5(void){ return w_lalias_multi_5; } void write_lalias_multi_5(int v){ t_lalias_multi_5 = v; } void *waddr_lalias_multi_5(void){ return (void*)&t_lalias_multi_5; }
