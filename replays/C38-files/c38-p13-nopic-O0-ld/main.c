#include <stdio.h>
static int bad; static void fail(const char *what){ printf("MISMATCH %s\n", what); bad++; }
extern int lfunc_0(void); extern void *addr_lfunc_0(void); extern void *l1_addr_lfunc_0(void); int (*volatile fp_lfunc_0)(void) = lfunc_0;
extern int ldata_1[]; extern const void *addr_ldata_1(void); extern const void *l1_addr_ldata_1(void); extern int read_ldata_1(void); extern int l1_read_ldata_1(void); int *volatile dp_ldata_1 = ldata_1;
extern int lalias_2; extern void *addr_lalias_2(void); extern int read_lalias_2(void); extern void write_lalias_2(int);
extern int ldata_bss_3[]; extern const void *addr_ldata_bss_3(void); extern const void *l1_addr_ldata_bss_3(void); extern int read_ldata_bss_3(void); extern int l1_read_ldata_bss_3(void); int *volatile dp_ldata_bss_3 = ldata_bss_3;
extern int lalias_sw_4; extern void *addr_lalias_sw_4(void); extern void *waddr_lalias_sw_4(void); extern int read_lalias_sw_4(void); extern void write_lalias_sw_4(int);
extern int lalias_multi_5; extern void *addr_lalias_multi_5(void); extern void *waddr_lalias_multi_5(void); extern int read_lalias_multi_5(void); extern void write_lalias_multi_5(int);
int main(void){
    if ((void*)lfunc_0 != addr_lfunc_0()) fail("lfunc_0: exe vs defining library");
    if ((void*)lfunc_0 != l1_addr_lfunc_0()) fail("lfunc_0: exe vs lib1");
    if ((void*)fp_lfunc_0 != (void*)lfunc_0) fail("lfunc_0: data pointer vs code reference in exe");
    if (fp_lfunc_0() != 97 || lfunc_0() != 97) fail("lfunc_0: call result");
    if ((const void*)ldata_1 != addr_ldata_1()) fail("ldata_1: exe vs defining library");
    if ((const void*)ldata_1 != l1_addr_ldata_1()) fail("ldata_1: exe vs lib1");
    if ((const void*)dp_ldata_1 != (const void*)ldata_1) fail("ldata_1: data pointer vs code reference in exe");
    if (ldata_1[0] != 94 || read_ldata_1() != 94) fail("ldata_1: initial value");
    ldata_1[0] = 1094; if (read_ldata_1() != 1094 || l1_read_ldata_1() != 1094) fail("ldata_1: write through exe not seen by library");
    if ((void*)&lalias_2 != addr_lalias_2()) fail("lalias_2: weak alias in exe vs strong symbol in library");
    write_lalias_2(19); if (lalias_2 != 19) fail("lalias_2: write through strong symbol not seen through alias");
    lalias_2 = 21; if (read_lalias_2() != 21) fail("lalias_2: write through alias not seen through strong symbol");
    if ((const void*)ldata_bss_3 != addr_ldata_bss_3()) fail("ldata_bss_3: exe vs defining library");
    if ((const void*)ldata_bss_3 != l1_addr_ldata_bss_3()) fail("ldata_bss_3: exe vs lib1");
    if ((const void*)dp_ldata_bss_3 != (const void*)ldata_bss_3) fail("ldata_bss_3: data pointer vs code reference in exe");
    if (ldata_bss_3[0] != 0 || read_ldata_bss_3() != 0) fail("ldata_bss_3: initial value");
    ldata_bss_3[0] = 1025; if (read_ldata_bss_3() != 1025 || l1_read_ldata_bss_3() != 1025) fail("ldata_bss_3: write through exe not seen by library");
    if ((void*)&lalias_sw_4 != addr_lalias_sw_4() || (void*)&lalias_sw_4 != waddr_lalias_sw_4()) fail("lalias_sw_4: symbol in exe vs its alias used by the library");
    if (lalias_sw_4 != 74 || read_lalias_sw_4() != 74) fail("lalias_sw_4: initial value");
    lalias_sw_4 = 1074; if (read_lalias_sw_4() != 1074) fail("lalias_sw_4: write in exe not seen by the library through the alias");
    write_lalias_sw_4(81); if (lalias_sw_4 != 81) fail("lalias_sw_4: write by the library through the alias not seen in exe");
    if ((void*)&lalias_multi_5 != addr_lalias_multi_5() || (void*)&lalias_multi_5 != waddr_lalias_multi_5()) fail("lalias_multi_5: symbol in exe vs its alias used by the library");
    if (lalias_multi_5 != 193 || read_lalias_multi_5() != 193) fail("lalias_multi_5: initial value");
    lalias_multi_5 = 1193; if (read_lalias_multi_5() != 1193) fail("lalias_multi_5: write in exe not seen by the library through the alias");
    write_lalias_multi_5(200); if (lalias_multi_5 != 200) fail("lalias_multi_5: write by the library through the alias not seen in exe");
    if (!bad) printf("OK\n"); return bad ? 1 : 0; }
