int lfunc_0(void){ return 82; }
void *addr_lfunc_0(void){ return (void*)lfunc_0; }
extern int lfunc_0(void); void *l1_addr_lfunc_0(void){ return (void*)lfunc_0; }
int ldata_1[16] = { 165 };
const void *addr_ldata_1(void){ return ldata_1; } int read_ldata_1(void){ return ldata_1[0]; }
extern int ldata_1[]; const void *l1_addr_ldata_1(void){ return ldata_1; } int l1_read_ldata_1(void){ return ldata_1[0]; }
extern int efunc_2(void); void *l1_addr_efunc_2(void){ return (void*)efunc_2; } int l1_call_efunc_2(void){ return efunc_2(); }
extern int l2func_3(void); void *l1_addr_l2func_3(void){ return (void*)l2func_3; }
extern int l2data_4[]; const void *l1_addr_l2data_4(void){ return l2data_4; } int l1_read_l2data_4(void){ return l2data_4[0]; }
const int ldata_ro_5[2] = { 94 };
const void *addr_ldata_ro_5(void){ return ldata_ro_5; } int read_ldata_ro_5(void){ return ldata_ro_5[0]; }
extern const int ldata_ro_5[]; const void *l1_addr_ldata_ro_5(void){ return ldata_ro_5; } int l1_read_ldata_ro_5(void){ return ldata_ro_5[0]; }
int real_lalias_6 = 170; extern int lalias_6 __attribute__((weak, alias("real_lalias_6")));
void *addr_lalias_6(void){ return &real_lalias_6; } int read_lalias_6(void){ return real_lalias_6; } void write_lalias_6(int v){ real_lalias_6 = v; }
int lalias_ts_7[4]; extern __typeof(lalias_ts_7) t_lalias_ts_7 __attribute__((alias("lalias_ts_7")));
void *addr_lalias_ts_7(void){ return (void*)lalias_ts_7; } int read_lalias_ts_7(void){ return lalias_ts_7[0]; } void write_lalias_ts_7(int v){ lalias_ts_7[0] = v; } void *waddr_lalias_ts_7(void){ return (void*)lalias_ts_7; }
int lalias_sw_8 = 90; extern __typeof(lalias_sw_8) w_lalias_sw_8 __attribute__((weak, alias("lalias_sw_8")));
void *addr_lalias_sw_8(void){ return (void*)&w_lalias_sw_8; } int read_lalias_sw_8(void){ return w_lalias_sw_8; } void write_lalias_sw_8(int v){ w_lalias_sw_8 = v; } void *waddr_lalias_sw_8(void){ return (void*)&w_lalias_sw_8; }
