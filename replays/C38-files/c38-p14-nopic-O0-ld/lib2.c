int l2func_3(void){ return 29; }
void *addr_l2func_3(void){ return (void*)l2func_3; }
int l2data_4[4] = { 72 };
const void *addr_l2data_4(void){ return l2data_4; } int read_l2data_4(void){ return l2data_4[0]; }
