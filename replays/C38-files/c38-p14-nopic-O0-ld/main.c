#include <stdio.h>
static int bad; static void fail(const char *what){ printf("MISMATCH %s\n", what); bad++; }
extern int lfunc_0(void); extern void *addr_lfunc_0(void); extern void *l1_addr_lfunc_0(void); int (*volatile fp_lfunc_0)(void) = lfunc_0;
extern int ldata_1[]; extern const void *addr_ldata_1(void); extern const void *l1_addr_ldata_1(void); extern int read_ldata_1(void); extern int l1_read_ldata_1(void); int *volatile dp_ldata_1 = ldata_1;
int efunc_2(void){ return 52; } extern void *l1_addr_efunc_2(void); extern int l1_call_efunc_2(void);
extern int l2func_3(void); extern void *addr_l2func_3(void); extern void *l1_addr_l2func_3(void); int (*volatile fp_l2func_3)(void) = l2func_3;
extern int l2data_4[]; extern const void *addr_l2data_4(void); extern const void *l1_addr_l2data_4(void); extern int read_l2data_4(void); extern int l1_read_l2data_4(void); int *volatile dp_l2data_4 = l2data_4;
extern const int ldata_ro_5[]; extern const void *addr_ldata_ro_5(void); extern const void *l1_addr_ldata_ro_5(void); extern int read_ldata_ro_5(void); extern int l1_read_ldata_ro_5(void); const int *volatile dp_ldata_ro_5 = ldata_ro_5;
extern int lalias_6; extern void *addr_lalias_6(void); extern int read_lalias_6(void); extern void write_lalias_6(int);
extern int t_lalias_ts_7[]; extern void *addr_lalias_ts_7(void); extern void *waddr_lalias_ts_7(void); extern int read_lalias_ts_7(void); extern void write_lalias_ts_7(int);
extern int lalias_sw_8; extern void *addr_lalias_sw_8(void); extern void *waddr_lalias_sw_8(void); extern int read_lalias_sw_8(void); extern void write_lalias_sw_8(int);
int main(void){
    if ((void*)lfunc_0 != addr_lfunc_0()) fail("lfunc_0: exe vs defining library");
    if ((void*)lfunc_0 != l1_addr_lfunc_0()) fail("lfunc_0: exe vs lib1");
    if ((void*)fp_lfunc_0 != (void*)lfunc_0) fail("lfunc_0: data pointer vs code reference in exe");
    if (fp_lfunc_0() != 82 || lfunc_0() != 82) fail("lfunc_0: call result");
    if ((const void*)ldata_1 != addr_ldata_1()) fail("ldata_1: exe vs defining library");
    if ((const void*)ldata_1 != l1_addr_ldata_1()) fail("ldata_1: exe vs lib1");
    if ((const void*)dp_ldata_1 != (const void*)ldata_1) fail("ldata_1: data pointer vs code reference in exe");
    if (ldata_1[0] != 165 || read_ldata_1() != 165) fail("ldata_1: initial value");
    ldata_1[0] = 1165; if (read_ldata_1() != 1165 || l1_read_ldata_1() != 1165) fail("ldata_1: write through exe not seen by library");
    if ((void*)efunc_2 != l1_addr_efunc_2()) fail("efunc_2: exe function seen from lib1");
    if (l1_call_efunc_2() != 52) fail("efunc_2: call from lib1");
    if ((void*)l2func_3 != addr_l2func_3()) fail("l2func_3: exe vs defining library");
    if ((void*)l2func_3 != l1_addr_l2func_3()) fail("l2func_3: exe vs lib1");
    if ((void*)fp_l2func_3 != (void*)l2func_3) fail("l2func_3: data pointer vs code reference in exe");
    if (fp_l2func_3() != 29 || l2func_3() != 29) fail("l2func_3: call result");
    if ((const void*)l2data_4 != addr_l2data_4()) fail("l2data_4: exe vs defining library");
    if ((const void*)l2data_4 != l1_addr_l2data_4()) fail("l2data_4: exe vs lib1");
    if ((const void*)dp_l2data_4 != (const void*)l2data_4) fail("l2data_4: data pointer vs code reference in exe");
    if (l2data_4[0] != 72 || read_l2data_4() != 72) fail("l2data_4: initial value");
    l2data_4[0] = 1072; if (read_l2data_4() != 1072 || l1_read_l2data_4() != 1072) fail("l2data_4: write through exe not seen by library");
    if ((const void*)ldata_ro_5 != addr_ldata_ro_5()) fail("ldata_ro_5: exe vs defining library");
    if ((const void*)ldata_ro_5 != l1_addr_ldata_ro_5()) fail("ldata_ro_5: exe vs lib1");
    if ((const void*)dp_ldata_ro_5 != (const void*)ldata_ro_5) fail("ldata_ro_5: data pointer vs code reference in exe");
    if (ldata_ro_5[0] != 94 || read_ldata_ro_5() != 94) fail("ldata_ro_5: initial value");
    if ((void*)&lalias_6 != addr_lalias_6()) fail("lalias_6: weak alias in exe vs strong symbol in library");
    write_lalias_6(177); if (lalias_6 != 177) fail("lalias_6: write through strong symbol not seen through alias");
    lalias_6 = 179; if (read_lalias_6() != 179) fail("lalias_6: write through alias not seen through strong symbol");
    if ((void*)t_lalias_ts_7 != addr_lalias_ts_7() || (void*)t_lalias_ts_7 != waddr_lalias_ts_7()) fail("lalias_ts_7: symbol in exe vs its alias used by the library");
    if (t_lalias_ts_7[0] != 0 || read_lalias_ts_7() != 0) fail("lalias_ts_7: initial value");
    t_lalias_ts_7[0] = 1106; if (read_lalias_ts_7() != 1106) fail("lalias_ts_7: write in exe not seen by the library through the alias");
    write_lalias_ts_7(113); if (t_lalias_ts_7[0] != 113) fail("lalias_ts_7: write by the library through the alias not seen in exe");
    if ((void*)&lalias_sw_8 != addr_lalias_sw_8() || (void*)&lalias_sw_8 != waddr_lalias_sw_8()) fail("lalias_sw_8: symbol in exe vs its alias used by the library");
    if (lalias_sw_8 != 90 || read_lalias_sw_8() != 90) fail("lalias_sw_8: initial value");
    lalias_sw_8 = 1090; if (read_lalias_sw_8() != 1090) fail("lalias_sw_8: write in exe not seen by the library through the alias");
    write_lalias_sw_8(97); if (lalias_sw_8 != 97) fail("lalias_sw_8: write by the library through the alias not seen in exe");
    if (!bad) printf("OK\n"); return bad ? 1 : 0; }
