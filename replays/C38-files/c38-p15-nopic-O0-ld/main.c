#include <stdio.h>
static int bad; static void fail(const char *what){ printf("MISMATCH %s\n", what); bad++; }
extern int lfunc_0(void); extern void *addr_lfunc_0(void); extern void *l1_addr_lfunc_0(void); int (*volatile fp_lfunc_0)(void) = lfunc_0;
extern int ldata_1[]; extern const void *addr_ldata_1(void); extern const void *l1_addr_ldata_1(void); extern int read_ldata_1(void); extern int l1_read_ldata_1(void); int *volatile dp_ldata_1 = ldata_1;
int edata_2[1] = { 17 }; extern void *l1_addr_edata_2(void); extern int l1_read_edata_2(void);
static int impl_eifunc_3(void){ return 124; } static void *res_eifunc_3(void){ return (void*)impl_eifunc_3; } int eifunc_3(void) __attribute__((ifunc("res_eifunc_3"))); extern void *l1_addr_eifunc_3(void); extern int l1_call_eifunc_3(void); int (*volatile fp_eifunc_3)(void) = eifunc_3;
static int impl_eifunc_4(void){ return 119; } static void *res_eifunc_4(void){ return (void*)impl_eifunc_4; } int eifunc_4(void) __attribute__((ifunc("res_eifunc_4"))); extern void *l1_addr_eifunc_4(void); extern int l1_call_eifunc_4(void); int (*volatile fp_eifunc_4)(void) = eifunc_4;
static int impl_eifunc_5(void){ return 37; } static void *res_eifunc_5(void){ return (void*)impl_eifunc_5; } int eifunc_5(void) __attribute__((ifunc("res_eifunc_5"))); extern void *l1_addr_eifunc_5(void); extern int l1_call_eifunc_5(void); int (*volatile fp_eifunc_5)(void) = eifunc_5;
extern int lalias_sw_6; extern void *addr_lalias_sw_6(void); extern void *waddr_lalias_sw_6(void); extern int read_lalias_sw_6(void); extern void write_lalias_sw_6(int);
extern int t_lalias_ts_7; extern void *addr_lalias_ts_7(void); extern void *waddr_lalias_ts_7(void); extern int read_lalias_ts_7(void); extern void write_lalias_ts_7(int);
int main(void){
    if ((void*)lfunc_0 != addr_lfunc_0()) fail("lfunc_0: exe vs defining library");
    if ((void*)lfunc_0 != l1_addr_lfunc_0()) fail("lfunc_0: exe vs lib1");
    if ((void*)fp_lfunc_0 != (void*)lfunc_0) fail("lfunc_0: data pointer vs code reference in exe");
    if (fp_lfunc_0() != 137 || lfunc_0() != 137) fail("lfunc_0: call result");
    if ((const void*)ldata_1 != addr_ldata_1()) fail("ldata_1: exe vs defining library");
    if ((const void*)ldata_1 != l1_addr_ldata_1()) fail("ldata_1: exe vs lib1");
    if ((const void*)dp_ldata_1 != (const void*)ldata_1) fail("ldata_1: data pointer vs code reference in exe");
    if (ldata_1[0] != 12 || read_ldata_1() != 12) fail("ldata_1: initial value");
    ldata_1[0] = 1012; if (read_ldata_1() != 1012 || l1_read_ldata_1() != 1012) fail("ldata_1: write through exe not seen by library");
    if ((void*)edata_2 != l1_addr_edata_2()) fail("edata_2: exe data seen from lib1");
    edata_2[0] = 22; if (l1_read_edata_2() != 22) fail("edata_2: write in exe not seen by lib1");
    if ((void*)fp_eifunc_3 != (void*)eifunc_3) fail("eifunc_3: ifunc address in data vs code in exe");
    
#ifdef EIFUNC_FROM_LIB
    if ((void*)eifunc_3 != l1_addr_eifunc_3()) fail("eifunc_3: exe ifunc address seen from lib1"); if (l1_call_eifunc_3() != 124) fail("eifunc_3: ifunc call from lib1");
#endif
    if (eifunc_3() != 124 || fp_eifunc_3() != 124) fail("eifunc_3: ifunc call result");
    if ((void*)fp_eifunc_4 != (void*)eifunc_4) fail("eifunc_4: ifunc address in data vs code in exe");
    
#ifdef EIFUNC_FROM_LIB
    if ((void*)eifunc_4 != l1_addr_eifunc_4()) fail("eifunc_4: exe ifunc address seen from lib1"); if (l1_call_eifunc_4() != 119) fail("eifunc_4: ifunc call from lib1");
#endif
    if (eifunc_4() != 119 || fp_eifunc_4() != 119) fail("eifunc_4: ifunc call result");
    if ((void*)fp_eifunc_5 != (void*)eifunc_5) fail("eifunc_5: ifunc address in data vs code in exe");
    
#ifdef EIFUNC_FROM_LIB
    if ((void*)eifunc_5 != l1_addr_eifunc_5()) fail("eifunc_5: exe ifunc address seen from lib1"); if (l1_call_eifunc_5() != 37) fail("eifunc_5: ifunc call from lib1");
#endif
    if (eifunc_5() != 37 || fp_eifunc_5() != 37) fail("eifunc_5: ifunc call result");
    if ((void*)&lalias_sw_6 != addr_lalias_sw_6() || (void*)&lalias_sw_6 != waddr_lalias_sw_6()) fail("lalias_sw_6: symbol in exe vs its alias used by the library");
    if (lalias_sw_6 != 91 || read_lalias_sw_6() != 91) fail("lalias_sw_6: initial value");
    lalias_sw_6 = 1091; if (read_lalias_sw_6() != 1091) fail("lalias_sw_6: write in exe not seen by the library through the alias");
    write_lalias_sw_6(98); if (lalias_sw_6 != 98) fail("lalias_sw_6: write by the library through the alias not seen in exe");
    if ((void*)&t_lalias_ts_7 != addr_lalias_ts_7() || (void*)&t_lalias_ts_7 != waddr_lalias_ts_7()) fail("lalias_ts_7: symbol in exe vs its alias used by the library");
    if (t_lalias_ts_7 != 151 || read_lalias_ts_7() != 151) fail("lalias_ts_7: initial value");
    t_lalias_ts_7 = 1151; if (read_lalias_ts_7() != 1151) fail("lalias_ts_7: write in exe not seen by the library through the alias");
    write_lalias_ts_7(158); if (t_lalias_ts_7 != 158) fail("lalias_ts_7: write by the library through the alias not seen in exe");
    if (!bad) printf("OK\n"); return bad ? 1 : 0; }
