int lfunc_0(void){ return 2; }
void *addr_lfunc_0(void){ return (void*)lfunc_0; }
extern int lfunc_0(void); void *l1_addr_lfunc_0(void){ return (void*)lfunc_0; }
int ldata_1[4] = { 36 };
const void *addr_ldata_1(void){ return ldata_1; } int read_ldata_1(void){ return ldata_1[0]; }
extern int ldata_1[]; const void *l1_addr_ldata_1(void){ return ldata_1; } int l1_read_ldata_1(void){ return ldata_1[0]; }
const int ldata_ro_2[4] = { 64 };
const void *addr_ldata_ro_2(void){ return ldata_ro_2; } int read_ldata_ro_2(void){ return ldata_ro_2[0]; }
extern const int ldata_ro_2[]; const void *l1_addr_ldata_ro_2(void){ return ldata_ro_2; } int l1_read_ldata_ro_2(void){ return ldata_ro_2[0]; }
int ldata_3[1] = { 188 };
const void *addr_ldata_3(void){ return ldata_3; } int read_ldata_3(void){ return ldata_3[0]; }
extern int ldata_3[]; const void *l1_addr_ldata_3(void){ return ldata_3; } int l1_read_ldata_3(void){ return ldata_3[0]; }
const int ldata_ro_4[4] = { 88 };
const void *addr_ldata_ro_4(void){ return ldata_ro_4; } int read_ldata_ro_4(void){ return ldata_ro_4[0]; }
extern const int ldata_ro_4[]; const void *l1_addr_ldata_ro_4(void){ return ldata_ro_4; } int l1_read_ldata_ro_4(void){ return ldata_ro_4[0]; }
extern int l2data_5[]; const void *l1_addr_l2data_5(void){ return l2data_5; } int l1_read_l2data_5(void){ return l2data_5[0]; }
extern int efunc_6(void); void *l1_addr_efunc_6(void){ return (void*)efunc_6; } int l1_call_efunc_6(void){ return efunc_6(); }
int real_lalias_7 = 19; extern int lalias_7 __attribute__((weak, alias("real_lalias_7")));
void *addr_lalias_7(void){ return &real_lalias_7; } int read_lalias_7(void){ return real_lalias_7; } void write_lalias_7(int v){ real_lalias_7 = v; }
int lalias_sw_8 = 18; extern __typeof(lalias_sw_8) w_lalias_sw_8 __attribute__((weak, alias("lalias_sw_8")));
void *addr_lalias_sw_8(void){ return (void*)&w_lalias_sw_8; } int read_lalias_sw_8(void){ return w_lalias_sw_8; } void write_lalias_sw_8(int v){ w_lalias_sw_8 = v; } void *waddr_lalias_sw_8(void){ return (void*)&w_lalias_sw_8; }
int lalias_st_9[16]; extern __typeof(lalias_st_9) t_lalias_st_9 __attribute__((alias("lalias_st_9")));
void *addr_lalias_st_9(void){ return (void*)t_lalias_st_9; } int read_lalias_st_9(void){ return t_lalias_st_9[0]; } void write_lalias_st_9(int v){ t_lalias_st_9[0] = v; } void *waddr_lalias_st_9(void){ return (void*)t_lalias_st_9; }
