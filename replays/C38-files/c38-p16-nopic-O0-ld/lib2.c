int l2data_5[1] = { 169 };
const void *addr_l2data_5(void){ return l2data_5; } int read_l2data_5(void){ return l2data_5[0]; }
