int lfunc_0(void){ return 151; }
void *addr_lfunc_0(void){ return (void*)lfunc_0; }
extern int lfunc_0(void); void *l1_addr_lfunc_0(void){ return (void*)lfunc_0; }
int ldata_1[1] = { 120 };
const void *addr_ldata_1(void){ return ldata_1; } int read_ldata_1(void){ return ldata_1[0]; }
extern int ldata_1[]; const void *l1_addr_ldata_1(void){ return ldata_1; } int l1_read_ldata_1(void){ return ldata_1[0]; }
const int ldata_ro_2[4] = { 33 };
const void *addr_ldata_ro_2(void){ return ldata_ro_2; } int read_ldata_ro_2(void){ return ldata_ro_2[0]; }
extern const int ldata_ro_2[]; const void *l1_addr_ldata_ro_2(void){ return ldata_ro_2; } int l1_read_ldata_ro_2(void){ return ldata_ro_2[0]; }
const int ldata_ro_3[4] = { 32 };
const void *addr_ldata_ro_3(void){ return ldata_ro_3; } int read_ldata_ro_3(void){ return ldata_ro_3[0]; }
extern const int ldata_ro_3[]; const void *l1_addr_ldata_ro_3(void){ return ldata_ro_3; } int l1_read_ldata_ro_3(void){ return ldata_ro_3[0]; }
static int impl_lifunc_4(void){ return 152; } static void *res_lifunc_4(void){ return (void*)impl_lifunc_4; } int lifunc_4(void) __attribute__((ifunc("res_lifunc_4"))); void *addr_lifunc_4(void){ return (void*)lifunc_4; }
int lalias_st_5[16]; extern __typeof(lalias_st_5) t_lalias_st_5 __attribute__((alias("lalias_st_5")));
void *addr_lalias_st_5(void){ return (void*)t_lalias_st_5; } int read_lalias_st_5(void){ return t_lalias_st_5[0]; } void write_lalias_st_5(int v){ t_lalias_st_5[0] = v; } void *waddr_lalias_st_5(void){ return (void*)t_lalias_st_5; }
int lalias_multi_6[16]; extern __typeof(lalias_multi_6) w_lalias_multi_6 __attribute__((weak, alias("lalias_multi_6"))); extern __typeof(lalias_multi_6) t_lalias_multi_6 __attribute__((alias("lalias_multi_6")));
void *addr_lalias_multi_6(void){ return (void*)w_lalias_multi_6; } int read_lalias_multi_6(void){ return w_lalias_multi_6[0]; } void write_lalias_multi_6(int v){ t_lalias_multi_6[0] = v; } void *waddr_lalias_multi_6(void){ return (void*)t_lalias_multi_6; }
