#include <stdio.h>
static int bad; static void fail(const char *what){ printf("MISMATCH %s\n", what); bad++; }
extern int lfunc_0(void); extern void *addr_lfunc_0(void); extern void *l1_addr_lfunc_0(void); int (*volatile fp_lfunc_0)(void) = lfunc_0;
extern int ldata_1[]; extern const void *addr_ldata_1(void); extern const void *l1_addr_ldata_1(void); extern int read_ldata_1(void); extern int l1_read_ldata_1(void); int *volatile dp_ldata_1 = ldata_1;
extern const int ldata_ro_2[]; extern const void *addr_ldata_ro_2(void); extern const void *l1_addr_ldata_ro_2(void); extern int read_ldata_ro_2(void); extern int l1_read_ldata_ro_2(void); const int *volatile dp_ldata_ro_2 = ldata_ro_2;
extern const int ldata_ro_3[]; extern const void *addr_ldata_ro_3(void); extern const void *l1_addr_ldata_ro_3(void); extern int read_ldata_ro_3(void); extern int l1_read_ldata_ro_3(void); const int *volatile dp_ldata_ro_3 = ldata_ro_3;
extern int lifunc_4(void); extern void *addr_lifunc_4(void); int (*volatile fp_lifunc_4)(void) = lifunc_4;
extern int lalias_st_5[]; extern void *addr_lalias_st_5(void); extern void *waddr_lalias_st_5(void); extern int read_lalias_st_5(void); extern void write_lalias_st_5(int);
extern int lalias_multi_6[]; extern void *addr_lalias_multi_6(void); extern void *waddr_lalias_multi_6(void); extern int read_lalias_multi_6(void); extern void write_lalias_multi_6(int);
int main(void){
    if ((void*)lfunc_0 != addr_lfunc_0()) fail("lfunc_0: exe vs defining library");
    if ((void*)lfunc_0 != l1_addr_lfunc_0()) fail("lfunc_0: exe vs lib1");
    if ((void*)fp_lfunc_0 != (void*)lfunc_0) fail("lfunc_0: data pointer vs code reference in exe");
    if (fp_lfunc_0() != 151 || lfunc_0() != 151) fail("lfunc_0: call result");
    if ((const void*)ldata_1 != addr_ldata_1()) fail("ldata_1: exe vs defining library");
    if ((const void*)ldata_1 != l1_addr_ldata_1()) fail("ldata_1: exe vs lib1");
    if ((const void*)dp_ldata_1 != (const void*)ldata_1) fail("ldata_1: data pointer vs code reference in exe");
    if (ldata_1[0] != 120 || read_ldata_1() != 120) fail("ldata_1: initial value");
    ldata_1[0] = 1120; if (read_ldata_1() != 1120 || l1_read_ldata_1() != 1120) fail("ldata_1: write through exe not seen by library");
    if ((const void*)ldata_ro_2 != addr_ldata_ro_2()) fail("ldata_ro_2: exe vs defining library");
    if ((const void*)ldata_ro_2 != l1_addr_ldata_ro_2()) fail("ldata_ro_2: exe vs lib1");
    if ((const void*)dp_ldata_ro_2 != (const void*)ldata_ro_2) fail("ldata_ro_2: data pointer vs code reference in exe");
    if (ldata_ro_2[0] != 33 || read_ldata_ro_2() != 33) fail("ldata_ro_2: initial value");
    if ((const void*)ldata_ro_3 != addr_ldata_ro_3()) fail("ldata_ro_3: exe vs defining library");
    if ((const void*)ldata_ro_3 != l1_addr_ldata_ro_3()) fail("ldata_ro_3: exe vs lib1");
    if ((const void*)dp_ldata_ro_3 != (const void*)ldata_ro_3) fail("ldata_ro_3: data pointer vs code reference in exe");
    if (ldata_ro_3[0] != 32 || read_ldata_ro_3() != 32) fail("ldata_ro_3: initial value");
    if ((void*)lifunc_4 != addr_lifunc_4()) fail("lifunc_4: library ifunc address exe vs library");
    if ((void*)fp_lifunc_4 != (void*)lifunc_4) fail("lifunc_4: library ifunc address data vs code in exe");
    if (lifunc_4() != 152 || fp_lifunc_4() != 152) fail("lifunc_4: ifunc call result");
    if ((void*)lalias_st_5 != addr_lalias_st_5() || (void*)lalias_st_5 != waddr_lalias_st_5()) fail("lalias_st_5: symbol in exe vs its alias used by the library");
    if (lalias_st_5[0] != 0 || read_lalias_st_5() != 0) fail("lalias_st_5: initial value");
    lalias_st_5[0] = 1122; if (read_lalias_st_5() != 1122) fail("lalias_st_5: write in exe not seen by the library through the alias");
    write_lalias_st_5(129); if (lalias_st_5[0] != 129) fail("lalias_st_5: write by the library through the alias not seen in exe");
    if ((void*)lalias_multi_6 != addr_lalias_multi_6() || (void*)lalias_multi_6 != waddr_lalias_multi_6()) fail("lalias_multi_6: symbol in exe vs its alias used by the library");
    if (lalias_multi_6[0] != 0 || read_lalias_multi_6() != 0) fail("lalias_multi_6: initial value");
    lalias_multi_6[0] = 1191; if (read_lalias_multi_6() != 1191) fail("lalias_multi_6: write in exe not seen by the library through the alias");
    write_lalias_multi_6(198); if (lalias_multi_6[0] != 198) fail("lalias_multi_6: write by the library through the alias not seen in exe");
    if (!bad) printf("OK\n"); return bad ? 1 : 0; }
