#include <stdio.h>
static int bad; static void fail(const char *what){ printf("MISMATCH %s\n", what); bad++; }
extern int lfunc_0(void); extern void *addr_lfunc_0(void); extern void *l1_addr_lfunc_0(void); int (*volatile fp_lfunc_0)(void) = lfunc_0;
extern int ldata_1[]; extern const void *addr_ldata_1(void); extern const void *l1_addr_ldata_1(void); extern int read_ldata_1(void); extern int l1_read_ldata_1(void); int *volatile dp_ldata_1 = ldata_1;
extern int lifunc_2(void); extern void *addr_lifunc_2(void); int (*volatile fp_lifunc_2)(void) = lifunc_2;
static int impl_eifunc_3(void){ return 10; } static void *res_eifunc_3(void){ return (void*)impl_eifunc_3; } int eifunc_3(void) __attribute__((ifunc("res_eifunc_3"))); extern void *l1_addr_eifunc_3(void); extern int l1_call_eifunc_3(void); int (*volatile fp_eifunc_3)(void) = eifunc_3;
extern const int ldata_ro_4[]; extern const void *addr_ldata_ro_4(void); extern const void *l1_addr_ldata_ro_4(void); extern int read_ldata_ro_4(void); extern int l1_read_ldata_ro_4(void); const int *volatile dp_ldata_ro_4 = ldata_ro_4;
extern int ldata_bss_5[]; extern const void *addr_ldata_bss_5(void); extern const void *l1_addr_ldata_bss_5(void); extern int read_ldata_bss_5(void); extern int l1_read_ldata_bss_5(void); int *volatile dp_ldata_bss_5 = ldata_bss_5;
extern int lalias_sw_6[]; extern void *addr_lalias_sw_6(void); extern void *waddr_lalias_sw_6(void); extern int read_lalias_sw_6(void); extern void write_lalias_sw_6(int);
extern int lalias_multi_7; extern void *addr_lalias_multi_7(void); extern void *waddr_lalias_multi_7(void); extern int read_lalias_multi_7(void); extern void write_lalias_multi_7(int);
int main(void){
    if ((void*)lfunc_0 != addr_lfunc_0()) fail("lfunc_0: exe vs defining library");
    if ((void*)lfunc_0 != l1_addr_lfunc_0()) fail("lfunc_0: exe vs lib1");
    if ((void*)fp_lfunc_0 != (void*)lfunc_0) fail("lfunc_0: data pointer vs code reference in exe");
    if (fp_lfunc_0() != 21 || lfunc_0() != 21) fail("lfunc_0: call result");
    if ((const void*)ldata_1 != addr_ldata_1()) fail("ldata_1: exe vs defining library");
    if ((const void*)ldata_1 != l1_addr_ldata_1()) fail("ldata_1: exe vs lib1");
    if ((const void*)dp_ldata_1 != (const void*)ldata_1) fail("ldata_1: data pointer vs code reference in exe");
    if (ldata_1[0] != 28 || read_ldata_1() != 28) fail("ldata_1: initial value");
    ldata_1[0] = 1028; if (read_ldata_1() != 1028 || l1_read_ldata_1() != 1028) fail("ldata_1: write through exe not seen by library");
    if ((void*)lifunc_2 != addr_lifunc_2()) fail("lifunc_2: library ifunc address exe vs library");
    if ((void*)fp_lifunc_2 != (void*)lifunc_2) fail("lifunc_2: library ifunc address data vs code in exe");
    if (lifunc_2() != 40 || fp_lifunc_2() != 40) fail("lifunc_2: ifunc call result");
    if ((void*)fp_eifunc_3 != (void*)eifunc_3) fail("eifunc_3: ifunc address in data vs code in exe");
    
#ifdef EIFUNC_FROM_LIB
    if ((void*)eifunc_3 != l1_addr_eifunc_3()) fail("eifunc_3: exe ifunc address seen from lib1"); if (l1_call_eifunc_3() != 10) fail("eifunc_3: ifunc call from lib1");
#endif
    if (eifunc_3() != 10 || fp_eifunc_3() != 10) fail("eifunc_3: ifunc call result");
    if ((const void*)ldata_ro_4 != addr_ldata_ro_4()) fail("ldata_ro_4: exe vs defining library");
    if ((const void*)ldata_ro_4 != l1_addr_ldata_ro_4()) fail("ldata_ro_4: exe vs lib1");
    if ((const void*)dp_ldata_ro_4 != (const void*)ldata_ro_4) fail("ldata_ro_4: data pointer vs code reference in exe");
    if (ldata_ro_4[0] != 158 || read_ldata_ro_4() != 158) fail("ldata_ro_4: initial value");
    if ((const void*)ldata_bss_5 != addr_ldata_bss_5()) fail("ldata_bss_5: exe vs defining library");
    if ((const void*)ldata_bss_5 != l1_addr_ldata_bss_5()) fail("ldata_bss_5: exe vs lib1");
    if ((const void*)dp_ldata_bss_5 != (const void*)ldata_bss_5) fail("ldata_bss_5: data pointer vs code reference in exe");
    if (ldata_bss_5[0] != 0 || read_ldata_bss_5() != 0) fail("ldata_bss_5: initial value");
    ldata_bss_5[0] = 1027; if (read_ldata_bss_5() != 1027 || l1_read_ldata_bss_5() != 1027) fail("ldata_bss_5: write through exe not seen by library");
    if ((void*)lalias_sw_6 != addr_lalias_sw_6() || (void*)lalias_sw_6 != waddr_lalias_sw_6()) fail("lalias_sw_6: symbol in exe vs its alias used by the library");
    if (lalias_sw_6[0] != 0 || read_lalias_sw_6() != 0) fail("lalias_sw_6: initial value");
    lalias_sw_6[0] = 1162; if (read_lalias_sw_6() != 1162) fail("lalias_sw_6: write in exe not seen by the library through the alias");
    write_lalias_sw_6(169); if (lalias_sw_6[0] != 169) fail("lalias_sw_6: write by the library through the alias not seen in exe");
    if ((void*)&lalias_multi_7 != addr_lalias_multi_7() || (void*)&lalias_multi_7 != waddr_lalias_multi_7()) fail("lalias_multi_7: symbol in exe vs its alias used by the library");
    if (lalias_multi_7 != 82 || read_lalias_multi_7() != 82) fail("lalias_multi_7: initial value");
    lalias_multi_7 = 1082; if (read_lalias_multi_7() != 1082) fail("lalias_multi_7: write in exe not seen by the library through the alias");
    write_lalias_multi_7(89); if (lalias_multi_7 != 89) fail("lalias_multi_7: write by the library through the alias not seen in exe");
    if (!bad) printf("OK\n"); return bad ? 1 : 0; }
