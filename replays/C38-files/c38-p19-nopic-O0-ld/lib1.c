int lfunc_0(void){ return 8; }
void *addr_lfunc_0(void){ return (void*)lfunc_0; }
extern int lfunc_0(void); void *l1_addr_lfunc_0(void){ return (void*)lfunc_0; }
int ldata_1[16] = { 180 };
const void *addr_ldata_1(void){ return ldata_1; } int read_ldata_1(void){ return ldata_1[0]; }
extern int ldata_1[]; const void *l1_addr_ldata_1(void){ return ldata_1; } int l1_read_ldata_1(void){ return ldata_1[0]; }
int real_lalias_2 = 192; extern int lalias_2 __attribute__((weak, alias("real_lalias_2")));
void *addr_lalias_2(void){ return &real_lalias_2; } int read_lalias_2(void){ return real_lalias_2; } void write_lalias_2(int v){ real_lalias_2 = v; }
int real_lalias_3 = 197; extern int lalias_3 __attribute__((weak, alias("real_lalias_3")));
void *addr_lalias_3(void){ return &real_lalias_3; } int read_lalias_3(void){ return real_lalias_3; } void write_lalias_3(int v){ real_lalias_3 = v; }
static int impl_lifunc_4(void){ return 74; } static void *res_lifunc_4(void){ return (void*)impl_lifunc_4; } int lifunc_4(void) __attribute__((ifunc("res_lifunc_4"))); void *addr_lifunc_4(void){ return (void*)lifunc_4; }
int lfunc_5(void){ return 132; }
void *addr_lfunc_5(void){ return (void*)lfunc_5; }
extern int lfunc_5(void); void *l1_addr_lfunc_5(void){ return (void*)lfunc_5; }
int lalias_ts_6[4]; extern __typeof(lalias_ts_6) t_lalias_ts_6 __attribute__((alias("lalias_ts_6")));
void *addr_lalias_ts_6(void){ return (void*)lalias_ts_6; } int read_lalias_ts_6(void){ return lalias_ts_6[0]; } void write_lalias_ts_6(int v){ lalias_ts_6[0] = v; } void *waddr_lalias_ts_6(void){ return (void*)lalias_ts_6; }
int lalias_sw_7[16]; extern __typeof(lalias_sw_7) w_lalias_sw_7 __attribute__((weak, alias("lalias_sw_7")));
void *addr_lalias_sw_7(void){ return (void*)w_lalias_sw_7; } int read_lalias_sw_7(void){ return w_lalias_sw_7[0]; } void write_lalias_sw_7(int v){ w_lalias_sw_7[0] = v; } void *waddr_lalias_sw_7(void){ return (void*)w_lalias_sw_7; }
