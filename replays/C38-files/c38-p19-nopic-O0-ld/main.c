#include <stdio.h>
static int bad; static void fail(const char *what){ printf("MISMATCH %s\n", what); bad++; }
extern int lfunc_0(void); extern void *addr_lfunc_0(void); extern void *l1_addr_lfunc_0(void); int (*volatile fp_lfunc_0)(void) = lfunc_0;
extern int ldata_1[]; extern const void *addr_ldata_1(void); extern const void *l1_addr_ldata_1(void); extern int read_ldata_1(void); extern int l1_read_ldata_1(void); int *volatile dp_ldata_1 = ldata_1;
extern int lalias_2; extern void *addr_lalias_2(void); extern int read_lalias_2(void); extern void write_lalias_2(int);
extern int lalias_3; extern void *addr_lalias_3(void); extern int read_lalias_3(void); extern void write_lalias_3(int);
extern int lifunc_4(void); extern void *addr_lifunc_4(void); int (*volatile fp_lifunc_4)(void) = lifunc_4;
extern int lfunc_5(void); extern void *addr_lfunc_5(void); extern void *l1_addr_lfunc_5(void); int (*volatile fp_lfunc_5)(void) = lfunc_5;
extern int t_lalias_ts_6[]; extern void *addr_lalias_ts_6(void); extern void *waddr_lalias_ts_6(void); extern int read_lalias_ts_6(void); extern void write_lalias_ts_6(int);
extern int lalias_sw_7[]; extern void *addr_lalias_sw_7(void); extern void *waddr_lalias_sw_7(void); extern int read_lalias_sw_7(void); extern void write_lalias_sw_7(int);
int main(void){
    if ((void*)lfunc_0 != addr_lfunc_0()) fail("lfunc_0: exe vs defining library");
    if ((void*)lfunc_0 != l1_addr_lfunc_0()) fail("lfunc_0: exe vs lib1");
    if ((void*)fp_lfunc_0 != (void*)lfunc_0) fail("lfunc_0: data pointer vs code reference in exe");
    if (fp_lfunc_0() != 8 || lfunc_0() != 8) fail("lfunc_0: call result");
    if ((const void*)ldata_1 != addr_ldata_1()) fail("ldata_1: exe vs defining library");
    if ((const void*)ldata_1 != l1_addr_ldata_1()) fail("ldata_1: exe vs lib1");
    if ((const void*)dp_ldata_1 != (const void*)ldata_1) fail("ldata_1: data pointer vs code reference in exe");
    if (ldata_1[0] != 180 || read_ldata_1() != 180) fail("ldata_1: initial value");
    ldata_1[0] = 1180; if (read_ldata_1() != 1180 || l1_read_ldata_1() != 1180) fail("ldata_1: write through exe not seen by library");
    if ((void*)&lalias_2 != addr_lalias_2()) fail("lalias_2: weak alias in exe vs strong symbol in library");
    write_lalias_2(199); if (lalias_2 != 199) fail("lalias_2: write through strong symbol not seen through alias");
    lalias_2 = 201; if (read_lalias_2() != 201) fail("lalias_2: write through alias not seen through strong symbol");
    if ((void*)&lalias_3 != addr_lalias_3()) fail("lalias_3: weak alias in exe vs strong symbol in library");
    write_lalias_3(204); if (lalias_3 != 204) fail("lalias_3: write through strong symbol not seen through alias");
    lalias_3 = 206; if (read_lalias_3() != 206) fail("lalias_3: write through alias not seen through strong symbol");
    if ((void*)lifunc_4 != addr_lifunc_4()) fail("lifunc_4: library ifunc address exe vs library");
    if ((void*)fp_lifunc_4 != (void*)lifunc_4) fail("lifunc_4: library ifunc address data vs code in exe");
    if (lifunc_4() != 74 || fp_lifunc_4() != 74) fail("lifunc_4: ifunc call result");
    if ((void*)lfunc_5 != addr_lfunc_5()) fail("lfunc_5: exe vs defining library");
    if ((void*)lfunc_5 != l1_addr_lfunc_5()) fail("lfunc_5: exe vs lib1");
    if ((void*)fp_lfunc_5 != (void*)lfunc_5) fail("lfunc_5: data pointer vs code reference in exe");
    if (fp_lfunc_5() != 132 || lfunc_5() != 132) fail("lfunc_5: call result");
    if ((void*)t_lalias_ts_6 != addr_lalias_ts_6() || (void*)t_lalias_ts_6 != waddr_lalias_ts_6()) fail("lalias_ts_6: symbol in exe vs its alias used by the library");
    if (t_lalias_ts_6[0] != 0 || read_lalias_ts_6() != 0) fail("lalias_ts_6: initial value");
    t_lalias_ts_6[0] = 1152; if (read_lalias_ts_6() != 1152) fail("lalias_ts_6: write in exe not seen by the library through the alias");
    write_lalias_ts_6(159); if (t_lalias_ts_6[0] != 159) fail("lalias_ts_6: write by the library through the alias not seen in exe");
    if ((void*)lalias_sw_7 != addr_lalias_sw_7() || (void*)lalias_sw_7 != waddr_lalias_sw_7()) fail("lalias_sw_7: symbol in exe vs its alias used by the library");
    if (lalias_sw_7[0] != 0 || read_lalias_sw_7() != 0) fail("lalias_sw_7: initial value");
    lalias_sw_7[0] = 1086; if (read_lalias_sw_7() != 1086) fail("lalias_sw_7: write in exe not seen by the library through the alias");
    write_lalias_sw_7(93); if (lalias_sw_7[0] != 93) fail("lalias_sw_7: write by the library through the alias not seen in exe");
    if (!bad) printf("OK\n"); return bad ? 1 : 0; }
