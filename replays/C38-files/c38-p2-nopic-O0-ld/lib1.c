int lfunc_0(void){ return 92; }
void *addr_lfunc_0(void){ return (void*)lfunc_0; }
extern int lfunc_0(void); void *l1_addr_lfunc_0(void){ return (void*)lfunc_0; }
int ldata_1[16] = { 5 };
const void *addr_ldata_1(void){ return ldata_1; } int read_ldata_1(void){ return ldata_1[0]; }
extern int ldata_1[]; const void *l1_addr_ldata_1(void){ return ldata_1; } int l1_read_ldata_1(void){ return ldata_1[0]; }
int real_lalias_2 = 132; extern int lalias_2 __attribute__((weak, alias("real_lalias_2")));
void *addr_lalias_2(void){ return &real_lalias_2; } int read_lalias_2(void){ return real_lalias_2; } void write_lalias_2(int v){ real_lalias_2 = v; }
#ifdef EIFUNC_FROM_LIB
extern int eifunc_3(void); void *l1_addr_eifunc_3(void){ return (void*)eifunc_3; } int l1_call_eifunc_3(void){ return eifunc_3(); }
#endif
static int impl_lifunc_4(void){ return 103; } static void *res_lifunc_4(void){ return (void*)impl_lifunc_4; } int lifunc_4(void) __attribute__((ifunc("res_lifunc_4"))); void *addr_lifunc_4(void){ return (void*)lifunc_4; }
static int impl_lifunc_5(void){ return 153; } static void *res_lifunc_5(void){ return (void*)impl_lifunc_5; } int lifunc_5(void) __attribute__((ifunc("res_lifunc_5"))); void *addr_lifunc_5(void){ return (void*)lifunc_5; }
static int impl_lifunc_6(void){ return 46; } static void *res_lifunc_6(void){ return (void*)impl_lifunc_6; } int lifunc_6(void) __attribute__((ifunc("res_lifunc_6"))); void *addr_lifunc_6(void){ return (void*)lifunc_6; }
int lalias_st_7 = 7; extern __typeof(lalias_st_7) t_lalias_st_7 __attribute__((alias("lalias_st_7")));
void *addr_lalias_st_7(void){ return (void*)&t_lalias_st_7; } int read_lalias_st_7(void){ return t_lalias_st_7; } void write_lalias_st_7(int v){ t_lalias_st_7 = v; } void *waddr_lalias_st_7(void){ return (void*)&t_lalias_st_7; }
int lalias_multi_8[16]; extern __typeof(lalias_multi_8) w_lalias_multi_8 __attribute__((weak, alias("lalias_multi_8"))); extern __typeof(lalias_multi_8) t_lalias_multi_8 __attribute__((alias("lalias_multi_8")));
void *addr_lalias_multi_8(void){ return (void*)w_lalias_multi_8; } int read_lalias_multi_8(void){ return w_lalias_multi_8[0]; } void write_lalias_multi_8(int v){ t_lalias_multi_8[0] = v; } void *waddr_lalias_multi_8(void){ return (void*)t_lalias_multi_8; }
