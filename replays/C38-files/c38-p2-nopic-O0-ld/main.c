#include <stdio.h>
static int bad; static void fail(const char *what){ printf("MISMATCH %s\n", what); bad++; }
extern int lfunc_0(void); extern void *addr_lfunc_0(void); extern void *l1_addr_lfunc_0(void); int (*volatile fp_lfunc_0)(void) = lfunc_0;
extern int ldata_1[]; extern const void *addr_ldata_1(void); extern const void *l1_addr_ldata_1(void); extern int read_ldata_1(void); extern int l1_read_ldata_1(void); int *volatile dp_ldata_1 = ldata_1;
extern int lalias_2; extern void *addr_lalias_2(void); extern int read_lalias_2(void); extern void write_lalias_2(int);
static int impl_eifunc_3(void){ return 29; } static void *res_eifunc_3(void){ return (void*)impl_eifunc_3; } int eifunc_3(void) __attribute__((ifunc("res_eifunc_3"))); extern void *l1_addr_eifunc_3(void); extern int l1_call_eifunc_3(void); int (*volatile fp_eifunc_3)(void) = eifunc_3;
extern int lifunc_4(void); extern void *addr_lifunc_4(void); int (*volatile fp_lifunc_4)(void) = lifunc_4;
extern int lifunc_5(void); extern void *addr_lifunc_5(void); int (*volatile fp_lifunc_5)(void) = lifunc_5;
extern int lifunc_6(void); extern void *addr_lifunc_6(void); int (*volatile fp_lifunc_6)(void) = lifunc_6;
extern int lalias_st_7; extern void *addr_lalias_st_7(void); extern void *waddr_lalias_st_7(void); extern int read_lalias_st_7(void); extern void write_lalias_st_7(int);
extern int lalias_multi_8[]; extern void *addr_lalias_multi_8(void); extern void *waddr_lalias_multi_8(void); extern int read_lalias_multi_8(void); extern void write_lalias_multi_8(int);
int main(void){
    if ((void*)lfunc_0 != addr_lfunc_0()) fail("lfunc_0: exe vs defining library");
    if ((void*)lfunc_0 != l1_addr_lfunc_0()) fail("lfunc_0: exe vs lib1");
    if ((void*)fp_lfunc_0 != (void*)lfunc_0) fail("lfunc_0: data pointer vs code reference in exe");
    if (fp_lfunc_0() != 92 || lfunc_0() != 92) fail("lfunc_0: call result");
    if ((const void*)ldata_1 != addr_ldata_1()) fail("ldata_1: exe vs defining library");
    if ((const void*)ldata_1 != l1_addr_ldata_1()) fail("ldata_1: exe vs lib1");
    if ((const void*)dp_ldata_1 != (const void*)ldata_1) fail("ldata_1: data pointer vs code reference in exe");
    if (ldata_1[0] != 5 || read_ldata_1() != 5) fail("ldata_1: initial value");
    ldata_1[0] = 1005; if (read_ldata_1() != 1005 || l1_read_ldata_1() != 1005) fail("ldata_1: write through exe not seen by library");
    if ((void*)&lalias_2 != addr_lalias_2()) fail("lalias_2: weak alias in exe vs strong symbol in library");
    write_lalias_2(139); if (lalias_2 != 139) fail("lalias_2: write through strong symbol not seen through alias");
    lalias_2 = 141; if (read_lalias_2() != 141) fail("lalias_2: write through alias not seen through strong symbol");
    if ((void*)fp_eifunc_3 != (void*)eifunc_3) fail("eifunc_3: ifunc address in data vs code in exe");
    
#ifdef EIFUNC_FROM_LIB
    if ((void*)eifunc_3 != l1_addr_eifunc_3()) fail("eifunc_3: exe ifunc address seen from lib1"); if (l1_call_eifunc_3() != 29) fail("eifunc_3: ifunc call from lib1");
#endif
    if (eifunc_3() != 29 || fp_eifunc_3() != 29) fail("eifunc_3: ifunc call result");
    if ((void*)lifunc_4 != addr_lifunc_4()) fail("lifunc_4: library ifunc address exe vs library");
    if ((void*)fp_lifunc_4 != (void*)lifunc_4) fail("lifunc_4: library ifunc address data vs code in exe");
    if (lifunc_4() != 103 || fp_lifunc_4() != 103) fail("lifunc_4: ifunc call result");
    if ((void*)lifunc_5 != addr_lifunc_5()) fail("lifunc_5: library ifunc address exe vs library");
    if ((void*)fp_lifunc_5 != (void*)lifunc_5) fail("lifunc_5: library ifunc address data vs code in exe");
    if (lifunc_5() != 153 || fp_lifunc_5() != 153) fail("lifunc_5: ifunc call result");
    if ((void*)lifunc_6 != addr_lifunc_6()) fail("lifunc_6: library ifunc address exe vs library");
    if ((void*)fp_lifunc_6 != (void*)lifunc_6) fail("lifunc_6: library ifunc address data vs code in exe");
    if (lifunc_6() != 46 || fp_lifunc_6() != 46) fail("lifunc_6: ifunc call result");
    if ((void*)&lalias_st_7 != addr_lalias_st_7() || (void*)&lalias_st_7 != waddr_lalias_st_7()) fail("lalias_st_7: symbol in exe vs its alias used by the library");
    if (lalias_st_7 != 7 || read_lalias_st_7() != 7) fail("lalias_st_7: initial value");
    lalias_st_7 = 1007; if (read_lalias_st_7() != 1007) fail("lalias_st_7: write in exe not seen by the library through the alias");
    write_lalias_st_7(14); if (lalias_st_7 != 14) fail("lalias_st_7: write by the library through the alias not seen in exe");
    if ((void*)lalias_multi_8 != addr_lalias_multi_8() || (void*)lalias_multi_8 != waddr_lalias_multi_8()) fail("lalias_multi_8: symbol in exe vs its alias used by the library");
    if (lalias_multi_8[0] != 0 || read_lalias_multi_8() != 0) fail("lalias_multi_8: initial value");
    lalias_multi_8[0] = 1056; if (read_lalias_multi_8() != 1056) fail("lalias_multi_8: write in exe not seen by the library through the alias");
    write_lalias_multi_8(63); if (lalias_multi_8[0] != 63) fail("lalias_multi_8: write by the library through the alias not seen in exe");
    if (!bad) printf("OK\n"); return bad ? 1 : 0; }
