int lfunc_0(void){ return 60; }
void *addr_lfunc_0(void){ return (void*)lfunc_0; }
extern int lfunc_0(void); void *l1_addr_lfunc_0(void){ return (void*)lfunc_0; }
int ldata_1[16] = { 127 };
const void *addr_ldata_1(void){ return ldata_1; } int read_ldata_1(void){ return ldata_1[0]; }
extern int ldata_1[]; const void *l1_addr_ldata_1(void){ return ldata_1; } int l1_read_ldata_1(void){ return ldata_1[0]; }
int real_lalias_2 = 197; extern int lalias_2 __attribute__((weak, alias("real_lalias_2")));
void *addr_lalias_2(void){ return &real_lalias_2; } int read_lalias_2(void){ return real_lalias_2; } void write_lalias_2(int v){ real_lalias_2 = v; }
int lfunc_3(void){ return 179; }
void *addr_lfunc_3(void){ return (void*)lfunc_3; }
extern int lfunc_3(void); void *l1_addr_lfunc_3(void){ return (void*)lfunc_3; }
int ldata_4[4] = { 178 };
const void *addr_ldata_4(void){ return ldata_4; } int read_ldata_4(void){ return ldata_4[0]; }
extern int ldata_4[]; const void *l1_addr_ldata_4(void){ return ldata_4; } int l1_read_ldata_4(void){ return ldata_4[0]; }
#ifdef EIFUNC_FROM_LIB
extern int eifunc_5(void); void *l1_addr_eifunc_5(void){ return (void*)eifunc_5; } int l1_call_eifunc_5(void){ return eifunc_5(); }
#endif
int real_lalias_6 = 181; extern int lalias_6 __attribute__((weak, alias("real_lalias_6")));
void *addr_lalias_6(void){ return &real_lalias_6; } int read_lalias_6(void){ return real_lalias_6; } void write_lalias_6(int v){ real_lalias_6 = v; }
static int impl_lifunc_7(void){ return 138; } static void *res_lifunc_7(void){ return (void*)impl_lifunc_7; } int lifunc_7(void) __attribute__((ifunc("res_lifunc_7"))); void *addr_lifunc_7(void){ return (void*)lifunc_7; }
int lalias_st_8[16]; extern __typeof(lalias_st_8) t_lalias_st_8 __attribute__((alias("lalias_st_8")));
void *addr_lalias_st_8(void){ return (void*)t_lalias_st_8; } int read_lalias_st_8(void){ return t_lalias_st_8[0]; } void write_lalias_st_8(int v){ t_lalias_st_8[0] = v; } void *waddr_lalias_st_8(void){ return (void*)t_lalias_st_8; }
int lalias_multi_9 = 188; extern __typeof(lalias_multi_9) w_lalias_multi_9 __attribute__((weak, alias("lalias_multi_9"))); extern __typeof(lalias_multi_9) t_lalias_multi_9 __attribute__((alias("lalias_multi_9")));
void *addr_lalias_multi_9(void){ return (void*)&w_lalias_multi_9; } int read_lalias_multi_9(void){ return w_lalias_multi_9; } void write_lalias_multi_9(int v){ t_lalias_multi_9 = v; } void *waddr_lalias_multi_9(void){ return (void*)&t_lalias_multi_9; }
