#include <stdio.h>
static int bad; static void fail(const char *what){ printf("MISMATCH %s\n", what); bad++; }
extern int lfunc_0(void); extern void *addr_lfunc_0(void); extern void *l1_addr_lfunc_0(void); int (*volatile fp_lfunc_0)(void) = lfunc_0;
extern int ldata_1[]; extern const void *addr_ldata_1(void); extern const void *l1_addr_ldata_1(void); extern int read_ldata_1(void); extern int l1_read_ldata_1(void); int *volatile dp_ldata_1 = ldata_1;
extern int lalias_2; extern void *addr_lalias_2(void); extern int read_lalias_2(void); extern void write_lalias_2(int);
extern int lfunc_3(void); extern void *addr_lfunc_3(void); extern void *l1_addr_lfunc_3(void); int (*volatile fp_lfunc_3)(void) = lfunc_3;
extern int ldata_4[]; extern const void *addr_ldata_4(void); extern const void *l1_addr_ldata_4(void); extern int read_ldata_4(void); extern int l1_read_ldata_4(void); int *volatile dp_ldata_4 = ldata_4;
static int impl_eifunc_5(void){ return 61; } static void *res_eifunc_5(void){ return (void*)impl_eifunc_5; } int eifunc_5(void) __attribute__((ifunc("res_eifunc_5"))); extern void *l1_addr_eifunc_5(void); extern int l1_call_eifunc_5(void); int (*volatile fp_eifunc_5)(void) = eifunc_5;
extern int lalias_6; extern void *addr_lalias_6(void); extern int read_lalias_6(void); extern void write_lalias_6(int);
extern int lifunc_7(void); extern void *addr_lifunc_7(void); int (*volatile fp_lifunc_7)(void) = lifunc_7;
extern int lalias_st_8[]; extern void *addr_lalias_st_8(void); extern void *waddr_lalias_st_8(void); extern int read_lalias_st_8(void); extern void write_lalias_st_8(int);
extern int lalias_multi_9; extern void *addr_lalias_multi_9(void); extern void *waddr_lalias_multi_9(void); extern int read_lalias_multi_9(void); extern void write_lalias_multi_9(int);
int main(void){
    if ((void*)lfunc_0 != addr_lfunc_0()) fail("lfunc_0: exe vs defining library");
    if ((void*)lfunc_0 != l1_addr_lfunc_0()) fail("lfunc_0: exe vs lib1");
    if ((void*)fp_lfunc_0 != (void*)lfunc_0) fail("lfunc_0: data pointer vs code reference in exe");
    if (fp_lfunc_0() != 60 || lfunc_0() != 60) fail("lfunc_0: call result");
    if ((const void*)ldata_1 != addr_ldata_1()) fail("ldata_1: exe vs defining library");
    if ((const void*)ldata_1 != l1_addr_ldata_1()) fail("ldata_1: exe vs lib1");
    if ((const void*)dp_ldata_1 != (const void*)ldata_1) fail("ldata_1: data pointer vs code reference in exe");
    if (ldata_1[0] != 127 || read_ldata_1() != 127) fail("ldata_1: initial value");
    ldata_1[0] = 1127; if (read_ldata_1() != 1127 || l1_read_ldata_1() != 1127) fail("ldata_1: write through exe not seen by library");
    if ((void*)&lalias_2 != addr_lalias_2()) fail("lalias_2: weak alias in exe vs strong symbol in library");
    write_lalias_2(204); if (lalias_2 != 204) fail("lalias_2: write through strong symbol not seen through alias");
    lalias_2 = 206; if (read_lalias_2() != 206) fail("lalias_2: write through alias not seen through strong symbol");
    if ((void*)lfunc_3 != addr_lfunc_3()) fail("lfunc_3: exe vs defining library");
    if ((void*)lfunc_3 != l1_addr_lfunc_3()) fail("lfunc_3: exe vs lib1");
    if ((void*)fp_lfunc_3 != (void*)lfunc_3) fail("lfunc_3: data pointer vs code reference in exe");
    if (fp_lfunc_3() != 179 || lfunc_3() != 179) fail("lfunc_3: call result");
    if ((const void*)ldata_4 != addr_ldata_4()) fail("ldata_4: exe vs defining library");
    if ((const void*)ldata_4 != l1_addr_ldata_4()) fail("ldata_4: exe vs lib1");
    if ((const void*)dp_ldata_4 != (const void*)ldata_4) fail("ldata_4: data pointer vs code reference in exe");
    if (ldata_4[0] != 178 || read_ldata_4() != 178) fail("ldata_4: initial value");
    ldata_4[0] = 1178; if (read_ldata_4() != 1178 || l1_read_ldata_4() != 1178) fail("ldata_4: write through exe not seen by library");
    if ((void*)fp_eifunc_5 != (void*)eifunc_5) fail("eifunc_5: ifunc address in data vs code in exe");
    
#ifdef EIFUNC_FROM_LIB
    if ((void*)eifunc_5 != l1_addr_eifunc_5()) fail("eifunc_5: exe ifunc address seen from lib1"); if (l1_call_eifunc_5() != 61) fail("eifunc_5: ifunc call from lib1");
#endif
    if (eifunc_5() != 61 || fp_eifunc_5() != 61) fail("eifunc_5: ifunc call result");
    if ((void*)&lalias_6 != addr_lalias_6()) fail("lalias_6: weak alias in exe vs strong symbol in library");
    write_lalias_6(188); if (lalias_6 != 188) fail("lalias_6: write through strong symbol not seen through alias");
    lalias_6 = 190; if (read_lalias_6() != 190) fail("lalias_6: write through alias not seen through strong symbol");
    if ((void*)lifunc_7 != addr_lifunc_7()) fail("lifunc_7: library ifunc address exe vs library");
    if ((void*)fp_lifunc_7 != (void*)lifunc_7) fail("lifunc_7: library ifunc address data vs code in exe");
    if (lifunc_7() != 138 || fp_lifunc_7() != 138) fail("lifunc_7: ifunc call result");
    if ((void*)lalias_st_8 != addr_lalias_st_8() || (void*)lalias_st_8 != waddr_lalias_st_8()) fail("lalias_st_8: symbol in exe vs its alias used by the library");
    if (lalias_st_8[0] != 0 || read_lalias_st_8() != 0) fail("lalias_st_8: initial value");
    lalias_st_8[0] = 1079; if (read_lalias_st_8() != 1079) fail("lalias_st_8: write in exe not seen by the library through the alias");
    write_lalias_st_8(86); if (lalias_st_8[0] != 86) fail("lalias_st_8: write by the library through the alias not seen in exe");
    if ((void*)&lalias_multi_9 != addr_lalias_multi_9() || (void*)&lalias_multi_9 != waddr_lalias_multi_9()) fail("lalias_multi_9: symbol in exe vs its alias used by the library");
    if (lalias_multi_9 != 188 || read_lalias_multi_9() != 188) fail("lalias_multi_9: initial value");
    lalias_multi_9 = 1188; if (read_lalias_multi_9() != 1188) fail("lalias_multi_9: write in exe not seen by the library through the alias");
    write_lalias_multi_9(195); if (lalias_multi_9 != 195) fail("lalias_multi_9: write by the library through the alias not seen in exe");
    if (!bad) printf("OK\n"); return bad ? 1 : 0; }
