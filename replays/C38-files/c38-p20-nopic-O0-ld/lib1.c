int lfunc_0(void){ return 13; }
void *addr_lfunc_0(void){ return (void*)lfunc_0; }
extern int lfunc_0(void); void *l1_addr_lfunc_0(void){ return (void*)lfunc_0; }
int ldata_1[1] = { 60 };
const void *addr_ldata_1(void){ return ldata_1; } int read_ldata_1(void){ return ldata_1[0]; }
extern int ldata_1[]; const void *l1_addr_ldata_1(void){ return ldata_1; } int l1_read_ldata_1(void){ return ldata_1[0]; }
int ldata_2[4] = { 109 };
const void *addr_ldata_2(void){ return ldata_2; } int read_ldata_2(void){ return ldata_2[0]; }
extern int ldata_2[]; const void *l1_addr_ldata_2(void){ return ldata_2; } int l1_read_ldata_2(void){ return ldata_2[0]; }
int ldata_3[1] = { 99 };
const void *addr_ldata_3(void){ return ldata_3; } int read_ldata_3(void){ return ldata_3[0]; }
extern int ldata_3[]; const void *l1_addr_ldata_3(void){ return ldata_3; } int l1_read_ldata_3(void){ return ldata_3[0]; }
#ifdef EIFUNC_FROM_LIB
extern int eifunc_4(void); void *l1_addr_eifunc_4(void){ return (void*)eifunc_4; } int l1_call_eifunc_4(void){ return eifunc_4(); }
#endif
int lalias_sw_5 = 57; extern __typeof(lalias_sw_5) w_lalias_sw_5 __attribute__((weak, alias("lalias_sw_5")));
void *addr_lalias_sw_5(void){ return (void*)&w_lalias_sw_5; } int read_lalias_sw_5(void){ return w_lalias_sw_5; } void write_lalias_sw_5(int v){ w_lalias_sw_5 = v; } void *waddr_lalias_sw_5(void){ return (void*)&w_lalias_sw_5; }
int lalias_ts_6[4]; extern __typeof(lalias_ts_6) t_lalias_ts_6 __attribute__((alias("lalias_ts_6")));
void *addr_lalias_ts_6(void){ return (void*)lalias_ts_6; } int read_lalias_ts_6(void){ return lalias_ts_6[0]; } void write_lalias_ts_6(int v){ lalias_ts_6[0] = v; } void *waddr_lalias_ts_6(void){ return (void*)lalias_ts_6; }
