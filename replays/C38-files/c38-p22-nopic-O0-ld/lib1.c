int lfunc_0(void){ return 50; }
void *addr_lfunc_0(void){ return (void*)lfunc_0; }
extern int lfunc_0(void); void *l1_addr_lfunc_0(void){ return (void*)lfunc_0; }
int ldata_1[4] = { 27 };
const void *addr_ldata_1(void){ return ldata_1; } int read_ldata_1(void){ return ldata_1[0]; }
extern int ldata_1[]; const void *l1_addr_ldata_1(void){ return ldata_1; } int l1_read_ldata_1(void){ return ldata_1[0]; }
int real_lalias_2 = 127; extern int lalias_2 __attribute__((weak, alias("real_lalias_2")));
void *addr_lalias_2(void){ return &real_lalias_2; } int read_lalias_2(void){ return real_lalias_2; } void write_lalias_2(int v){ real_lalias_2 = v; }
static int impl_lifunc_3(void){ return 198; } static void *res_lifunc_3(void){ return (void*)impl_lifunc_3; } int lifunc_3(void) __attribute__((ifunc("res_lifunc_3"))); void *addr_lifunc_3(void){ return (void*)lifunc_3; }
int lfunc_4(void){ return 169; }
void *addr_lfunc_4(void){ return (void*)lfunc_4; }
extern int lfunc_4(void); void *l1_addr_lfunc_4(void){ return (void*)lfunc_4; }
#ifdef EIFUNC_FROM_LIB
extern int eifunc_5(void); void *l1_addr_eifunc_5(void){ return (void*)eifunc_5; } int l1_call_eifunc_5(void){ return eifunc_5(); }
#endif
#ifdef EIFUNC_FROM_LIB
extern int eifunc_6(void); void *l1_addr_eifunc_6(void){ return (void*)eifunc_6; } int l1_call_eifunc_6(void){ return eifunc_6(); }
#endif
static int impl_lifunc_7(void){ return 59; } static void *res_lifunc_7(void){ return (void*)impl_lifunc_7; } int lifunc_7(void) __attribute__((ifunc("res_lifunc_7"))); void *addr_lifunc_7(void){ return (void*)lifunc_7; }
int lalias_st_8[16]; extern __typeof(lalias_st_8) t_lalias_st_8 __attribute__((alias("lalias_st_8")));
void *addr_lalias_st_8(void){ return (void*)t_lalias_st_8; } int read_lalias_st_8(void){ return t_lalias_st_8[0]; } void write_lalias_st_8(int v){ t_lalias_st_8[0] = v; } void *waddr_lalias_st_8(void){ return (void*)t_lalias_st_8; }
int lalias_multi_9[16]; extern __typeof(lalias_multi_9) w_lalias_multi_9 __attribute__((weak, alias("lalias_multi_9"))); extern __typeof(lalias_multi_9) t_lalias_multi_9 __attribute__((alias("lalias_multi_9")));
void *addr_lalias_multi_9(void){ return (void*)w_lalias_multi_9; } int read_lalias_multi_9(void){ return w_lalias_multi_9[0]; } void write_lalias_multi_9(int v){ t_lalias_multi_9[0] = v; } void *waddr_lalias_multi_9(void){ return (void*)t_lalias_multi_9; }
