#include <stdio.h>
static int bad; static void fail(const char *what){ printf("MISMATCH %s\n", what); bad++; }
extern int lfunc_0(void); extern void *addr_lfunc_0(void); extern void *l1_addr_lfunc_0(void); int (*volatile fp_lfunc_0)(void) = lfunc_0;
extern int ldata_1[]; extern const void *addr_ldata_1(void); extern const void *l1_addr_ldata_1(void); extern int read_ldata_1(void); extern int l1_read_ldata_1(void); int *volatile dp_ldata_1 = ldata_1;
extern int lalias_2; extern void *addr_lalias_2(void); extern int read_lalias_2(void); extern void write_lalias_2(int);
extern int lifunc_3(void); extern void *addr_lifunc_3(void); int (*volatile fp_lifunc_3)(void) = lifunc_3;
extern int lfunc_4(void); extern void *addr_lfunc_4(void); extern void *l1_addr_lfunc_4(void); int (*volatile fp_lfunc_4)(void) = lfunc_4;
static int impl_eifunc_5(void){ return 34; } static void *res_eifunc_5(void){ return (void*)impl_eifunc_5; } int eifunc_5(void) __attribute__((ifunc("res_eifunc_5"))); extern void *l1_addr_eifunc_5(void); extern int l1_call_eifunc_5(void); int (*volatile fp_eifunc_5)(void) = eifunc_5;
static int impl_eifunc_6(void){ return 31; } static void *res_eifunc_6(void){ return (void*)impl_eifunc_6; } int eifunc_6(void) __attribute__((ifunc("res_eifunc_6"))); extern void *l1_addr_eifunc_6(void); extern int l1_call_eifunc_6(void); int (*volatile fp_eifunc_6)(void) = eifunc_6;
extern int lifunc_7(void); extern void *addr_lifunc_7(void); int (*volatile fp_lifunc_7)(void) = lifunc_7;
extern int lalias_st_8[]; extern void *addr_lalias_st_8(void); extern void *waddr_lalias_st_8(void); extern int read_lalias_st_8(void); extern void write_lalias_st_8(int);
extern int lalias_multi_9[]; extern void *addr_lalias_multi_9(void); extern void *waddr_lalias_multi_9(void); extern int read_lalias_multi_9(void); extern void write_lalias_multi_9(int);
int main(void){
    if ((void*)lfunc_0 != addr_lfunc_0()) fail("lfunc_0: exe vs defining library");
    if ((void*)lfunc_0 != l1_addr_lfunc_0()) fail("lfunc_0: exe vs lib1");
    if ((void*)fp_lfunc_0 != (void*)lfunc_0) fail("lfunc_0: data pointer vs code reference in exe");
    if (fp_lfunc_0() != 50 || lfunc_0() != 50) fail("lfunc_0: call result");
    if ((const void*)ldata_1 != addr_ldata_1()) fail("ldata_1: exe vs defining library");
    if ((const void*)ldata_1 != l1_addr_ldata_1()) fail("ldata_1: exe vs lib1");
    if ((const void*)dp_ldata_1 != (const void*)ldata_1) fail("ldata_1: data pointer vs code reference in exe");
    if (ldata_1[0] != 27 || read_ldata_1() != 27) fail("ldata_1: initial value");
    ldata_1[0] = 1027; if (read_ldata_1() != 1027 || l1_read_ldata_1() != 1027) fail("ldata_1: write through exe not seen by library");
    if ((void*)&lalias_2 != addr_lalias_2()) fail("lalias_2: weak alias in exe vs strong symbol in library");
    write_lalias_2(134); if (lalias_2 != 134) fail("lalias_2: write through strong symbol not seen through alias");
    lalias_2 = 136; if (read_lalias_2() != 136) fail("lalias_2: write through alias not seen through strong symbol");
    if ((void*)lifunc_3 != addr_lifunc_3()) fail("lifunc_3: library ifunc address exe vs library");
    if ((void*)fp_lifunc_3 != (void*)lifunc_3) fail("lifunc_3: library ifunc address data vs code in exe");
    if (lifunc_3() != 198 || fp_lifunc_3() != 198) fail("lifunc_3: ifunc call result");
    if ((void*)lfunc_4 != addr_lfunc_4()) fail("lfunc_4: exe vs defining library");
    if ((void*)lfunc_4 != l1_addr_lfunc_4()) fail("lfunc_4: exe vs lib1");
    if ((void*)fp_lfunc_4 != (void*)lfunc_4) fail("lfunc_4: data pointer vs code reference in exe");
    if (fp_lfunc_4() != 169 || lfunc_4() != 169) fail("lfunc_4: call result");
    if ((void*)fp_eifunc_5 != (void*)eifunc_5) fail("eifunc_5: ifunc address in data vs code in exe");
    
#ifdef EIFUNC_FROM_LIB
    if ((void*)eifunc_5 != l1_addr_eifunc_5()) fail("eifunc_5: exe ifunc address seen from lib1"); if (l1_call_eifunc_5() != 34) fail("eifunc_5: ifunc call from lib1");
#endif
    if (eifunc_5() != 34 || fp_eifunc_5() != 34) fail("eifunc_5: ifunc call result");
    if ((void*)fp_eifunc_6 != (void*)eifunc_6) fail("eifunc_6: ifunc address in data vs code in exe");
    
#ifdef EIFUNC_FROM_LIB
    if ((void*)eifunc_6 != l1_addr_eifunc_6()) fail("eifunc_6: exe ifunc address seen from lib1"); if (l1_call_eifunc_6() != 31) fail("eifunc_6: ifunc call from lib1");
#endif
    if (eifunc_6() != 31 || fp_eifunc_6() != 31) fail("eifunc_6: ifunc call result");
    if ((void*)lifunc_7 != addr_lifunc_7()) fail("lifunc_7: library ifunc address exe vs library");
    if ((void*)fp_lifunc_7 != (void*)lifunc_7) fail("lifunc_7: library ifunc address data vs code in exe");
    if (lifunc_7() != 59 || fp_lifunc_7() != 59) fail("lifunc_7: ifunc call result");
    if ((void*)lalias_st_8 != addr_lalias_st_8() || (void*)lalias_st_8 != waddr_lalias_st_8()) fail("lalias_st_8: symbol in exe vs its alias used by the library");
    if (lalias_st_8[0] != 0 || read_lalias_st_8() != 0) fail("lalias_st_8: initial value");
    lalias_st_8[0] = 1161; if (read_lalias_st_8() != 1161) fail("lalias_st_8: write in exe not seen by the library through the alias");
    write_lalias_st_8(168); if (lalias_st_8[0] != 168) fail("lalias_st_8: write by the library through the alias not seen in exe");
    if ((void*)lalias_multi_9 != addr_lalias_multi_9() || (void*)lalias_multi_9 != waddr_lalias_multi_9()) fail("lalias_multi_9: symbol in exe vs its alias used by the library");
    if (lalias_multi_9[0] != 0 || read_lalias_multi_9() != 0) fail("lalias_multi_9: initial value");
    lalias_multi_9[0] = 1200; if (read_lalias_multi_9() != 1200) fail("lalias_multi_9: write in exe not seen by the library through the alias");
    write_lalias_multi_9(207); if (lalias_multi_9[0] != 207) fail("lalias_multi_9: write by the library through the alias not seen in exe");
    if (!bad) printf("OK\n"); return bad ? 1 : 0; }
