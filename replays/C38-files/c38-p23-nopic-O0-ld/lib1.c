int lfunc_0(void){ return 45; }
void *addr_lfunc_0(void){ return (void*)lfunc_0; }
extern int lfunc_0(void); void *l1_addr_lfunc_0(void){ return (void*)lfunc_0; }
int ldata_1[1] = { 126 };
const void *addr_ldata_1(void){ return ldata_1; } int read_ldata_1(void){ return ldata_1[0]; }
extern int ldata_1[]; const void *l1_addr_ldata_1(void){ return ldata_1; } int l1_read_ldata_1(void){ return ldata_1[0]; }
int ldata_bss_2[16];
const void *addr_ldata_bss_2(void){ return ldata_bss_2; } int read_ldata_bss_2(void){ return ldata_bss_2[0]; }
extern int ldata_bss_2[]; const void *l1_addr_ldata_bss_2(void){ return ldata_bss_2; } int l1_read_ldata_bss_2(void){ return ldata_bss_2[0]; }
int lalias_sw_3[4]; extern __typeof(lalias_sw_3) w_lalias_sw_3 __attribute__((weak, alias("lalias_sw_3")));
void *addr_lalias_sw_3(void){ return (void*)w_lalias_sw_3; } int read_lalias_sw_3(void){ return w_lalias_sw_3[0]; } void write_lalias_sw_3(int v){ w_lalias_sw_3[0] = v; } void *waddr_lalias_sw_3(void){ return (void*)w_lalias_sw_3; }
int lalias_multi_4[16]; extern __typeof(lalias_multi_4) w_lalias_multi_4 __attribute__((weak, alias("lalias_multi_4"))); extern __typeof(lalias_multi_4) t_lalias_multi_4 __attribute__((alias("lalias_multi_4")));
void *addr_lalias_multi_4(void){ return (void*)w_lalias_multi_4; } int read_lalias_multi_4(void){ return w_lalias_multi_4[0]; } void write_lalias_multi_4(int v){ t_lalias_multi_4[0] = v; } void *waddr_lalias_multi_4(void){ return (void*)t_lalias_multi_4; }
