#include <stdio.h>
static int bad; static void fail(const char *what){ printf("MISMATCH %s\n", what); bad++; }
extern int lfunc_0(void); extern void *addr_lfunc_0(void); extern void *l1_addr_lfunc_0(void); int (*volatile fp_lfunc_0)(void) = lfunc_0;
extern int ldata_1[]; extern const void *addr_ldata_1(void); extern const void *l1_addr_ldata_1(void); extern int read_ldata_1(void); extern int l1_read_ldata_1(void); int *volatile dp_ldata_1 = ldata_1;
extern int ldata_bss_2[]; extern const void *addr_ldata_bss_2(void); extern const void *l1_addr_ldata_bss_2(void); extern int read_ldata_bss_2(void); extern int l1_read_ldata_bss_2(void); int *volatile dp_ldata_bss_2 = ldata_bss_2;
extern int lalias_sw_3[]; extern void *addr_lalias_sw_3(void); extern void *waddr_lalias_sw_3(void); extern int read_lalias_sw_3(void); extern void write_lalias_sw_3(int);
extern int lalias_multi_4[]; extern void *addr_lalias_multi_4(void); extern void *waddr_lalias_multi_4(void); extern int read_lalias_multi_4(void); extern void write_lalias_multi_4(int);
int main(void){
    if ((void*)lfunc_0 != addr_lfunc_0()) fail("lfunc_0: exe vs defining library");
    if ((void*)lfunc_0 != l1_addr_lfunc_0()) fail("lfunc_0: exe vs lib1");
    if ((void*)fp_lfunc_0 != (void*)lfunc_0) fail("lfunc_0: data pointer vs code reference in exe");
    if (fp_lfunc_0() != 45 || lfunc_0() != 45) fail("lfunc_0: call result");
    if ((const void*)ldata_1 != addr_ldata_1()) fail("ldata_1: exe vs defining library");
    if ((const void*)ldata_1 != l1_addr_ldata_1()) fail("ldata_1: exe vs lib1");
    if ((const void*)dp_ldata_1 != (const void*)ldata_1) fail("ldata_1: data pointer vs code reference in exe");
    if (ldata_1[0] != 126 || read_ldata_1() != 126) fail("ldata_1: initial value");
    ldata_1[0] = 1126; if (read_ldata_1() != 1126 || l1_read_ldata_1() != 1126) fail("ldata_1: write through exe not seen by library");
    if ((const void*)ldata_bss_2 != addr_ldata_bss_2()) fail("ldata_bss_2: exe vs defining library");
    if ((const void*)ldata_bss_2 != l1_addr_ldata_bss_2()) fail("ldata_bss_2: exe vs lib1");
    if ((const void*)dp_ldata_bss_2 != (const void*)ldata_bss_2) fail("ldata_bss_2: data pointer vs code reference in exe");
    if (ldata_bss_2[0] != 0 || read_ldata_bss_2() != 0) fail("ldata_bss_2: initial value");
    ldata_bss_2[0] = 1147; if (read_ldata_bss_2() != 1147 || l1_read_ldata_bss_2() != 1147) fail("ldata_bss_2: write through exe not seen by library");
    if ((void*)lalias_sw_3 != addr_lalias_sw_3() || (void*)lalias_sw_3 != waddr_lalias_sw_3()) fail("lalias_sw_3: symbol in exe vs its alias used by the library");
    if (lalias_sw_3[0] != 0 || read_lalias_sw_3() != 0) fail("lalias_sw_3: initial value");
    lalias_sw_3[0] = 1052; if (read_lalias_sw_3() != 1052) fail("lalias_sw_3: write in exe not seen by the library through the alias");
    write_lalias_sw_3(59); if (lalias_sw_3[0] != 59) fail("lalias_sw_3: write by the library through the alias not seen in exe");
    if ((void*)lalias_multi_4 != addr_lalias_multi_4() || (void*)lalias_multi_4 != waddr_lalias_multi_4()) fail("lalias_multi_4: symbol in exe vs its alias used by the library");
    if (lalias_multi_4[0] != 0 || read_lalias_multi_4() != 0) fail("lalias_multi_4: initial value");
    lalias_multi_4[0] = 1037; if (read_lalias_multi_4() != 1037) fail("lalias_multi_4: write in exe not seen by the library through the alias");
    write_lalias_multi_4(44); if (lalias_multi_4[0] != 44) fail("lalias_multi_4: write by the library through the alias not seen in exe");
    if (!bad) printf("OK\n"); return bad ? 1 : 0; }
