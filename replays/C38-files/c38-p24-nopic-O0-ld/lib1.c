int lfunc_0(void){ return 200; }
void *addr_lfunc_0(void){ return (void*)lfunc_0; }
extern int lfunc_0(void); void *l1_addr_lfunc_0(void){ return (void*)lfunc_0; }
int ldata_1[1] = { 58 };
const void *addr_ldata_1(void){ return ldata_1; } int read_ldata_1(void){ return ldata_1[0]; }
extern int ldata_1[]; const void *l1_addr_ldata_1(void){ return ldata_1; } int l1_read_ldata_1(void){ return ldata_1[0]; }
int real_lalias_2 = 18; extern int lalias_2 __attribute__((weak, alias("real_lalias_2")));
void *addr_lalias_2(void){ return &real_lalias_2; } int read_lalias_2(void){ return real_lalias_2; } void write_lalias_2(int v){ real_lalias_2 = v; }
#ifdef EIFUNC_FROM_LIB
extern int eifunc_3(void); void *l1_addr_eifunc_3(void){ return (void*)eifunc_3; } int l1_call_eifunc_3(void){ return eifunc_3(); }
#endif
static int impl_lifunc_4(void){ return 31; } static void *res_lifunc_4(void){ return (void*)impl_lifunc_4; } int lifunc_4(void) __attribute__((ifunc("res_lifunc_4"))); void *addr_lifunc_4(void){ return (void*)lifunc_4; }
int ldata_bss_5[4];
const void *addr_ldata_bss_5(void){ return ldata_bss_5; } int read_ldata_bss_5(void){ return ldata_bss_5[0]; }
extern int ldata_bss_5[]; const void *l1_addr_ldata_bss_5(void){ return ldata_bss_5; } int l1_read_ldata_bss_5(void){ return ldata_bss_5[0]; }
int ldata_6[2] = { 109 };
const void *addr_ldata_6(void){ return ldata_6; } int read_ldata_6(void){ return ldata_6[0]; }
extern int ldata_6[]; const void *l1_addr_ldata_6(void){ return ldata_6; } int l1_read_ldata_6(void){ return ldata_6[0]; }
int lalias_ts_7[4]; extern __typeof(lalias_ts_7) t_lalias_ts_7 __attribute__((alias("lalias_ts_7")));
void *addr_lalias_ts_7(void){ return (void*)lalias_ts_7; } int read_lalias_ts_7(void){ return lalias_ts_7[0]; } void write_lalias_ts_7(int v){ lalias_ts_7[0] = v; } void *waddr_lalias_ts_7(void){ return (void*)lalias_ts_7; }
int lalias_sw_8[16]; extern __typeof(lalias_sw_8) w_lalias_sw_8 __attribute__((weak, alias("lalias_sw_8")));
void *addr_lalias_sw_8(void){ return (void*)w_lalias_sw_8; } int read_lalias_sw_8(void){ return w_lalias_sw_8[0]; } void write_lalias_sw_8(int v){ w_lalias_sw_8[0] = v; } void *waddr_lalias_sw_8(void){ return (void*)w_lalias_sw_8; }
