#include <stdio.h>
static int bad; static void fail(const char *what){ printf("MISMATCH %s\n", what); bad++; }
extern int lfunc_0(void); extern void *addr_lfunc_0(void); extern void *l1_addr_lfunc_0(void); int (*volatile fp_lfunc_0)(void) = lfunc_0;
extern int ldata_1[]; extern const void *addr_ldata_1(void); extern const void *l1_addr_ldata_1(void); extern int read_ldata_1(void); extern int l1_read_ldata_1(void); int *volatile dp_ldata_1 = ldata_1;
extern int lalias_2; extern void *addr_lalias_2(void); extern int read_lalias_2(void); extern void write_lalias_2(int);
static int impl_eifunc_3(void){ return 114; } static void *res_eifunc_3(void){ return (void*)impl_eifunc_3; } int eifunc_3(void) __attribute__((ifunc("res_eifunc_3"))); extern void *l1_addr_eifunc_3(void); extern int l1_call_eifunc_3(void); int (*volatile fp_eifunc_3)(void) = eifunc_3;
extern int lifunc_4(void); extern void *addr_lifunc_4(void); int (*volatile fp_lifunc_4)(void) = lifunc_4;
extern int ldata_bss_5[]; extern const void *addr_ldata_bss_5(void); extern const void *l1_addr_ldata_bss_5(void); extern int read_ldata_bss_5(void); extern int l1_read_ldata_bss_5(void); int *volatile dp_ldata_bss_5 = ldata_bss_5;
extern int ldata_6[]; extern const void *addr_ldata_6(void); extern const void *l1_addr_ldata_6(void); extern int read_ldata_6(void); extern int l1_read_ldata_6(void); int *volatile dp_ldata_6 = ldata_6;
extern int t_lalias_ts_7[]; extern void *addr_lalias_ts_7(void); extern void *waddr_lalias_ts_7(void); extern int read_lalias_ts_7(void); extern void write_lalias_ts_7(int);
extern int lalias_sw_8[]; extern void *addr_lalias_sw_8(void); extern void *waddr_lalias_sw_8(void); extern int read_lalias_sw_8(void); extern void write_lalias_sw_8(int);
int main(void){
    if ((void*)lfunc_0 != addr_lfunc_0()) fail("lfunc_0: exe vs defining library");
    if ((void*)lfunc_0 != l1_addr_lfunc_0()) fail("lfunc_0: exe vs lib1");
    if ((void*)fp_lfunc_0 != (void*)lfunc_0) fail("lfunc_0: data pointer vs code reference in exe");
    if (fp_lfunc_0() != 200 || lfunc_0() != 200) fail("lfunc_0: call result");
    if ((const void*)ldata_1 != addr_ldata_1()) fail("ldata_1: exe vs defining library");
    if ((const void*)ldata_1 != l1_addr_ldata_1()) fail("ldata_1: exe vs lib1");
    if ((const void*)dp_ldata_1 != (const void*)ldata_1) fail("ldata_1: data pointer vs code reference in exe");
    if (ldata_1[0] != 58 || read_ldata_1() != 58) fail("ldata_1: initial value");
    ldata_1[0] = 1058; if (read_ldata_1() != 1058 || l1_read_ldata_1() != 1058) fail("ldata_1: write through exe not seen by library");
    if ((void*)&lalias_2 != addr_lalias_2()) fail("lalias_2: weak alias in exe vs strong symbol in library");
    write_lalias_2(25); if (lalias_2 != 25) fail("lalias_2: write through strong symbol not seen through alias");
    lalias_2 = 27; if (read_lalias_2() != 27) fail("lalias_2: write through alias not seen through strong symbol");
    if ((void*)fp_eifunc_3 != (void*)eifunc_3) fail("eifunc_3: ifunc address in data vs code in exe");
    
#ifdef EIFUNC_FROM_LIB
    if ((void*)eifunc_3 != l1_addr_eifunc_3()) fail("eifunc_3: exe ifunc address seen from lib1"); if (l1_call_eifunc_3() != 114) fail("eifunc_3: ifunc call from lib1");
#endif
    if (eifunc_3() != 114 || fp_eifunc_3() != 114) fail("eifunc_3: ifunc call result");
    if ((void*)lifunc_4 != addr_lifunc_4()) fail("lifunc_4: library ifunc address exe vs library");
    if ((void*)fp_lifunc_4 != (void*)lifunc_4) fail("lifunc_4: library ifunc address data vs code in exe");
    if (lifunc_4() != 31 || fp_lifunc_4() != 31) fail("lifunc_4: ifunc call result");
    if ((const void*)ldata_bss_5 != addr_ldata_bss_5()) fail("ldata_bss_5: exe vs defining library");
    if ((const void*)ldata_bss_5 != l1_addr_ldata_bss_5()) fail("ldata_bss_5: exe vs lib1");
    if ((const void*)dp_ldata_bss_5 != (const void*)ldata_bss_5) fail("ldata_bss_5: data pointer vs code reference in exe");
    if (ldata_bss_5[0] != 0 || read_ldata_bss_5() != 0) fail("ldata_bss_5: initial value");
    ldata_bss_5[0] = 1077; if (read_ldata_bss_5() != 1077 || l1_read_ldata_bss_5() != 1077) fail("ldata_bss_5: write through exe not seen by library");
    if ((const void*)ldata_6 != addr_ldata_6()) fail("ldata_6: exe vs defining library");
    if ((const void*)ldata_6 != l1_addr_ldata_6()) fail("ldata_6: exe vs lib1");
    if ((const void*)dp_ldata_6 != (const void*)ldata_6) fail("ldata_6: data pointer vs code reference in exe");
    if (ldata_6[0] != 109 || read_ldata_6() != 109) fail("ldata_6: initial value");
    ldata_6[0] = 1109; if (read_ldata_6() != 1109 || l1_read_ldata_6() != 1109) fail("ldata_6: write through exe not seen by library");
    if ((void*)t_lalias_ts_7 != addr_lalias_ts_7() || (void*)t_lalias_ts_7 != waddr_lalias_ts_7()) fail("lalias_ts_7: symbol in exe vs its alias used by the library");
    if (t_lalias_ts_7[0] != 0 || read_lalias_ts_7() != 0) fail("lalias_ts_7: initial value");
    t_lalias_ts_7[0] = 1188; if (read_lalias_ts_7() != 1188) fail("lalias_ts_7: write in exe not seen by the library through the alias");
    write_lalias_ts_7(195); if (t_lalias_ts_7[0] != 195) fail("lalias_ts_7: write by the library through the alias not seen in exe");
    if ((void*)lalias_sw_8 != addr_lalias_sw_8() || (void*)lalias_sw_8 != waddr_lalias_sw_8()) fail("lalias_sw_8: symbol in exe vs its alias used by the library");
    if (lalias_sw_8[0] != 0 || read_lalias_sw_8() != 0) fail("lalias_sw_8: initial value");
    lalias_sw_8[0] = 1053; if (read_lalias_sw_8() != 1053) fail("lalias_sw_8: write in exe not seen by the library through the alias");
    write_lalias_sw_8(60); if (lalias_sw_8[0] != 60) fail("lalias_sw_8: write by the library through the alias not seen in exe");
    if (!bad) printf("OK\n"); return bad ? 1 : 0; }
