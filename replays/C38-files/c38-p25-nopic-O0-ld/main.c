#include <stdio.h>
static int bad; static void fail(const char *what){ printf("MISMATCH %s\n", what); bad++; }
extern int lfunc_0(void); extern void *addr_lfunc_0(void); extern void *l1_addr_lfunc_0(void); int (*volatile fp_lfunc_0)(void) = lfunc_0;
extern int ldata_1[]; extern const void *addr_ldata_1(void); extern const void *l1_addr_ldata_1(void); extern int read_ldata_1(void); extern int l1_read_ldata_1(void); int *volatile dp_ldata_1 = ldata_1;
extern int lalias_2; extern void *addr_lalias_2(void); extern int read_lalias_2(void); extern void write_lalias_2(int);
extern int ldata_bss_3[]; extern const void *addr_ldata_bss_3(void); extern const void *l1_addr_ldata_bss_3(void); extern int read_ldata_bss_3(void); extern int l1_read_ldata_bss_3(void); int *volatile dp_ldata_bss_3 = ldata_bss_3;
static int impl_eifunc_4(void){ return 125; } static void *res_eifunc_4(void){ return (void*)impl_eifunc_4; } int eifunc_4(void) __attribute__((ifunc("res_eifunc_4"))); extern void *l1_addr_eifunc_4(void); extern int l1_call_eifunc_4(void); int (*volatile fp_eifunc_4)(void) = eifunc_4;
extern int lalias_sw_5; extern void *addr_lalias_sw_5(void); extern void *waddr_lalias_sw_5(void); extern int read_lalias_sw_5(void); extern void write_lalias_sw_5(int);
extern int t_lalias_ts_6; extern void *addr_lalias_ts_6(void); extern void *waddr_lalias_ts_6(void); extern int read_lalias_ts_6(void); extern void write_lalias_ts_6(int);
int main(void){
    if ((void*)lfunc_0 != addr_lfunc_0()) fail("lfunc_0: exe vs defining library");
    if ((void*)lfunc_0 != l1_addr_lfunc_0()) fail("lfunc_0: exe vs lib1");
    if ((void*)fp_lfunc_0 != (void*)lfunc_0) fail("lfunc_0: data pointer vs code reference in exe");
    if (fp_lfunc_0() != 159 || lfunc_0() != 159) fail("lfunc_0: call result");
    if ((const void*)ldata_1 != addr_ldata_1()) fail("ldata_1: exe vs defining library");
    if ((const void*)ldata_1 != l1_addr_ldata_1()) fail("ldata_1: exe vs lib1");
    if ((const void*)dp_ldata_1 != (const void*)ldata_1) fail("ldata_1: data pointer vs code reference in exe");
    if (ldata_1[0] != 114 || read_ldata_1() != 114) fail("ldata_1: initial value");
    ldata_1[0] = 1114; if (read_ldata_1() != 1114 || l1_read_ldata_1() != 1114) fail("ldata_1: write through exe not seen by library");
    if ((void*)&lalias_2 != addr_lalias_2()) fail("lalias_2: weak alias in exe vs strong symbol in library");
    write_lalias_2(168); if (lalias_2 != 168) fail("lalias_2: write through strong symbol not seen through alias");
    lalias_2 = 170; if (read_lalias_2() != 170) fail("lalias_2: write through alias not seen through strong symbol");
    if ((const void*)ldata_bss_3 != addr_ldata_bss_3()) fail("ldata_bss_3: exe vs defining library");
    if ((const void*)ldata_bss_3 != l1_addr_ldata_bss_3()) fail("ldata_bss_3: exe vs lib1");
    if ((const void*)dp_ldata_bss_3 != (const void*)ldata_bss_3) fail("ldata_bss_3: data pointer vs code reference in exe");
    if (ldata_bss_3[0] != 0 || read_ldata_bss_3() != 0) fail("ldata_bss_3: initial value");
    ldata_bss_3[0] = 1047; if (read_ldata_bss_3() != 1047 || l1_read_ldata_bss_3() != 1047) fail("ldata_bss_3: write through exe not seen by library");
    if ((void*)fp_eifunc_4 != (void*)eifunc_4) fail("eifunc_4: ifunc address in data vs code in exe");
    
#ifdef EIFUNC_FROM_LIB
    if ((void*)eifunc_4 != l1_addr_eifunc_4()) fail("eifunc_4: exe ifunc address seen from lib1"); if (l1_call_eifunc_4() != 125) fail("eifunc_4: ifunc call from lib1");
#endif
    if (eifunc_4() != 125 || fp_eifunc_4() != 125) fail("eifunc_4: ifunc call result");
    if ((void*)&lalias_sw_5 != addr_lalias_sw_5() || (void*)&lalias_sw_5 != waddr_lalias_sw_5()) fail("lalias_sw_5: symbol in exe vs its alias used by the library");
    if (lalias_sw_5 != 58 || read_lalias_sw_5() != 58) fail("lalias_sw_5: initial value");
    lalias_sw_5 = 1058; if (read_lalias_sw_5() != 1058) fail("lalias_sw_5: write in exe not seen by the library through the alias");
    write_lalias_sw_5(65); if (lalias_sw_5 != 65) fail("lalias_sw_5: write by the library through the alias not seen in exe");
    if ((void*)&t_lalias_ts_6 != addr_lalias_ts_6() || (void*)&t_lalias_ts_6 != waddr_lalias_ts_6()) fail("lalias_ts_6: symbol in exe vs its alias used by the library");
    if (t_lalias_ts_6 != 101 || read_lalias_ts_6() != 101) fail("lalias_ts_6: initial value");
    t_lalias_ts_6 = 1101; if (read_lalias_ts_6() != 1101) fail("lalias_ts_6: write in exe not seen by the library through the alias");
    write_lalias_ts_6(108); if (t_lalias_ts_6 != 108) fail("lalias_ts_6: write by the library through the alias not seen in exe");
    if (!bad) printf("OK\n"); return bad ? 1 : 0; }
