#include <stdio.h>
static int bad; static void fail(const char *what){ printf("MISMATCH %s\n", what); bad++; }
extern int lfunc_0(void); extern void *addr_lfunc_0(void); extern void *l1_addr_lfunc_0(void); int (*volatile fp_lfunc_0)(void) = lfunc_0;
extern int ldata_1[]; extern const void *addr_ldata_1(void); extern const void *l1_addr_ldata_1(void); extern int read_ldata_1(void); extern int l1_read_ldata_1(void); int *volatile dp_ldata_1 = ldata_1;
static int impl_eifunc_2(void){ return 131; } static void *res_eifunc_2(void){ return (void*)impl_eifunc_2; } int eifunc_2(void) __attribute__((ifunc("res_eifunc_2"))); extern void *l1_addr_eifunc_2(void); extern int l1_call_eifunc_2(void); int (*volatile fp_eifunc_2)(void) = eifunc_2;
int efunc_3(void){ return 63; } extern void *l1_addr_efunc_3(void); extern int l1_call_efunc_3(void);
extern int lalias_4; extern void *addr_lalias_4(void); extern int read_lalias_4(void); extern void write_lalias_4(int);
extern int lalias_sw_5[]; extern void *addr_lalias_sw_5(void); extern void *waddr_lalias_sw_5(void); extern int read_lalias_sw_5(void); extern void write_lalias_sw_5(int);
extern int lalias_st_6[]; extern void *addr_lalias_st_6(void); extern void *waddr_lalias_st_6(void); extern int read_lalias_st_6(void); extern void write_lalias_st_6(int);
int main(void){
    if ((void*)lfunc_0 != addr_lfunc_0()) fail("lfunc_0: exe vs defining library");
    if ((void*)lfunc_0 != l1_addr_lfunc_0()) fail("lfunc_0: exe vs lib1");
    if ((void*)fp_lfunc_0 != (void*)lfunc_0) fail("lfunc_0: data pointer vs code reference in exe");
    if (fp_lfunc_0() != 158 || lfunc_0() != 158) fail("lfunc_0: call result");
    if ((const void*)ldata_1 != addr_ldata_1()) fail("ldata_1: exe vs defining library");
    if ((const void*)ldata_1 != l1_addr_ldata_1()) fail("ldata_1: exe vs lib1");
    if ((const void*)dp_ldata_1 != (const void*)ldata_1) fail("ldata_1: data pointer vs code reference in exe");
    if (ldata_1[0] != 183 || read_ldata_1() != 183) fail("ldata_1: initial value");
    ldata_1[0] = 1183; if (read_ldata_1() != 1183 || l1_read_ldata_1() != 1183) fail("ldata_1: write through exe not seen by library");
    if ((void*)fp_eifunc_2 != (void*)eifunc_2) fail("eifunc_2: ifunc address in data vs code in exe");
    
#ifdef EIFUNC_FROM_LIB
    if ((void*)eifunc_2 != l1_addr_eifunc_2()) fail("eifunc_2: exe ifunc address seen from lib1"); if (l1_call_eifunc_2() != 131) fail("eifunc_2: ifunc call from lib1");
#endif
    if (eifunc_2() != 131 || fp_eifunc_2() != 131) fail("eifunc_2: ifunc call result");
    if ((void*)efunc_3 != l1_addr_efunc_3()) fail("efunc_3: exe function seen from lib1");
    if (l1_call_efunc_3() != 63) fail("efunc_3: call from lib1");
    if ((void*)&lalias_4 != addr_lalias_4()) fail("lalias_4: weak alias in exe vs strong symbol in library");
    write_lalias_4(182); if (lalias_4 != 182) fail("lalias_4: write through strong symbol not seen through alias");
    lalias_4 = 184; if (read_lalias_4() != 184) fail("lalias_4: write through alias not seen through strong symbol");
    if ((void*)lalias_sw_5 != addr_lalias_sw_5() || (void*)lalias_sw_5 != waddr_lalias_sw_5()) fail("lalias_sw_5: symbol in exe vs its alias used by the library");
    if (lalias_sw_5[0] != 0 || read_lalias_sw_5() != 0) fail("lalias_sw_5: initial value");
    lalias_sw_5[0] = 1129; if (read_lalias_sw_5() != 1129) fail("lalias_sw_5: write in exe not seen by the library through the alias");
    write_lalias_sw_5(136); if (lalias_sw_5[0] != 136) fail("lalias_sw_5: write by the library through the alias not seen in exe");
    if ((void*)lalias_st_6 != addr_lalias_st_6() || (void*)lalias_st_6 != waddr_lalias_st_6()) fail("lalias_st_6: symbol in exe vs its alias used by the library");
    if (lalias_st_6[0] != 0 || read_lalias_st_6() != 0) fail("lalias_st_6: initial value");
    lalias_st_6[0] = 1035; if (read_lalias_st_6() != 1035) fail("lalias_st_6: write in exe not seen by the library through the alias");
    write_lalias_st_6(42); if (lalias_st_6[0] != 42) fail("lalias_st_6: write by the library through the alias not seen in exe");
    if (!bad) printf("OK\n"); return bad ? 1 : 0; }
