int lfunc_0(void){ return 70; }
void *addr_lfunc_0(void){ return (void*)lfunc_0; }
extern int lfunc_0(void); void *l1_addr_lfunc_0(void){ return (void*)lfunc_0; }
int ldata_1[2] = { 100 };
const void *addr_ldata_1(void){ return ldata_1; } int read_ldata_1(void){ return ldata_1[0]; }
extern int ldata_1[]; const void *l1_addr_ldata_1(void){ return ldata_1; } int l1_read_ldata_1(void){ return ldata_1[0]; }
extern int efunc_2(void); void *l1_addr_efunc_2(void){ return (void*)efunc_2; } int l1_call_efunc_2(void){ return efunc_2(); }
#ifdef EIFUNC_FROM_LIB
extern int eifunc_3(void); void *l1_addr_eifunc_3(void){ return (void*)eifunc_3; } int l1_call_eifunc_3(void){ return eifunc_3(); }
#endif
int ldata_4[16] = { 195 };
const void *addr_ldata_4(void){ return ldata_4; } int read_ldata_4(void){ return ldata_4[0]; }
extern int ldata_4[]; const void *l1_addr_ldata_4(void){ return ldata_4; } int l1_read_ldata_4(void){ return ldata_4[0]; }
int real_lalias_5 = 132; extern int lalias_5 __attribute__((weak, alias("real_lalias_5")));
void *addr_lalias_5(void){ return &real_lalias_5; } int read_lalias_5(void){ return real_lalias_5; } void write_lalias_5(int v){ real_lalias_5 = v; }
static int impl_lifunc_6(void){ return 196; } static void *res_lifunc_6(void){ return (void*)impl_lifunc_6; } int lifunc_6(void) __attribute__((ifunc("res_lifunc_6"))); void *addr_lifunc_6(void){ return (void*)lifunc_6; }
int lalias_st_7 = 189; extern __typeof(lalias_st_7) t_lalias_st_7 __attribute__((alias("lalias_st_7")));
void *addr_lalias_st_7(void){ return (void*)&t_lalias_st_7; } int read_lalias_st_7(void){ return t_lalias_st_7; } void write_lalias_st_7(int v){ t_lalias_st_7 = v; } void *waddr_lalias_st_7(void){ return (void*)&t_lalias_st_7; }
int lalias_multi_8 = 46; extern __typeof(lalias_multi_8) w_lalias_multi_8 __attribute__((weak, alias("lalias_multi_8"))); extern __typeof(lalias_multi_8) t_lalias_multi_8 __attribute__((alias("lalias_multi_8")));
void *addr_lalias_multi_8(void){ return (void*)&w_lalias_multi_8; } int read_lalias_multi_8(void){ return w_lalias_multi_8; } void write_lalias_multi_8(int v){ t_lalias_multi_8 = v; } void *waddr_lalias_multi_8(void){ return (void*)&t_lalias_multi_8; }
