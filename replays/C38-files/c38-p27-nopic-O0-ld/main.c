#include <stdio.h>
static int bad; static void fail(const char *what){ printf("MISMATCH %s\n", what); bad++; }
extern int lfunc_0(void); extern void *addr_lfunc_0(void); extern void *l1_addr_lfunc_0(void); int (*volatile fp_lfunc_0)(void) = lfunc_0;
extern int ldata_1[]; extern const void *addr_ldata_1(void); extern const void *l1_addr_ldata_1(void); extern int read_ldata_1(void); extern int l1_read_ldata_1(void); int *volatile dp_ldata_1 = ldata_1;
int efunc_2(void){ return 139; } extern void *l1_addr_efunc_2(void); extern int l1_call_efunc_2(void);
static int impl_eifunc_3(void){ return 128; } static void *res_eifunc_3(void){ return (void*)impl_eifunc_3; } int eifunc_3(void) __attribute__((ifunc("res_eifunc_3"))); extern void *l1_addr_eifunc_3(void); extern int l1_call_eifunc_3(void); int (*volatile fp_eifunc_3)(void) = eifunc_3;
extern int ldata_4[]; extern const void *addr_ldata_4(void); extern const void *l1_addr_ldata_4(void); extern int read_ldata_4(void); extern int l1_read_ldata_4(void); int *volatile dp_ldata_4 = ldata_4;
extern int lalias_5; extern void *addr_lalias_5(void); extern int read_lalias_5(void); extern void write_lalias_5(int);
extern int lifunc_6(void); extern void *addr_lifunc_6(void); int (*volatile fp_lifunc_6)(void) = lifunc_6;
extern int lalias_st_7; extern void *addr_lalias_st_7(void); extern void *waddr_lalias_st_7(void); extern int read_lalias_st_7(void); extern void write_lalias_st_7(int);
extern int lalias_multi_8; extern void *addr_lalias_multi_8(void); extern void *waddr_lalias_multi_8(void); extern int read_lalias_multi_8(void); extern void write_lalias_multi_8(int);
int main(void){
    if ((void*)lfunc_0 != addr_lfunc_0()) fail("lfunc_0: exe vs defining library");
    if ((void*)lfunc_0 != l1_addr_lfunc_0()) fail("lfunc_0: exe vs lib1");
    if ((void*)fp_lfunc_0 != (void*)lfunc_0) fail("lfunc_0: data pointer vs code reference in exe");
    if (fp_lfunc_0() != 70 || lfunc_0() != 70) fail("lfunc_0: call result");
    if ((const void*)ldata_1 != addr_ldata_1()) fail("ldata_1: exe vs defining library");
    if ((const void*)ldata_1 != l1_addr_ldata_1()) fail("ldata_1: exe vs lib1");
    if ((const void*)dp_ldata_1 != (const void*)ldata_1) fail("ldata_1: data pointer vs code reference in exe");
    if (ldata_1[0] != 100 || read_ldata_1() != 100) fail("ldata_1: initial value");
    ldata_1[0] = 1100; if (read_ldata_1() != 1100 || l1_read_ldata_1() != 1100) fail("ldata_1: write through exe not seen by library");
    if ((void*)efunc_2 != l1_addr_efunc_2()) fail("efunc_2: exe function seen from lib1");
    if (l1_call_efunc_2() != 139) fail("efunc_2: call from lib1");
    if ((void*)fp_eifunc_3 != (void*)eifunc_3) fail("eifunc_3: ifunc address in data vs code in exe");
    
#ifdef EIFUNC_FROM_LIB
    if ((void*)eifunc_3 != l1_addr_eifunc_3()) fail("eifunc_3: exe ifunc address seen from lib1"); if (l1_call_eifunc_3() != 128) fail("eifunc_3: ifunc call from lib1");
#endif
    if (eifunc_3() != 128 || fp_eifunc_3() != 128) fail("eifunc_3: ifunc call result");
    if ((const void*)ldata_4 != addr_ldata_4()) fail("ldata_4: exe vs defining library");
    if ((const void*)ldata_4 != l1_addr_ldata_4()) fail("ldata_4: exe vs lib1");
    if ((const void*)dp_ldata_4 != (const void*)ldata_4) fail("ldata_4: data pointer vs code reference in exe");
    if (ldata_4[0] != 195 || read_ldata_4() != 195) fail("ldata_4: initial value");
    ldata_4[0] = 1195; if (read_ldata_4() != 1195 || l1_read_ldata_4() != 1195) fail("ldata_4: write through exe not seen by library");
    if ((void*)&lalias_5 != addr_lalias_5()) fail("lalias_5: weak alias in exe vs strong symbol in library");
    write_lalias_5(139); if (lalias_5 != 139) fail("lalias_5: write through strong symbol not seen through alias");
    lalias_5 = 141; if (read_lalias_5() != 141) fail("lalias_5: write through alias not seen through strong symbol");
    if ((void*)lifunc_6 != addr_lifunc_6()) fail("lifunc_6: library ifunc address exe vs library");
    if ((void*)fp_lifunc_6 != (void*)lifunc_6) fail("lifunc_6: library ifunc address data vs code in exe");
    if (lifunc_6() != 196 || fp_lifunc_6() != 196) fail("lifunc_6: ifunc call result");
    if ((void*)&lalias_st_7 != addr_lalias_st_7() || (void*)&lalias_st_7 != waddr_lalias_st_7()) fail("lalias_st_7: symbol in exe vs its alias used by the library");
    if (lalias_st_7 != 189 || read_lalias_st_7() != 189) fail("lalias_st_7: initial value");
    lalias_st_7 = 1189; if (read_lalias_st_7() != 1189) fail("lalias_st_7: write in exe not seen by the library through the alias");
    write_lalias_st_7(196); if (lalias_st_7 != 196) fail("lalias_st_7: write by the library through the alias not seen in exe");
    if ((void*)&lalias_multi_8 != addr_lalias_multi_8() || (void*)&lalias_multi_8 != waddr_lalias_multi_8()) fail("lalias_multi_8: symbol in exe vs its alias used by the library");
    if (lalias_multi_8 != 46 || read_lalias_multi_8() != 46) fail("lalias_multi_8: initial value");
    lalias_multi_8 = 1046; if (read_lalias_multi_8() != 1046) fail("lalias_multi_8: write in exe not seen by the library through the alias");
    write_lalias_multi_8(53); if (lalias_multi_8 != 53) fail("lalias_multi_8: write by the library through the alias not seen in exe");
    if (!bad) printf("OK\n"); return bad ? 1 : 0; }
