int lfunc_0(void){ return 185; }
void *addr_lfunc_0(void){ return (void*)lfunc_0; }
extern int lfunc_0(void); void *l1_addr_lfunc_0(void){ return (void*)lfunc_0; }
int ldata_1[1] = { 72 };
const void *addr_ldata_1(void){ return ldata_1; } int read_ldata_1(void){ return ldata_1[0]; }
extern int ldata_1[]; const void *l1_addr_ldata_1(void){ return ldata_1; } int l1_read_ldata_1(void){ return ldata_1[0]; }
static int impl_lifunc_2(void){ return 102; } static void *res_lifunc_2(void){ return (void*)impl_lifunc_2; } int lifunc_2(void) __attribute__((ifunc("res_lifunc_2"))); void *addr_lifunc_2(void){ return (void*)lifunc_2; }
int lfunc_3(void){ return 93; }
void *addr_lfunc_3(void){ return (void*)lfunc_3; }
extern int lfunc_3(void); void *l1_addr_lfunc_3(void){ return (void*)lfunc_3; }
extern int edata_4[]; void *l1_addr_edata_4(void){ return edata_4; } int l1_read_edata_4(void){ return edata_4[0]; }
int ldata_bss_5[2];
const void *addr_ldata_bss_5(void){ return ldata_bss_5; } int read_ldata_bss_5(void){ return ldata_bss_5[0]; }
extern int ldata_bss_5[]; const void *l1_addr_ldata_bss_5(void){ return ldata_bss_5; } int l1_read_ldata_bss_5(void){ return ldata_bss_5[0]; }
int lalias_sw_6 = 52; extern __typeof(lalias_sw_6) w_lalias_sw_6 __attribute__((weak, alias("lalias_sw_6")));
void *addr_lalias_sw_6(void){ return (void*)&w_lalias_sw_6; } int read_lalias_sw_6(void){ return w_lalias_sw_6; } void write_lalias_sw_6(int v){ w_lalias_sw_6 = v; } void *waddr_lalias_sw_6(void){ return (void*)&w_lalias_sw_6; }
int lalias_multi_7[4]; extern __typeof(lalias_multi_7) w_lalias_multi_7 __attribute__((weak, alias("lalias_multi_7"))); extern __typeof(lalias_multi_7) t_lalias_multi_7 __attribute__((alias("lalias_multi_7")));
void *addr_lalias_multi_7(void){ return (void*)w_lalias_multi_7; } int read_lalias_multi_7(void){ return w_lalias_multi_7[0]; } void write_lalias_multi_7(int v){ t_lalias_multi_7[0] = v; } void *waddr_lalias_multi_7(void){ return (void*)t_lalias_multi_7; }
