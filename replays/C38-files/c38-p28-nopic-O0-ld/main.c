#include <stdio.h>
static int bad; static void fail(const char *what){ printf("MISMATCH %s\n", what); bad++; }
extern int lfunc_0(void); extern void *addr_lfunc_0(void); extern void *l1_addr_lfunc_0(void); int (*volatile fp_lfunc_0)(void) = lfunc_0;
extern int ldata_1[]; extern const void *addr_ldata_1(void); extern const void *l1_addr_ldata_1(void); extern int read_ldata_1(void); extern int l1_read_ldata_1(void); int *volatile dp_ldata_1 = ldata_1;
extern int lifunc_2(void); extern void *addr_lifunc_2(void); int (*volatile fp_lifunc_2)(void) = lifunc_2;
extern int lfunc_3(void); extern void *addr_lfunc_3(void); extern void *l1_addr_lfunc_3(void); int (*volatile fp_lfunc_3)(void) = lfunc_3;
int edata_4[2] = { 40 }; extern void *l1_addr_edata_4(void); extern int l1_read_edata_4(void);
extern int ldata_bss_5[]; extern const void *addr_ldata_bss_5(void); extern const void *l1_addr_ldata_bss_5(void); extern int read_ldata_bss_5(void); extern int l1_read_ldata_bss_5(void); int *volatile dp_ldata_bss_5 = ldata_bss_5;
extern int lalias_sw_6; extern void *addr_lalias_sw_6(void); extern void *waddr_lalias_sw_6(void); extern int read_lalias_sw_6(void); extern void write_lalias_sw_6(int);
extern int lalias_multi_7[]; extern void *addr_lalias_multi_7(void); extern void *waddr_lalias_multi_7(void); extern int read_lalias_multi_7(void); extern void write_lalias_multi_7(int);
int main(void){
    if ((void*)lfunc_0 != addr_lfunc_0()) fail("lfunc_0: exe vs defining library");
    if ((void*)lfunc_0 != l1_addr_lfunc_0()) fail("lfunc_0: exe vs lib1");
    if ((void*)fp_lfunc_0 != (void*)lfunc_0) fail("lfunc_0: data pointer vs code reference in exe");
    if (fp_lfunc_0() != 185 || lfunc_0() != 185) fail("lfunc_0: call result");
    if ((const void*)ldata_1 != addr_ldata_1()) fail("ldata_1: exe vs defining library");
    if ((const void*)ldata_1 != l1_addr_ldata_1()) fail("ldata_1: exe vs lib1");
    if ((const void*)dp_ldata_1 != (const void*)ldata_1) fail("ldata_1: data pointer vs code reference in exe");
    if (ldata_1[0] != 72 || read_ldata_1() != 72) fail("ldata_1: initial value");
    ldata_1[0] = 1072; if (read_ldata_1() != 1072 || l1_read_ldata_1() != 1072) fail("ldata_1: write through exe not seen by library");
    if ((void*)lifunc_2 != addr_lifunc_2()) fail("lifunc_2: library ifunc address exe vs library");
    if ((void*)fp_lifunc_2 != (void*)lifunc_2) fail("lifunc_2: library ifunc address data vs code in exe");
    if (lifunc_2() != 102 || fp_lifunc_2() != 102) fail("lifunc_2: ifunc call result");
    if ((void*)lfunc_3 != addr_lfunc_3()) fail("lfunc_3: exe vs defining library");
    if ((void*)lfunc_3 != l1_addr_lfunc_3()) fail("lfunc_3: exe vs lib1");
    if ((void*)fp_lfunc_3 != (void*)lfunc_3) fail("lfunc_3: data pointer vs code reference in exe");
    if (fp_lfunc_3() != 93 || lfunc_3() != 93) fail("lfunc_3: call result");
    if ((void*)edata_4 != l1_addr_edata_4()) fail("edata_4: exe data seen from lib1");
    edata_4[0] = 45; if (l1_read_edata_4() != 45) fail("edata_4: write in exe not seen by lib1");
    if ((const void*)ldata_bss_5 != addr_ldata_bss_5()) fail("ldata_bss_5: exe vs defining library");
    if ((const void*)ldata_bss_5 != l1_addr_ldata_bss_5()) fail("ldata_bss_5: exe vs lib1");
    if ((const void*)dp_ldata_bss_5 != (const void*)ldata_bss_5) fail("ldata_bss_5: data pointer vs code reference in exe");
    if (ldata_bss_5[0] != 0 || read_ldata_bss_5() != 0) fail("ldata_bss_5: initial value");
    ldata_bss_5[0] = 1186; if (read_ldata_bss_5() != 1186 || l1_read_ldata_bss_5() != 1186) fail("ldata_bss_5: write through exe not seen by library");
    if ((void*)&lalias_sw_6 != addr_lalias_sw_6() || (void*)&lalias_sw_6 != waddr_lalias_sw_6()) fail("lalias_sw_6: symbol in exe vs its alias used by the library");
    if (lalias_sw_6 != 52 || read_lalias_sw_6() != 52) fail("lalias_sw_6: initial value");
    lalias_sw_6 = 1052; if (read_lalias_sw_6() != 1052) fail("lalias_sw_6: write in exe not seen by the library through the alias");
    write_lalias_sw_6(59); if (lalias_sw_6 != 59) fail("lalias_sw_6: write by the library through the alias not seen in exe");
    if ((void*)lalias_multi_7 != addr_lalias_multi_7() || (void*)lalias_multi_7 != waddr_lalias_multi_7()) fail("lalias_multi_7: symbol in exe vs its alias used by the library");
    if (lalias_multi_7[0] != 0 || read_lalias_multi_7() != 0) fail("lalias_multi_7: initial value");
    lalias_multi_7[0] = 1194; if (read_lalias_multi_7() != 1194) fail("lalias_multi_7: write in exe not seen by the library through the alias");
    write_lalias_multi_7(201); if (lalias_multi_7[0] != 201) fail("lalias_multi_7: write by the library through the alias not seen in exe");
    if (!bad) printf("OK\n"); return bad ? 1 : 0; }
