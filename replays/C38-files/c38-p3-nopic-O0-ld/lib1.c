int lfunc_0(void){ return 152; }
void *addr_lfunc_0(void){ return (void*)lfunc_0; }
extern int lfunc_0(void); void *l1_addr_lfunc_0(void){ return (void*)lfunc_0; }
int ldata_1[1] = { 64 };
const void *addr_ldata_1(void){ return ldata_1; } int read_ldata_1(void){ return ldata_1[0]; }
extern int ldata_1[]; const void *l1_addr_ldata_1(void){ return ldata_1; } int l1_read_ldata_1(void){ return ldata_1[0]; }
int real_lalias_2 = 200; extern int lalias_2 __attribute__((weak, alias("real_lalias_2")));
void *addr_lalias_2(void){ return &real_lalias_2; } int read_lalias_2(void){ return real_lalias_2; } void write_lalias_2(int v){ real_lalias_2 = v; }
extern int efunc_3(void); void *l1_addr_efunc_3(void){ return (void*)efunc_3; } int l1_call_efunc_3(void){ return efunc_3(); }
const int ldata_ro_4[1] = { 52 };
const void *addr_ldata_ro_4(void){ return ldata_ro_4; } int read_ldata_ro_4(void){ return ldata_ro_4[0]; }
extern const int ldata_ro_4[]; const void *l1_addr_ldata_ro_4(void){ return ldata_ro_4; } int l1_read_ldata_ro_4(void){ return ldata_ro_4[0]; }
const int ldata_ro_5[4] = { 196 };
const void *addr_ldata_ro_5(void){ return ldata_ro_5; } int read_ldata_ro_5(void){ return ldata_ro_5[0]; }
extern const int ldata_ro_5[]; const void *l1_addr_ldata_ro_5(void){ return ldata_ro_5; } int l1_read_ldata_ro_5(void){ return ldata_ro_5[0]; }
int lalias_sw_6 = 146; extern __typeof(lalias_sw_6) w_lalias_sw_6 __attribute__((weak, alias("lalias_sw_6")));
void *addr_lalias_sw_6(void){ return (void*)&w_lalias_sw_6; } int read_lalias_sw_6(void){ return w_lalias_sw_6; } void write_lalias_sw_6(int v){ w_lalias_sw_6 = v; } void *waddr_lalias_sw_6(void){ return (void*)&w_lalias_sw_6; }
int lalias_multi_7[4]; extern __typeof(lalias_multi_7) w_lalias_multi_7 __attribute__((weak, alias("lalias_multi_7"))); extern __typeof(lalias_multi_7) t_lalias_multi_7 __attribute__((alias("lalias_multi_7")));
void *addr_lalias_multi_7(void){ return (void*)w_lalias_multi_7; } int read_lalias_multi_7(void){ return w_lalias_multi_7[0]; } void write_lalias_multi_7(int v){ t_lalias_multi_7[0] = v; } void *waddr_lalias_multi_7(void){ return (void*)t_lalias_multi_7; }
