#include <stdio.h>
static int bad; static void fail(const char *what){ printf("MISMATCH %s\n", what); bad++; }
extern int lfunc_0(void); extern void *addr_lfunc_0(void); extern void *l1_addr_lfunc_0(void); int (*volatile fp_lfunc_0)(void) = lfunc_0;
extern int ldata_1[]; extern const void *addr_ldata_1(void); extern const void *l1_addr_ldata_1(void); extern int read_ldata_1(void); extern int l1_read_ldata_1(void); int *volatile dp_ldata_1 = ldata_1;
extern int lalias_2; extern void *addr_lalias_2(void); extern int read_lalias_2(void); extern void write_lalias_2(int);
int efunc_3(void){ return 102; } extern void *l1_addr_efunc_3(void); extern int l1_call_efunc_3(void);
extern const int ldata_ro_4[]; extern const void *addr_ldata_ro_4(void); extern const void *l1_addr_ldata_ro_4(void); extern int read_ldata_ro_4(void); extern int l1_read_ldata_ro_4(void); const int *volatile dp_ldata_ro_4 = ldata_ro_4;
extern const int ldata_ro_5[]; extern const void *addr_ldata_ro_5(void); extern const void *l1_addr_ldata_ro_5(void); extern int read_ldata_ro_5(void); extern int l1_read_ldata_ro_5(void); const int *volatile dp_ldata_ro_5 = ldata_ro_5;
extern int lalias_sw_6; extern void *addr_lalias_sw_6(void); extern void *waddr_lalias_sw_6(void); extern int read_lalias_sw_6(void); extern void write_lalias_sw_6(int);
extern int lalias_multi_7[]; extern void *addr_lalias_multi_7(void); extern void *waddr_lalias_multi_7(void); extern int read_lalias_multi_7(void); extern void write_lalias_multi_7(int);
int main(void){
    if ((void*)lfunc_0 != addr_lfunc_0()) fail("lfunc_0: exe vs defining library");
    if ((void*)lfunc_0 != l1_addr_lfunc_0()) fail("lfunc_0: exe vs lib1");
    if ((void*)fp_lfunc_0 != (void*)lfunc_0) fail("lfunc_0: data pointer vs code reference in exe");
    if (fp_lfunc_0() != 152 || lfunc_0() != 152) fail("lfunc_0: call result");
    if ((const void*)ldata_1 != addr_ldata_1()) fail("ldata_1: exe vs defining library");
    if ((const void*)ldata_1 != l1_addr_ldata_1()) fail("ldata_1: exe vs lib1");
    if ((const void*)dp_ldata_1 != (const void*)ldata_1) fail("ldata_1: data pointer vs code reference in exe");
    if (ldata_1[0] != 64 || read_ldata_1() != 64) fail("ldata_1: initial value");
    ldata_1[0] = 1064; if (read_ldata_1() != 1064 || l1_read_ldata_1() != 1064) fail("ldata_1: write through exe not seen by library");
    if ((void*)&lalias_2 != addr_lalias_2()) fail("lalias_2: weak alias in exe vs strong symbol in library");
    write_lalias_2(207); if (lalias_2 != 207) fail("lalias_2: write through strong symbol not seen through alias");
    lalias_2 = 209; if (read_lalias_2() != 209) fail("lalias_2: write through alias not seen through strong symbol");
    if ((void*)efunc_3 != l1_addr_efunc_3()) fail("efunc_3: exe function seen from lib1");
    if (l1_call_efunc_3() != 102) fail("efunc_3: call from lib1");
    if ((const void*)ldata_ro_4 != addr_ldata_ro_4()) fail("ldata_ro_4: exe vs defining library");
    if ((const void*)ldata_ro_4 != l1_addr_ldata_ro_4()) fail("ldata_ro_4: exe vs lib1");
    if ((const void*)dp_ldata_ro_4 != (const void*)ldata_ro_4) fail("ldata_ro_4: data pointer vs code reference in exe");
    if (ldata_ro_4[0] != 52 || read_ldata_ro_4() != 52) fail("ldata_ro_4: initial value");
    if ((const void*)ldata_ro_5 != addr_ldata_ro_5()) fail("ldata_ro_5: exe vs defining library");
    if ((const void*)ldata_ro_5 != l1_addr_ldata_ro_5()) fail("ldata_ro_5: exe vs lib1");
    if ((const void*)dp_ldata_ro_5 != (const void*)ldata_ro_5) fail("ldata_ro_5: data pointer vs code reference in exe");
    if (ldata_ro_5[0] != 196 || read_ldata_ro_5() != 196) fail("ldata_ro_5: initial value");
    if ((void*)&lalias_sw_6 != addr_lalias_sw_6() || (void*)&lalias_sw_6 != waddr_lalias_sw_6()) fail("lalias_sw_6: symbol in exe vs its alias used by the library");
    if (lalias_sw_6 != 146 || read_lalias_sw_6() != 146) fail("lalias_sw_6: initial value");
    lalias_sw_6 = 1146; if (read_lalias_sw_6() != 1146) fail("lalias_sw_6: write in exe not seen by the library through the alias");
    write_lalias_sw_6(153); if (lalias_sw_6 != 153) fail("lalias_sw_6: write by the library through the alias not seen in exe");
    if ((void*)lalias_multi_7 != addr_lalias_multi_7() || (void*)lalias_multi_7 != waddr_lalias_multi_7()) fail("lalias_multi_7: symbol in exe vs its alias used by the library");
    if (lalias_multi_7[0] != 0 || read_lalias_multi_7() != 0) fail("lalias_multi_7: initial value");
    lalias_multi_7[0] = 1130; if (read_lalias_multi_7() != 1130) fail("lalias_multi_7: write in exe not seen by the library through the alias");
    write_lalias_multi_7(137); if (lalias_multi_7[0] != 137) fail("lalias_multi_7: write by the library through the alias not seen in exe");
    if (!bad) printf("OK\n"); return bad ? 1 : 0; }
