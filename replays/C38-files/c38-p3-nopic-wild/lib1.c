int lfunc_0(void){ return 119; }
void *addr_lfunc_0(void){ return (void*)lfunc_0; }
extern int lfunc_0(void); void *l1_addr_lfunc_0(void){ return (void*)lfunc_0; }
int ldata_1[4] = { 175 };
const void *addr_ldata_1(void){ return ldata_1; } int read_ldata_1(void){ return ldata_1[0]; }
extern int ldata_1[]; const void *l1_addr_ldata_1(void){ return ldata_1; } int l1_read_ldata_1(void){ return ldata_1[0]; }
extern int edata_2[]; void *l1_addr_edata_2(void){ return edata_2; } int l1_read_edata_2(void){ return edata_2[0]; }
int lfunc_3(void){ return 60; }
void *addr_lfunc_3(void){ return (void*)lfunc_3; }
extern int lfunc_3(void); void *l1_addr_lfunc_3(void){ return (void*)lfunc_3; }
int lalias_sw_4 = 27; extern __typeof(lalias_sw_4) w_lalias_sw_4 __attribute__((weak, alias("lalias_sw_4")));
void *addr_lalias_sw_4(void){ return (void*)&w_lalias_sw_4; } int read_lalias_sw_4(void){ return w_lalias_sw_4; } void write_lalias_sw_4(int v){ w_lalias_sw_4 = v; } void *waddr_lalias_sw_4(void){ return (void*)&w_lalias_sw_4; }
int lalias_multi_5 = 4; extern __typeof(lalias_multi_5) w_lalias_multi_5 __attribute__((weak, alias("lalias_multi_5"))); extern __typeof(lalias_multi_5) t_lalias_multi_5 __attribute__((alias("lalias_multi_5")));
void *addr_lalias_multi_5(void){ return (void*)&w_lalias_multi_5; } int read_lalias_multi_5(void){ return w_lalias_multi_5; } void write_lalias_multi_5(int v){ t_lalias_multi_5 = v; } void *waddr_lalias_multi_5(void){ return (void*)&t_lalias_multi_5; }
