int l2func_2(void){ return 181; }
void *addr_l2func_2(void){ return (void*)l2func_2; }
