#include <stdio.h>
static int bad; static void fail(const char *what){ printf("MISMATCH %s\n", what); bad++; }
extern int lfunc_0(void); extern void *addr_lfunc_0(void); extern void *l1_addr_lfunc_0(void); int (*volatile fp_lfunc_0)(void) = lfunc_0;
extern int ldata_1[]; extern const void *addr_ldata_1(void); extern const void *l1_addr_ldata_1(void); extern int read_ldata_1(void); extern int l1_read_ldata_1(void); int *volatile dp_ldata_1 = ldata_1;
int edata_2[4] = { 72 }; extern void *l1_addr_edata_2(void); extern int l1_read_edata_2(void);
extern int lfunc_3(void); extern void *addr_lfunc_3(void); extern void *l1_addr_lfunc_3(void); int (*volatile fp_lfunc_3)(void) = lfunc_3;
extern int lalias_sw_4; extern void *addr_lalias_sw_4(void); extern void *waddr_lalias_sw_4(void); extern int read_lalias_sw_4(void); extern void write_lalias_sw_4(int);
extern int lalias_multi_5; extern void *addr_lalias_multi_5(void); extern void *waddr_lalias_multi_5(void); extern int read_lalias_multi_5(void); extern void write_lalias_multi_5(int);
int main(void){
    if ((void*)lfunc_0 != addr_lfunc_0()) fail("lfunc_0: exe vs defining library");
    if ((void*)lfunc_0 != l1_addr_lfunc_0()) fail("lfunc_0: exe vs lib1");
    if ((void*)fp_lfunc_0 != (void*)lfunc_0) fail("lfunc_0: data pointer vs code reference in exe");
    if (fp_lfunc_0() != 119 || lfunc_0() != 119) fail("lfunc_0: call result");
    if ((const void*)ldata_1 != addr_ldata_1()) fail("ldata_1: exe vs defining library");
    if ((const void*)ldata_1 != l1_addr_ldata_1()) fail("ldata_1: exe vs lib1");
    if ((const void*)dp_ldata_1 != (const void*)ldata_1) fail("ldata_1: data pointer vs code reference in exe");
    if (ldata_1[0] != 175 || read_ldata_1() != 175) fail("ldata_1: initial value");
    ldata_1[0] = 1175; if (read_ldata_1() != 1175 || l1_read_ldata_1() != 1175) fail("ldata_1: write through exe not seen by library");
    if ((void*)edata_2 != l1_addr_edata_2()) fail("edata_2: exe data seen from lib1");
    edata_2[0] = 77; if (l1_read_edata_2() != 77) fail("edata_2: write in exe not seen by lib1");
    if ((void*)lfunc_3 != addr_lfunc_3()) fail("lfunc_3: exe vs defining library");
    if ((void*)lfunc_3 != l1_addr_lfunc_3()) fail("lfunc_3: exe vs lib1");
    if ((void*)fp_lfunc_3 != (void*)lfunc_3) fail("lfunc_3: data pointer vs code reference in exe");
    if (fp_lfunc_3() != 60 || lfunc_3() != 60) fail("lfunc_3: call result");
    if ((void*)&lalias_sw_4 != addr_lalias_sw_4() || (void*)&lalias_sw_4 != waddr_lalias_sw_4()) fail("lalias_sw_4: symbol in exe vs its alias used by the library");
    if (lalias_sw_4 != 27 || read_lalias_sw_4() != 27) fail("lalias_sw_4: initial value");
    lalias_sw_4 = 1027; if (read_lalias_sw_4() != 1027) fail("lalias_sw_4: write in exe not seen by the library through the alias");
    write_lalias_sw_4(34); if (lalias_sw_4 != 34) fail("lalias_sw_4: write by the library through the alias not seen in exe");
    if ((void*)&lalias_multi_5 != addr_lalias_multi_5() || (void*)&lalias_multi_5 != waddr_lalias_multi_5()) fail("lalias_multi_5: symbol in exe vs its alias used by the library");
    if (lalias_multi_5 != 4 || read_lalias_multi_5() != 4) fail("lalias_multi_5: initial value");
    lalias_multi_5 = 1004; if (read_lalias_multi_5() != 1004) fail("lalias_multi_5: write in exe not seen by the library through the alias");
    write_lalias_multi_5(11); if (lalias_multi_5 != 11) fail("lalias_multi_5: write by the library through the alias not seen in exe");
    if (!bad) printf("OK\n"); return bad ? 1 : 0; }
