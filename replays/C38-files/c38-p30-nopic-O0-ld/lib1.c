int lfunc_0(void){ return 2; }
void *addr_lfunc_0(void){ return (void*)lfunc_0; }
extern int lfunc_0(void); void *l1_addr_lfunc_0(void){ return (void*)lfunc_0; }
int ldata_1[4] = { 4 };
const void *addr_ldata_1(void){ return ldata_1; } int read_ldata_1(void){ return ldata_1[0]; }
extern int ldata_1[]; const void *l1_addr_ldata_1(void){ return ldata_1; } int l1_read_ldata_1(void){ return ldata_1[0]; }
extern int efunc_2(void); void *l1_addr_efunc_2(void){ return (void*)efunc_2; } int l1_call_efunc_2(void){ return efunc_2(); }
extern int l2data_3[]; const void *l1_addr_l2data_3(void){ return l2data_3; } int l1_read_l2data_3(void){ return l2data_3[0]; }
static int impl_lifunc_4(void){ return 95; } static void *res_lifunc_4(void){ return (void*)impl_lifunc_4; } int lifunc_4(void) __attribute__((ifunc("res_lifunc_4"))); void *addr_lifunc_4(void){ return (void*)lifunc_4; }
#ifdef EIFUNC_FROM_LIB
extern int eifunc_5(void); void *l1_addr_eifunc_5(void){ return (void*)eifunc_5; } int l1_call_eifunc_5(void){ return eifunc_5(); }
#endif
static int impl_lifunc_6(void){ return 158; } static void *res_lifunc_6(void){ return (void*)impl_lifunc_6; } int lifunc_6(void) __attribute__((ifunc("res_lifunc_6"))); void *addr_lifunc_6(void){ return (void*)lifunc_6; }
#ifdef EIFUNC_FROM_LIB
extern int eifunc_7(void); void *l1_addr_eifunc_7(void){ return (void*)eifunc_7; } int l1_call_eifunc_7(void){ return eifunc_7(); }
#endif
int lalias_sw_8 = 85; extern __typeof(lalias_sw_8) w_lalias_sw_8 __attribute__((weak, alias("lalias_sw_8")));
void *addr_lalias_sw_8(void){ return (void*)&w_lalias_sw_8; } int read_lalias_sw_8(void){ return w_lalias_sw_8; } void write_lalias_sw_8(int v){ w_lalias_sw_8 = v; } void *waddr_lalias_sw_8(void){ return (void*)&w_lalias_sw_8; }
int lalias_ts_9 = 120; extern __typeof(lalias_ts_9) t_lalias_ts_9 __attribute__((alias("lalias_ts_9")));
void *addr_lalias_ts_9(void){ return (void*)&lalias_ts_9; } int read_lalias_ts_9(void){ return lalias_ts_9; } void write_lalias_ts_9(int v){ lalias_ts_9 = v; } void *waddr_lalias_ts_9(void){ return (void*)&lalias_ts_9; }
