int l2data_3[2] = { 133 };
const void *addr_l2data_3(void){ return l2data_3; } int read_l2data_3(void){ return l2data_3[0]; }
