#include <stdio.h>
static int bad; static void fail(const char *what){ printf("MISMATCH %s\n", what); bad++; }
extern int lfunc_0(void); extern void *addr_lfunc_0(void); extern void *l1_addr_lfunc_0(void); int (*volatile fp_lfunc_0)(void) = lfunc_0;
extern int ldata_1[]; extern const void *addr_ldata_1(void); extern const void *l1_addr_ldata_1(void); extern int read_ldata_1(void); extern int l1_read_ldata_1(void); int *volatile dp_ldata_1 = ldata_1;
int efunc_2(void){ return 105; } extern void *l1_addr_efunc_2(void); extern int l1_call_efunc_2(void);
extern int l2data_3[]; extern const void *addr_l2data_3(void); extern const void *l1_addr_l2data_3(void); extern int read_l2data_3(void); extern int l1_read_l2data_3(void); int *volatile dp_l2data_3 = l2data_3;
extern int lifunc_4(void); extern void *addr_lifunc_4(void); int (*volatile fp_lifunc_4)(void) = lifunc_4;
static int impl_eifunc_5(void){ return 159; } static void *res_eifunc_5(void){ return (void*)impl_eifunc_5; } int eifunc_5(void) __attribute__((ifunc("res_eifunc_5"))); extern void *l1_addr_eifunc_5(void); extern int l1_call_eifunc_5(void); int (*volatile fp_eifunc_5)(void) = eifunc_5;
extern int lifunc_6(void); extern void *addr_lifunc_6(void); int (*volatile fp_lifunc_6)(void) = lifunc_6;
static int impl_eifunc_7(void){ return 107; } static void *res_eifunc_7(void){ return (void*)impl_eifunc_7; } int eifunc_7(void) __attribute__((ifunc("res_eifunc_7"))); extern void *l1_addr_eifunc_7(void); extern int l1_call_eifunc_7(void); int (*volatile fp_eifunc_7)(void) = eifunc_7;
extern int lalias_sw_8; extern void *addr_lalias_sw_8(void); extern void *waddr_lalias_sw_8(void); extern int read_lalias_sw_8(void); extern void write_lalias_sw_8(int);
extern int t_lalias_ts_9; extern void *addr_lalias_ts_9(void); extern void *waddr_lalias_ts_9(void); extern int read_lalias_ts_9(void); extern void write_lalias_ts_9(int);
int main(void){
    if ((void*)lfunc_0 != addr_lfunc_0()) fail("lfunc_0: exe vs defining library");
    if ((void*)lfunc_0 != l1_addr_lfunc_0()) fail("lfunc_0: exe vs lib1");
    if ((void*)fp_lfunc_0 != (void*)lfunc_0) fail("lfunc_0: data pointer vs code reference in exe");
    if (fp_lfunc_0() != 2 || lfunc_0() != 2) fail("lfunc_0: call result");
    if ((const void*)ldata_1 != addr_ldata_1()) fail("ldata_1: exe vs defining library");
    if ((const void*)ldata_1 != l1_addr_ldata_1()) fail("ldata_1: exe vs lib1");
    if ((const void*)dp_ldata_1 != (const void*)ldata_1) fail("ldata_1: data pointer vs code reference in exe");
    if (ldata_1[0] != 4 || read_ldata_1() != 4) fail("ldata_1: initial value");
    ldata_1[0] = 1004; if (read_ldata_1() != 1004 || l1_read_ldata_1() != 1004) fail("ldata_1: write through exe not seen by library");
    if ((void*)efunc_2 != l1_addr_efunc_2()) fail("efunc_2: exe function seen from lib1");
    if (l1_call_efunc_2() != 105) fail("efunc_2: call from lib1");
    if ((const void*)l2data_3 != addr_l2data_3()) fail("l2data_3: exe vs defining library");
    if ((const void*)l2data_3 != l1_addr_l2data_3()) fail("l2data_3: exe vs lib1");
    if ((const void*)dp_l2data_3 != (const void*)l2data_3) fail("l2data_3: data pointer vs code reference in exe");
    if (l2data_3[0] != 133 || read_l2data_3() != 133) fail("l2data_3: initial value");
    l2data_3[0] = 1133; if (read_l2data_3() != 1133 || l1_read_l2data_3() != 1133) fail("l2data_3: write through exe not seen by library");
    if ((void*)lifunc_4 != addr_lifunc_4()) fail("lifunc_4: library ifunc address exe vs library");
    if ((void*)fp_lifunc_4 != (void*)lifunc_4) fail("lifunc_4: library ifunc address data vs code in exe");
    if (lifunc_4() != 95 || fp_lifunc_4() != 95) fail("lifunc_4: ifunc call result");
    if ((void*)fp_eifunc_5 != (void*)eifunc_5) fail("eifunc_5: ifunc address in data vs code in exe");
    
#ifdef EIFUNC_FROM_LIB
    if ((void*)eifunc_5 != l1_addr_eifunc_5()) fail("eifunc_5: exe ifunc address seen from lib1"); if (l1_call_eifunc_5() != 159) fail("eifunc_5: ifunc call from lib1");
#endif
    if (eifunc_5() != 159 || fp_eifunc_5() != 159) fail("eifunc_5: ifunc call result");
    if ((void*)lifunc_6 != addr_lifunc_6()) fail("lifunc_6: library ifunc address exe vs library");
    if ((void*)fp_lifunc_6 != (void*)lifunc_6) fail("lifunc_6: library ifunc address data vs code in exe");
    if (lifunc_6() != 158 || fp_lifunc_6() != 158) fail("lifunc_6: ifunc call result");
    if ((void*)fp_eifunc_7 != (void*)eifunc_7) fail("eifunc_7: ifunc address in data vs code in exe");
    
#ifdef EIFUNC_FROM_LIB
    if ((void*)eifunc_7 != l1_addr_eifunc_7()) fail("eifunc_7: exe ifunc address seen from lib1"); if (l1_call_eifunc_7() != 107) fail("eifunc_7: ifunc call from lib1");
#endif
    if (eifunc_7() != 107 || fp_eifunc_7() != 107) fail("eifunc_7: ifunc call result");
    if ((void*)&lalias_sw_8 != addr_lalias_sw_8() || (void*)&lalias_sw_8 != waddr_lalias_sw_8()) fail("lalias_sw_8: symbol in exe vs its alias used by the library");
    if (lalias_sw_8 != 85 || read_lalias_sw_8() != 85) fail("lalias_sw_8: initial value");
    lalias_sw_8 = 1085; if (read_lalias_sw_8() != 1085) fail("lalias_sw_8: write in exe not seen by the library through the alias");
    write_lalias_sw_8(92); if (lalias_sw_8 != 92) fail("lalias_sw_8: write by the library through the alias not seen in exe");
    if ((void*)&t_lalias_ts_9 != addr_lalias_ts_9() || (void*)&t_lalias_ts_9 != waddr_lalias_ts_9()) fail("lalias_ts_9: symbol in exe vs its alias used by the library");
    if (t_lalias_ts_9 != 120 || read_lalias_ts_9() != 120) fail("lalias_ts_9: initial value");
    t_lalias_ts_9 = 1120; if (read_lalias_ts_9() != 1120) fail("lalias_ts_9: write in exe not seen by the library through the alias");
    write_lalias_ts_9(127); if (t_lalias_ts_9 != 127) fail("lalias_ts_9: write by the library through the alias not seen in exe");
    if (!bad) printf("OK\n"); return bad ? 1 : 0; }
