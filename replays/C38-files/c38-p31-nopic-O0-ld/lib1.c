int lfunc_0(void){ return 156; }
void *addr_lfunc_0(void){ return (void*)lfunc_0; }
extern int lfunc_0(void); void *l1_addr_lfunc_0(void){ return (void*)lfunc_0; }
int ldata_1[1] = { 185 };
const void *addr_ldata_1(void){ return ldata_1; } int read_ldata_1(void){ return ldata_1[0]; }
extern int ldata_1[]; const void *l1_addr_ldata_1(void){ return ldata_1; } int l1_read_ldata_1(void){ return ldata_1[0]; }
int lfunc_2(void){ return 76; }
void *addr_lfunc_2(void){ return (void*)lfunc_2; }
extern int lfunc_2(void); void *l1_addr_lfunc_2(void){ return (void*)lfunc_2; }
int ldata_3[1] = { 164 };
const void *addr_ldata_3(void){ return ldata_3; } int read_ldata_3(void){ return ldata_3[0]; }
extern int ldata_3[]; const void *l1_addr_ldata_3(void){ return ldata_3; } int l1_read_ldata_3(void){ return ldata_3[0]; }
static int impl_lifunc_4(void){ return 48; } static void *res_lifunc_4(void){ return (void*)impl_lifunc_4; } int lifunc_4(void) __attribute__((ifunc("res_lifunc_4"))); void *addr_lifunc_4(void){ return (void*)lifunc_4; }
int ldata_5[16] = { 56 };
const void *addr_ldata_5(void){ return ldata_5; } int read_ldata_5(void){ return ldata_5[0]; }
extern int ldata_5[]; const void *l1_addr_ldata_5(void){ return ldata_5; } int l1_read_ldata_5(void){ return ldata_5[0]; }
int ldata_6[16] = { 65 };
const void *addr_ldata_6(void){ return ldata_6; } int read_ldata_6(void){ return ldata_6[0]; }
extern int ldata_6[]; const void *l1_addr_ldata_6(void){ return ldata_6; } int l1_read_ldata_6(void){ return ldata_6[0]; }
int real_lalias_7 = 24; extern int lalias_7 __attribute__((weak, alias("real_lalias_7")));
void *addr_lalias_7(void){ return &real_lalias_7; } int read_lalias_7(void){ return real_lalias_7; } void write_lalias_7(int v){ real_lalias_7 = v; }
int lalias_sw_8[4]; extern __typeof(lalias_sw_8) w_lalias_sw_8 __attribute__((weak, alias("lalias_sw_8")));
void *addr_lalias_sw_8(void){ return (void*)w_lalias_sw_8; } int read_lalias_sw_8(void){ return w_lalias_sw_8[0]; } void write_lalias_sw_8(int v){ w_lalias_sw_8[0] = v; } void *waddr_lalias_sw_8(void){ return (void*)w_lalias_sw_8; }
int lalias_st_9 = 92; extern __typeof(lalias_st_9) t_lalias_st_9 __attribute__((alias("lalias_st_9")));
void *addr_lalias_st_9(void){ return (void*)&t_lalias_st_9; } int read_lalias_st_9(void){ return t_lalias_st_9; } void write_lalias_st_9(int v){ t_lalias_st_9 = v; } void *waddr_lalias_st_9(void){ return (void*)&t_lalias_st_9; }
