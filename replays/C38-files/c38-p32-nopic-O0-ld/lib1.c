int lfunc_0(void){ return 73; }
void *addr_lfunc_0(void){ return (void*)lfunc_0; }
extern int lfunc_0(void); void *l1_addr_lfunc_0(void){ return (void*)lfunc_0; }
int ldata_1[4] = { 22 };
const void *addr_ldata_1(void){ return ldata_1; } int read_ldata_1(void){ return ldata_1[0]; }
extern int ldata_1[]; const void *l1_addr_ldata_1(void){ return ldata_1; } int l1_read_ldata_1(void){ return ldata_1[0]; }
#ifdef EIFUNC_FROM_LIB
extern int eifunc_2(void); void *l1_addr_eifunc_2(void){ return (void*)eifunc_2; } int l1_call_eifunc_2(void){ return eifunc_2(); }
#endif
int lfunc_3(void){ return 17; }
void *addr_lfunc_3(void){ return (void*)lfunc_3; }
extern int lfunc_3(void); void *l1_addr_lfunc_3(void){ return (void*)lfunc_3; }
const int ldata_ro_4[16] = { 29 };
const void *addr_ldata_ro_4(void){ return ldata_ro_4; } int read_ldata_ro_4(void){ return ldata_ro_4[0]; }
extern const int ldata_ro_4[]; const void *l1_addr_ldata_ro_4(void){ return ldata_ro_4; } int l1_read_ldata_ro_4(void){ return ldata_ro_4[0]; }
static int impl_lifunc_5(void){ return 142; } static void *res_lifunc_5(void){ return (void*)impl_lifunc_5; } int lifunc_5(void) __attribute__((ifunc("res_lifunc_5"))); void *addr_lifunc_5(void){ return (void*)lifunc_5; }
int lalias_st_6 = 98; extern __typeof(lalias_st_6) t_lalias_st_6 __attribute__((alias("lalias_st_6")));
void *addr_lalias_st_6(void){ return (void*)&t_lalias_st_6; } int read_lalias_st_6(void){ return t_lalias_st_6; } void write_lalias_st_6(int v){ t_lalias_st_6 = v; } void *waddr_lalias_st_6(void){ return (void*)&t_lalias_st_6; }
int lalias_multi_7[4]; extern __typeof(lalias_multi_7) w_lalias_multi_7 __attribute__((weak, alias("lalias_multi_7"))); extern __typeof(lalias_multi_7) t_lalias_multi_7 __attribute__((alias("lalias_multi_7")));
void *addr_lalias_multi_7(void){ return (void*)w_lalias_multi_7; } int read_lalias_multi_7(void){ return w_lalias_multi_7[0]; } void write_lalias_multi_7(int v){ t_lalias_multi_7[0] = v; } void *waddr_lalias_multi_7(void){ return (void*)t_lalias_multi_7; }
