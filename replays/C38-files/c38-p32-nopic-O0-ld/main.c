#include <stdio.h>
static int bad; static void fail(const char *what){ printf("MISMATCH %s\n", what); bad++; }
extern int lfunc_0(void); extern void *addr_lfunc_0(void); extern void *l1_addr_lfunc_0(void); int (*volatile fp_lfunc_0)(void) = lfunc_0;
extern int ldata_1[]; extern const void *addr_ldata_1(void); extern const void *l1_addr_ldata_1(void); extern int read_ldata_1(void); extern int l1_read_ldata_1(void); int *volatile dp_ldata_1 = ldata_1;
static int impl_eifunc_2(void){ return 179; } static void *res_eifunc_2(void){ return (void*)impl_eifunc_2; } int eifunc_2(void) __attribute__((ifunc("res_eifunc_2"))); extern void *l1_addr_eifunc_2(void); extern int l1_call_eifunc_2(void); int (*volatile fp_eifunc_2)(void) = eifunc_2;
extern int lfunc_3(void); extern void *addr_lfunc_3(void); extern void *l1_addr_lfunc_3(void); int (*volatile fp_lfunc_3)(void) = lfunc_3;
extern const int ldata_ro_4[]; extern const void *addr_ldata_ro_4(void); extern const void *l1_addr_ldata_ro_4(void); extern int read_ldata_ro_4(void); extern int l1_read_ldata_ro_4(void); const int *volatile dp_ldata_ro_4 = ldata_ro_4;
extern int lifunc_5(void); extern void *addr_lifunc_5(void); int (*volatile fp_lifunc_5)(void) = lifunc_5;
extern int lalias_st_6; extern void *addr_lalias_st_6(void); extern void *waddr_lalias_st_6(void); extern int read_lalias_st_6(void); extern void write_lalias_st_6(int);
extern int lalias_multi_7[]; extern void *addr_lalias_multi_7(void); extern void *waddr_lalias_multi_7(void); extern int read_lalias_multi_7(void); extern void write_lalias_multi_7(int);
int main(void){
    if ((void*)lfunc_0 != addr_lfunc_0()) fail("lfunc_0: exe vs defining library");
    if ((void*)lfunc_0 != l1_addr_lfunc_0()) fail("lfunc_0: exe vs lib1");
    if ((void*)fp_lfunc_0 != (void*)lfunc_0) fail("lfunc_0: data pointer vs code reference in exe");
    if (fp_lfunc_0() != 73 || lfunc_0() != 73) fail("lfunc_0: call result");
    if ((const void*)ldata_1 != addr_ldata_1()) fail("ldata_1: exe vs defining library");
    if ((const void*)ldata_1 != l1_addr_ldata_1()) fail("ldata_1: exe vs lib1");
    if ((const void*)dp_ldata_1 != (const void*)ldata_1) fail("ldata_1: data pointer vs code reference in exe");
    if (ldata_1[0] != 22 || read_ldata_1() != 22) fail("ldata_1: initial value");
    ldata_1[0] = 1022; if (read_ldata_1() != 1022 || l1_read_ldata_1() != 1022) fail("ldata_1: write through exe not seen by library");
    if ((void*)fp_eifunc_2 != (void*)eifunc_2) fail("eifunc_2: ifunc address in data vs code in exe");
    
#ifdef EIFUNC_FROM_LIB
    if ((void*)eifunc_2 != l1_addr_eifunc_2()) fail("eifunc_2: exe ifunc address seen from lib1"); if (l1_call_eifunc_2() != 179) fail("eifunc_2: ifunc call from lib1");
#endif
    if (eifunc_2() != 179 || fp_eifunc_2() != 179) fail("eifunc_2: ifunc call result");
    if ((void*)lfunc_3 != addr_lfunc_3()) fail("lfunc_3: exe vs defining library");
    if ((void*)lfunc_3 != l1_addr_lfunc_3()) fail("lfunc_3: exe vs lib1");
    if ((void*)fp_lfunc_3 != (void*)lfunc_3) fail("lfunc_3: data pointer vs code reference in exe");
    if (fp_lfunc_3() != 17 || lfunc_3() != 17) fail("lfunc_3: call result");
    if ((const void*)ldata_ro_4 != addr_ldata_ro_4()) fail("ldata_ro_4: exe vs defining library");
    if ((const void*)ldata_ro_4 != l1_addr_ldata_ro_4()) fail("ldata_ro_4: exe vs lib1");
    if ((const void*)dp_ldata_ro_4 != (const void*)ldata_ro_4) fail("ldata_ro_4: data pointer vs code reference in exe");
    if (ldata_ro_4[0] != 29 || read_ldata_ro_4() != 29) fail("ldata_ro_4: initial value");
    if ((void*)lifunc_5 != addr_lifunc_5()) fail("lifunc_5: library ifunc address exe vs library");
    if ((void*)fp_lifunc_5 != (void*)lifunc_5) fail("lifunc_5: library ifunc address data vs code in exe");
    if (lifunc_5() != 142 || fp_lifunc_5() != 142) fail("lifunc_5: ifunc call result");
    if ((void*)&lalias_st_6 != addr_lalias_st_6() || (void*)&lalias_st_6 != waddr_lalias_st_6()) fail("lalias_st_6: symbol in exe vs its alias used by the library");
    if (lalias_st_6 != 98 || read_lalias_st_6() != 98) fail("lalias_st_6: initial value");
    lalias_st_6 = 1098; if (read_lalias_st_6() != 1098) fail("lalias_st_6: write in exe not seen by the library through the alias");
    write_lalias_st_6(105); if (lalias_st_6 != 105) fail("lalias_st_6: write by the library through the alias not seen in exe");
    if ((void*)lalias_multi_7 != addr_lalias_multi_7() || (void*)lalias_multi_7 != waddr_lalias_multi_7()) fail("lalias_multi_7: symbol in exe vs its alias used by the library");
    if (lalias_multi_7[0] != 0 || read_lalias_multi_7() != 0) fail("lalias_multi_7: initial value");
    lalias_multi_7[0] = 1115; if (read_lalias_multi_7() != 1115) fail("lalias_multi_7: write in exe not seen by the library through the alias");
    write_lalias_multi_7(122); if (lalias_multi_7[0] != 122) fail("lalias_multi_7: write by the library through the alias not seen in exe");
    if (!bad) printf("OK\n"); return bad ? 1 : 0; }
