#include <stdio.h>
static int bad; static void fail(const char *what){ printf("MISMATCH %s\n", what); bad++; }
extern int lfunc_0(void); extern void *addr_lfunc_0(void); extern void *l1_addr_lfunc_0(void); int (*volatile fp_lfunc_0)(void) = lfunc_0;
extern int ldata_1[]; extern const void *addr_ldata_1(void); extern const void *l1_addr_ldata_1(void); extern int read_ldata_1(void); extern int l1_read_ldata_1(void); int *volatile dp_ldata_1 = ldata_1;
extern int lifunc_2(void); extern void *addr_lifunc_2(void); int (*volatile fp_lifunc_2)(void) = lifunc_2;
extern int lfunc_3(void); extern void *addr_lfunc_3(void); extern void *l1_addr_lfunc_3(void); int (*volatile fp_lfunc_3)(void) = lfunc_3;
extern int lfunc_4(void); extern void *addr_lfunc_4(void); extern void *l1_addr_lfunc_4(void); int (*volatile fp_lfunc_4)(void) = lfunc_4;
static int impl_eifunc_5(void){ return 54; } static void *res_eifunc_5(void){ return (void*)impl_eifunc_5; } int eifunc_5(void) __attribute__((ifunc("res_eifunc_5"))); extern void *l1_addr_eifunc_5(void); extern int l1_call_eifunc_5(void); int (*volatile fp_eifunc_5)(void) = eifunc_5;
extern int lalias_sw_6[]; extern void *addr_lalias_sw_6(void); extern void *waddr_lalias_sw_6(void); extern int read_lalias_sw_6(void); extern void write_lalias_sw_6(int);
extern int t_lalias_ts_7[]; extern void *addr_lalias_ts_7(void); extern void *waddr_lalias_ts_7(void); extern int read_lalias_ts_7(void); extern void write_lalias_ts_7(int);
int main(void){
    if ((void*)lfunc_0 != addr_lfunc_0()) fail("lfunc_0: exe vs defining library");
    if ((void*)lfunc_0 != l1_addr_lfunc_0()) fail("lfunc_0: exe vs lib1");
    if ((void*)fp_lfunc_0 != (void*)lfunc_0) fail("lfunc_0: data pointer vs code reference in exe");
    if (fp_lfunc_0() != 165 || lfunc_0() != 165) fail("lfunc_0: call result");
    if ((const void*)ldata_1 != addr_ldata_1()) fail("ldata_1: exe vs defining library");
    if ((const void*)ldata_1 != l1_addr_ldata_1()) fail("ldata_1: exe vs lib1");
    if ((const void*)dp_ldata_1 != (const void*)ldata_1) fail("ldata_1: data pointer vs code reference in exe");
    if (ldata_1[0] != 31 || read_ldata_1() != 31) fail("ldata_1: initial value");
    ldata_1[0] = 1031; if (read_ldata_1() != 1031 || l1_read_ldata_1() != 1031) fail("ldata_1: write through exe not seen by library");
    if ((void*)lifunc_2 != addr_lifunc_2()) fail("lifunc_2: library ifunc address exe vs library");
    if ((void*)fp_lifunc_2 != (void*)lifunc_2) fail("lifunc_2: library ifunc address data vs code in exe");
    if (lifunc_2() != 54 || fp_lifunc_2() != 54) fail("lifunc_2: ifunc call result");
    if ((void*)lfunc_3 != addr_lfunc_3()) fail("lfunc_3: exe vs defining library");
    if ((void*)lfunc_3 != l1_addr_lfunc_3()) fail("lfunc_3: exe vs lib1");
    if ((void*)fp_lfunc_3 != (void*)lfunc_3) fail("lfunc_3: data pointer vs code reference in exe");
    if (fp_lfunc_3() != 145 || lfunc_3() != 145) fail("lfunc_3: call result");
    if ((void*)lfunc_4 != addr_lfunc_4()) fail("lfunc_4: exe vs defining library");
    if ((void*)lfunc_4 != l1_addr_lfunc_4()) fail("lfunc_4: exe vs lib1");
    if ((void*)fp_lfunc_4 != (void*)lfunc_4) fail("lfunc_4: data pointer vs code reference in exe");
    if (fp_lfunc_4() != 129 || lfunc_4() != 129) fail("lfunc_4: call result");
    if ((void*)fp_eifunc_5 != (void*)eifunc_5) fail("eifunc_5: ifunc address in data vs code in exe");
    
#ifdef EIFUNC_FROM_LIB
    if ((void*)eifunc_5 != l1_addr_eifunc_5()) fail("eifunc_5: exe ifunc address seen from lib1"); if (l1_call_eifunc_5() != 54) fail("eifunc_5: ifunc call from lib1");
#endif
    if (eifunc_5() != 54 || fp_eifunc_5() != 54) fail("eifunc_5: ifunc call result");
    if ((void*)lalias_sw_6 != addr_lalias_sw_6() || (void*)lalias_sw_6 != waddr_lalias_sw_6()) fail("lalias_sw_6: symbol in exe vs its alias used by the library");
    if (lalias_sw_6[0] != 0 || read_lalias_sw_6() != 0) fail("lalias_sw_6: initial value");
    lalias_sw_6[0] = 1142; if (read_lalias_sw_6() != 1142) fail("lalias_sw_6: write in exe not seen by the library through the alias");
    write_lalias_sw_6(149); if (lalias_sw_6[0] != 149) fail("lalias_sw_6: write by the library through the alias not seen in exe");
    if ((void*)t_lalias_ts_7 != addr_lalias_ts_7() || (void*)t_lalias_ts_7 != waddr_lalias_ts_7()) fail("lalias_ts_7: symbol in exe vs its alias used by the library");
    if (t_lalias_ts_7[0] != 0 || read_lalias_ts_7() != 0) fail("lalias_ts_7: initial value");
    t_lalias_ts_7[0] = 1090; if (read_lalias_ts_7() != 1090) fail("lalias_ts_7: write in exe not seen by the library through the alias");
    write_lalias_ts_7(97); if (t_lalias_ts_7[0] != 97) fail("lalias_ts_7: write by the library through the alias not seen in exe");
    if (!bad) printf("OK\n"); return bad ? 1 : 0; }
