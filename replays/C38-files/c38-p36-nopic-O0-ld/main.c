#include <stdio.h>
static int bad; static void fail(const char *what){ printf("MISMATCH %s\n", what); bad++; }
extern int lfunc_0(void); extern void *addr_lfunc_0(void); extern void *l1_addr_lfunc_0(void); int (*volatile fp_lfunc_0)(void) = lfunc_0;
extern int ldata_1[]; extern const void *addr_ldata_1(void); extern const void *l1_addr_ldata_1(void); extern int read_ldata_1(void); extern int l1_read_ldata_1(void); int *volatile dp_ldata_1 = ldata_1;
extern int ldata_bss_2[]; extern const void *addr_ldata_bss_2(void); extern const void *l1_addr_ldata_bss_2(void); extern int read_ldata_bss_2(void); extern int l1_read_ldata_bss_2(void); int *volatile dp_ldata_bss_2 = ldata_bss_2;
int efunc_3(void){ return 115; } extern void *l1_addr_efunc_3(void); extern int l1_call_efunc_3(void);
static int impl_eifunc_4(void){ return 78; } static void *res_eifunc_4(void){ return (void*)impl_eifunc_4; } int eifunc_4(void) __attribute__((ifunc("res_eifunc_4"))); extern void *l1_addr_eifunc_4(void); extern int l1_call_eifunc_4(void); int (*volatile fp_eifunc_4)(void) = eifunc_4;
extern int ldata_bss_5[]; extern const void *addr_ldata_bss_5(void); extern const void *l1_addr_ldata_bss_5(void); extern int read_ldata_bss_5(void); extern int l1_read_ldata_bss_5(void); int *volatile dp_ldata_bss_5 = ldata_bss_5;
extern int lalias_6; extern void *addr_lalias_6(void); extern int read_lalias_6(void); extern void write_lalias_6(int);
extern int lalias_sw_7[]; extern void *addr_lalias_sw_7(void); extern void *waddr_lalias_sw_7(void); extern int read_lalias_sw_7(void); extern void write_lalias_sw_7(int);
extern int lalias_st_8[]; extern void *addr_lalias_st_8(void); extern void *waddr_lalias_st_8(void); extern int read_lalias_st_8(void); extern void write_lalias_st_8(int);
int main(void){
    if ((void*)lfunc_0 != addr_lfunc_0()) fail("lfunc_0: exe vs defining library");
    if ((void*)lfunc_0 != l1_addr_lfunc_0()) fail("lfunc_0: exe vs lib1");
    if ((void*)fp_lfunc_0 != (void*)lfunc_0) fail("lfunc_0: data pointer vs code reference in exe");
    if (fp_lfunc_0() != 52 || lfunc_0() != 52) fail("lfunc_0: call result");
    if ((const void*)ldata_1 != addr_ldata_1()) fail("ldata_1: exe vs defining library");
    if ((const void*)ldata_1 != l1_addr_ldata_1()) fail("ldata_1: exe vs lib1");
    if ((const void*)dp_ldata_1 != (const void*)ldata_1) fail("ldata_1: data pointer vs code reference in exe");
    if (ldata_1[0] != 81 || read_ldata_1() != 81) fail("ldata_1: initial value");
    ldata_1[0] = 1081; if (read_ldata_1() != 1081 || l1_read_ldata_1() != 1081) fail("ldata_1: write through exe not seen by library");
    if ((const void*)ldata_bss_2 != addr_ldata_bss_2()) fail("ldata_bss_2: exe vs defining library");
    if ((const void*)ldata_bss_2 != l1_addr_ldata_bss_2()) fail("ldata_bss_2: exe vs lib1");
    if ((const void*)dp_ldata_bss_2 != (const void*)ldata_bss_2) fail("ldata_bss_2: data pointer vs code reference in exe");
    if (ldata_bss_2[0] != 0 || read_ldata_bss_2() != 0) fail("ldata_bss_2: initial value");
    ldata_bss_2[0] = 1138; if (read_ldata_bss_2() != 1138 || l1_read_ldata_bss_2() != 1138) fail("ldata_bss_2: write through exe not seen by library");
    if ((void*)efunc_3 != l1_addr_efunc_3()) fail("efunc_3: exe function seen from lib1");
    if (l1_call_efunc_3() != 115) fail("efunc_3: call from lib1");
    if ((void*)fp_eifunc_4 != (void*)eifunc_4) fail("eifunc_4: ifunc address in data vs code in exe");
    
#ifdef EIFUNC_FROM_LIB
    if ((void*)eifunc_4 != l1_addr_eifunc_4()) fail("eifunc_4: exe ifunc address seen from lib1"); if (l1_call_eifunc_4() != 78) fail("eifunc_4: ifunc call from lib1");
#endif
    if (eifunc_4() != 78 || fp_eifunc_4() != 78) fail("eifunc_4: ifunc call result");
    if ((const void*)ldata_bss_5 != addr_ldata_bss_5()) fail("ldata_bss_5: exe vs defining library");
    if ((const void*)ldata_bss_5 != l1_addr_ldata_bss_5()) fail("ldata_bss_5: exe vs lib1");
    if ((const void*)dp_ldata_bss_5 != (const void*)ldata_bss_5) fail("ldata_bss_5: data pointer vs code reference in exe");
    if (ldata_bss_5[0] != 0 || read_ldata_bss_5() != 0) fail("ldata_bss_5: initial value");
    ldata_bss_5[0] = 1022; if (read_ldata_bss_5() != 1022 || l1_read_ldata_bss_5() != 1022) fail("ldata_bss_5: write through exe not seen by library");
    if ((void*)&lalias_6 != addr_lalias_6()) fail("lalias_6: weak alias in exe vs strong symbol in library");
    write_lalias_6(121); if (lalias_6 != 121) fail("lalias_6: write through strong symbol not seen through alias");
    lalias_6 = 123; if (read_lalias_6() != 123) fail("lalias_6: write through alias not seen through strong symbol");
    if ((void*)lalias_sw_7 != addr_lalias_sw_7() || (void*)lalias_sw_7 != waddr_lalias_sw_7()) fail("lalias_sw_7: symbol in exe vs its alias used by the library");
    if (lalias_sw_7[0] != 0 || read_lalias_sw_7() != 0) fail("lalias_sw_7: initial value");
    lalias_sw_7[0] = 1139; if (read_lalias_sw_7() != 1139) fail("lalias_sw_7: write in exe not seen by the library through the alias");
    write_lalias_sw_7(146); if (lalias_sw_7[0] != 146) fail("lalias_sw_7: write by the library through the alias not seen in exe");
    if ((void*)lalias_st_8 != addr_lalias_st_8() || (void*)lalias_st_8 != waddr_lalias_st_8()) fail("lalias_st_8: symbol in exe vs its alias used by the library");
    if (lalias_st_8[0] != 0 || read_lalias_st_8() != 0) fail("lalias_st_8: initial value");
    lalias_st_8[0] = 1140; if (read_lalias_st_8() != 1140) fail("lalias_st_8: write in exe not seen by the library through the alias");
    write_lalias_st_8(147); if (lalias_st_8[0] != 147) fail("lalias_st_8: write by the library through the alias not seen in exe");
    if (!bad) printf("OK\n"); return bad ? 1 : 0; }
