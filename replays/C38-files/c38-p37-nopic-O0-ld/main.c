#include <stdio.h>
static int bad; static void fail(const char *what){ printf("MISMATCH %s\n", what); bad++; }
extern int lfunc_0(void); extern void *addr_lfunc_0(void); extern void *l1_addr_lfunc_0(void); int (*volatile fp_lfunc_0)(void) = lfunc_0;
extern int ldata_1[]; extern const void *addr_ldata_1(void); extern const void *l1_addr_ldata_1(void); extern int read_ldata_1(void); extern int l1_read_ldata_1(void); int *volatile dp_ldata_1 = ldata_1;
extern const int ldata_ro_2[]; extern const void *addr_ldata_ro_2(void); extern const void *l1_addr_ldata_ro_2(void); extern int read_ldata_ro_2(void); extern int l1_read_ldata_ro_2(void); const int *volatile dp_ldata_ro_2 = ldata_ro_2;
int efunc_3(void){ return 178; } extern void *l1_addr_efunc_3(void); extern int l1_call_efunc_3(void);
extern int lifunc_4(void); extern void *addr_lifunc_4(void); int (*volatile fp_lifunc_4)(void) = lifunc_4;
extern int lalias_st_5; extern void *addr_lalias_st_5(void); extern void *waddr_lalias_st_5(void); extern int read_lalias_st_5(void); extern void write_lalias_st_5(int);
extern int lalias_multi_6; extern void *addr_lalias_multi_6(void); extern void *waddr_lalias_multi_6(void); extern int read_lalias_multi_6(void); extern void write_lalias_multi_6(int);
int main(void){
    if ((void*)lfunc_0 != addr_lfunc_0()) fail("lfunc_0: exe vs defining library");
    if ((void*)lfunc_0 != l1_addr_lfunc_0()) fail("lfunc_0: exe vs lib1");
    if ((void*)fp_lfunc_0 != (void*)lfunc_0) fail("lfunc_0: data pointer vs code reference in exe");
    if (fp_lfunc_0() != 12 || lfunc_0() != 12) fail("lfunc_0: call result");
    if ((const void*)ldata_1 != addr_ldata_1()) fail("ldata_1: exe vs defining library");
    if ((const void*)ldata_1 != l1_addr_ldata_1()) fail("ldata_1: exe vs lib1");
    if ((const void*)dp_ldata_1 != (const void*)ldata_1) fail("ldata_1: data pointer vs code reference in exe");
    if (ldata_1[0] != 23 || read_ldata_1() != 23) fail("ldata_1: initial value");
    ldata_1[0] = 1023; if (read_ldata_1() != 1023 || l1_read_ldata_1() != 1023) fail("ldata_1: write through exe not seen by library");
    if ((const void*)ldata_ro_2 != addr_ldata_ro_2()) fail("ldata_ro_2: exe vs defining library");
    if ((const void*)ldata_ro_2 != l1_addr_ldata_ro_2()) fail("ldata_ro_2: exe vs lib1");
    if ((const void*)dp_ldata_ro_2 != (const void*)ldata_ro_2) fail("ldata_ro_2: data pointer vs code reference in exe");
    if (ldata_ro_2[0] != 80 || read_ldata_ro_2() != 80) fail("ldata_ro_2: initial value");
    if ((void*)efunc_3 != l1_addr_efunc_3()) fail("efunc_3: exe function seen from lib1");
    if (l1_call_efunc_3() != 178) fail("efunc_3: call from lib1");
    if ((void*)lifunc_4 != addr_lifunc_4()) fail("lifunc_4: library ifunc address exe vs library");
    if ((void*)fp_lifunc_4 != (void*)lifunc_4) fail("lifunc_4: library ifunc address data vs code in exe");
    if (lifunc_4() != 59 || fp_lifunc_4() != 59) fail("lifunc_4: ifunc call result");
    if ((void*)&lalias_st_5 != addr_lalias_st_5() || (void*)&lalias_st_5 != waddr_lalias_st_5()) fail("lalias_st_5: symbol in exe vs its alias used by the library");
    if (lalias_st_5 != 140 || read_lalias_st_5() != 140) fail("lalias_st_5: initial value");
    lalias_st_5 = 1140; if (read_lalias_st_5() != 1140) fail("lalias_st_5: write in exe not seen by the library through the alias");
    write_lalias_st_5(147); if (lalias_st_5 != 147) fail("lalias_st_5: write by the library through the alias not seen in exe");
    if ((void*)&lalias_multi_6 != addr_lalias_multi_6() || (void*)&lalias_multi_6 != waddr_lalias_multi_6()) fail("lalias_multi_6: symbol in exe vs its alias used by the library");
    if (lalias_multi_6 != 84 || read_lalias_multi_6() != 84) fail("lalias_multi_6: initial value");
    lalias_multi_6 = 1084; if (read_lalias_multi_6() != 1084) fail("lalias_multi_6: write in exe not seen by the library through the alias");
    write_lalias_multi_6(91); if (lalias_multi_6 != 91) fail("lalias_multi_6: write by the library through the alias not seen in exe");
    if (!bad) printf("OK\n"); return bad ? 1 : 0; }
