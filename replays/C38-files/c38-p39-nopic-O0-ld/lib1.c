int lfunc_0(void){ return 190; }
void *addr_lfunc_0(void){ return (void*)lfunc_0; }
extern int lfunc_0(void); void *l1_addr_lfunc_0(void){ return (void*)lfunc_0; }
int ldata_1[1] = { 57 };
const void *addr_ldata_1(void){ return ldata_1; } int read_ldata_1(void){ return ldata_1[0]; }
extern int ldata_1[]; const void *l1_addr_ldata_1(void){ return ldata_1; } int l1_read_ldata_1(void){ return ldata_1[0]; }
#ifdef EIFUNC_FROM_LIB
extern int eifunc_2(void); void *l1_addr_eifunc_2(void){ return (void*)eifunc_2; } int l1_call_eifunc_2(void){ return eifunc_2(); }
#endif
#ifdef EIFUNC_FROM_LIB
extern int eifunc_3(void); void *l1_addr_eifunc_3(void){ return (void*)eifunc_3; } int l1_call_eifunc_3(void){ return eifunc_3(); }
#endif
int lalias_ts_4[4]; extern __typeof(lalias_ts_4) t_lalias_ts_4 __attribute__((alias("lalias_ts_4")));
void *addr_lalias_ts_4(void){ return (void*)lalias_ts_4; } int read_lalias_ts_4(void){ return lalias_ts_4[0]; } void write_lalias_ts_4(int v){ lalias_ts_4[0] = v; } void *waddr_lalias_ts_4(void){ return (void*)lalias_ts_4; }
int lalias_sw_5 = 101; extern __typeof(lalias_sw_5) w_lalias_sw_5 __attribute__((weak, alias("lalias_sw_5")));
void *addr_lalias_sw_5(void){ return (void*)&w_lalias_sw_5; } int read_lalias_sw_5(void){ return w_lalias_sw_5; } void write_lalias_sw_5(int v){ w_lalias_sw_5 = v; } void *waddr_lalias_sw_5(void){ return (void*)&w_lalias_sw_5; }
