#include <stdio.h>
static int bad; static void fail(const char *what){ printf("MISMATCH %s\n", what); bad++; }
extern int lfunc_0(void); extern void *addr_lfunc_0(void); extern void *l1_addr_lfunc_0(void); int (*volatile fp_lfunc_0)(void) = lfunc_0;
extern int ldata_1[]; extern const void *addr_ldata_1(void); extern const void *l1_addr_ldata_1(void); extern int read_ldata_1(void); extern int l1_read_ldata_1(void); int *volatile dp_ldata_1 = ldata_1;
static int impl_eifunc_2(void){ return 163; } static void *res_eifunc_2(void){ return (void*)impl_eifunc_2; } int eifunc_2(void) __attribute__((ifunc("res_eifunc_2"))); extern void *l1_addr_eifunc_2(void); extern int l1_call_eifunc_2(void); int (*volatile fp_eifunc_2)(void) = eifunc_2;
static int impl_eifunc_3(void){ return 120; } static void *res_eifunc_3(void){ return (void*)impl_eifunc_3; } int eifunc_3(void) __attribute__((ifunc("res_eifunc_3"))); extern void *l1_addr_eifunc_3(void); extern int l1_call_eifunc_3(void); int (*volatile fp_eifunc_3)(void) = eifunc_3;
extern int t_lalias_ts_4[]; extern void *addr_lalias_ts_4(void); extern void *waddr_lalias_ts_4(void); extern int read_lalias_ts_4(void); extern void write_lalias_ts_4(int);
extern int lalias_sw_5; extern void *addr_lalias_sw_5(void); extern void *waddr_lalias_sw_5(void); extern int read_lalias_sw_5(void); extern void write_lalias_sw_5(int);
int main(void){
    if ((void*)lfunc_0 != addr_lfunc_0()) fail("lfunc_0: exe vs defining library");
    if ((void*)lfunc_0 != l1_addr_lfunc_0()) fail("lfunc_0: exe vs lib1");
    if ((void*)fp_lfunc_0 != (void*)lfunc_0) fail("lfunc_0: data pointer vs code reference in exe");
    if (fp_lfunc_0() != 190 || lfunc_0() != 190) fail("lfunc_0: call result");
    if ((const void*)ldata_1 != addr_ldata_1()) fail("ldata_1: exe vs defining library");
    if ((const void*)ldata_1 != l1_addr_ldata_1()) fail("ldata_1: exe vs lib1");
    if ((const void*)dp_ldata_1 != (const void*)ldata_1) fail("ldata_1: data pointer vs code reference in exe");
    if (ldata_1[0] != 57 || read_ldata_1() != 57) fail("ldata_1: initial value");
    ldata_1[0] = 1057; if (read_ldata_1() != 1057 || l1_read_ldata_1() != 1057) fail("ldata_1: write through exe not seen by library");
    if ((void*)fp_eifunc_2 != (void*)eifunc_2) fail("eifunc_2: ifunc address in data vs code in exe");
    
#ifdef EIFUNC_FROM_LIB
    if ((void*)eifunc_2 != l1_addr_eifunc_2()) fail("eifunc_2: exe ifunc address seen from lib1"); if (l1_call_eifunc_2() != 163) fail("eifunc_2: ifunc call from lib1");
#endif
    if (eifunc_2() != 163 || fp_eifunc_2() != 163) fail("eifunc_2: ifunc call result");
    if ((void*)fp_eifunc_3 != (void*)eifunc_3) fail("eifunc_3: ifunc address in data vs code in exe");
    
#ifdef EIFUNC_FROM_LIB
    if ((void*)eifunc_3 != l1_addr_eifunc_3()) fail("eifunc_3: exe ifunc address seen from lib1"); if (l1_call_eifunc_3() != 120) fail("eifunc_3: ifunc call from lib1");
#endif
    if (eifunc_3() != 120 || fp_eifunc_3() != 120) fail("eifunc_3: ifunc call result");
    if ((void*)t_lalias_ts_4 != addr_lalias_ts_4() || (void*)t_lalias_ts_4 != waddr_lalias_ts_4()) fail("lalias_ts_4: symbol in exe vs its alias used by the library");
    if (t_lalias_ts_4[0] != 0 || read_lalias_ts_4() != 0) fail("lalias_ts_4: initial value");
    t_lalias_ts_4[0] = 1002; if (read_lalias_ts_4() != 1002) fail("lalias_ts_4: write in exe not seen by the library through the alias");
    write_lalias_ts_4(9); if (t_lalias_ts_4[0] != 9) fail("lalias_ts_4: write by the library through the alias not seen in exe");
    if ((void*)&lalias_sw_5 != addr_lalias_sw_5() || (void*)&lalias_sw_5 != waddr_lalias_sw_5()) fail("lalias_sw_5: symbol in exe vs its alias used by the library");
    if (lalias_sw_5 != 101 || read_lalias_sw_5() != 101) fail("lalias_sw_5: initial value");
    lalias_sw_5 = 1101; if (read_lalias_sw_5() != 1101) fail("lalias_sw_5: write in exe not seen by the library through the alias");
    write_lalias_sw_5(108); if (lalias_sw_5 != 108) fail("lalias_sw_5: write by the library through the alias not seen in exe");
    if (!bad) printf("OK\n"); return bad ? 1 : 0; }
