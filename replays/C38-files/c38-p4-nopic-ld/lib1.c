int lfunc_0(void){ return 103; }
void *addr_lfunc_0(void){ return (void*)lfunc_0; }
extern int lfunc_0(void); void *l1_addr_lfunc_0(void){ return (void*)lfunc_0; }
int ldata_1[4] = { 86 };
const void *addr_ldata_1(void){ return ldata_1; } int read_ldata_1(void){ return ldata_1[0]; }
extern int ldata_1[]; const void *l1_addr_ldata_1(void){ return ldata_1; } int l1_read_ldata_1(void){ return ldata_1[0]; }
#ifdef EIFUNC_FROM_LIB
extern int eifunc_2(void); void *l1_addr_eifunc_2(void){ return (void*)eifunc_2; } int l1_call_eifunc_2(void){ return eifunc_2(); }
#endif
int ldata_3[4] = { 117 };
const void *addr_ldata_3(void){ return ldata_3; } int read_ldata_3(void){ return ldata_3[0]; }
extern int ldata_3[]; const void *l1_addr_ldata_3(void){ return ldata_3; } int l1_read_ldata_3(void){ return ldata_3[0]; }
int lfunc_4(void){ return 34; }
void *addr_lfunc_4(void){ return (void*)lfunc_4; }
extern int lfunc_4(void); void *l1_addr_lfunc_4(void){ return (void*)lfunc_4; }
int lfunc_5(void){ return 114; }
void *addr_lfunc_5(void){ return (void*)lfunc_5; }
extern int lfunc_5(void); void *l1_addr_lfunc_5(void){ return (void*)lfunc_5; }
static int impl_lifunc_6(void){ return 68; } static void *res_lifunc_6(void){ return (void*)impl_lifunc_6; } int lifunc_6(void) __attribute__((ifunc("res_lifunc_6"))); void *addr_lifunc_6(void){ return (void*)lifunc_6; }
int lalias_ts_7 = 50; extern __typeof(lalias_ts_7) t_lalias_ts_7 __attribute__((alias("lalias_ts_7")));
void *addr_lalias_ts_7(void){ return (void*)&lalias_ts_7; } int read_lalias_ts_7(void){ return lalias_ts_7; } void write_lalias_ts_7(int v){ lalias_ts_7 = v; } void *waddr_lalias_ts_7(void){ return (void*)&lalias_ts_7; }
int lalias_sw_8 = 109; extern __typeof(lalias_sw_8) w_lalias_sw_8 __attribute__((weak, alias("lalias_sw_8")));
void *addr_lalias_sw_8(void){ return (void*)&w_lalias_sw_8; } int read_lalias_sw_8(void){ return w_lalias_sw_8; } void write_lalias_sw_8(int v){ w_lalias_sw_8 = v; } void *waddr_lalias_sw_8(void){ return (void*)&w_lalias_sw_8; }
