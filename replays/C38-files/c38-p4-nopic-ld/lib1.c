int lfunc_0(void){ return 185; }
void *addr_lfunc_0(void){ return (void*)lfunc_0; }
extern int lfunc_0(void); void *l1_addr_lfunc_0(void){ return (void*)lfunc_0; }
int ldata_1[1] = { 86 };
const void *addr_ldata_1(void){ return ldata_1; } int read_ldata_1(void){ return ldata_1[0]; }
extern int ldata_1[]; const void *l1_addr_ldata_1(void){ return ldata_1; } int l1_read_ldata_1(void){ return ldata_1[0]; }
extern int l2data_2[]; const void *l1_addr_l2data_2(void){ return l2data_2; } int l1_read_l2data_2(void){ return l2data_2[0]; }
int ldata_bss_3[16];
const void *addr_ldata_bss_3(void){ return ldata_bss_3; } int read_ldata_bss_3(void){ return ldata_bss_3[0]; }
extern int ldata_bss_3[]; const void *l1_addr_ldata_bss_3(void){ return ldata_bss_3; } int l1_read_ldata_bss_3(void){ return ldata_bss_3[0]; }
int lalias_ts_4 = 188; extern __typeof(lalias_ts_4) t_lalias_ts_4 __attribute__((alias("lalias_ts_4")));
void *addr_lalias_ts_4(void){ return (void*)&lalias_ts_4; } int read_lalias_ts_4(void){ return lalias_ts_4; } void write_lalias_ts_4(int v){ lalias_ts_4 = v; } void *waddr_lalias_ts_4(void){ return (void*)&lalias_ts_4; }
int lalias_sw_5[16]; extern __typeof(lalias_sw_5) w_lalias_sw_5 __attribute__((weak, alias("lalias_sw_5")));
void *addr_lalias_sw_5(void){ return (void*)w_lalias_sw_5; } int read_lalias_sw_5(void){ return w_lalias_sw_5[0]; } void write_lalias_sw_5(int v){ w_lalias_sw_5[0] = v; } void *waddr_lalias_sw_5(void){ return (void*)w_lalias_sw_5; }
