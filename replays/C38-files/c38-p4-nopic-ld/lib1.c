int lfunc_0(void){ return 94; }
void *addr_lfunc_0(void){ return (void*)lfunc_0; }
extern int lfunc_0(void); void *l1_addr_lfunc_0(void){ return (void*)lfunc_0; }
int ldata_1[2] = { 13 };
const void *addr_ldata_1(void){ return ldata_1; } int read_ldata_1(void){ return ldata_1[0]; }
extern int ldata_1[]; const void *l1_addr_ldata_1(void){ return ldata_1; } int l1_read_ldata_1(void){ return ldata_1[0]; }
extern int l2func_2(void); void *l1_addr_l2func_2(void){ return (void*)l2func_2; }
static int impl_lifunc_3(void){ return 31; } static void *res_lifunc_3(void){ return (void*)impl_lifunc_3; } int lifunc_3(void) __attribute__((ifunc("res_lifunc_3"))); void *addr_lifunc_3(void){ return (void*)lifunc_3; }
