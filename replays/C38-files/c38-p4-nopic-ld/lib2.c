int l2data_2[2] = { 9 };
const void *addr_l2data_2(void){ return l2data_2; } int read_l2data_2(void){ return l2data_2[0]; }
