#include <stdio.h>
static int bad; static void fail(const char *what){ printf("MISMATCH %s\n", what); bad++; }
extern int lfunc_0(void); extern void *addr_lfunc_0(void); extern void *l1_addr_lfunc_0(void); int (*volatile fp_lfunc_0)(void) = lfunc_0;
extern int ldata_1[]; extern const void *addr_ldata_1(void); extern const void *l1_addr_ldata_1(void); extern int read_ldata_1(void); extern int l1_read_ldata_1(void); int *volatile dp_ldata_1 = ldata_1;
static int impl_eifunc_2(void){ return 65; } static void *res_eifunc_2(void){ return (void*)impl_eifunc_2; } int eifunc_2(void) __attribute__((ifunc("res_eifunc_2"))); extern void *l1_addr_eifunc_2(void); extern int l1_call_eifunc_2(void); int (*volatile fp_eifunc_2)(void) = eifunc_2;
extern int ldata_3[]; extern const void *addr_ldata_3(void); extern const void *l1_addr_ldata_3(void); extern int read_ldata_3(void); extern int l1_read_ldata_3(void); int *volatile dp_ldata_3 = ldata_3;
extern int lfunc_4(void); extern void *addr_lfunc_4(void); extern void *l1_addr_lfunc_4(void); int (*volatile fp_lfunc_4)(void) = lfunc_4;
extern int lfunc_5(void); extern void *addr_lfunc_5(void); extern void *l1_addr_lfunc_5(void); int (*volatile fp_lfunc_5)(void) = lfunc_5;
extern int lifunc_6(void); extern void *addr_lifunc_6(void); int (*volatile fp_lifunc_6)(void) = lifunc_6;
extern int t_lalias_ts_7; extern void *addr_lalias_ts_7(void); extern void *waddr_lalias_ts_7(void); extern int read_lalias_ts_7(void); extern void write_lalias_ts_7(int);
extern int lalias_sw_8; extern void *addr_lalias_sw_8(void); extern void *waddr_lalias_sw_8(void); extern int read_lalias_sw_8(void); extern void write_lalias_sw_8(int);
int main(void){
    if ((void*)lfunc_0 != addr_lfunc_0()) fail("lfunc_0: exe vs defining library");
    if ((void*)lfunc_0 != l1_addr_lfunc_0()) fail("lfunc_0: exe vs lib1");
    if ((void*)fp_lfunc_0 != (void*)lfunc_0) fail("lfunc_0: data pointer vs code reference in exe");
    if (fp_lfunc_0() != 103 || lfunc_0() != 103) fail("lfunc_0: call result");
    if ((const void*)ldata_1 != addr_ldata_1()) fail("ldata_1: exe vs defining library");
    if ((const void*)ldata_1 != l1_addr_ldata_1()) fail("ldata_1: exe vs lib1");
    if ((const void*)dp_ldata_1 != (const void*)ldata_1) fail("ldata_1: data pointer vs code reference in exe");
    if (ldata_1[0] != 86 || read_ldata_1() != 86) fail("ldata_1: initial value");
    ldata_1[0] = 1086; if (read_ldata_1() != 1086 || l1_read_ldata_1() != 1086) fail("ldata_1: write through exe not seen by library");
    if ((void*)fp_eifunc_2 != (void*)eifunc_2) fail("eifunc_2: ifunc address in data vs code in exe");
    
#ifdef EIFUNC_FROM_LIB
    if ((void*)eifunc_2 != l1_addr_eifunc_2()) fail("eifunc_2: exe ifunc address seen from lib1"); if (l1_call_eifunc_2() != 65) fail("eifunc_2: ifunc call from lib1");
#endif
    if (eifunc_2() != 65 || fp_eifunc_2() != 65) fail("eifunc_2: ifunc call result");
    if ((const void*)ldata_3 != addr_ldata_3()) fail("ldata_3: exe vs defining library");
    if ((const void*)ldata_3 != l1_addr_ldata_3()) fail("ldata_3: exe vs lib1");
    if ((const void*)dp_ldata_3 != (const void*)ldata_3) fail("ldata_3: data pointer vs code reference in exe");
    if (ldata_3[0] != 117 || read_ldata_3() != 117) fail("ldata_3: initial value");
    ldata_3[0] = 1117; if (read_ldata_3() != 1117 || l1_read_ldata_3() != 1117) fail("ldata_3: write through exe not seen by library");
    if ((void*)lfunc_4 != addr_lfunc_4()) fail("lfunc_4: exe vs defining library");
    if ((void*)lfunc_4 != l1_addr_lfunc_4()) fail("lfunc_4: exe vs lib1");
    if ((void*)fp_lfunc_4 != (void*)lfunc_4) fail("lfunc_4: data pointer vs code reference in exe");
    if (fp_lfunc_4() != 34 || lfunc_4() != 34) fail("lfunc_4: call result");
    if ((void*)lfunc_5 != addr_lfunc_5()) fail("lfunc_5: exe vs defining library");
    if ((void*)lfunc_5 != l1_addr_lfunc_5()) fail("lfunc_5: exe vs lib1");
    if ((void*)fp_lfunc_5 != (void*)lfunc_5) fail("lfunc_5: data pointer vs code reference in exe");
    if (fp_lfunc_5() != 114 || lfunc_5() != 114) fail("lfunc_5: call result");
    if ((void*)lifunc_6 != addr_lifunc_6()) fail("lifunc_6: library ifunc address exe vs library");
    if ((void*)fp_lifunc_6 != (void*)lifunc_6) fail("lifunc_6: library ifunc address data vs code in exe");
    if (lifunc_6() != 68 || fp_lifunc_6() != 68) fail("lifunc_6: ifunc call result");
    if ((void*)&t_lalias_ts_7 != addr_lalias_ts_7() || (void*)&t_lalias_ts_7 != waddr_lalias_ts_7()) fail("lalias_ts_7: symbol in exe vs its alias used by the library");
    if (t_lalias_ts_7 != 50 || read_lalias_ts_7() != 50) fail("lalias_ts_7: initial value");
    t_lalias_ts_7 = 1050; if (read_lalias_ts_7() != 1050) fail("lalias_ts_7: write in exe not seen by the library through the alias");
    write_lalias_ts_7(57); if (t_lalias_ts_7 != 57) fail("lalias_ts_7: write by the library through the alias not seen in exe");
    if ((void*)&lalias_sw_8 != addr_lalias_sw_8() || (void*)&lalias_sw_8 != waddr_lalias_sw_8()) fail("lalias_sw_8: symbol in exe vs its alias used by the library");
    if (lalias_sw_8 != 109 || read_lalias_sw_8() != 109) fail("lalias_sw_8: initial value");
    lalias_sw_8 = 1109; if (read_lalias_sw_8() != 1109) fail("lalias_sw_8: write in exe not seen by the library through the alias");
    write_lalias_sw_8(116); if (lalias_sw_8 != 116) fail("lalias_sw_8: write by the library through the alias not seen in exe");
    if (!bad) printf("OK\n"); return bad ? 1 : 0; }
