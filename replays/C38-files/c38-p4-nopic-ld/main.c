#include <stdio.h>
static int bad; static void fail(const char *what){ printf("MISMATCH %s\n", what); bad++; }
extern int lfunc_0(void); extern void *addr_lfunc_0(void); extern void *l1_addr_lfunc_0(void); int (*volatile fp_lfunc_0)(void) = lfunc_0;
extern int ldata_1[]; extern const void *addr_ldata_1(void); extern const void *l1_addr_ldata_1(void); extern int read_ldata_1(void); extern int l1_read_ldata_1(void); int *volatile dp_ldata_1 = ldata_1;
extern int l2data_2[]; extern const void *addr_l2data_2(void); extern const void *l1_addr_l2data_2(void); extern int read_l2data_2(void); extern int l1_read_l2data_2(void); int *volatile dp_l2data_2 = l2data_2;
extern int ldata_bss_3[]; extern const void *addr_ldata_bss_3(void); extern const void *l1_addr_ldata_bss_3(void); extern int read_ldata_bss_3(void); extern int l1_read_ldata_bss_3(void); int *volatile dp_ldata_bss_3 = ldata_bss_3;
extern int t_lalias_ts_4; extern void *addr_lalias_ts_4(void); extern void *waddr_lalias_ts_4(void); extern int read_lalias_ts_4(void); extern void write_lalias_ts_4(int);
extern int lalias_sw_5[]; extern void *addr_lalias_sw_5(void); extern void *waddr_lalias_sw_5(void); extern int read_lalias_sw_5(void); extern void write_lalias_sw_5(int);
int main(void){
    if ((void*)lfunc_0 != addr_lfunc_0()) fail("lfunc_0: exe vs defining library");
    if ((void*)lfunc_0 != l1_addr_lfunc_0()) fail("lfunc_0: exe vs lib1");
    if ((void*)fp_lfunc_0 != (void*)lfunc_0) fail("lfunc_0: data pointer vs code reference in exe");
    if (fp_lfunc_0() != 185 || lfunc_0() != 185) fail("lfunc_0: call result");
    if ((const void*)ldata_1 != addr_ldata_1()) fail("ldata_1: exe vs defining library");
    if ((const void*)ldata_1 != l1_addr_ldata_1()) fail("ldata_1: exe vs lib1");
    if ((const void*)dp_ldata_1 != (const void*)ldata_1) fail("ldata_1: data pointer vs code reference in exe");
    if (ldata_1[0] != 86 || read_ldata_1() != 86) fail("ldata_1: initial value");
    ldata_1[0] = 1086; if (read_ldata_1() != 1086 || l1_read_ldata_1() != 1086) fail("ldata_1: write through exe not seen by library");
    if ((const void*)l2data_2 != addr_l2data_2()) fail("l2data_2: exe vs defining library");
    if ((const void*)l2data_2 != l1_addr_l2data_2()) fail("l2data_2: exe vs lib1");
    if ((const void*)dp_l2data_2 != (const void*)l2data_2) fail("l2data_2: data pointer vs code reference in exe");
    if (l2data_2[0] != 9 || read_l2data_2() != 9) fail("l2data_2: initial value");
    l2data_2[0] = 1009; if (read_l2data_2() != 1009 || l1_read_l2data_2() != 1009) fail("l2data_2: write through exe not seen by library");
    if ((const void*)ldata_bss_3 != addr_ldata_bss_3()) fail("ldata_bss_3: exe vs defining library");
    if ((const void*)ldata_bss_3 != l1_addr_ldata_bss_3()) fail("ldata_bss_3: exe vs lib1");
    if ((const void*)dp_ldata_bss_3 != (const void*)ldata_bss_3) fail("ldata_bss_3: data pointer vs code reference in exe");
    if (ldata_bss_3[0] != 0 || read_ldata_bss_3() != 0) fail("ldata_bss_3: initial value");
    ldata_bss_3[0] = 1185; if (read_ldata_bss_3() != 1185 || l1_read_ldata_bss_3() != 1185) fail("ldata_bss_3: write through exe not seen by library");
    if ((void*)&t_lalias_ts_4 != addr_lalias_ts_4() || (void*)&t_lalias_ts_4 != waddr_lalias_ts_4()) fail("lalias_ts_4: symbol in exe vs its alias used by the library");
    if (t_lalias_ts_4 != 188 || read_lalias_ts_4() != 188) fail("lalias_ts_4: initial value");
    t_lalias_ts_4 = 1188; if (read_lalias_ts_4() != 1188) fail("lalias_ts_4: write in exe not seen by the library through the alias");
    write_lalias_ts_4(195); if (t_lalias_ts_4 != 195) fail("lalias_ts_4: write by the library through the alias not seen in exe");
    if ((void*)lalias_sw_5 != addr_lalias_sw_5() || (void*)lalias_sw_5 != waddr_lalias_sw_5()) fail("lalias_sw_5: symbol in exe vs its alias used by the library");
    if (lalias_sw_5[0] != 0 || read_lalias_sw_5() != 0) fail("lalias_sw_5: initial value");
    lalias_sw_5[0] = 1033; if (read_lalias_sw_5() != 1033) fail("lalias_sw_5: write in exe not seen by the library through the alias");
    write_lalias_sw_5(40); if (lalias_sw_5[0] != 40) fail("lalias_sw_5: write by the library through the alias not seen in exe");
    if (!bad) printf("OK\n"); return bad ? 1 : 0; }
