int lfunc_0(void){ return 30; }
void *addr_lfunc_0(void){ return (void*)lfunc_0; }
extern int lfunc_0(void); void *l1_addr_lfunc_0(void){ return (void*)lfunc_0; }
int ldata_1[1] = { 69 };
const void *addr_ldata_1(void){ return ldata_1; } int read_ldata_1(void){ return ldata_1[0]; }
extern int ldata_1[]; const void *l1_addr_ldata_1(void){ return ldata_1; } int l1_read_ldata_1(void){ return ldata_1[0]; }
int real_lalias_2 = 97; extern int lalias_2 __attribute__((weak, alias("real_lalias_2")));
void *addr_lalias_2(void){ return &real_lalias_2; } int read_lalias_2(void){ return real_lalias_2; } void write_lalias_2(int v){ real_lalias_2 = v; }
const int ldata_ro_3[16] = { 6 };
const void *addr_ldata_ro_3(void){ return ldata_ro_3; } int read_ldata_ro_3(void){ return ldata_ro_3[0]; }
extern const int ldata_ro_3[]; const void *l1_addr_ldata_ro_3(void){ return ldata_ro_3; } int l1_read_ldata_ro_3(void){ return ldata_ro_3[0]; }
static int impl_lifunc_4(void){ return 38; } static void *res_lifunc_4(void){ return (void*)impl_lifunc_4; } int lifunc_4(void) __attribute__((ifunc("res_lifunc_4"))); void *addr_lifunc_4(void){ return (void*)lifunc_4; }
#ifdef EIFUNC_FROM_LIB
extern int eifunc_5(void); void *l1_addr_eifunc_5(void){ return (void*)eifunc_5; } int l1_call_eifunc_5(void){ return eifunc_5(); }
#endif
int lalias_sw_6 = 129; extern __typeof(lalias_sw_6) w_lalias_sw_6 __attribute__((weak, alias("lalias_sw_6")));
void *addr_lalias_sw_6(void){ return (void*)&w_lalias_sw_6; } int read_lalias_sw_6(void){ return w_lalias_sw_6; } void write_lalias_sw_6(int v){ w_lalias_sw_6 = v; } void *waddr_lalias_sw_6(void){ return (void*)&w_lalias_sw_6; }
int lalias_ts_7 = 9; extern __typeof(lalias_ts_7) t_lalias_ts_7 __attribute__((alias("lalias_ts_7")));
void *addr_lalias_ts_7(void){ return (void*)&lalias_ts_7; } int read_lalias_ts_7(void){ return lalias_ts_7; } void write_lalias_ts_7(int v){ lalias_ts_7 = v; } void *waddr_lalias_ts_7(void){ return (void*)&lalias_ts_7; }
