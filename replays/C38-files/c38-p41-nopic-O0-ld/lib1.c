int lfunc_0(void){ return 163; }
void *addr_lfunc_0(void){ return (void*)lfunc_0; }
extern int lfunc_0(void); void *l1_addr_lfunc_0(void){ return (void*)lfunc_0; }
int ldata_1[1] = { 147 };
const void *addr_ldata_1(void){ return ldata_1; } int read_ldata_1(void){ return ldata_1[0]; }
extern int ldata_1[]; const void *l1_addr_ldata_1(void){ return ldata_1; } int l1_read_ldata_1(void){ return ldata_1[0]; }
extern int efunc_2(void); void *l1_addr_efunc_2(void){ return (void*)efunc_2; } int l1_call_efunc_2(void){ return efunc_2(); }
extern int efunc_3(void); void *l1_addr_efunc_3(void){ return (void*)efunc_3; } int l1_call_efunc_3(void){ return efunc_3(); }
extern int edata_4[]; void *l1_addr_edata_4(void){ return edata_4; } int l1_read_edata_4(void){ return edata_4[0]; }
int real_lalias_5 = 30; extern int lalias_5 __attribute__((weak, alias("real_lalias_5")));
void *addr_lalias_5(void){ return &real_lalias_5; } int read_lalias_5(void){ return real_lalias_5; } void write_lalias_5(int v){ real_lalias_5 = v; }
int lalias_sw_6 = 129; extern __typeof(lalias_sw_6) w_lalias_sw_6 __attribute__((weak, alias("lalias_sw_6")));
void *addr_lalias_sw_6(void){ return (void*)&w_lalias_sw_6; } int read_lalias_sw_6(void){ return w_lalias_sw_6; } void write_lalias_sw_6(int v){ w_lalias_sw_6 = v; } void *waddr_lalias_sw_6(void){ return (void*)&w_lalias_sw_6; }
int lalias_st_7[4]; extern __typeof(lalias_st_7) t_lalias_st_7 __attribute__((alias("lalias_st_7")));
void *addr_lalias_st_7(void){ return (void*)t_lalias_st_7; } int read_lalias_st_7(void){ return t_lalias_st_7[0]; } void write_lalias_st_7(int v){ t_lalias_st_7[0] = v; } void *waddr_lalias_st_7(void){ return (void*)t_lalias_st_7; }
