#include <stdio.h>
static int bad; static void fail(const char *what){ printf("MISMATCH %s\n", what); bad++; }
extern int lfunc_0(void); extern void *addr_lfunc_0(void); extern void *l1_addr_lfunc_0(void); int (*volatile fp_lfunc_0)(void) = lfunc_0;
extern int ldata_1[]; extern const void *addr_ldata_1(void); extern const void *l1_addr_ldata_1(void); extern int read_ldata_1(void); extern int l1_read_ldata_1(void); int *volatile dp_ldata_1 = ldata_1;
int efunc_2(void){ return 146; } extern void *l1_addr_efunc_2(void); extern int l1_call_efunc_2(void);
int efunc_3(void){ return 22; } extern void *l1_addr_efunc_3(void); extern int l1_call_efunc_3(void);
int edata_4[16] = { 87 }; extern void *l1_addr_edata_4(void); extern int l1_read_edata_4(void);
extern int lalias_5; extern void *addr_lalias_5(void); extern int read_lalias_5(void); extern void write_lalias_5(int);
extern int lalias_sw_6; extern void *addr_lalias_sw_6(void); extern void *waddr_lalias_sw_6(void); extern int read_lalias_sw_6(void); extern void write_lalias_sw_6(int);
extern int lalias_st_7[]; extern void *addr_lalias_st_7(void); extern void *waddr_lalias_st_7(void); extern int read_lalias_st_7(void); extern void write_lalias_st_7(int);
int main(void){
    if ((void*)lfunc_0 != addr_lfunc_0()) fail("lfunc_0: exe vs defining library");
    if ((void*)lfunc_0 != l1_addr_lfunc_0()) fail("lfunc_0: exe vs lib1");
    if ((void*)fp_lfunc_0 != (void*)lfunc_0) fail("lfunc_0: data pointer vs code reference in exe");
    if (fp_lfunc_0() != 163 || lfunc_0() != 163) fail("lfunc_0: call result");
    if ((const void*)ldata_1 != addr_ldata_1()) fail("ldata_1: exe vs defining library");
    if ((const void*)ldata_1 != l1_addr_ldata_1()) fail("ldata_1: exe vs lib1");
    if ((const void*)dp_ldata_1 != (const void*)ldata_1) fail("ldata_1: data pointer vs code reference in exe");
    if (ldata_1[0] != 147 || read_ldata_1() != 147) fail("ldata_1: initial value");
    ldata_1[0] = 1147; if (read_ldata_1() != 1147 || l1_read_ldata_1() != 1147) fail("ldata_1: write through exe not seen by library");
    if ((void*)efunc_2 != l1_addr_efunc_2()) fail("efunc_2: exe function seen from lib1");
    if (l1_call_efunc_2() != 146) fail("efunc_2: call from lib1");
    if ((void*)efunc_3 != l1_addr_efunc_3()) fail("efunc_3: exe function seen from lib1");
    if (l1_call_efunc_3() != 22) fail("efunc_3: call from lib1");
    if ((void*)edata_4 != l1_addr_edata_4()) fail("edata_4: exe data seen from lib1");
    edata_4[0] = 92; if (l1_read_edata_4() != 92) fail("edata_4: write in exe not seen by lib1");
    if ((void*)&lalias_5 != addr_lalias_5()) fail("lalias_5: weak alias in exe vs strong symbol in library");
    write_lalias_5(37); if (lalias_5 != 37) fail("lalias_5: write through strong symbol not seen through alias");
    lalias_5 = 39; if (read_lalias_5() != 39) fail("lalias_5: write through alias not seen through strong symbol");
    if ((void*)&lalias_sw_6 != addr_lalias_sw_6() || (void*)&lalias_sw_6 != waddr_lalias_sw_6()) fail("lalias_sw_6: symbol in exe vs its alias used by the library");
    if (lalias_sw_6 != 129 || read_lalias_sw_6() != 129) fail("lalias_sw_6: initial value");
    lalias_sw_6 = 1129; if (read_lalias_sw_6() != 1129) fail("lalias_sw_6: write in exe not seen by the library through the alias");
    write_lalias_sw_6(136); if (lalias_sw_6 != 136) fail("lalias_sw_6: write by the library through the alias not seen in exe");
    if ((void*)lalias_st_7 != addr_lalias_st_7() || (void*)lalias_st_7 != waddr_lalias_st_7()) fail("lalias_st_7: symbol in exe vs its alias used by the library");
    if (lalias_st_7[0] != 0 || read_lalias_st_7() != 0) fail("lalias_st_7: initial value");
    lalias_st_7[0] = 1164; if (read_lalias_st_7() != 1164) fail("lalias_st_7: write in exe not seen by the library through the alias");
    write_lalias_st_7(171); if (lalias_st_7[0] != 171) fail("lalias_st_7: write by the library through the alias not seen in exe");
    if (!bad) printf("OK\n"); return bad ? 1 : 0; }
