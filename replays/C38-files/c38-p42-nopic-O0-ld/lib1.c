int lfunc_0(void){ return 110; }
void *addr_lfunc_0(void){ return (void*)lfunc_0; }
extern int lfunc_0(void); void *l1_addr_lfunc_0(void){ return (void*)lfunc_0; }
int ldata_1[16] = { 55 };
const void *addr_ldata_1(void){ return ldata_1; } int read_ldata_1(void){ return ldata_1[0]; }
extern int ldata_1[]; const void *l1_addr_ldata_1(void){ return ldata_1; } int l1_read_ldata_1(void){ return ldata_1[0]; }
extern int edata_2[]; void *l1_addr_edata_2(void){ return edata_2; } int l1_read_edata_2(void){ return edata_2[0]; }
int ldata_bss_3[4];
const void *addr_ldata_bss_3(void){ return ldata_bss_3; } int read_ldata_bss_3(void){ return ldata_bss_3[0]; }
extern int ldata_bss_3[]; const void *l1_addr_ldata_bss_3(void){ return ldata_bss_3; } int l1_read_ldata_bss_3(void){ return ldata_bss_3[0]; }
const int ldata_ro_4[4] = { 150 };
const void *addr_ldata_ro_4(void){ return ldata_ro_4; } int read_ldata_ro_4(void){ return ldata_ro_4[0]; }
extern const int ldata_ro_4[]; const void *l1_addr_ldata_ro_4(void){ return ldata_ro_4; } int l1_read_ldata_ro_4(void){ return ldata_ro_4[0]; }
extern int efunc_5(void); void *l1_addr_efunc_5(void){ return (void*)efunc_5; } int l1_call_efunc_5(void){ return efunc_5(); }
extern int edata_6[]; void *l1_addr_edata_6(void){ return edata_6; } int l1_read_edata_6(void){ return edata_6[0]; }
static int impl_lifunc_7(void){ return 104; } static void *res_lifunc_7(void){ return (void*)impl_lifunc_7; } int lifunc_7(void) __attribute__((ifunc("res_lifunc_7"))); void *addr_lifunc_7(void){ return (void*)lifunc_7; }
int lalias_st_8[16]; extern __typeof(lalias_st_8) t_lalias_st_8 __attribute__((alias("lalias_st_8")));
void *addr_lalias_st_8(void){ return (void*)t_lalias_st_8; } int read_lalias_st_8(void){ return t_lalias_st_8[0]; } void write_lalias_st_8(int v){ t_lalias_st_8[0] = v; } void *waddr_lalias_st_8(void){ return (void*)t_lalias_st_8; }
int lalias_multi_9 = 10; extern __typeof(lalias_multi_9) w_lalias_multi_9 __attribute__((weak, alias("lalias_multi_9"))); extern __typeof(lalias_multi_9) t_lalias_multi_9 __attribute__((alias("lalias_multi_9")));
void *addr_lalias_multi_9(void){ return (void*)&w_lalias_multi_9; } int read_lalias_multi_9(void){ return w_lalias_multi_9; } void write_lalias_multi_9(int v){ t_lalias_multi_9 = v; } void *waddr_lalias_multi_9(void){ return (void*)&t_lalias_multi_9; }
