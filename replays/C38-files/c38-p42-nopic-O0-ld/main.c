#include <stdio.h>
static int bad; static void fail(const char *what){ printf("MISMATCH %s\n", what); bad++; }
extern int lfunc_0(void); extern void *addr_lfunc_0(void); extern void *l1_addr_lfunc_0(void); int (*volatile fp_lfunc_0)(void) = lfunc_0;
extern int ldata_1[]; extern const void *addr_ldata_1(void); extern const void *l1_addr_ldata_1(void); extern int read_ldata_1(void); extern int l1_read_ldata_1(void); int *volatile dp_ldata_1 = ldata_1;
int edata_2[16] = { 76 }; extern void *l1_addr_edata_2(void); extern int l1_read_edata_2(void);
extern int ldata_bss_3[]; extern const void *addr_ldata_bss_3(void); extern const void *l1_addr_ldata_bss_3(void); extern int read_ldata_bss_3(void); extern int l1_read_ldata_bss_3(void); int *volatile dp_ldata_bss_3 = ldata_bss_3;
extern const int ldata_ro_4[]; extern const void *addr_ldata_ro_4(void); extern const void *l1_addr_ldata_ro_4(void); extern int read_ldata_ro_4(void); extern int l1_read_ldata_ro_4(void); const int *volatile dp_ldata_ro_4 = ldata_ro_4;
int efunc_5(void){ return 76; } extern void *l1_addr_efunc_5(void); extern int l1_call_efunc_5(void);
int edata_6[16] = { 127 }; extern void *l1_addr_edata_6(void); extern int l1_read_edata_6(void);
extern int lifunc_7(void); extern void *addr_lifunc_7(void); int (*volatile fp_lifunc_7)(void) = lifunc_7;
extern int lalias_st_8[]; extern void *addr_lalias_st_8(void); extern void *waddr_lalias_st_8(void); extern int read_lalias_st_8(void); extern void write_lalias_st_8(int);
extern int lalias_multi_9; extern void *addr_lalias_multi_9(void); extern void *waddr_lalias_multi_9(void); extern int read_lalias_multi_9(void); extern void write_lalias_multi_9(int);
int main(void){
    if ((void*)lfunc_0 != addr_lfunc_0()) fail("lfunc_0: exe vs defining library");
    if ((void*)lfunc_0 != l1_addr_lfunc_0()) fail("lfunc_0: exe vs lib1");
    if ((void*)fp_lfunc_0 != (void*)lfunc_0) fail("lfunc_0: data pointer vs code reference in exe");
    if (fp_lfunc_0() != 110 || lfunc_0() != 110) fail("lfunc_0: call result");
    if ((const void*)ldata_1 != addr_ldata_1()) fail("ldata_1: exe vs defining library");
    if ((const void*)ldata_1 != l1_addr_ldata_1()) fail("ldata_1: exe vs lib1");
    if ((const void*)dp_ldata_1 != (const void*)ldata_1) fail("ldata_1: data pointer vs code reference in exe");
    if (ldata_1[0] != 55 || read_ldata_1() != 55) fail("ldata_1: initial value");
    ldata_1[0] = 1055; if (read_ldata_1() != 1055 || l1_read_ldata_1() != 1055) fail("ldata_1: write through exe not seen by library");
    if ((void*)edata_2 != l1_addr_edata_2()) fail("edata_2: exe data seen from lib1");
    edata_2[0] = 81; if (l1_read_edata_2() != 81) fail("edata_2: write in exe not seen by lib1");
    if ((const void*)ldata_bss_3 != addr_ldata_bss_3()) fail("ldata_bss_3: exe vs defining library");
    if ((const void*)ldata_bss_3 != l1_addr_ldata_bss_3()) fail("ldata_bss_3: exe vs lib1");
    if ((const void*)dp_ldata_bss_3 != (const void*)ldata_bss_3) fail("ldata_bss_3: data pointer vs code reference in exe");
    if (ldata_bss_3[0] != 0 || read_ldata_bss_3() != 0) fail("ldata_bss_3: initial value");
    ldata_bss_3[0] = 1199; if (read_ldata_bss_3() != 1199 || l1_read_ldata_bss_3() != 1199) fail("ldata_bss_3: write through exe not seen by library");
    if ((const void*)ldata_ro_4 != addr_ldata_ro_4()) fail("ldata_ro_4: exe vs defining library");
    if ((const void*)ldata_ro_4 != l1_addr_ldata_ro_4()) fail("ldata_ro_4: exe vs lib1");
    if ((const void*)dp_ldata_ro_4 != (const void*)ldata_ro_4) fail("ldata_ro_4: data pointer vs code reference in exe");
    if (ldata_ro_4[0] != 150 || read_ldata_ro_4() != 150) fail("ldata_ro_4: initial value");
    if ((void*)efunc_5 != l1_addr_efunc_5()) fail("efunc_5: exe function seen from lib1");
    if (l1_call_efunc_5() != 76) fail("efunc_5: call from lib1");
    if ((void*)edata_6 != l1_addr_edata_6()) fail("edata_6: exe data seen from lib1");
    edata_6[0] = 132; if (l1_read_edata_6() != 132) fail("edata_6: write in exe not seen by lib1");
    if ((void*)lifunc_7 != addr_lifunc_7()) fail("lifunc_7: library ifunc address exe vs library");
    if ((void*)fp_lifunc_7 != (void*)lifunc_7) fail("lifunc_7: library ifunc address data vs code in exe");
    if (lifunc_7() != 104 || fp_lifunc_7() != 104) fail("lifunc_7: ifunc call result");
    if ((void*)lalias_st_8 != addr_lalias_st_8() || (void*)lalias_st_8 != waddr_lalias_st_8()) fail("lalias_st_8: symbol in exe vs its alias used by the library");
    if (lalias_st_8[0] != 0 || read_lalias_st_8() != 0) fail("lalias_st_8: initial value");
    lalias_st_8[0] = 1135; if (read_lalias_st_8() != 1135) fail("lalias_st_8: write in exe not seen by the library through the alias");
    write_lalias_st_8(142); if (lalias_st_8[0] != 142) fail("lalias_st_8: write by the library through the alias not seen in exe");
    if ((void*)&lalias_multi_9 != addr_lalias_multi_9() || (void*)&lalias_multi_9 != waddr_lalias_multi_9()) fail("lalias_multi_9: symbol in exe vs its alias used by the library");
    if (lalias_multi_9 != 10 || read_lalias_multi_9() != 10) fail("lalias_multi_9: initial value");
    lalias_multi_9 = 1010; if (read_lalias_multi_9() != 1010) fail("lalias_multi_9: write in exe not seen by the library through the alias");
    write_lalias_multi_9(17); if (lalias_multi_9 != 17) fail("lalias_multi_9: write by the library through the alias not seen in exe");
    if (!bad) printf("OK\n"); return bad ? 1 : 0; }
