int lfunc_0(void){ return 12; }
void *addr_lfunc_0(void){ return (void*)lfunc_0; }
extern int lfunc_0(void); void *l1_addr_lfunc_0(void){ return (void*)lfunc_0; }
int ldata_1[16] = { 40 };
const void *addr_ldata_1(void){ return ldata_1; } int read_ldata_1(void){ return ldata_1[0]; }
extern int ldata_1[]; const void *l1_addr_ldata_1(void){ return ldata_1; } int l1_read_ldata_1(void){ return ldata_1[0]; }
int real_lalias_2 = 40; extern int lalias_2 __attribute__((weak, alias("real_lalias_2")));
void *addr_lalias_2(void){ return &real_lalias_2; } int read_lalias_2(void){ return real_lalias_2; } void write_lalias_2(int v){ real_lalias_2 = v; }
extern int l2func_3(void); void *l1_addr_l2func_3(void){ return (void*)l2func_3; }
extern int l2data_4[]; const void *l1_addr_l2data_4(void){ return l2data_4; } int l1_read_l2data_4(void){ return l2data_4[0]; }
extern int l2data_5[]; const void *l1_addr_l2data_5(void){ return l2data_5; } int l1_read_l2data_5(void){ return l2data_5[0]; }
int ldata_6[1] = { 3 };
const void *addr_ldata_6(void){ return ldata_6; } int read_ldata_6(void){ return ldata_6[0]; }
extern int ldata_6[]; const void *l1_addr_ldata_6(void){ return ldata_6; } int l1_read_ldata_6(void){ return ldata_6[0]; }
int lalias_sw_7[4]; extern __typeof(lalias_sw_7) w_lalias_sw_7 __attribute__((weak, alias("lalias_sw_7")));
void *addr_lalias_sw_7(void){ return (void*)w_lalias_sw_7; } int read_lalias_sw_7(void){ return w_lalias_sw_7[0]; } void write_lalias_sw_7(int v){ w_lalias_sw_7[0] = v; } void *waddr_lalias_sw_7(void){ return (void*)w_lalias_sw_7; }
int lalias_multi_8 = 156; extern __typeof(lalias_multi_8) w_lalias_multi_8 __attribute__((weak, alias("lalias_multi_8"))); extern __typeof(lalias_multi_8) t_lalias_multi_8 __attribute__((alias("lalias_multi_8")));
void *addr_lalias_multi_8(void){ return (void*)&w_lalias_multi_8; } int read_lalias_multi_8(void){ return w_lalias_multi_8; } void write_lalias_multi_8(int v){ t_lalias_multi_8 = v; } void *waddr_lalias_multi_8(void){ return (void*)&t_lalias_multi_8; }
