int l2func_3(void){ return 45; }
void *addr_l2func_3(void){ return (void*)l2func_3; }
int l2data_4[16] = { 183 };
const void *addr_l2data_4(void){ return l2data_4; } int read_l2data_4(void){ return l2data_4[0]; }
int l2data_5[1] = { 143 };
const void *addr_l2data_5(void){ return l2data_5; } int read_l2data_5(void){ return l2data_5[0]; }
