int lfunc_0(void){ return 122; }
void *addr_lfunc_0(void){ return (void*)lfunc_0; }
extern int lfunc_0(void); void *l1_addr_lfunc_0(void){ return (void*)lfunc_0; }
int ldata_1[1] = { 139 };
const void *addr_ldata_1(void){ return ldata_1; } int read_ldata_1(void){ return ldata_1[0]; }
extern int ldata_1[]; const void *l1_addr_ldata_1(void){ return ldata_1; } int l1_read_ldata_1(void){ return ldata_1[0]; }
extern int l2func_2(void); void *l1_addr_l2func_2(void){ return (void*)l2func_2; }
int lfunc_3(void){ return 141; }
void *addr_lfunc_3(void){ return (void*)lfunc_3; }
extern int lfunc_3(void); void *l1_addr_lfunc_3(void){ return (void*)lfunc_3; }
#ifdef EIFUNC_FROM_LIB
extern int eifunc_4(void); void *l1_addr_eifunc_4(void){ return (void*)eifunc_4; } int l1_call_eifunc_4(void){ return eifunc_4(); }
#endif
extern int l2data_5[]; const void *l1_addr_l2data_5(void){ return l2data_5; } int l1_read_l2data_5(void){ return l2data_5[0]; }
extern int l2func_6(void); void *l1_addr_l2func_6(void){ return (void*)l2func_6; }
int lalias_ts_7 = 192; extern __typeof(lalias_ts_7) t_lalias_ts_7 __attribute__((alias("lalias_ts_7")));
void *addr_lalias_ts_7(void){ return (void*)&lalias_ts_7; } int read_lalias_ts_7(void){ return lalias_ts_7; } void write_lalias_ts_7(int v){ lalias_ts_7 = v; } void *waddr_lalias_ts_7(void){ return (void*)&lalias_ts_7; }
int lalias_sw_8[16]; extern __typeof(lalias_sw_8) w_lalias_sw_8 __attribute__((weak, alias("lalias_sw_8")));
void *addr_lalias_sw_8(void){ return (void*)w_lalias_sw_8; } int read_lalias_sw_8(void){ return w_lalias_sw_8[0]; } void write_lalias_sw_8(int v){ w_lalias_sw_8[0] = v; } void *waddr_lalias_sw_8(void){ return (void*)w_lalias_sw_8; }
