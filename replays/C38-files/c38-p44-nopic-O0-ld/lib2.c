int l2func_2(void){ return 139; }
void *addr_l2func_2(void){ return (void*)l2func_2; }
int l2data_5[2] = { 189 };
const void *addr_l2data_5(void){ return l2data_5; } int read_l2data_5(void){ return l2data_5[0]; }
int l2func_6(void){ return 176; }
void *addr_l2func_6(void){ return (void*)l2func_6; }
