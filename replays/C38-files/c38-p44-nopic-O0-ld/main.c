#include <stdio.h>
static int bad; static void fail(const char *what){ printf("MISMATCH %s\n", what); bad++; }
extern int lfunc_0(void); extern void *addr_lfunc_0(void); extern void *l1_addr_lfunc_0(void); int (*volatile fp_lfunc_0)(void) = lfunc_0;
extern int ldata_1[]; extern const void *addr_ldata_1(void); extern const void *l1_addr_ldata_1(void); extern int read_ldata_1(void); extern int l1_read_ldata_1(void); int *volatile dp_ldata_1 = ldata_1;
extern int l2func_2(void); extern void *addr_l2func_2(void); extern void *l1_addr_l2func_2(void); int (*volatile fp_l2func_2)(void) = l2func_2;
extern int lfunc_3(void); extern void *addr_lfunc_3(void); extern void *l1_addr_lfunc_3(void); int (*volatile fp_lfunc_3)(void) = lfunc_3;
static int impl_eifunc_4(void){ return 66; } static void *res_eifunc_4(void){ return (void*)impl_eifunc_4; } int eifunc_4(void) __attribute__((ifunc("res_eifunc_4"))); extern void *l1_addr_eifunc_4(void); extern int l1_call_eifunc_4(void); int (*volatile fp_eifunc_4)(void) = eifunc_4;
extern int l2data_5[]; extern const void *addr_l2data_5(void); extern const void *l1_addr_l2data_5(void); extern int read_l2data_5(void); extern int l1_read_l2data_5(void); int *volatile dp_l2data_5 = l2data_5;
extern int l2func_6(void); extern void *addr_l2func_6(void); extern void *l1_addr_l2func_6(void); int (*volatile fp_l2func_6)(void) = l2func_6;
extern int t_lalias_ts_7; extern void *addr_lalias_ts_7(void); extern void *waddr_lalias_ts_7(void); extern int read_lalias_ts_7(void); extern void write_lalias_ts_7(int);
extern int lalias_sw_8[]; extern void *addr_lalias_sw_8(void); extern void *waddr_lalias_sw_8(void); extern int read_lalias_sw_8(void); extern void write_lalias_sw_8(int);
int main(void){
    if ((void*)lfunc_0 != addr_lfunc_0()) fail("lfunc_0: exe vs defining library");
    if ((void*)lfunc_0 != l1_addr_lfunc_0()) fail("lfunc_0: exe vs lib1");
    if ((void*)fp_lfunc_0 != (void*)lfunc_0) fail("lfunc_0: data pointer vs code reference in exe");
    if (fp_lfunc_0() != 122 || lfunc_0() != 122) fail("lfunc_0: call result");
    if ((const void*)ldata_1 != addr_ldata_1()) fail("ldata_1: exe vs defining library");
    if ((const void*)ldata_1 != l1_addr_ldata_1()) fail("ldata_1: exe vs lib1");
    if ((const void*)dp_ldata_1 != (const void*)ldata_1) fail("ldata_1: data pointer vs code reference in exe");
    if (ldata_1[0] != 139 || read_ldata_1() != 139) fail("ldata_1: initial value");
    ldata_1[0] = 1139; if (read_ldata_1() != 1139 || l1_read_ldata_1() != 1139) fail("ldata_1: write through exe not seen by library");
    if ((void*)l2func_2 != addr_l2func_2()) fail("l2func_2: exe vs defining library");
    if ((void*)l2func_2 != l1_addr_l2func_2()) fail("l2func_2: exe vs lib1");
    if ((void*)fp_l2func_2 != (void*)l2func_2) fail("l2func_2: data pointer vs code reference in exe");
    if (fp_l2func_2() != 139 || l2func_2() != 139) fail("l2func_2: call result");
    if ((void*)lfunc_3 != addr_lfunc_3()) fail("lfunc_3: exe vs defining library");
    if ((void*)lfunc_3 != l1_addr_lfunc_3()) fail("lfunc_3: exe vs lib1");
    if ((void*)fp_lfunc_3 != (void*)lfunc_3) fail("lfunc_3: data pointer vs code reference in exe");
    if (fp_lfunc_3() != 141 || lfunc_3() != 141) fail("lfunc_3: call result");
    if ((void*)fp_eifunc_4 != (void*)eifunc_4) fail("eifunc_4: ifunc address in data vs code in exe");
    
#ifdef EIFUNC_FROM_LIB
    if ((void*)eifunc_4 != l1_addr_eifunc_4()) fail("eifunc_4: exe ifunc address seen from lib1"); if (l1_call_eifunc_4() != 66) fail("eifunc_4: ifunc call from lib1");
#endif
    if (eifunc_4() != 66 || fp_eifunc_4() != 66) fail("eifunc_4: ifunc call result");
    if ((const void*)l2data_5 != addr_l2data_5()) fail("l2data_5: exe vs defining library");
    if ((const void*)l2data_5 != l1_addr_l2data_5()) fail("l2data_5: exe vs lib1");
    if ((const void*)dp_l2data_5 != (const void*)l2data_5) fail("l2data_5: data pointer vs code reference in exe");
    if (l2data_5[0] != 189 || read_l2data_5() != 189) fail("l2data_5: initial value");
    l2data_5[0] = 1189; if (read_l2data_5() != 1189 || l1_read_l2data_5() != 1189) fail("l2data_5: write through exe not seen by library");
    if ((void*)l2func_6 != addr_l2func_6()) fail("l2func_6: exe vs defining library");
    if ((void*)l2func_6 != l1_addr_l2func_6()) fail("l2func_6: exe vs lib1");
    if ((void*)fp_l2func_6 != (void*)l2func_6) fail("l2func_6: data pointer vs code reference in exe");
    if (fp_l2func_6() != 176 || l2func_6() != 176) fail("l2func_6: call result");
    if ((void*)&t_lalias_ts_7 != addr_lalias_ts_7() || (void*)&t_lalias_ts_7 != waddr_lalias_ts_7()) fail("lalias_ts_7: symbol in exe vs its alias used by the library");
    if (t_lalias_ts_7 != 192 || read_lalias_ts_7() != 192) fail("lalias_ts_7: initial value");
    t_lalias_ts_7 = 1192; if (read_lalias_ts_7() != 1192) fail("lalias_ts_7: write in exe not seen by the library through the alias");
    write_lalias_ts_7(199); if (t_lalias_ts_7 != 199) fail("lalias_ts_7: write by the library through the alias not seen in exe");
    if ((void*)lalias_sw_8 != addr_lalias_sw_8() || (void*)lalias_sw_8 != waddr_lalias_sw_8()) fail("lalias_sw_8: symbol in exe vs its alias used by the library");
    if (lalias_sw_8[0] != 0 || read_lalias_sw_8() != 0) fail("lalias_sw_8: initial value");
    lalias_sw_8[0] = 1194; if (read_lalias_sw_8() != 1194) fail("lalias_sw_8: write in exe not seen by the library through the alias");
    write_lalias_sw_8(201); if (lalias_sw_8[0] != 201) fail("lalias_sw_8: write by the library through the alias not seen in exe");
    if (!bad) printf("OK\n"); return bad ? 1 : 0; }
