int lfunc_0(void){ return 164; }
void *addr_lfunc_0(void){ return (void*)lfunc_0; }
extern int lfunc_0(void); void *l1_addr_lfunc_0(void){ return (void*)lfunc_0; }
int ldata_1[4] = { 136 };
const void *addr_ldata_1(void){ return ldata_1; } int read_ldata_1(void){ return ldata_1[0]; }
extern int ldata_1[]; const void *l1_addr_ldata_1(void){ return ldata_1; } int l1_read_ldata_1(void){ return ldata_1[0]; }
extern int l2func_2(void); void *l1_addr_l2func_2(void){ return (void*)l2func_2; }
extern int efunc_3(void); void *l1_addr_efunc_3(void){ return (void*)efunc_3; } int l1_call_efunc_3(void){ return efunc_3(); }
int lfunc_4(void){ return 17; }
void *addr_lfunc_4(void){ return (void*)lfunc_4; }
extern int lfunc_4(void); void *l1_addr_lfunc_4(void){ return (void*)lfunc_4; }
static int impl_lifunc_5(void){ return 55; } static void *res_lifunc_5(void){ return (void*)impl_lifunc_5; } int lifunc_5(void) __attribute__((ifunc("res_lifunc_5"))); void *addr_lifunc_5(void){ return (void*)lifunc_5; }
extern int efunc_6(void); void *l1_addr_efunc_6(void){ return (void*)efunc_6; } int l1_call_efunc_6(void){ return efunc_6(); }
int real_lalias_7 = 117; extern int lalias_7 __attribute__((weak, alias("real_lalias_7")));
void *addr_lalias_7(void){ return &real_lalias_7; } int read_lalias_7(void){ return real_lalias_7; } void write_lalias_7(int v){ real_lalias_7 = v; }
int lalias_sw_8 = 95; extern __typeof(lalias_sw_8) w_lalias_sw_8 __attribute__((weak, alias("lalias_sw_8")));
void *addr_lalias_sw_8(void){ return (void*)&w_lalias_sw_8; } int read_lalias_sw_8(void){ return w_lalias_sw_8; } void write_lalias_sw_8(int v){ w_lalias_sw_8 = v; } void *waddr_lalias_sw_8(void){ return (void*)&w_lalias_sw_8; }
int lalias_st_9 = 178; extern __typeof(lalias_st_9) t_lalias_st_9 __attribute__((alias("lalias_st_9")));
void *addr_lalias_st_9(void){ return (void*)&t_lalias_st_9; } int read_lalias_st_9(void){ return t_lalias_st_9; } void write_lalias_st_9(int v){ t_lalias_st_9 = v; } void *waddr_lalias_st_9(void){ return (void*)&t_lalias_st_9; }
