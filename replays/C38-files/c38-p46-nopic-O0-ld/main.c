#include <stdio.h>
static int bad; static void fail(const char *what){ printf("MISMATCH %s\n", what); bad++; }
extern int lfunc_0(void); extern void *addr_lfunc_0(void); extern void *l1_addr_lfunc_0(void); int (*volatile fp_lfunc_0)(void) = lfunc_0;
extern int ldata_1[]; extern const void *addr_ldata_1(void); extern const void *l1_addr_ldata_1(void); extern int read_ldata_1(void); extern int l1_read_ldata_1(void); int *volatile dp_ldata_1 = ldata_1;
extern int l2func_2(void); extern void *addr_l2func_2(void); extern void *l1_addr_l2func_2(void); int (*volatile fp_l2func_2)(void) = l2func_2;
int efunc_3(void){ return 9; } extern void *l1_addr_efunc_3(void); extern int l1_call_efunc_3(void);
extern int lfunc_4(void); extern void *addr_lfunc_4(void); extern void *l1_addr_lfunc_4(void); int (*volatile fp_lfunc_4)(void) = lfunc_4;
extern int lifunc_5(void); extern void *addr_lifunc_5(void); int (*volatile fp_lifunc_5)(void) = lifunc_5;
int efunc_6(void){ return 32; } extern void *l1_addr_efunc_6(void); extern int l1_call_efunc_6(void);
extern int lalias_7; extern void *addr_lalias_7(void); extern int read_lalias_7(void); extern void write_lalias_7(int);
extern int lalias_sw_8; extern void *addr_lalias_sw_8(void); extern void *waddr_lalias_sw_8(void); extern int read_lalias_sw_8(void); extern void write_lalias_sw_8(int);
extern int lalias_st_9; extern void *addr_lalias_st_9(void); extern void *waddr_lalias_st_9(void); extern int read_lalias_st_9(void); extern void write_lalias_st_9(int);
int main(void){
    if ((void*)lfunc_0 != addr_lfunc_0()) fail("lfunc_0: exe vs defining library");
    if ((void*)lfunc_0 != l1_addr_lfunc_0()) fail("lfunc_0: exe vs lib1");
    if ((void*)fp_lfunc_0 != (void*)lfunc_0) fail("lfunc_0: data pointer vs code reference in exe");
    if (fp_lfunc_0() != 164 || lfunc_0() != 164) fail("lfunc_0: call result");
    if ((const void*)ldata_1 != addr_ldata_1()) fail("ldata_1: exe vs defining library");
    if ((const void*)ldata_1 != l1_addr_ldata_1()) fail("ldata_1: exe vs lib1");
    if ((const void*)dp_ldata_1 != (const void*)ldata_1) fail("ldata_1: data pointer vs code reference in exe");
    if (ldata_1[0] != 136 || read_ldata_1() != 136) fail("ldata_1: initial value");
    ldata_1[0] = 1136; if (read_ldata_1() != 1136 || l1_read_ldata_1() != 1136) fail("ldata_1: write through exe not seen by library");
    if ((void*)l2func_2 != addr_l2func_2()) fail("l2func_2: exe vs defining library");
    if ((void*)l2func_2 != l1_addr_l2func_2()) fail("l2func_2: exe vs lib1");
    if ((void*)fp_l2func_2 != (void*)l2func_2) fail("l2func_2: data pointer vs code reference in exe");
    if (fp_l2func_2() != 165 || l2func_2() != 165) fail("l2func_2: call result");
    if ((void*)efunc_3 != l1_addr_efunc_3()) fail("efunc_3: exe function seen from lib1");
    if (l1_call_efunc_3() != 9) fail("efunc_3: call from lib1");
    if ((void*)lfunc_4 != addr_lfunc_4()) fail("lfunc_4: exe vs defining library");
    if ((void*)lfunc_4 != l1_addr_lfunc_4()) fail("lfunc_4: exe vs lib1");
    if ((void*)fp_lfunc_4 != (void*)lfunc_4) fail("lfunc_4: data pointer vs code reference in exe");
    if (fp_lfunc_4() != 17 || lfunc_4() != 17) fail("lfunc_4: call result");
    if ((void*)lifunc_5 != addr_lifunc_5()) fail("lifunc_5: library ifunc address exe vs library");
    if ((void*)fp_lifunc_5 != (void*)lifunc_5) fail("lifunc_5: library ifunc address data vs code in exe");
    if (lifunc_5() != 55 || fp_lifunc_5() != 55) fail("lifunc_5: ifunc call result");
    if ((void*)efunc_6 != l1_addr_efunc_6()) fail("efunc_6: exe function seen from lib1");
    if (l1_call_efunc_6() != 32) fail("efunc_6: call from lib1");
    if ((void*)&lalias_7 != addr_lalias_7()) fail("lalias_7: weak alias in exe vs strong symbol in library");
    write_lalias_7(124); if (lalias_7 != 124) fail("lalias_7: write through strong symbol not seen through alias");
    lalias_7 = 126; if (read_lalias_7() != 126) fail("lalias_7: write through alias not seen through strong symbol");
    if ((void*)&lalias_sw_8 != addr_lalias_sw_8() || (void*)&lalias_sw_8 != waddr_lalias_sw_8()) fail("lalias_sw_8: symbol in exe vs its alias used by the library");
    if (lalias_sw_8 != 95 || read_lalias_sw_8() != 95) fail("lalias_sw_8: initial value");
    lalias_sw_8 = 1095; if (read_lalias_sw_8() != 1095) fail("lalias_sw_8: write in exe not seen by the library through the alias");
    write_lalias_sw_8(102); if (lalias_sw_8 != 102) fail("lalias_sw_8: write by the library through the alias not seen in exe");
    if ((void*)&lalias_st_9 != addr_lalias_st_9() || (void*)&lalias_st_9 != waddr_lalias_st_9()) fail("lalias_st_9: symbol in exe vs its alias used by the library");
    if (lalias_st_9 != 178 || read_lalias_st_9() != 178) fail("lalias_st_9: initial value");
    lalias_st_9 = 1178; if (read_lalias_st_9() != 1178) fail("lalias_st_9: write in exe not seen by the library through the alias");
    write_lalias_st_9(185); if (lalias_st_9 != 185) fail("lalias_st_9: write by the library through the alias not seen in exe");
    if (!bad) printf("OK\n"); return bad ? 1 : 0; }
