int lfunc_0(void){ return 59; }
void *addr_lfunc_0(void){ return (void*)lfunc_0; }
extern int lfunc_0(void); void *l1_addr_lfunc_0(void){ return (void*)lfunc_0; }
int ldata_1[2] = { 14 };
const void *addr_ldata_1(void){ return ldata_1; } int read_ldata_1(void){ return ldata_1[0]; }
extern int ldata_1[]; const void *l1_addr_ldata_1(void){ return ldata_1; } int l1_read_ldata_1(void){ return ldata_1[0]; }
extern int efunc_2(void); void *l1_addr_efunc_2(void){ return (void*)efunc_2; } int l1_call_efunc_2(void){ return efunc_2(); }
extern int edata_3[]; void *l1_addr_edata_3(void){ return edata_3; } int l1_read_edata_3(void){ return edata_3[0]; }
int ldata_bss_4[1];
const void *addr_ldata_bss_4(void){ return ldata_bss_4; } int read_ldata_bss_4(void){ return ldata_bss_4[0]; }
extern int ldata_bss_4[]; const void *l1_addr_ldata_bss_4(void){ return ldata_bss_4; } int l1_read_ldata_bss_4(void){ return ldata_bss_4[0]; }
static int impl_lifunc_5(void){ return 67; } static void *res_lifunc_5(void){ return (void*)impl_lifunc_5; } int lifunc_5(void) __attribute__((ifunc("res_lifunc_5"))); void *addr_lifunc_5(void){ return (void*)lifunc_5; }
int lalias_st_6[16]; extern __typeof(lalias_st_6) t_lalias_st_6 __attribute__((alias("lalias_st_6")));
void *addr_lalias_st_6(void){ return (void*)t_lalias_st_6; } int read_lalias_st_6(void){ return t_lalias_st_6[0]; } void write_lalias_st_6(int v){ t_lalias_st_6[0] = v; } void *waddr_lalias_st_6(void){ return (void*)t_lalias_st_6; }
int lalias_multi_7[16]; extern __typeof(lalias_multi_7) w_lalias_multi_7 __attribute__((weak, alias("lalias_multi_7"))); extern __typeof(lalias_multi_7) t_lalias_multi_7 __attribute__((alias("lalias_multi_7")));
void *addr_lalias_multi_7(void){ return (void*)w_lalias_multi_7; } int read_lalias_multi_7(void){ return w_lalias_multi_7[0]; } void write_lalias_multi_7(int v){ t_lalias_multi_7[0] = v; } void *waddr_lalias_multi_7(void){ return (void*)t_lalias_multi_7; }
