#include <stdio.h>
static int bad; static void fail(const char *what){ printf("MISMATCH %s\n", what); bad++; }
extern int lfunc_0(void); extern void *addr_lfunc_0(void); extern void *l1_addr_lfunc_0(void); int (*volatile fp_lfunc_0)(void) = lfunc_0;
extern int ldata_1[]; extern const void *addr_ldata_1(void); extern const void *l1_addr_ldata_1(void); extern int read_ldata_1(void); extern int l1_read_ldata_1(void); int *volatile dp_ldata_1 = ldata_1;
int efunc_2(void){ return 128; } extern void *l1_addr_efunc_2(void); extern int l1_call_efunc_2(void);
int edata_3[4] = { 105 }; extern void *l1_addr_edata_3(void); extern int l1_read_edata_3(void);
extern int ldata_bss_4[]; extern const void *addr_ldata_bss_4(void); extern const void *l1_addr_ldata_bss_4(void); extern int read_ldata_bss_4(void); extern int l1_read_ldata_bss_4(void); int *volatile dp_ldata_bss_4 = ldata_bss_4;
extern int lifunc_5(void); extern void *addr_lifunc_5(void); int (*volatile fp_lifunc_5)(void) = lifunc_5;
extern int lalias_st_6[]; extern void *addr_lalias_st_6(void); extern void *waddr_lalias_st_6(void); extern int read_lalias_st_6(void); extern void write_lalias_st_6(int);
extern int lalias_multi_7[]; extern void *addr_lalias_multi_7(void); extern void *waddr_lalias_multi_7(void); extern int read_lalias_multi_7(void); extern void write_lalias_multi_7(int);
int main(void){
    if ((void*)lfunc_0 != addr_lfunc_0()) fail("lfunc_0: exe vs defining library");
    if ((void*)lfunc_0 != l1_addr_lfunc_0()) fail("lfunc_0: exe vs lib1");
    if ((void*)fp_lfunc_0 != (void*)lfunc_0) fail("lfunc_0: data pointer vs code reference in exe");
    if (fp_lfunc_0() != 59 || lfunc_0() != 59) fail("lfunc_0: call result");
    if ((const void*)ldata_1 != addr_ldata_1()) fail("ldata_1: exe vs defining library");
    if ((const void*)ldata_1 != l1_addr_ldata_1()) fail("ldata_1: exe vs lib1");
    if ((const void*)dp_ldata_1 != (const void*)ldata_1) fail("ldata_1: data pointer vs code reference in exe");
    if (ldata_1[0] != 14 || read_ldata_1() != 14) fail("ldata_1: initial value");
    ldata_1[0] = 1014; if (read_ldata_1() != 1014 || l1_read_ldata_1() != 1014) fail("ldata_1: write through exe not seen by library");
    if ((void*)efunc_2 != l1_addr_efunc_2()) fail("efunc_2: exe function seen from lib1");
    if (l1_call_efunc_2() != 128) fail("efunc_2: call from lib1");
    if ((void*)edata_3 != l1_addr_edata_3()) fail("edata_3: exe data seen from lib1");
    edata_3[0] = 110; if (l1_read_edata_3() != 110) fail("edata_3: write in exe not seen by lib1");
    if ((const void*)ldata_bss_4 != addr_ldata_bss_4()) fail("ldata_bss_4: exe vs defining library");
    if ((const void*)ldata_bss_4 != l1_addr_ldata_bss_4()) fail("ldata_bss_4: exe vs lib1");
    if ((const void*)dp_ldata_bss_4 != (const void*)ldata_bss_4) fail("ldata_bss_4: data pointer vs code reference in exe");
    if (ldata_bss_4[0] != 0 || read_ldata_bss_4() != 0) fail("ldata_bss_4: initial value");
    ldata_bss_4[0] = 1151; if (read_ldata_bss_4() != 1151 || l1_read_ldata_bss_4() != 1151) fail("ldata_bss_4: write through exe not seen by library");
    if ((void*)lifunc_5 != addr_lifunc_5()) fail("lifunc_5: library ifunc address exe vs library");
    if ((void*)fp_lifunc_5 != (void*)lifunc_5) fail("lifunc_5: library ifunc address data vs code in exe");
    if (lifunc_5() != 67 || fp_lifunc_5() != 67) fail("lifunc_5: ifunc call result");
    if ((void*)lalias_st_6 != addr_lalias_st_6() || (void*)lalias_st_6 != waddr_lalias_st_6()) fail("lalias_st_6: symbol in exe vs its alias used by the library");
    if (lalias_st_6[0] != 0 || read_lalias_st_6() != 0) fail("lalias_st_6: initial value");
    lalias_st_6[0] = 1080; if (read_lalias_st_6() != 1080) fail("lalias_st_6: write in exe not seen by the library through the alias");
    write_lalias_st_6(87); if (lalias_st_6[0] != 87) fail("lalias_st_6: write by the library through the alias not seen in exe");
    if ((void*)lalias_multi_7 != addr_lalias_multi_7() || (void*)lalias_multi_7 != waddr_lalias_multi_7()) fail("lalias_multi_7: symbol in exe vs its alias used by the library");
    if (lalias_multi_7[0] != 0 || read_lalias_multi_7() != 0) fail("lalias_multi_7: initial value");
    lalias_multi_7[0] = 1186; if (read_lalias_multi_7() != 1186) fail("lalias_multi_7: write in exe not seen by the library through the alias");
    write_lalias_multi_7(193); if (lalias_multi_7[0] != 193) fail("lalias_multi_7: write by the library through the alias not seen in exe");
    if (!bad) printf("OK\n"); return bad ? 1 : 0; }
