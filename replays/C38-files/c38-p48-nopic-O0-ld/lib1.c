int lfunc_0(void){ return 40; }
void *addr_lfunc_0(void){ return (void*)lfunc_0; }
extern int lfunc_0(void); void *l1_addr_lfunc_0(void){ return (void*)lfunc_0; }
int ldata_1[1] = { 151 };
const void *addr_ldata_1(void){ return ldata_1; } int read_ldata_1(void){ return ldata_1[0]; }
extern int ldata_1[]; const void *l1_addr_ldata_1(void){ return ldata_1; } int l1_read_ldata_1(void){ return ldata_1[0]; }
const int ldata_ro_2[1] = { 6 };
const void *addr_ldata_ro_2(void){ return ldata_ro_2; } int read_ldata_ro_2(void){ return ldata_ro_2[0]; }
extern const int ldata_ro_2[]; const void *l1_addr_ldata_ro_2(void){ return ldata_ro_2; } int l1_read_ldata_ro_2(void){ return ldata_ro_2[0]; }
int ldata_bss_3[2];
const void *addr_ldata_bss_3(void){ return ldata_bss_3; } int read_ldata_bss_3(void){ return ldata_bss_3[0]; }
extern int ldata_bss_3[]; const void *l1_addr_ldata_bss_3(void){ return ldata_bss_3; } int l1_read_ldata_bss_3(void){ return ldata_bss_3[0]; }
#ifdef EIFUNC_FROM_LIB
extern int eifunc_4(void); void *l1_addr_eifunc_4(void){ return (void*)eifunc_4; } int l1_call_eifunc_4(void){ return eifunc_4(); }
#endif
int lalias_sw_5 = 101; extern __typeof(lalias_sw_5) w_lalias_sw_5 __attribute__((weak, alias("lalias_sw_5")));
void *addr_lalias_sw_5(void){ return (void*)&w_lalias_sw_5; } int read_lalias_sw_5(void){ return w_lalias_sw_5; } void write_lalias_sw_5(int v){ w_lalias_sw_5 = v; } void *waddr_lalias_sw_5(void){ return (void*)&w_lalias_sw_5; }
int lalias_multi_6 = 54; extern __typeof(lalias_multi_6) w_lalias_multi_6 __attribute__((weak, alias("lalias_multi_6"))); extern __typeof(lalias_multi_6) t_lalias_multi_6 __attribute__((alias("lalias_multi_6")));
void *addr_lalias_multi_6(void){ return (void*)&w_lalias_multi_6; } int read_lalias_multi_6(void){ return w_lalias_multi_6; } void write_lalias_multi_6(int v){ t_lalias_multi_6 = v; } void *waddr_lalias_multi_6(void){ return (void*)&t_lalias_multi_6; }
