#include <stdio.h>
static int bad; static void fail(const char *what){ printf("MISMATCH %s\n", what); bad++; }
extern int lfunc_0(void); extern void *addr_lfunc_0(void); extern void *l1_addr_lfunc_0(void); int (*volatile fp_lfunc_0)(void) = lfunc_0;
extern int ldata_1[]; extern const void *addr_ldata_1(void); extern const void *l1_addr_ldata_1(void); extern int read_ldata_1(void); extern int l1_read_ldata_1(void); int *volatile dp_ldata_1 = ldata_1;
extern const int ldata_ro_2[]; extern const void *addr_ldata_ro_2(void); extern const void *l1_addr_ldata_ro_2(void); extern int read_ldata_ro_2(void); extern int l1_read_ldata_ro_2(void); const int *volatile dp_ldata_ro_2 = ldata_ro_2;
extern int ldata_3[]; extern const void *addr_ldata_3(void); extern const void *l1_addr_ldata_3(void); extern int read_ldata_3(void); extern int l1_read_ldata_3(void); int *volatile dp_ldata_3 = ldata_3;
static int impl_eifunc_4(void){ return 163; } static void *res_eifunc_4(void){ return (void*)impl_eifunc_4; } int eifunc_4(void) __attribute__((ifunc("res_eifunc_4"))); extern void *l1_addr_eifunc_4(void); extern int l1_call_eifunc_4(void); int (*volatile fp_eifunc_4)(void) = eifunc_4;
extern int lalias_sw_5[]; extern void *addr_lalias_sw_5(void); extern void *waddr_lalias_sw_5(void); extern int read_lalias_sw_5(void); extern void write_lalias_sw_5(int);
extern int t_lalias_ts_6; extern void *addr_lalias_ts_6(void); extern void *waddr_lalias_ts_6(void); extern int read_lalias_ts_6(void); extern void write_lalias_ts_6(int);
int main(void){
    if ((void*)lfunc_0 != addr_lfunc_0()) fail("lfunc_0: exe vs defining library");
    if ((void*)lfunc_0 != l1_addr_lfunc_0()) fail("lfunc_0: exe vs lib1");
    if ((void*)fp_lfunc_0 != (void*)lfunc_0) fail("lfunc_0: data pointer vs code reference in exe");
    if (fp_lfunc_0() != 14 || lfunc_0() != 14) fail("lfunc_0: call result");
    if ((const void*)ldata_1 != addr_ldata_1()) fail("ldata_1: exe vs defining library");
    if ((const void*)ldata_1 != l1_addr_ldata_1()) fail("ldata_1: exe vs lib1");
    if ((const void*)dp_ldata_1 != (const void*)ldata_1) fail("ldata_1: data pointer vs code reference in exe");
    if (ldata_1[0] != 185 || read_ldata_1() != 185) fail("ldata_1: initial value");
    ldata_1[0] = 1185; if (read_ldata_1() != 1185 || l1_read_ldata_1() != 1185) fail("ldata_1: write through exe not seen by library");
    if ((const void*)ldata_ro_2 != addr_ldata_ro_2()) fail("ldata_ro_2: exe vs defining library");
    if ((const void*)ldata_ro_2 != l1_addr_ldata_ro_2()) fail("ldata_ro_2: exe vs lib1");
    if ((const void*)dp_ldata_ro_2 != (const void*)ldata_ro_2) fail("ldata_ro_2: data pointer vs code reference in exe");
    if (ldata_ro_2[0] != 54 || read_ldata_ro_2() != 54) fail("ldata_ro_2: initial value");
    if ((const void*)ldata_3 != addr_ldata_3()) fail("ldata_3: exe vs defining library");
    if ((const void*)ldata_3 != l1_addr_ldata_3()) fail("ldata_3: exe vs lib1");
    if ((const void*)dp_ldata_3 != (const void*)ldata_3) fail("ldata_3: data pointer vs code reference in exe");
    if (ldata_3[0] != 80 || read_ldata_3() != 80) fail("ldata_3: initial value");
    ldata_3[0] = 1080; if (read_ldata_3() != 1080 || l1_read_ldata_3() != 1080) fail("ldata_3: write through exe not seen by library");
    if ((void*)fp_eifunc_4 != (void*)eifunc_4) fail("eifunc_4: ifunc address in data vs code in exe");
    
#ifdef EIFUNC_FROM_LIB
    if ((void*)eifunc_4 != l1_addr_eifunc_4()) fail("eifunc_4: exe ifunc address seen from lib1"); if (l1_call_eifunc_4() != 163) fail("eifunc_4: ifunc call from lib1");
#endif
    if (eifunc_4() != 163 || fp_eifunc_4() != 163) fail("eifunc_4: ifunc call result");
    if ((void*)lalias_sw_5 != addr_lalias_sw_5() || (void*)lalias_sw_5 != waddr_lalias_sw_5()) fail("lalias_sw_5: symbol in exe vs its alias used by the library");
    if (lalias_sw_5[0] != 0 || read_lalias_sw_5() != 0) fail("lalias_sw_5: initial value");
    lalias_sw_5[0] = 1173; if (read_lalias_sw_5() != 1173) fail("lalias_sw_5: write in exe not seen by the library through the alias");
    write_lalias_sw_5(180); if (lalias_sw_5[0] != 180) fail("lalias_sw_5: write by the library through the alias not seen in exe");
    if ((void*)&t_lalias_ts_6 != addr_lalias_ts_6() || (void*)&t_lalias_ts_6 != waddr_lalias_ts_6()) fail("lalias_ts_6: symbol in exe vs its alias used by the library");
    if (t_lalias_ts_6 != 198 || read_lalias_ts_6() != 198) fail("lalias_ts_6: initial value");
    t_lalias_ts_6 = 1198; if (read_lalias_ts_6() != 1198) fail("lalias_ts_6: write in exe not seen by the library through the alias");
    write_lalias_ts_6(205); if (t_lalias_ts_6 != 205) fail("lalias_ts_6: write by the library through the alias not seen in exe");
    if (!bad) printf("OK\n"); return bad ? 1 : 0; }
