int lfunc_0(void){ return 14; }
void *addr_lfunc_0(void){ return (void*)lfunc_0; }
extern int lfunc_0(void); void *l1_addr_lfunc_0(void){ return (void*)lfunc_0; }
int ldata_1[2] = { 185 };
const void *addr_ldata_1(void){ return ldata_1; } int read_ldata_1(void){ return ldata_1[0]; }
extern int ldata_1[]; const void *l1_addr_ldata_1(void){ return ldata_1; } int l1_read_ldata_1(void){ return ldata_1[0]; }
const int ldata_ro_2[16] = { 54 };
const void *addr_ldata_ro_2(void){ return ldata_ro_2; } int read_ldata_ro_2(void){ return ldata_ro_2[0]; }
extern const int ldata_ro_2[]; const void *l1_addr_ldata_ro_2(void){ return ldata_ro_2; } int l1_read_ldata_ro_2(void){ return ldata_ro_2[0]; }
int ldata_3[1] = { 80 };
const void *addr_ldata_3(void){ return ldata_3; } int read_ldata_3(void){ return ldata_3[0]; }
extern int ldata_3[]; const void *l1_addr_ldata_3(void){ return ldata_3; } int l1_read_ldata_3(void){ return ldata_3[0]; }
extern int eifunc_4(void); void *l1_addr_eifunc_4(void){ return (void*)eifunc_4; } int l1_call_eifunc_4(void){ return eifunc_4(); }
