int lfunc_0(void){ return 76; }
void *addr_lfunc_0(void){ return (void*)lfunc_0; }
extern int lfunc_0(void); void *l1_addr_lfunc_0(void){ return (void*)lfunc_0; }
int ldata_1[16] = { 70 };
const void *addr_ldata_1(void){ return ldata_1; } int read_ldata_1(void){ return ldata_1[0]; }
extern int ldata_1[]; const void *l1_addr_ldata_1(void){ return ldata_1; } int l1_read_ldata_1(void){ return ldata_1[0]; }
int ldata_bss_2[2];
const void *addr_ldata_bss_2(void){ return ldata_bss_2; } int read_ldata_bss_2(void){ return ldata_bss_2[0]; }
extern int ldata_bss_2[]; const void *l1_addr_ldata_bss_2(void){ return ldata_bss_2; } int l1_read_ldata_bss_2(void){ return ldata_bss_2[0]; }
int lfunc_3(void){ return 160; }
void *addr_lfunc_3(void){ return (void*)lfunc_3; }
extern int lfunc_3(void); void *l1_addr_lfunc_3(void){ return (void*)lfunc_3; }
#ifdef EIFUNC_FROM_LIB
extern int eifunc_4(void); void *l1_addr_eifunc_4(void){ return (void*)eifunc_4; } int l1_call_eifunc_4(void){ return eifunc_4(); }
#endif
#ifdef EIFUNC_FROM_LIB
extern int eifunc_5(void); void *l1_addr_eifunc_5(void){ return (void*)eifunc_5; } int l1_call_eifunc_5(void){ return eifunc_5(); }
#endif
int lalias_sw_6 = 20; extern __typeof(lalias_sw_6) w_lalias_sw_6 __attribute__((weak, alias("lalias_sw_6")));
void *addr_lalias_sw_6(void){ return (void*)&w_lalias_sw_6; } int read_lalias_sw_6(void){ return w_lalias_sw_6; } void write_lalias_sw_6(int v){ w_lalias_sw_6 = v; } void *waddr_lalias_sw_6(void){ return (void*)&w_lalias_sw_6; }
int lalias_ts_7[4]; extern __typeof(lalias_ts_7) t_lalias_ts_7 __attribute__((alias("lalias_ts_7")));
void *addr_lalias_ts_7(void){ return (void*)lalias_ts_7; } int read_lalias_ts_7(void){ return lalias_ts_7[0]; } void write_lalias_ts_7(int v){ lalias_ts_7[0] = v; } void *waddr_lalias_ts_7(void){ return (void*)lalias_ts_7; }
