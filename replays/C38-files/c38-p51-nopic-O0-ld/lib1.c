int lfunc_0(void){ return 74; }
void *addr_lfunc_0(void){ return (void*)lfunc_0; }
extern int lfunc_0(void); void *l1_addr_lfunc_0(void){ return (void*)lfunc_0; }
int ldata_1[1] = { 121 };
const void *addr_ldata_1(void){ return ldata_1; } int read_ldata_1(void){ return ldata_1[0]; }
extern int ldata_1[]; const void *l1_addr_ldata_1(void){ return ldata_1; } int l1_read_ldata_1(void){ return ldata_1[0]; }
const int ldata_ro_2[1] = { 58 };
const void *addr_ldata_ro_2(void){ return ldata_ro_2; } int read_ldata_ro_2(void){ return ldata_ro_2[0]; }
extern const int ldata_ro_2[]; const void *l1_addr_ldata_ro_2(void){ return ldata_ro_2; } int l1_read_ldata_ro_2(void){ return ldata_ro_2[0]; }
#ifdef EIFUNC_FROM_LIB
extern int eifunc_3(void); void *l1_addr_eifunc_3(void){ return (void*)eifunc_3; } int l1_call_eifunc_3(void){ return eifunc_3(); }
#endif
#ifdef EIFUNC_FROM_LIB
extern int eifunc_4(void); void *l1_addr_eifunc_4(void){ return (void*)eifunc_4; } int l1_call_eifunc_4(void){ return eifunc_4(); }
#endif
const int ldata_ro_5[4] = { 159 };
const void *addr_ldata_ro_5(void){ return ldata_ro_5; } int read_ldata_ro_5(void){ return ldata_ro_5[0]; }
extern const int ldata_ro_5[]; const void *l1_addr_ldata_ro_5(void){ return ldata_ro_5; } int l1_read_ldata_ro_5(void){ return ldata_ro_5[0]; }
int ldata_6[1] = { 143 };
const void *addr_ldata_6(void){ return ldata_6; } int read_ldata_6(void){ return ldata_6[0]; }
extern int ldata_6[]; const void *l1_addr_ldata_6(void){ return ldata_6; } int l1_read_ldata_6(void){ return ldata_6[0]; }
int real_lalias_7 = 44; extern int lalias_7 __attribute__((weak, alias("real_lalias_7")));
void *addr_lalias_7(void){ return &real_lalias_7; } int read_lalias_7(void){ return real_lalias_7; } void write_lalias_7(int v){ real_lalias_7 = v; }
int lalias_sw_8[16]; extern __typeof(lalias_sw_8) w_lalias_sw_8 __attribute__((weak, alias("lalias_sw_8")));
void *addr_lalias_sw_8(void){ return (void*)w_lalias_sw_8; } int read_lalias_sw_8(void){ return w_lalias_sw_8[0]; } void write_lalias_sw_8(int v){ w_lalias_sw_8[0] = v; } void *waddr_lalias_sw_8(void){ return (void*)w_lalias_sw_8; }
int lalias_st_9 = 31; extern __typeof(lalias_st_9) t_lalias_st_9 __attribute__((alias("lalias_st_9")));
void *addr_lalias_st_9(void){ return (void*)&t_lalias_st_9; } int read_lalias_st_9(void){ return t_lalias_st_9; } void write_lalias_st_9(int v){ t_lalias_st_9 = v; } void *waddr_lalias_st_9(void){ return (void*)&t_lalias_st_9; }
