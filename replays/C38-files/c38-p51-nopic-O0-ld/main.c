#include <stdio.h>
static int bad; static void fail(const char *what){ printf("MISMATCH %s\n", what); bad++; }
extern int lfunc_0(void); extern void *addr_lfunc_0(void); extern void *l1_addr_lfunc_0(void); int (*volatile fp_lfunc_0)(void) = lfunc_0;
extern int ldata_1[]; extern const void *addr_ldata_1(void); extern const void *l1_addr_ldata_1(void); extern int read_ldata_1(void); extern int l1_read_ldata_1(void); int *volatile dp_ldata_1 = ldata_1;
extern const int ldata_ro_2[]; extern const void *addr_ldata_ro_2(void); extern const void *l1_addr_ldata_ro_2(void); extern int read_ldata_ro_2(void); extern int l1_read_ldata_ro_2(void); const int *volatile dp_ldata_ro_2 = ldata_ro_2;
static int impl_eifunc_3(void){ return 141; } static void *res_eifunc_3(void){ return (void*)impl_eifunc_3; } int eifunc_3(void) __attribute__((ifunc("res_eifunc_3"))); extern void *l1_addr_eifunc_3(void); extern int l1_call_eifunc_3(void); int (*volatile fp_eifunc_3)(void) = eifunc_3;
static int impl_eifunc_4(void){ return 76; } static void *res_eifunc_4(void){ return (void*)impl_eifunc_4; } int eifunc_4(void) __attribute__((ifunc("res_eifunc_4"))); extern void *l1_addr_eifunc_4(void); extern int l1_call_eifunc_4(void); int (*volatile fp_eifunc_4)(void) = eifunc_4;
extern const int ldata_ro_5[]; extern const void *addr_ldata_ro_5(void); extern const void *l1_addr_ldata_ro_5(void); extern int read_ldata_ro_5(void); extern int l1_read_ldata_ro_5(void); const int *volatile dp_ldata_ro_5 = ldata_ro_5;
extern int ldata_6[]; extern const void *addr_ldata_6(void); extern const void *l1_addr_ldata_6(void); extern int read_ldata_6(void); extern int l1_read_ldata_6(void); int *volatile dp_ldata_6 = ldata_6;
extern int lalias_7; extern void *addr_lalias_7(void); extern int read_lalias_7(void); extern void write_lalias_7(int);
extern int lalias_sw_8[]; extern void *addr_lalias_sw_8(void); extern void *waddr_lalias_sw_8(void); extern int read_lalias_sw_8(void); extern void write_lalias_sw_8(int);
extern int lalias_st_9; extern void *addr_lalias_st_9(void); extern void *waddr_lalias_st_9(void); extern int read_lalias_st_9(void); extern void write_lalias_st_9(int);
int main(void){
    if ((void*)lfunc_0 != addr_lfunc_0()) fail("lfunc_0: exe vs defining library");
    if ((void*)lfunc_0 != l1_addr_lfunc_0()) fail("lfunc_0: exe vs lib1");
    if ((void*)fp_lfunc_0 != (void*)lfunc_0) fail("lfunc_0: data pointer vs code reference in exe");
    if (fp_lfunc_0() != 74 || lfunc_0() != 74) fail("lfunc_0: call result");
    if ((const void*)ldata_1 != addr_ldata_1()) fail("ldata_1: exe vs defining library");
    if ((const void*)ldata_1 != l1_addr_ldata_1()) fail("ldata_1: exe vs lib1");
    if ((const void*)dp_ldata_1 != (const void*)ldata_1) fail("ldata_1: data pointer vs code reference in exe");
    if (ldata_1[0] != 121 || read_ldata_1() != 121) fail("ldata_1: initial value");
    ldata_1[0] = 1121; if (read_ldata_1() != 1121 || l1_read_ldata_1() != 1121) fail("ldata_1: write through exe not seen by library");
    if ((const void*)ldata_ro_2 != addr_ldata_ro_2()) fail("ldata_ro_2: exe vs defining library");
    if ((const void*)ldata_ro_2 != l1_addr_ldata_ro_2()) fail("ldata_ro_2: exe vs lib1");
    if ((const void*)dp_ldata_ro_2 != (const void*)ldata_ro_2) fail("ldata_ro_2: data pointer vs code reference in exe");
    if (ldata_ro_2[0] != 58 || read_ldata_ro_2() != 58) fail("ldata_ro_2: initial value");
    if ((void*)fp_eifunc_3 != (void*)eifunc_3) fail("eifunc_3: ifunc address in data vs code in exe");
    
#ifdef EIFUNC_FROM_LIB
    if ((void*)eifunc_3 != l1_addr_eifunc_3()) fail("eifunc_3: exe ifunc address seen from lib1"); if (l1_call_eifunc_3() != 141) fail("eifunc_3: ifunc call from lib1");
#endif
    if (eifunc_3() != 141 || fp_eifunc_3() != 141) fail("eifunc_3: ifunc call result");
    if ((void*)fp_eifunc_4 != (void*)eifunc_4) fail("eifunc_4: ifunc address in data vs code in exe");
    
#ifdef EIFUNC_FROM_LIB
    if ((void*)eifunc_4 != l1_addr_eifunc_4()) fail("eifunc_4: exe ifunc address seen from lib1"); if (l1_call_eifunc_4() != 76) fail("eifunc_4: ifunc call from lib1");
#endif
    if (eifunc_4() != 76 || fp_eifunc_4() != 76) fail("eifunc_4: ifunc call result");
    if ((const void*)ldata_ro_5 != addr_ldata_ro_5()) fail("ldata_ro_5: exe vs defining library");
    if ((const void*)ldata_ro_5 != l1_addr_ldata_ro_5()) fail("ldata_ro_5: exe vs lib1");
    if ((const void*)dp_ldata_ro_5 != (const void*)ldata_ro_5) fail("ldata_ro_5: data pointer vs code reference in exe");
    if (ldata_ro_5[0] != 159 || read_ldata_ro_5() != 159) fail("ldata_ro_5: initial value");
    if ((const void*)ldata_6 != addr_ldata_6()) fail("ldata_6: exe vs defining library");
    if ((const void*)ldata_6 != l1_addr_ldata_6()) fail("ldata_6: exe vs lib1");
    if ((const void*)dp_ldata_6 != (const void*)ldata_6) fail("ldata_6: data pointer vs code reference in exe");
    if (ldata_6[0] != 143 || read_ldata_6() != 143) fail("ldata_6: initial value");
    ldata_6[0] = 1143; if (read_ldata_6() != 1143 || l1_read_ldata_6() != 1143) fail("ldata_6: write through exe not seen by library");
    if ((void*)&lalias_7 != addr_lalias_7()) fail("lalias_7: weak alias in exe vs strong symbol in library");
    write_lalias_7(51); if (lalias_7 != 51) fail("lalias_7: write through strong symbol not seen through alias");
    lalias_7 = 53; if (read_lalias_7() != 53) fail("lalias_7: write through alias not seen through strong symbol");
    if ((void*)lalias_sw_8 != addr_lalias_sw_8() || (void*)lalias_sw_8 != waddr_lalias_sw_8()) fail("lalias_sw_8: symbol in exe vs its alias used by the library");
    if (lalias_sw_8[0] != 0 || read_lalias_sw_8() != 0) fail("lalias_sw_8: initial value");
    lalias_sw_8[0] = 1105; if (read_lalias_sw_8() != 1105) fail("lalias_sw_8: write in exe not seen by the library through the alias");
    write_lalias_sw_8(112); if (lalias_sw_8[0] != 112) fail("lalias_sw_8: write by the library through the alias not seen in exe");
    if ((void*)&lalias_st_9 != addr_lalias_st_9() || (void*)&lalias_st_9 != waddr_lalias_st_9()) fail("lalias_st_9: symbol in exe vs its alias used by the library");
    if (lalias_st_9 != 31 || read_lalias_st_9() != 31) fail("lalias_st_9: initial value");
    lalias_st_9 = 1031; if (read_lalias_st_9() != 1031) fail("lalias_st_9: write in exe not seen by the library through the alias");
    write_lalias_st_9(38); if (lalias_st_9 != 38) fail("lalias_st_9: write by the library through the alias not seen in exe");
    if (!bad) printf("OK\n"); return bad ? 1 : 0; }
