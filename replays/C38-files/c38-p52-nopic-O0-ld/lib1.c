int lfunc_0(void){ return 156; }
void *addr_lfunc_0(void){ return (void*)lfunc_0; }
extern int lfunc_0(void); void *l1_addr_lfunc_0(void){ return (void*)lfunc_0; }
int ldata_1[4] = { 98 };
const void *addr_ldata_1(void){ return ldata_1; } int read_ldata_1(void){ return ldata_1[0]; }
extern int ldata_1[]; const void *l1_addr_ldata_1(void){ return ldata_1; } int l1_read_ldata_1(void){ return ldata_1[0]; }
extern int efunc_2(void); void *l1_addr_efunc_2(void){ return (void*)efunc_2; } int l1_call_efunc_2(void){ return efunc_2(); }
static int impl_lifunc_3(void){ return 60; } static void *res_lifunc_3(void){ return (void*)impl_lifunc_3; } int lifunc_3(void) __attribute__((ifunc("res_lifunc_3"))); void *addr_lifunc_3(void){ return (void*)lifunc_3; }
int ldata_bss_4[1];
const void *addr_ldata_bss_4(void){ return ldata_bss_4; } int read_ldata_bss_4(void){ return ldata_bss_4[0]; }
extern int ldata_bss_4[]; const void *l1_addr_ldata_bss_4(void){ return ldata_bss_4; } int l1_read_ldata_bss_4(void){ return ldata_bss_4[0]; }
extern int l2func_5(void); void *l1_addr_l2func_5(void){ return (void*)l2func_5; }
int ldata_bss_6[1];
const void *addr_ldata_bss_6(void){ return ldata_bss_6; } int read_ldata_bss_6(void){ return ldata_bss_6[0]; }
extern int ldata_bss_6[]; const void *l1_addr_ldata_bss_6(void){ return ldata_bss_6; } int l1_read_ldata_bss_6(void){ return ldata_bss_6[0]; }
static int impl_lifunc_7(void){ return 14; } static void *res_lifunc_7(void){ return (void*)impl_lifunc_7; } int lifunc_7(void) __attribute__((ifunc("res_lifunc_7"))); void *addr_lifunc_7(void){ return (void*)lifunc_7; }
int lalias_st_8 = 33; extern __typeof(lalias_st_8) t_lalias_st_8 __attribute__((alias("lalias_st_8")));
void *addr_lalias_st_8(void){ return (void*)&t_lalias_st_8; } int read_lalias_st_8(void){ return t_lalias_st_8; } void write_lalias_st_8(int v){ t_lalias_st_8 = v; } void *waddr_lalias_st_8(void){ return (void*)&t_lalias_st_8; }
int lalias_multi_9 = 137; extern __typeof(lalias_multi_9) w_lalias_multi_9 __attribute__((weak, alias("lalias_multi_9"))); extern __typeof(lalias_multi_9) t_lalias_multi_9 __attribute__((alias("lalias_multi_9")));
void *addr_lalias_multi_9(void){ return (void*)&w_lalias_multi_9; } int read_lalias_multi_9(void){ return w_lalias_multi_9; } void write_lalias_multi_9(int v){ t_lalias_multi_9 = v; } void *waddr_lalias_multi_9(void){ return (void*)&t_lalias_multi_9; }
