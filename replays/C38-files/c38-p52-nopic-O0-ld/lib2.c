int l2func_5(void){ return 156; }
void *addr_l2func_5(void){ return (void*)l2func_5; }
