int lfunc_0(void){ return 150; }
void *addr_lfunc_0(void){ return (void*)lfunc_0; }
extern int lfunc_0(void); void *l1_addr_lfunc_0(void){ return (void*)lfunc_0; }
int ldata_1[4] = { 161 };
const void *addr_ldata_1(void){ return ldata_1; } int read_ldata_1(void){ return ldata_1[0]; }
extern int ldata_1[]; const void *l1_addr_ldata_1(void){ return ldata_1; } int l1_read_ldata_1(void){ return ldata_1[0]; }
const int ldata_ro_2[1] = { 109 };
const void *addr_ldata_ro_2(void){ return ldata_ro_2; } int read_ldata_ro_2(void){ return ldata_ro_2[0]; }
extern const int ldata_ro_2[]; const void *l1_addr_ldata_ro_2(void){ return ldata_ro_2; } int l1_read_ldata_ro_2(void){ return ldata_ro_2[0]; }
extern int efunc_3(void); void *l1_addr_efunc_3(void){ return (void*)efunc_3; } int l1_call_efunc_3(void){ return efunc_3(); }
int ldata_bss_4[1];
const void *addr_ldata_bss_4(void){ return ldata_bss_4; } int read_ldata_bss_4(void){ return ldata_bss_4[0]; }
extern int ldata_bss_4[]; const void *l1_addr_ldata_bss_4(void){ return ldata_bss_4; } int l1_read_ldata_bss_4(void){ return ldata_bss_4[0]; }
int lalias_sw_5[4]; extern __typeof(lalias_sw_5) w_lalias_sw_5 __attribute__((weak, alias("lalias_sw_5")));
void *addr_lalias_sw_5(void){ return (void*)w_lalias_sw_5; } int read_lalias_sw_5(void){ return w_lalias_sw_5[0]; } void write_lalias_sw_5(int v){ w_lalias_sw_5[0] = v; } void *waddr_lalias_sw_5(void){ return (void*)w_lalias_sw_5; }
int lalias_multi_6 = 37; extern __typeof(lalias_multi_6) w_lalias_multi_6 __attribute__((weak, alias("lalias_multi_6"))); extern __typeof(lalias_multi_6) t_lalias_multi_6 __attribute__((alias("lalias_multi_6")));
void *addr_lalias_multi_6(void){ return (void*)&w_lalias_multi_6; } int read_lalias_multi_6(void){ return w_lalias_multi_6; } void write_lalias_multi_6(int v){ t_lalias_multi_6 = v; } void *waddr_lalias_multi_6(void){ return (void*)&t_lalias_multi_6; }
