#include <stdio.h>
static int bad; static void fail(const char *what){ printf("MISMATCH %s\n", what); bad++; }
extern int lfunc_0(void); extern void *addr_lfunc_0(void); extern void *l1_addr_lfunc_0(void); int (*volatile fp_lfunc_0)(void) = lfunc_0;
extern int ldata_1[]; extern const void *addr_ldata_1(void); extern const void *l1_addr_ldata_1(void); extern int read_ldata_1(void); extern int l1_read_ldata_1(void); int *volatile dp_ldata_1 = ldata_1;
extern const int ldata_ro_2[]; extern const void *addr_ldata_ro_2(void); extern const void *l1_addr_ldata_ro_2(void); extern int read_ldata_ro_2(void); extern int l1_read_ldata_ro_2(void); const int *volatile dp_ldata_ro_2 = ldata_ro_2;
int efunc_3(void){ return 67; } extern void *l1_addr_efunc_3(void); extern int l1_call_efunc_3(void);
extern int ldata_bss_4[]; extern const void *addr_ldata_bss_4(void); extern const void *l1_addr_ldata_bss_4(void); extern int read_ldata_bss_4(void); extern int l1_read_ldata_bss_4(void); int *volatile dp_ldata_bss_4 = ldata_bss_4;
extern int lalias_sw_5[]; extern void *addr_lalias_sw_5(void); extern void *waddr_lalias_sw_5(void); extern int read_lalias_sw_5(void); extern void write_lalias_sw_5(int);
extern int lalias_multi_6; extern void *addr_lalias_multi_6(void); extern void *waddr_lalias_multi_6(void); extern int read_lalias_multi_6(void); extern void write_lalias_multi_6(int);
int main(void){
    if ((void*)lfunc_0 != addr_lfunc_0()) fail("lfunc_0: exe vs defining library");
    if ((void*)lfunc_0 != l1_addr_lfunc_0()) fail("lfunc_0: exe vs lib1");
    if ((void*)fp_lfunc_0 != (void*)lfunc_0) fail("lfunc_0: data pointer vs code reference in exe");
    if (fp_lfunc_0() != 150 || lfunc_0() != 150) fail("lfunc_0: call result");
    if ((const void*)ldata_1 != addr_ldata_1()) fail("ldata_1: exe vs defining library");
    if ((const void*)ldata_1 != l1_addr_ldata_1()) fail("ldata_1: exe vs lib1");
    if ((const void*)dp_ldata_1 != (const void*)ldata_1) fail("ldata_1: data pointer vs code reference in exe");
    if (ldata_1[0] != 161 || read_ldata_1() != 161) fail("ldata_1: initial value");
    ldata_1[0] = 1161; if (read_ldata_1() != 1161 || l1_read_ldata_1() != 1161) fail("ldata_1: write through exe not seen by library");
    if ((const void*)ldata_ro_2 != addr_ldata_ro_2()) fail("ldata_ro_2: exe vs defining library");
    if ((const void*)ldata_ro_2 != l1_addr_ldata_ro_2()) fail("ldata_ro_2: exe vs lib1");
    if ((const void*)dp_ldata_ro_2 != (const void*)ldata_ro_2) fail("ldata_ro_2: data pointer vs code reference in exe");
    if (ldata_ro_2[0] != 109 || read_ldata_ro_2() != 109) fail("ldata_ro_2: initial value");
    if ((void*)efunc_3 != l1_addr_efunc_3()) fail("efunc_3: exe function seen from lib1");
    if (l1_call_efunc_3() != 67) fail("efunc_3: call from lib1");
    if ((const void*)ldata_bss_4 != addr_ldata_bss_4()) fail("ldata_bss_4: exe vs defining library");
    if ((const void*)ldata_bss_4 != l1_addr_ldata_bss_4()) fail("ldata_bss_4: exe vs lib1");
    if ((const void*)dp_ldata_bss_4 != (const void*)ldata_bss_4) fail("ldata_bss_4: data pointer vs code reference in exe");
    if (ldata_bss_4[0] != 0 || read_ldata_bss_4() != 0) fail("ldata_bss_4: initial value");
    ldata_bss_4[0] = 1025; if (read_ldata_bss_4() != 1025 || l1_read_ldata_bss_4() != 1025) fail("ldata_bss_4: write through exe not seen by library");
    if ((void*)lalias_sw_5 != addr_lalias_sw_5() || (void*)lalias_sw_5 != waddr_lalias_sw_5()) fail("lalias_sw_5: symbol in exe vs its alias used by the library");
    if (lalias_sw_5[0] != 0 || read_lalias_sw_5() != 0) fail("lalias_sw_5: initial value");
    lalias_sw_5[0] = 1058; if (read_lalias_sw_5() != 1058) fail("lalias_sw_5: write in exe not seen by the library through the alias");
    write_lalias_sw_5(65); if (lalias_sw_5[0] != 65) fail("lalias_sw_5: write by the library through the alias not seen in exe");
    if ((void*)&lalias_multi_6 != addr_lalias_multi_6() || (void*)&lalias_multi_6 != waddr_lalias_multi_6()) fail("lalias_multi_6: symbol in exe vs its alias used by the library");
    if (lalias_multi_6 != 37 || read_lalias_multi_6() != 37) fail("lalias_multi_6: initial value");
    lalias_multi_6 = 1037; if (read_lalias_multi_6() != 1037) fail("lalias_multi_6: write in exe not seen by the library through the alias");
    write_lalias_multi_6(44); if (lalias_multi_6 != 44) fail("lalias_multi_6: write by the library through the alias not seen in exe");
    if (!bad) printf("OK\n"); return bad ? 1 : 0; }
