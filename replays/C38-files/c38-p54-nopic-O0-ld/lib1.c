int lfunc_0(void){ return 29; }
void *addr_lfunc_0(void){ return (void*)lfunc_0; }
extern int lfunc_0(void); void *l1_addr_lfunc_0(void){ return (void*)lfunc_0; }
int ldata_1[16] = { 121 };
const void *addr_ldata_1(void){ return ldata_1; } int read_ldata_1(void){ return ldata_1[0]; }
extern int ldata_1[]; const void *l1_addr_ldata_1(void){ return ldata_1; } int l1_read_ldata_1(void){ return ldata_1[0]; }
extern int efunc_2(void); void *l1_addr_efunc_2(void){ return (void*)efunc_2; } int l1_call_efunc_2(void){ return efunc_2(); }
int ldata_bss_3[1];
const void *addr_ldata_bss_3(void){ return ldata_bss_3; } int read_ldata_bss_3(void){ return ldata_bss_3[0]; }
extern int ldata_bss_3[]; const void *l1_addr_ldata_bss_3(void){ return ldata_bss_3; } int l1_read_ldata_bss_3(void){ return ldata_bss_3[0]; }
const int ldata_ro_4[16] = { 15 };
const void *addr_ldata_ro_4(void){ return ldata_ro_4; } int read_ldata_ro_4(void){ return ldata_ro_4[0]; }
extern const int ldata_ro_4[]; const void *l1_addr_ldata_ro_4(void){ return ldata_ro_4; } int l1_read_ldata_ro_4(void){ return ldata_ro_4[0]; }
int real_lalias_5 = 17; extern int lalias_5 __attribute__((weak, alias("real_lalias_5")));
void *addr_lalias_5(void){ return &real_lalias_5; } int read_lalias_5(void){ return real_lalias_5; } void write_lalias_5(int v){ real_lalias_5 = v; }
int ldata_bss_6[1];
const void *addr_ldata_bss_6(void){ return ldata_bss_6; } int read_ldata_bss_6(void){ return ldata_bss_6[0]; }
extern int ldata_bss_6[]; const void *l1_addr_ldata_bss_6(void){ return ldata_bss_6; } int l1_read_ldata_bss_6(void){ return ldata_bss_6[0]; }
int lalias_ts_7 = 129; extern __typeof(lalias_ts_7) t_lalias_ts_7 __attribute__((alias("lalias_ts_7")));
void *addr_lalias_ts_7(void){ return (void*)&lalias_ts_7; } int read_lalias_ts_7(void){ return lalias_ts_7; } void write_lalias_ts_7(int v){ lalias_ts_7 = v; } void *waddr_lalias_ts_7(void){ return (void*)&lalias_ts_7; }
int lalias_sw_8 = 163; extern __typeof(lalias_sw_8) w_lalias_sw_8 __attribute__((weak, alias("lalias_sw_8")));
void *addr_lalias_sw_8(void){ return (void*)&w_lalias_sw_8; } int read_lalias_sw_8(void){ return w_lalias_sw_8; } void write_lalias_sw_8(int v){ w_lalias_sw_8 = v; } void *waddr_lalias_sw_8(void){ return (void*)&w_lalias_sw_8; }
