#include <stdio.h>
static int bad; static void fail(const char *what){ printf("MISMATCH %s\n", what); bad++; }
extern int lfunc_0(void); extern void *addr_lfunc_0(void); extern void *l1_addr_lfunc_0(void); int (*volatile fp_lfunc_0)(void) = lfunc_0;
extern int ldata_1[]; extern const void *addr_ldata_1(void); extern const void *l1_addr_ldata_1(void); extern int read_ldata_1(void); extern int l1_read_ldata_1(void); int *volatile dp_ldata_1 = ldata_1;
int efunc_2(void){ return 31; } extern void *l1_addr_efunc_2(void); extern int l1_call_efunc_2(void);
extern int ldata_bss_3[]; extern const void *addr_ldata_bss_3(void); extern const void *l1_addr_ldata_bss_3(void); extern int read_ldata_bss_3(void); extern int l1_read_ldata_bss_3(void); int *volatile dp_ldata_bss_3 = ldata_bss_3;
extern const int ldata_ro_4[]; extern const void *addr_ldata_ro_4(void); extern const void *l1_addr_ldata_ro_4(void); extern int read_ldata_ro_4(void); extern int l1_read_ldata_ro_4(void); const int *volatile dp_ldata_ro_4 = ldata_ro_4;
extern int lalias_5; extern void *addr_lalias_5(void); extern int read_lalias_5(void); extern void write_lalias_5(int);
extern int ldata_bss_6[]; extern const void *addr_ldata_bss_6(void); extern const void *l1_addr_ldata_bss_6(void); extern int read_ldata_bss_6(void); extern int l1_read_ldata_bss_6(void); int *volatile dp_ldata_bss_6 = ldata_bss_6;
extern int t_lalias_ts_7; extern void *addr_lalias_ts_7(void); extern void *waddr_lalias_ts_7(void); extern int read_lalias_ts_7(void); extern void write_lalias_ts_7(int);
extern int lalias_sw_8; extern void *addr_lalias_sw_8(void); extern void *waddr_lalias_sw_8(void); extern int read_lalias_sw_8(void); extern void write_lalias_sw_8(int);
int main(void){
    if ((void*)lfunc_0 != addr_lfunc_0()) fail("lfunc_0: exe vs defining library");
    if ((void*)lfunc_0 != l1_addr_lfunc_0()) fail("lfunc_0: exe vs lib1");
    if ((void*)fp_lfunc_0 != (void*)lfunc_0) fail("lfunc_0: data pointer vs code reference in exe");
    if (fp_lfunc_0() != 29 || lfunc_0() != 29) fail("lfunc_0: call result");
    if ((const void*)ldata_1 != addr_ldata_1()) fail("ldata_1: exe vs defining library");
    if ((const void*)ldata_1 != l1_addr_ldata_1()) fail("ldata_1: exe vs lib1");
    if ((const void*)dp_ldata_1 != (const void*)ldata_1) fail("ldata_1: data pointer vs code reference in exe");
    if (ldata_1[0] != 121 || read_ldata_1() != 121) fail("ldata_1: initial value");
    ldata_1[0] = 1121; if (read_ldata_1() != 1121 || l1_read_ldata_1() != 1121) fail("ldata_1: write through exe not seen by library");
    if ((void*)efunc_2 != l1_addr_efunc_2()) fail("efunc_2: exe function seen from lib1");
    if (l1_call_efunc_2() != 31) fail("efunc_2: call from lib1");
    if ((const void*)ldata_bss_3 != addr_ldata_bss_3()) fail("ldata_bss_3: exe vs defining library");
    if ((const void*)ldata_bss_3 != l1_addr_ldata_bss_3()) fail("ldata_bss_3: exe vs lib1");
    if ((const void*)dp_ldata_bss_3 != (const void*)ldata_bss_3) fail("ldata_bss_3: data pointer vs code reference in exe");
    if (ldata_bss_3[0] != 0 || read_ldata_bss_3() != 0) fail("ldata_bss_3: initial value");
    ldata_bss_3[0] = 1126; if (read_ldata_bss_3() != 1126 || l1_read_ldata_bss_3() != 1126) fail("ldata_bss_3: write through exe not seen by library");
    if ((const void*)ldata_ro_4 != addr_ldata_ro_4()) fail("ldata_ro_4: exe vs defining library");
    if ((const void*)ldata_ro_4 != l1_addr_ldata_ro_4()) fail("ldata_ro_4: exe vs lib1");
    if ((const void*)dp_ldata_ro_4 != (const void*)ldata_ro_4) fail("ldata_ro_4: data pointer vs code reference in exe");
    if (ldata_ro_4[0] != 15 || read_ldata_ro_4() != 15) fail("ldata_ro_4: initial value");
    if ((void*)&lalias_5 != addr_lalias_5()) fail("lalias_5: weak alias in exe vs strong symbol in library");
    write_lalias_5(24); if (lalias_5 != 24) fail("lalias_5: write through strong symbol not seen through alias");
    lalias_5 = 26; if (read_lalias_5() != 26) fail("lalias_5: write through alias not seen through strong symbol");
    if ((const void*)ldata_bss_6 != addr_ldata_bss_6()) fail("ldata_bss_6: exe vs defining library");
    if ((const void*)ldata_bss_6 != l1_addr_ldata_bss_6()) fail("ldata_bss_6: exe vs lib1");
    if ((const void*)dp_ldata_bss_6 != (const void*)ldata_bss_6) fail("ldata_bss_6: data pointer vs code reference in exe");
    if (ldata_bss_6[0] != 0 || read_ldata_bss_6() != 0) fail("ldata_bss_6: initial value");
    ldata_bss_6[0] = 1012; if (read_ldata_bss_6() != 1012 || l1_read_ldata_bss_6() != 1012) fail("ldata_bss_6: write through exe not seen by library");
    if ((void*)&t_lalias_ts_7 != addr_lalias_ts_7() || (void*)&t_lalias_ts_7 != waddr_lalias_ts_7()) fail("lalias_ts_7: symbol in exe vs its alias used by the library");
    if (t_lalias_ts_7 != 129 || read_lalias_ts_7() != 129) fail("lalias_ts_7: initial value");
    t_lalias_ts_7 = 1129; if (read_lalias_ts_7() != 1129) fail("lalias_ts_7: write in exe not seen by the library through the alias");
    write_lalias_ts_7(136); if (t_lalias_ts_7 != 136) fail("lalias_ts_7: write by the library through the alias not seen in exe");
    if ((void*)&lalias_sw_8 != addr_lalias_sw_8() || (void*)&lalias_sw_8 != waddr_lalias_sw_8()) fail("lalias_sw_8: symbol in exe vs its alias used by the library");
    if (lalias_sw_8 != 163 || read_lalias_sw_8() != 163) fail("lalias_sw_8: initial value");
    lalias_sw_8 = 1163; if (read_lalias_sw_8() != 1163) fail("lalias_sw_8: write in exe not seen by the library through the alias");
    write_lalias_sw_8(170); if (lalias_sw_8 != 170) fail("lalias_sw_8: write by the library through the alias not seen in exe");
    if (!bad) printf("OK\n"); return bad ? 1 : 0; }
