#include <stdio.h>
static int bad; static void fail(const char *what){ printf("MISMATCH %s\n", what); bad++; }
extern int lfunc_0(void); extern void *addr_lfunc_0(void); extern void *l1_addr_lfunc_0(void); int (*volatile fp_lfunc_0)(void) = lfunc_0;
extern int ldata_1[]; extern const void *addr_ldata_1(void); extern const void *l1_addr_ldata_1(void); extern int read_ldata_1(void); extern int l1_read_ldata_1(void); int *volatile dp_ldata_1 = ldata_1;
static int impl_eifunc_2(void){ return 36; } static void *res_eifunc_2(void){ return (void*)impl_eifunc_2; } int eifunc_2(void) __attribute__((ifunc("res_eifunc_2"))); extern void *l1_addr_eifunc_2(void); extern int l1_call_eifunc_2(void); int (*volatile fp_eifunc_2)(void) = eifunc_2;
extern int ldata_3[]; extern const void *addr_ldata_3(void); extern const void *l1_addr_ldata_3(void); extern int read_ldata_3(void); extern int l1_read_ldata_3(void); int *volatile dp_ldata_3 = ldata_3;
extern int ldata_4[]; extern const void *addr_ldata_4(void); extern const void *l1_addr_ldata_4(void); extern int read_ldata_4(void); extern int l1_read_ldata_4(void); int *volatile dp_ldata_4 = ldata_4;
static int impl_eifunc_5(void){ return 85; } static void *res_eifunc_5(void){ return (void*)impl_eifunc_5; } int eifunc_5(void) __attribute__((ifunc("res_eifunc_5"))); extern void *l1_addr_eifunc_5(void); extern int l1_call_eifunc_5(void); int (*volatile fp_eifunc_5)(void) = eifunc_5;
extern int lalias_sw_6; extern void *addr_lalias_sw_6(void); extern void *waddr_lalias_sw_6(void); extern int read_lalias_sw_6(void); extern void write_lalias_sw_6(int);
extern int t_lalias_ts_7[]; extern void *addr_lalias_ts_7(void); extern void *waddr_lalias_ts_7(void); extern int read_lalias_ts_7(void); extern void write_lalias_ts_7(int);
int main(void){
    if ((void*)lfunc_0 != addr_lfunc_0()) fail("lfunc_0: exe vs defining library");
    if ((void*)lfunc_0 != l1_addr_lfunc_0()) fail("lfunc_0: exe vs lib1");
    if ((void*)fp_lfunc_0 != (void*)lfunc_0) fail("lfunc_0: data pointer vs code reference in exe");
    if (fp_lfunc_0() != 28 || lfunc_0() != 28) fail("lfunc_0: call result");
    if ((const void*)ldata_1 != addr_ldata_1()) fail("ldata_1: exe vs defining library");
    if ((const void*)ldata_1 != l1_addr_ldata_1()) fail("ldata_1: exe vs lib1");
    if ((const void*)dp_ldata_1 != (const void*)ldata_1) fail("ldata_1: data pointer vs code reference in exe");
    if (ldata_1[0] != 138 || read_ldata_1() != 138) fail("ldata_1: initial value");
    ldata_1[0] = 1138; if (read_ldata_1() != 1138 || l1_read_ldata_1() != 1138) fail("ldata_1: write through exe not seen by library");
    if ((void*)fp_eifunc_2 != (void*)eifunc_2) fail("eifunc_2: ifunc address in data vs code in exe");
    
#ifdef EIFUNC_FROM_LIB
    if ((void*)eifunc_2 != l1_addr_eifunc_2()) fail("eifunc_2: exe ifunc address seen from lib1"); if (l1_call_eifunc_2() != 36) fail("eifunc_2: ifunc call from lib1");
#endif
    if (eifunc_2() != 36 || fp_eifunc_2() != 36) fail("eifunc_2: ifunc call result");
    if ((const void*)ldata_3 != addr_ldata_3()) fail("ldata_3: exe vs defining library");
    if ((const void*)ldata_3 != l1_addr_ldata_3()) fail("ldata_3: exe vs lib1");
    if ((const void*)dp_ldata_3 != (const void*)ldata_3) fail("ldata_3: data pointer vs code reference in exe");
    if (ldata_3[0] != 144 || read_ldata_3() != 144) fail("ldata_3: initial value");
    ldata_3[0] = 1144; if (read_ldata_3() != 1144 || l1_read_ldata_3() != 1144) fail("ldata_3: write through exe not seen by library");
    if ((const void*)ldata_4 != addr_ldata_4()) fail("ldata_4: exe vs defining library");
    if ((const void*)ldata_4 != l1_addr_ldata_4()) fail("ldata_4: exe vs lib1");
    if ((const void*)dp_ldata_4 != (const void*)ldata_4) fail("ldata_4: data pointer vs code reference in exe");
    if (ldata_4[0] != 37 || read_ldata_4() != 37) fail("ldata_4: initial value");
    ldata_4[0] = 1037; if (read_ldata_4() != 1037 || l1_read_ldata_4() != 1037) fail("ldata_4: write through exe not seen by library");
    if ((void*)fp_eifunc_5 != (void*)eifunc_5) fail("eifunc_5: ifunc address in data vs code in exe");
    
#ifdef EIFUNC_FROM_LIB
    if ((void*)eifunc_5 != l1_addr_eifunc_5()) fail("eifunc_5: exe ifunc address seen from lib1"); if (l1_call_eifunc_5() != 85) fail("eifunc_5: ifunc call from lib1");
#endif
    if (eifunc_5() != 85 || fp_eifunc_5() != 85) fail("eifunc_5: ifunc call result");
    if ((void*)&lalias_sw_6 != addr_lalias_sw_6() || (void*)&lalias_sw_6 != waddr_lalias_sw_6()) fail("lalias_sw_6: symbol in exe vs its alias used by the library");
    if (lalias_sw_6 != 44 || read_lalias_sw_6() != 44) fail("lalias_sw_6: initial value");
    lalias_sw_6 = 1044; if (read_lalias_sw_6() != 1044) fail("lalias_sw_6: write in exe not seen by the library through the alias");
    write_lalias_sw_6(51); if (lalias_sw_6 != 51) fail("lalias_sw_6: write by the library through the alias not seen in exe");
    if ((void*)t_lalias_ts_7 != addr_lalias_ts_7() || (void*)t_lalias_ts_7 != waddr_lalias_ts_7()) fail("lalias_ts_7: symbol in exe vs its alias used by the library");
    if (t_lalias_ts_7[0] != 0 || read_lalias_ts_7() != 0) fail("lalias_ts_7: initial value");
    t_lalias_ts_7[0] = 1161; if (read_lalias_ts_7() != 1161) fail("lalias_ts_7: write in exe not seen by the library through the alias");
    write_lalias_ts_7(168); if (t_lalias_ts_7[0] != 168) fail("lalias_ts_7: write by the library through the alias not seen in exe");
    if (!bad) printf("OK\n"); return bad ? 1 : 0; }
