int lfunc_0(void){ return 155; }
void *addr_lfunc_0(void){ return (void*)lfunc_0; }
extern int lfunc_0(void); void *l1_addr_lfunc_0(void){ return (void*)lfunc_0; }
int ldata_1[4] = { 110 };
const void *addr_ldata_1(void){ return ldata_1; } int read_ldata_1(void){ return ldata_1[0]; }
extern int ldata_1[]; const void *l1_addr_ldata_1(void){ return ldata_1; } int l1_read_ldata_1(void){ return ldata_1[0]; }
extern int l2func_2(void); void *l1_addr_l2func_2(void){ return (void*)l2func_2; }
int real_lalias_3 = 151; extern int lalias_3 __attribute__((weak, alias("real_lalias_3")));
void *addr_lalias_3(void){ return &real_lalias_3; } int read_lalias_3(void){ return real_lalias_3; } void write_lalias_3(int v){ real_lalias_3 = v; }
extern int efunc_4(void); void *l1_addr_efunc_4(void){ return (void*)efunc_4; } int l1_call_efunc_4(void){ return efunc_4(); }
extern int edata_5[]; void *l1_addr_edata_5(void){ return edata_5; } int l1_read_edata_5(void){ return edata_5[0]; }
static int impl_lifunc_6(void){ return 160; } static void *res_lifunc_6(void){ return (void*)impl_lifunc_6; } int lifunc_6(void) __attribute__((ifunc("res_lifunc_6"))); void *addr_lifunc_6(void){ return (void*)lifunc_6; }
int lalias_st_7[16]; extern __typeof(lalias_st_7) t_lalias_st_7 __attribute__((alias("lalias_st_7")));
void *addr_lalias_st_7(void){ return (void*)t_lalias_st_7; } int read_lalias_st_7(void){ return t_lalias_st_7[0]; } void write_lalias_st_7(int v){ t_lalias_st_7[0] = v; } void *waddr_lalias_st_7(void){ return (void*)t_lalias_st_7; }
int lalias_multi_8 = 196; extern __typeof(lalias_multi_8) w_lalias_multi_8 __attribute__((weak, alias("lalias_multi_8"))); extern __typeof(lalias_multi_8) t_lalias_multi_8 __attribute__((alias("lalias_multi_8")));
void *addr_lalias_multi_8(void){ return (void*)&w_lalias_multi_8; } int read_lalias_multi_8(void){ return w_lalias_multi_8; } void write_lalias_multi_8(int v){ t_lalias_multi_8 = v; } void *waddr_lalias_multi_8(void){ return (void*)&t_lalias_multi_8; }
