#include <stdio.h>
static int bad; static void fail(const char *what){ printf("MISMATCH %s\n", what); bad++; }
extern int lfunc_0(void); extern void *addr_lfunc_0(void); extern void *l1_addr_lfunc_0(void); int (*volatile fp_lfunc_0)(void) = lfunc_0;
extern int ldata_1[]; extern const void *addr_ldata_1(void); extern const void *l1_addr_ldata_1(void); extern int read_ldata_1(void); extern int l1_read_ldata_1(void); int *volatile dp_ldata_1 = ldata_1;
extern int l2func_2(void); extern void *addr_l2func_2(void); extern void *l1_addr_l2func_2(void); int (*volatile fp_l2func_2)(void) = l2func_2;
extern int lalias_3; extern void *addr_lalias_3(void); extern int read_lalias_3(void); extern void write_lalias_3(int);
int efunc_4(void){ return 152; } extern void *l1_addr_efunc_4(void); extern int l1_call_efunc_4(void);
int edata_5[1] = { 68 }; extern void *l1_addr_edata_5(void); extern int l1_read_edata_5(void);
extern int lifunc_6(void); extern void *addr_lifunc_6(void); int (*volatile fp_lifunc_6)(void) = lifunc_6;
extern int lalias_st_7[]; extern void *addr_lalias_st_7(void); extern void *waddr_lalias_st_7(void); extern int read_lalias_st_7(void); extern void write_lalias_st_7(int);
extern int lalias_multi_8; extern void *addr_lalias_multi_8(void); extern void *waddr_lalias_multi_8(void); extern int read_lalias_multi_8(void); extern void write_lalias_multi_8(int);
int main(void){
    if ((void*)lfunc_0 != addr_lfunc_0()) fail("lfunc_0: exe vs defining library");
    if ((void*)lfunc_0 != l1_addr_lfunc_0()) fail("lfunc_0: exe vs lib1");
    if ((void*)fp_lfunc_0 != (void*)lfunc_0) fail("lfunc_0: data pointer vs code reference in exe");
    if (fp_lfunc_0() != 155 || lfunc_0() != 155) fail("lfunc_0: call result");
    if ((const void*)ldata_1 != addr_ldata_1()) fail("ldata_1: exe vs defining library");
    if ((const void*)ldata_1 != l1_addr_ldata_1()) fail("ldata_1: exe vs lib1");
    if ((const void*)dp_ldata_1 != (const void*)ldata_1) fail("ldata_1: data pointer vs code reference in exe");
    if (ldata_1[0] != 110 || read_ldata_1() != 110) fail("ldata_1: initial value");
    ldata_1[0] = 1110; if (read_ldata_1() != 1110 || l1_read_ldata_1() != 1110) fail("ldata_1: write through exe not seen by library");
    if ((void*)l2func_2 != addr_l2func_2()) fail("l2func_2: exe vs defining library");
    if ((void*)l2func_2 != l1_addr_l2func_2()) fail("l2func_2: exe vs lib1");
    if ((void*)fp_l2func_2 != (void*)l2func_2) fail("l2func_2: data pointer vs code reference in exe");
    if (fp_l2func_2() != 172 || l2func_2() != 172) fail("l2func_2: call result");
    if ((void*)&lalias_3 != addr_lalias_3()) fail("lalias_3: weak alias in exe vs strong symbol in library");
    write_lalias_3(158); if (lalias_3 != 158) fail("lalias_3: write through strong symbol not seen through alias");
    lalias_3 = 160; if (read_lalias_3() != 160) fail("lalias_3: write through alias not seen through strong symbol");
    if ((void*)efunc_4 != l1_addr_efunc_4()) fail("efunc_4: exe function seen from lib1");
    if (l1_call_efunc_4() != 152) fail("efunc_4: call from lib1");
    if ((void*)edata_5 != l1_addr_edata_5()) fail("edata_5: exe data seen from lib1");
    edata_5[0] = 73; if (l1_read_edata_5() != 73) fail("edata_5: write in exe not seen by lib1");
    if ((void*)lifunc_6 != addr_lifunc_6()) fail("lifunc_6: library ifunc address exe vs library");
    if ((void*)fp_lifunc_6 != (void*)lifunc_6) fail("lifunc_6: library ifunc address data vs code in exe");
    if (lifunc_6() != 160 || fp_lifunc_6() != 160) fail("lifunc_6: ifunc call result");
    if ((void*)lalias_st_7 != addr_lalias_st_7() || (void*)lalias_st_7 != waddr_lalias_st_7()) fail("lalias_st_7: symbol in exe vs its alias used by the library");
    if (lalias_st_7[0] != 0 || read_lalias_st_7() != 0) fail("lalias_st_7: initial value");
    lalias_st_7[0] = 1019; if (read_lalias_st_7() != 1019) fail("lalias_st_7: write in exe not seen by the library through the alias");
    write_lalias_st_7(26); if (lalias_st_7[0] != 26) fail("lalias_st_7: write by the library through the alias not seen in exe");
    if ((void*)&lalias_multi_8 != addr_lalias_multi_8() || (void*)&lalias_multi_8 != waddr_lalias_multi_8()) fail("lalias_multi_8: symbol in exe vs its alias used by the library");
    if (lalias_multi_8 != 196 || read_lalias_multi_8() != 196) fail("lalias_multi_8: initial value");
    lalias_multi_8 = 1196; if (read_lalias_multi_8() != 1196) fail("lalias_multi_8: write in exe not seen by the library through the alias");
    write_lalias_multi_8(203); if (lalias_multi_8 != 203) fail("lalias_multi_8: write by the library through the alias not seen in exe");
    if (!bad) printf("OK\n"); return bad ? 1 : 0; }
