int lfunc_0(void){ return 142; }
void *addr_lfunc_0(void){ return (void*)lfunc_0; }
extern int lfunc_0(void); void *l1_addr_lfunc_0(void){ return (void*)lfunc_0; }
int ldata_1[4] = { 33 };
const void *addr_ldata_1(void){ return ldata_1; } int read_ldata_1(void){ return ldata_1[0]; }
extern int ldata_1[]; const void *l1_addr_ldata_1(void){ return ldata_1; } int l1_read_ldata_1(void){ return ldata_1[0]; }
const int ldata_ro_2[2] = { 68 };
const void *addr_ldata_ro_2(void){ return ldata_ro_2; } int read_ldata_ro_2(void){ return ldata_ro_2[0]; }
extern const int ldata_ro_2[]; const void *l1_addr_ldata_ro_2(void){ return ldata_ro_2; } int l1_read_ldata_ro_2(void){ return ldata_ro_2[0]; }
const int ldata_ro_3[1] = { 11 };
const void *addr_ldata_ro_3(void){ return ldata_ro_3; } int read_ldata_ro_3(void){ return ldata_ro_3[0]; }
extern const int ldata_ro_3[]; const void *l1_addr_ldata_ro_3(void){ return ldata_ro_3; } int l1_read_ldata_ro_3(void){ return ldata_ro_3[0]; }
int real_lalias_4 = 22; extern int lalias_4 __attribute__((weak, alias("real_lalias_4")));
void *addr_lalias_4(void){ return &real_lalias_4; } int read_lalias_4(void){ return real_lalias_4; } void write_lalias_4(int v){ real_lalias_4 = v; }
extern int efunc_5(void); void *l1_addr_efunc_5(void){ return (void*)efunc_5; } int l1_call_efunc_5(void){ return efunc_5(); }
int lalias_sw_6[16]; extern __typeof(lalias_sw_6) w_lalias_sw_6 __attribute__((weak, alias("lalias_sw_6")));
void *addr_lalias_sw_6(void){ return (void*)w_lalias_sw_6; } int read_lalias_sw_6(void){ return w_lalias_sw_6[0]; } void write_lalias_sw_6(int v){ w_lalias_sw_6[0] = v; } void *waddr_lalias_sw_6(void){ return (void*)w_lalias_sw_6; }
int lalias_multi_7[16]; extern __typeof(lalias_multi_7) w_lalias_multi_7 __attribute__((weak, alias("lalias_multi_7"))); extern __typeof(lalias_multi_7) t_lalias_multi_7 __attribute__((alias("lalias_multi_7")));
void *addr_lalias_multi_7(void){ return (void*)w_lalias_multi_7; } int read_lalias_multi_7(void){ return w_lalias_multi_7[0]; } void write_lalias_multi_7(int v){ t_lalias_multi_7[0] = v; } void *waddr_lalias_multi_7(void){ return (void*)t_lalias_multi_7; }
