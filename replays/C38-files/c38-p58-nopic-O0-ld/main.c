#include <stdio.h>
static int bad; static void fail(const char *what){ printf("MISMATCH %s\n", what); bad++; }
extern int lfunc_0(void); extern void *addr_lfunc_0(void); extern void *l1_addr_lfunc_0(void); int (*volatile fp_lfunc_0)(void) = lfunc_0;
extern int ldata_1[]; extern const void *addr_ldata_1(void); extern const void *l1_addr_ldata_1(void); extern int read_ldata_1(void); extern int l1_read_ldata_1(void); int *volatile dp_ldata_1 = ldata_1;
extern const int ldata_ro_2[]; extern const void *addr_ldata_ro_2(void); extern const void *l1_addr_ldata_ro_2(void); extern int read_ldata_ro_2(void); extern int l1_read_ldata_ro_2(void); const int *volatile dp_ldata_ro_2 = ldata_ro_2;
extern const int ldata_ro_3[]; extern const void *addr_ldata_ro_3(void); extern const void *l1_addr_ldata_ro_3(void); extern int read_ldata_ro_3(void); extern int l1_read_ldata_ro_3(void); const int *volatile dp_ldata_ro_3 = ldata_ro_3;
extern int lalias_4; extern void *addr_lalias_4(void); extern int read_lalias_4(void); extern void write_lalias_4(int);
int efunc_5(void){ return 140; } extern void *l1_addr_efunc_5(void); extern int l1_call_efunc_5(void);
extern int lalias_sw_6[]; extern void *addr_lalias_sw_6(void); extern void *waddr_lalias_sw_6(void); extern int read_lalias_sw_6(void); extern void write_lalias_sw_6(int);
extern int lalias_multi_7[]; extern void *addr_lalias_multi_7(void); extern void *waddr_lalias_multi_7(void); extern int read_lalias_multi_7(void); extern void write_lalias_multi_7(int);
int main(void){
    if ((void*)lfunc_0 != addr_lfunc_0()) fail("lfunc_0: exe vs defining library");
    if ((void*)lfunc_0 != l1_addr_lfunc_0()) fail("lfunc_0: exe vs lib1");
    if ((void*)fp_lfunc_0 != (void*)lfunc_0) fail("lfunc_0: data pointer vs code reference in exe");
    if (fp_lfunc_0() != 142 || lfunc_0() != 142) fail("lfunc_0: call result");
    if ((const void*)ldata_1 != addr_ldata_1()) fail("ldata_1: exe vs defining library");
    if ((const void*)ldata_1 != l1_addr_ldata_1()) fail("ldata_1: exe vs lib1");
    if ((const void*)dp_ldata_1 != (const void*)ldata_1) fail("ldata_1: data pointer vs code reference in exe");
    if (ldata_1[0] != 33 || read_ldata_1() != 33) fail("ldata_1: initial value");
    ldata_1[0] = 1033; if (read_ldata_1() != 1033 || l1_read_ldata_1() != 1033) fail("ldata_1: write through exe not seen by library");
    if ((const void*)ldata_ro_2 != addr_ldata_ro_2()) fail("ldata_ro_2: exe vs defining library");
    if ((const void*)ldata_ro_2 != l1_addr_ldata_ro_2()) fail("ldata_ro_2: exe vs lib1");
    if ((const void*)dp_ldata_ro_2 != (const void*)ldata_ro_2) fail("ldata_ro_2: data pointer vs code reference in exe");
    if (ldata_ro_2[0] != 68 || read_ldata_ro_2() != 68) fail("ldata_ro_2: initial value");
    if ((const void*)ldata_ro_3 != addr_ldata_ro_3()) fail("ldata_ro_3: exe vs defining library");
    if ((const void*)ldata_ro_3 != l1_addr_ldata_ro_3()) fail("ldata_ro_3: exe vs lib1");
    if ((const void*)dp_ldata_ro_3 != (const void*)ldata_ro_3) fail("ldata_ro_3: data pointer vs code reference in exe");
    if (ldata_ro_3[0] != 11 || read_ldata_ro_3() != 11) fail("ldata_ro_3: initial value");
    if ((void*)&lalias_4 != addr_lalias_4()) fail("lalias_4: weak alias in exe vs strong symbol in library");
    write_lalias_4(29); if (lalias_4 != 29) fail("lalias_4: write through strong symbol not seen through alias");
    lalias_4 = 31; if (read_lalias_4() != 31) fail("lalias_4: write through alias not seen through strong symbol");
    if ((void*)efunc_5 != l1_addr_efunc_5()) fail("efunc_5: exe function seen from lib1");
    if (l1_call_efunc_5() != 140) fail("efunc_5: call from lib1");
    if ((void*)lalias_sw_6 != addr_lalias_sw_6() || (void*)lalias_sw_6 != waddr_lalias_sw_6()) fail("lalias_sw_6: symbol in exe vs its alias used by the library");
    if (lalias_sw_6[0] != 0 || read_lalias_sw_6() != 0) fail("lalias_sw_6: initial value");
    lalias_sw_6[0] = 1147; if (read_lalias_sw_6() != 1147) fail("lalias_sw_6: write in exe not seen by the library through the alias");
    write_lalias_sw_6(154); if (lalias_sw_6[0] != 154) fail("lalias_sw_6: write by the library through the alias not seen in exe");
    if ((void*)lalias_multi_7 != addr_lalias_multi_7() || (void*)lalias_multi_7 != waddr_lalias_multi_7()) fail("lalias_multi_7: symbol in exe vs its alias used by the library");
    if (lalias_multi_7[0] != 0 || read_lalias_multi_7() != 0) fail("lalias_multi_7: initial value");
    lalias_multi_7[0] = 1025; if (read_lalias_multi_7() != 1025) fail("lalias_multi_7: write in exe not seen by the library through the alias");
    write_lalias_multi_7(32); if (lalias_multi_7[0] != 32) fail("lalias_multi_7: write by the library through the alias not seen in exe");
    if (!bad) printf("OK\n"); return bad ? 1 : 0; }
