int lfunc_0(void){ return 28; }
void *addr_lfunc_0(void){ return (void*)lfunc_0; }
extern int lfunc_0(void); void *l1_addr_lfunc_0(void){ return (void*)lfunc_0; }
int ldata_1[2] = { 91 };
const void *addr_ldata_1(void){ return ldata_1; } int read_ldata_1(void){ return ldata_1[0]; }
extern int ldata_1[]; const void *l1_addr_ldata_1(void){ return ldata_1; } int l1_read_ldata_1(void){ return ldata_1[0]; }
extern int efunc_2(void); void *l1_addr_efunc_2(void){ return (void*)efunc_2; } int l1_call_efunc_2(void){ return efunc_2(); }
#ifdef EIFUNC_FROM_LIB
extern int eifunc_3(void); void *l1_addr_eifunc_3(void){ return (void*)eifunc_3; } int l1_call_eifunc_3(void){ return eifunc_3(); }
#endif
int ldata_bss_4[2];
const void *addr_ldata_bss_4(void){ return ldata_bss_4; } int read_ldata_bss_4(void){ return ldata_bss_4[0]; }
extern int ldata_bss_4[]; const void *l1_addr_ldata_bss_4(void){ return ldata_bss_4; } int l1_read_ldata_bss_4(void){ return ldata_bss_4[0]; }
extern int l2func_5(void); void *l1_addr_l2func_5(void){ return (void*)l2func_5; }
int ldata_bss_6[16];
const void *addr_ldata_bss_6(void){ return ldata_bss_6; } int read_ldata_bss_6(void){ return ldata_bss_6[0]; }
extern int ldata_bss_6[]; const void *l1_addr_ldata_bss_6(void){ return ldata_bss_6; } int l1_read_ldata_bss_6(void){ return ldata_bss_6[0]; }
int lalias_ts_7 = 129; extern __typeof(lalias_ts_7) t_lalias_ts_7 __attribute__((alias("lalias_ts_7")));
void *addr_lalias_ts_7(void){ return (void*)&lalias_ts_7; } int read_lalias_ts_7(void){ return lalias_ts_7; } void write_lalias_ts_7(int v){ lalias_ts_7 = v; } void *waddr_lalias_ts_7(void){ return (void*)&lalias_ts_7; }
int lalias_sw_8 = 131; extern __typeof(lalias_sw_8) w_lalias_sw_8 __attribute__((weak, alias("lalias_sw_8")));
void *addr_lalias_sw_8(void){ return (void*)&w_lalias_sw_8; } int read_lalias_sw_8(void){ return w_lalias_sw_8; } void write_lalias_sw_8(int v){ w_lalias_sw_8 = v; } void *waddr_lalias_sw_8(void){ return (void*)&w_lalias_sw_8; }
