int l2func_5(void){ return 99; }
void *addr_l2func_5(void){ return (void*)l2func_5; }
