#include <stdio.h>
static int bad; static void fail(const char *what){ printf("MISMATCH %s\n", what); bad++; }
extern int lfunc_0(void); extern void *addr_lfunc_0(void); extern void *l1_addr_lfunc_0(void); int (*volatile fp_lfunc_0)(void) = lfunc_0;
extern int ldata_1[]; extern const void *addr_ldata_1(void); extern const void *l1_addr_ldata_1(void); extern int read_ldata_1(void); extern int l1_read_ldata_1(void); int *volatile dp_ldata_1 = ldata_1;
int efunc_2(void){ return 147; } extern void *l1_addr_efunc_2(void); extern int l1_call_efunc_2(void);
static int impl_eifunc_3(void){ return 140; } static void *res_eifunc_3(void){ return (void*)impl_eifunc_3; } int eifunc_3(void) __attribute__((ifunc("res_eifunc_3"))); extern void *l1_addr_eifunc_3(void); extern int l1_call_eifunc_3(void); int (*volatile fp_eifunc_3)(void) = eifunc_3;
extern int ldata_bss_4[]; extern const void *addr_ldata_bss_4(void); extern const void *l1_addr_ldata_bss_4(void); extern int read_ldata_bss_4(void); extern int l1_read_ldata_bss_4(void); int *volatile dp_ldata_bss_4 = ldata_bss_4;
extern int l2func_5(void); extern void *addr_l2func_5(void); extern void *l1_addr_l2func_5(void); int (*volatile fp_l2func_5)(void) = l2func_5;
extern int ldata_bss_6[]; extern const void *addr_ldata_bss_6(void); extern const void *l1_addr_ldata_bss_6(void); extern int read_ldata_bss_6(void); extern int l1_read_ldata_bss_6(void); int *volatile dp_ldata_bss_6 = ldata_bss_6;
extern int t_lalias_ts_7; extern void *addr_lalias_ts_7(void); extern void *waddr_lalias_ts_7(void); extern int read_lalias_ts_7(void); extern void write_lalias_ts_7(int);
extern int lalias_sw_8; extern void *addr_lalias_sw_8(void); extern void *waddr_lalias_sw_8(void); extern int read_lalias_sw_8(void); extern void write_lalias_sw_8(int);
int main(void){
    if ((void*)lfunc_0 != addr_lfunc_0()) fail("lfunc_0: exe vs defining library");
    if ((void*)lfunc_0 != l1_addr_lfunc_0()) fail("lfunc_0: exe vs lib1");
    if ((void*)fp_lfunc_0 != (void*)lfunc_0) fail("lfunc_0: data pointer vs code reference in exe");
    if (fp_lfunc_0() != 28 || lfunc_0() != 28) fail("lfunc_0: call result");
    if ((const void*)ldata_1 != addr_ldata_1()) fail("ldata_1: exe vs defining library");
    if ((const void*)ldata_1 != l1_addr_ldata_1()) fail("ldata_1: exe vs lib1");
    if ((const void*)dp_ldata_1 != (const void*)ldata_1) fail("ldata_1: data pointer vs code reference in exe");
    if (ldata_1[0] != 91 || read_ldata_1() != 91) fail("ldata_1: initial value");
    ldata_1[0] = 1091; if (read_ldata_1() != 1091 || l1_read_ldata_1() != 1091) fail("ldata_1: write through exe not seen by library");
    if ((void*)efunc_2 != l1_addr_efunc_2()) fail("efunc_2: exe function seen from lib1");
    if (l1_call_efunc_2() != 147) fail("efunc_2: call from lib1");
    if ((void*)fp_eifunc_3 != (void*)eifunc_3) fail("eifunc_3: ifunc address in data vs code in exe");
    
#ifdef EIFUNC_FROM_LIB
    if ((void*)eifunc_3 != l1_addr_eifunc_3()) fail("eifunc_3: exe ifunc address seen from lib1"); if (l1_call_eifunc_3() != 140) fail("eifunc_3: ifunc call from lib1");
#endif
    if (eifunc_3() != 140 || fp_eifunc_3() != 140) fail("eifunc_3: ifunc call result");
    if ((const void*)ldata_bss_4 != addr_ldata_bss_4()) fail("ldata_bss_4: exe vs defining library");
    if ((const void*)ldata_bss_4 != l1_addr_ldata_bss_4()) fail("ldata_bss_4: exe vs lib1");
    if ((const void*)dp_ldata_bss_4 != (const void*)ldata_bss_4) fail("ldata_bss_4: data pointer vs code reference in exe");
    if (ldata_bss_4[0] != 0 || read_ldata_bss_4() != 0) fail("ldata_bss_4: initial value");
    ldata_bss_4[0] = 1079; if (read_ldata_bss_4() != 1079 || l1_read_ldata_bss_4() != 1079) fail("ldata_bss_4: write through exe not seen by library");
    if ((void*)l2func_5 != addr_l2func_5()) fail("l2func_5: exe vs defining library");
    if ((void*)l2func_5 != l1_addr_l2func_5()) fail("l2func_5: exe vs lib1");
    if ((void*)fp_l2func_5 != (void*)l2func_5) fail("l2func_5: data pointer vs code reference in exe");
    if (fp_l2func_5() != 99 || l2func_5() != 99) fail("l2func_5: call result");
    if ((const void*)ldata_bss_6 != addr_ldata_bss_6()) fail("ldata_bss_6: exe vs defining library");
    if ((const void*)ldata_bss_6 != l1_addr_ldata_bss_6()) fail("ldata_bss_6: exe vs lib1");
    if ((const void*)dp_ldata_bss_6 != (const void*)ldata_bss_6) fail("ldata_bss_6: data pointer vs code reference in exe");
    if (ldata_bss_6[0] != 0 || read_ldata_bss_6() != 0) fail("ldata_bss_6: initial value");
    ldata_bss_6[0] = 1016; if (read_ldata_bss_6() != 1016 || l1_read_ldata_bss_6() != 1016) fail("ldata_bss_6: write through exe not seen by library");
    if ((void*)&t_lalias_ts_7 != addr_lalias_ts_7() || (void*)&t_lalias_ts_7 != waddr_lalias_ts_7()) fail("lalias_ts_7: symbol in exe vs its alias used by the library");
    if (t_lalias_ts_7 != 129 || read_lalias_ts_7() != 129) fail("lalias_ts_7: initial value");
    t_lalias_ts_7 = 1129; if (read_lalias_ts_7() != 1129) fail("lalias_ts_7: write in exe not seen by the library through the alias");
    write_lalias_ts_7(136); if (t_lalias_ts_7 != 136) fail("lalias_ts_7: write by the library through the alias not seen in exe");
    if ((void*)&lalias_sw_8 != addr_lalias_sw_8() || (void*)&lalias_sw_8 != waddr_lalias_sw_8()) fail("lalias_sw_8: symbol in exe vs its alias used by the library");
    if (lalias_sw_8 != 131 || read_lalias_sw_8() != 131) fail("lalias_sw_8: initial value");
    lalias_sw_8 = 1131; if (read_lalias_sw_8() != 1131) fail("lalias_sw_8: write in exe not seen by the library through the alias");
    write_lalias_sw_8(138); if (lalias_sw_8 != 138) fail("lalias_sw_8: write by the library through the alias not seen in exe");
    if (!bad) printf("OK\n"); return bad ? 1 : 0; }
