int lfunc_0(void){ return 120; }
void *addr_lfunc_0(void){ return (void*)lfunc_0; }
extern int lfunc_0(void); void *l1_addr_lfunc_0(void){ return (void*)lfunc_0; }
int ldata_1[4] = { 104 };
const void *addr_ldata_1(void){ return ldata_1; } int read_ldata_1(void){ return ldata_1[0]; }
extern int ldata_1[]; const void *l1_addr_ldata_1(void){ return ldata_1; } int l1_read_ldata_1(void){ return ldata_1[0]; }
extern int efunc_2(void); void *l1_addr_efunc_2(void){ return (void*)efunc_2; } int l1_call_efunc_2(void){ return efunc_2(); }
#ifdef EIFUNC_FROM_LIB
extern int eifunc_3(void); void *l1_addr_eifunc_3(void){ return (void*)eifunc_3; } int l1_call_eifunc_3(void){ return eifunc_3(); }
#endif
const int ldata_ro_4[4] = { 100 };
const void *addr_ldata_ro_4(void){ return ldata_ro_4; } int read_ldata_ro_4(void){ return ldata_ro_4[0]; }
extern const int ldata_ro_4[]; const void *l1_addr_ldata_ro_4(void){ return ldata_ro_4; } int l1_read_ldata_ro_4(void){ return ldata_ro_4[0]; }
#ifdef EIFUNC_FROM_LIB
extern int eifunc_5(void); void *l1_addr_eifunc_5(void){ return (void*)eifunc_5; } int l1_call_eifunc_5(void){ return eifunc_5(); }
#endif
int real_lalias_6 = 196; extern int lalias_6 __attribute__((weak, alias("real_lalias_6")));
void *addr_lalias_6(void){ return &real_lalias_6; } int read_lalias_6(void){ return real_lalias_6; } void write_lalias_6(int v){ real_lalias_6 = v; }
int lalias_sw_7 = 183; extern __typeof(lalias_sw_7) w_lalias_sw_7 __attribute__((weak, alias("lalias_sw_7")));
void *addr_lalias_sw_7(void){ return (void*)&w_lalias_sw_7; } int read_lalias_sw_7(void){ return w_lalias_sw_7; } void write_lalias_sw_7(int v){ w_lalias_sw_7 = v; } void *waddr_lalias_sw_7(void){ return (void*)&w_lalias_sw_7; }
int lalias_st_8 = 55; extern __typeof(lalias_st_8) t_lalias_st_8 __attribute__((alias("lalias_st_8")));
void *addr_lalias_st_8(void){ return (void*)&t_lalias_st_8; } int read_lalias_st_8(void){ return t_lalias_st_8; } void write_lalias_st_8(int v){ t_lalias_st_8 = v; } void *waddr_lalias_st_8(void){ return (void*)&t_lalias_st_8; }
