#include <stdio.h>
static int bad; static void fail(const char *what){ printf("MISMATCH %s\n", what); bad++; }
extern int lfunc_0(void); extern void *addr_lfunc_0(void); extern void *l1_addr_lfunc_0(void); int (*volatile fp_lfunc_0)(void) = lfunc_0;
extern int ldata_1[]; extern const void *addr_ldata_1(void); extern const void *l1_addr_ldata_1(void); extern int read_ldata_1(void); extern int l1_read_ldata_1(void); int *volatile dp_ldata_1 = ldata_1;
int efunc_2(void){ return 125; } extern void *l1_addr_efunc_2(void); extern int l1_call_efunc_2(void);
static int impl_eifunc_3(void){ return 55; } static void *res_eifunc_3(void){ return (void*)impl_eifunc_3; } int eifunc_3(void) __attribute__((ifunc("res_eifunc_3"))); extern void *l1_addr_eifunc_3(void); extern int l1_call_eifunc_3(void); int (*volatile fp_eifunc_3)(void) = eifunc_3;
extern const int ldata_ro_4[]; extern const void *addr_ldata_ro_4(void); extern const void *l1_addr_ldata_ro_4(void); extern int read_ldata_ro_4(void); extern int l1_read_ldata_ro_4(void); const int *volatile dp_ldata_ro_4 = ldata_ro_4;
static int impl_eifunc_5(void){ return 162; } static void *res_eifunc_5(void){ return (void*)impl_eifunc_5; } int eifunc_5(void) __attribute__((ifunc("res_eifunc_5"))); extern void *l1_addr_eifunc_5(void); extern int l1_call_eifunc_5(void); int (*volatile fp_eifunc_5)(void) = eifunc_5;
extern int lalias_6; extern void *addr_lalias_6(void); extern int read_lalias_6(void); extern void write_lalias_6(int);
extern int lalias_sw_7; extern void *addr_lalias_sw_7(void); extern void *waddr_lalias_sw_7(void); extern int read_lalias_sw_7(void); extern void write_lalias_sw_7(int);
extern int lalias_st_8; extern void *addr_lalias_st_8(void); extern void *waddr_lalias_st_8(void); extern int read_lalias_st_8(void); extern void write_lalias_st_8(int);
int main(void){
    if ((void*)lfunc_0 != addr_lfunc_0()) fail("lfunc_0: exe vs defining library");
    if ((void*)lfunc_0 != l1_addr_lfunc_0()) fail("lfunc_0: exe vs lib1");
    if ((void*)fp_lfunc_0 != (void*)lfunc_0) fail("lfunc_0: data pointer vs code reference in exe");
    if (fp_lfunc_0() != 120 || lfunc_0() != 120) fail("lfunc_0: call result");
    if ((const void*)ldata_1 != addr_ldata_1()) fail("ldata_1: exe vs defining library");
    if ((const void*)ldata_1 != l1_addr_ldata_1()) fail("ldata_1: exe vs lib1");
    if ((const void*)dp_ldata_1 != (const void*)ldata_1) fail("ldata_1: data pointer vs code reference in exe");
    if (ldata_1[0] != 104 || read_ldata_1() != 104) fail("ldata_1: initial value");
    ldata_1[0] = 1104; if (read_ldata_1() != 1104 || l1_read_ldata_1() != 1104) fail("ldata_1: write through exe not seen by library");
    if ((void*)efunc_2 != l1_addr_efunc_2()) fail("efunc_2: exe function seen from lib1");
    if (l1_call_efunc_2() != 125) fail("efunc_2: call from lib1");
    if ((void*)fp_eifunc_3 != (void*)eifunc_3) fail("eifunc_3: ifunc address in data vs code in exe");
    
#ifdef EIFUNC_FROM_LIB
    if ((void*)eifunc_3 != l1_addr_eifunc_3()) fail("eifunc_3: exe ifunc address seen from lib1"); if (l1_call_eifunc_3() != 55) fail("eifunc_3: ifunc call from lib1");
#endif
    if (eifunc_3() != 55 || fp_eifunc_3() != 55) fail("eifunc_3: ifunc call result");
    if ((const void*)ldata_ro_4 != addr_ldata_ro_4()) fail("ldata_ro_4: exe vs defining library");
    if ((const void*)ldata_ro_4 != l1_addr_ldata_ro_4()) fail("ldata_ro_4: exe vs lib1");
    if ((const void*)dp_ldata_ro_4 != (const void*)ldata_ro_4) fail("ldata_ro_4: data pointer vs code reference in exe");
    if (ldata_ro_4[0] != 100 || read_ldata_ro_4() != 100) fail("ldata_ro_4: initial value");
    if ((void*)fp_eifunc_5 != (void*)eifunc_5) fail("eifunc_5: ifunc address in data vs code in exe");
    
#ifdef EIFUNC_FROM_LIB
    if ((void*)eifunc_5 != l1_addr_eifunc_5()) fail("eifunc_5: exe ifunc address seen from lib1"); if (l1_call_eifunc_5() != 162) fail("eifunc_5: ifunc call from lib1");
#endif
    if (eifunc_5() != 162 || fp_eifunc_5() != 162) fail("eifunc_5: ifunc call result");
    if ((void*)&lalias_6 != addr_lalias_6()) fail("lalias_6: weak alias in exe vs strong symbol in library");
    write_lalias_6(203); if (lalias_6 != 203) fail("lalias_6: write through strong symbol not seen through alias");
    lalias_6 = 205; if (read_lalias_6() != 205) fail("lalias_6: write through alias not seen through strong symbol");
    if ((void*)&lalias_sw_7 != addr_lalias_sw_7() || (void*)&lalias_sw_7 != waddr_lalias_sw_7()) fail("lalias_sw_7: symbol in exe vs its alias used by the library");
    if (lalias_sw_7 != 183 || read_lalias_sw_7() != 183) fail("lalias_sw_7: initial value");
    lalias_sw_7 = 1183; if (read_lalias_sw_7() != 1183) fail("lalias_sw_7: write in exe not seen by the library through the alias");
    write_lalias_sw_7(190); if (lalias_sw_7 != 190) fail("lalias_sw_7: write by the library through the alias not seen in exe");
    if ((void*)&lalias_st_8 != addr_lalias_st_8() || (void*)&lalias_st_8 != waddr_lalias_st_8()) fail("lalias_st_8: symbol in exe vs its alias used by the library");
    if (lalias_st_8 != 55 || read_lalias_st_8() != 55) fail("lalias_st_8: initial value");
    lalias_st_8 = 1055; if (read_lalias_st_8() != 1055) fail("lalias_st_8: write in exe not seen by the library through the alias");
    write_lalias_st_8(62); if (lalias_st_8 != 62) fail("lalias_st_8: write by the library through the alias not seen in exe");
    if (!bad) printf("OK\n"); return bad ? 1 : 0; }
