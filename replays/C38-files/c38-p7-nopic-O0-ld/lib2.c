int l2func_2(void){ return 184; }
void *addr_l2func_2(void){ return (void*)l2func_2; }
int l2data_5[4] = { 125 };
const void *addr_l2data_5(void){ return l2data_5; } int read_l2data_5(void){ return l2data_5[0]; }
