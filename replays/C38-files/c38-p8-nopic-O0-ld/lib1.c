int lfunc_0(void){ return 74; }
void *addr_lfunc_0(void){ return (void*)lfunc_0; }
extern int lfunc_0(void); void *l1_addr_lfunc_0(void){ return (void*)lfunc_0; }
int ldata_1[16] = { 147 };
const void *addr_ldata_1(void){ return ldata_1; } int read_ldata_1(void){ return ldata_1[0]; }
extern int ldata_1[]; const void *l1_addr_ldata_1(void){ return ldata_1; } int l1_read_ldata_1(void){ return ldata_1[0]; }
int lalias_sw_2 = 151; extern __typeof(lalias_sw_2) w_lalias_sw_2 __attribute__((weak, alias("lalias_sw_2")));
void *addr_lalias_sw_2(void){ return (void*)&w_lalias_sw_2; } int read_lalias_sw_2(void){ return w_lalias_sw_2; } void write_lalias_sw_2(int v){ w_lalias_sw_2 = v; } void *waddr_lalias_sw_2(void){ return (void*)&w_lalias_sw_2; }
int lalias_multi_3[4]; extern __typeof(lalias_multi_3) w_lalias_multi_3 __attribute__((weak, alias("lalias_multi_3"))); extern __typeof(lalias_multi_3) t_lalias_multi_3 __attribute__((alias("lalias_multi_3")));
void *addr_lalias_multi_3(void){ return (void*)w_lalias_multi_3; } int read_lalias_multi_3(void){ return w_lalias_multi_3[0]; } void write_lalias_multi_3(int v){ t_lalias_multi_3[0] = v; } void *waddr_lalias_multi_3(void){ return (void*)t_lalias_multi_3; }
