#include <stdio.h>
static int bad; static void fail(const char *what){ printf("MISMATCH %s\n", what); bad++; }
extern int lfunc_0(void); extern void *addr_lfunc_0(void); extern void *l1_addr_lfunc_0(void); int (*volatile fp_lfunc_0)(void) = lfunc_0;
extern int ldata_1[]; extern const void *addr_ldata_1(void); extern const void *l1_addr_ldata_1(void); extern int read_ldata_1(void); extern int l1_read_ldata_1(void); int *volatile dp_ldata_1 = ldata_1;
extern int l2func_2(void); extern void *addr_l2func_2(void); extern void *l1_addr_l2func_2(void); int (*volatile fp_l2func_2)(void) = l2func_2;
extern int ldata_3[]; extern const void *addr_ldata_3(void); extern const void *l1_addr_ldata_3(void); extern int read_ldata_3(void); extern int l1_read_ldata_3(void); int *volatile dp_ldata_3 = ldata_3;
extern int t_lalias_ts_4; extern void *addr_lalias_ts_4(void); extern void *waddr_lalias_ts_4(void); extern int read_lalias_ts_4(void); extern void write_lalias_ts_4(int);
extern int lalias_sw_5[]; extern void *addr_lalias_sw_5(void); extern void *waddr_lalias_sw_5(void); extern int read_lalias_sw_5(void); extern void write_lalias_sw_5(int);
int main(void){
    if ((void*)lfunc_0 != addr_lfunc_0()) fail("lfunc_0: exe vs defining library");
    if ((void*)lfunc_0 != l1_addr_lfunc_0()) fail("lfunc_0: exe vs lib1");
    if ((void*)fp_lfunc_0 != (void*)lfunc_0) fail("lfunc_0: data pointer vs code reference in exe");
    if (fp_lfunc_0() != 166 || lfunc_0() != 166) fail("lfunc_0: call result");
    if ((const void*)ldata_1 != addr_ldata_1()) fail("ldata_1: exe vs defining library");
    if ((const void*)ldata_1 != l1_addr_ldata_1()) fail("ldata_1: exe vs lib1");
    if ((const void*)dp_ldata_1 != (const void*)ldata_1) fail("ldata_1: data pointer vs code reference in exe");
    if (ldata_1[0] != 15 || read_ldata_1() != 15) fail("ldata_1: initial value");
    ldata_1[0] = 1015; if (read_ldata_1() != 1015 || l1_read_ldata_1() != 1015) fail("ldata_1: write through exe not seen by library");
    if ((void*)l2func_2 != addr_l2func_2()) fail("l2func_2: exe vs defining library");
    if ((void*)l2func_2 != l1_addr_l2func_2()) fail("l2func_2: exe vs lib1");
    if ((void*)fp_l2func_2 != (void*)l2func_2) fail("l2func_2: data pointer vs code reference in exe");
    if (fp_l2func_2() != 27 || l2func_2() != 27) fail("l2func_2: call result");
    if ((const void*)ldata_3 != addr_ldata_3()) fail("ldata_3: exe vs defining library");
    if ((const void*)ldata_3 != l1_addr_ldata_3()) fail("ldata_3: exe vs lib1");
    if ((const void*)dp_ldata_3 != (const void*)ldata_3) fail("ldata_3: data pointer vs code reference in exe");
    if (ldata_3[0] != 146 || read_ldata_3() != 146) fail("ldata_3: initial value");
    ldata_3[0] = 1146; if (read_ldata_3() != 1146 || l1_read_ldata_3() != 1146) fail("ldata_3: write through exe not seen by library");
    if ((void*)&t_lalias_ts_4 != addr_lalias_ts_4() || (void*)&t_lalias_ts_4 != waddr_lalias_ts_4()) fail("lalias_ts_4: symbol in exe vs its alias used by the library");
    if (t_lalias_ts_4 != 196 || read_lalias_ts_4() != 196) fail("lalias_ts_4: initial value");
    t_lalias_ts_4 = 1196; if (read_lalias_ts_4() != 1196) fail("lalias_ts_4: write in exe not seen by the library through the alias");
    write_lalias_ts_4(203); if (t_lalias_ts_4 != 203) fail("lalias_ts_4: write by the library through the alias not seen in exe");
    if ((void*)lalias_sw_5 != addr_lalias_sw_5() || (void*)lalias_sw_5 != waddr_lalias_sw_5()) fail("lalias_sw_5: symbol in exe vs its alias used by the library");
    if (lalias_sw_5[0] != 0 || read_lalias_sw_5() != 0) fail("lalias_sw_5: initial value");
    lalias_sw_5[0] = 1043; if (read_lalias_sw_5() != 1043) fail("lalias_sw_5: write in exe not seen by the library through the alias");
    write_lalias_sw_5(50); if (lalias_sw_5[0] != 50) fail("lalias_sw_5: write by the library through the alias not seen in exe");
    if (!bad) printf("OK\n"); return bad ? 1 : 0; }
