.data
.globl wvsv0
.type wvsv0,@object
.size wvsv0,8
wvsv0:
  .quad 7
.data
.globl wvsv1
.type wvsv1,@object
.size wvsv1,8
wvsv1:
  .quad 8
