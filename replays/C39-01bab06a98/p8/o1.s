.section .text.f1_0,"ax",@progbits
.globl f1_0
.type f1_0,@function
f1_0:
  ret
  call f22_0
  lea d_f1_0(%rip),%rax
  ret
.section .data.d_f1_0,"aw",@progbits
.globl d_f1_0
d_f1_0:
  .quad 1
.section .text.f1_1,"ax",@progbits
.globl f1_1
.type f1_1,@function
f1_1:
  ret
  call f31_1
  call f29_2
  call f8_0
  call f14_0
  call f24_2
  mov wvsv1@GOTPCREL(%rip),%rax
  mov wvsv1(%rip),%rax
  ret
