.section .text.f10_0,"ax",@progbits
.globl f10_0
.type f10_0,@function
f10_0:
  ret
  call f27_1
  mov wvsv0@GOTPCREL(%rip),%rax
  ret
.section .text.f10_1,"ax",@progbits
.globl f10_1
.type f10_1,@function
f10_1:
  ret
  call f16_1
  call f16_0
  mov wvsv0(%rip),%rax
  ret
