.section .text.f11_0,"ax",@progbits
.globl f11_0
.type f11_0,@function
f11_0:
  ret
  call f30_0
  mov wvsv0@GOTPCREL(%rip),%rax
  mov wvsv0(%rip),%rax
  ret
