.section .text.f12_0,"ax",@progbits
.globl f12_0
.type f12_0,@function
f12_0:
  ret
  call f15_2
  call f23_0
  mov wvsv0@GOTPCREL(%rip),%rax
  mov wvsv0(%rip),%rax
  mov wvsv1(%rip),%rax
  ret
.section .text.f12_1,"ax",@progbits
.globl f12_1
.type f12_1,@function
f12_1:
  ret
  call f21_0
  mov wvsv1(%rip),%rax
  ret
.section .text.f12_2,"ax",@progbits
.globl f12_2
.type f12_2,@function
f12_2:
  ret
  call f4_0
  mov wvsv0(%rip),%rax
  ret
.section .text.f12_3,"ax",@progbits
.globl f12_3
.type f12_3,@function
f12_3:
  ret
  call f20_3
  call f4_0
  call f2_0
  mov wvsv0@GOTPCREL(%rip),%rax
  ret
