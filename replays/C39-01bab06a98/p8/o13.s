.section .text.f13_0,"ax",@progbits
.globl f13_0
.type f13_0,@function
f13_0:
  ret
  mov wvsv1@GOTPCREL(%rip),%rax
  mov wvsv0(%rip),%rax
  ret
