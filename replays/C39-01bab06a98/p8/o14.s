.section .text.f14_0,"ax",@progbits
.globl f14_0
.type f14_0,@function
f14_0:
  ret
  call f15_0
  call f16_1
  lea d_f14_0(%rip),%rax
  mov wvsv1@GOTPCREL(%rip),%rax
  mov wvsv0(%rip),%rax
  ret
.section .data.d_f14_0,"aw",@progbits
.globl d_f14_0
d_f14_0:
  .quad 1
.section .text.f14_1,"ax",@progbits
.globl f14_1
.type f14_1,@function
f14_1:
  ret
  call f20_3
  call f20_0
  mov wvsv0(%rip),%rax
  ret
.section .text.f14_2,"ax",@progbits
.globl f14_2
.type f14_2,@function
f14_2:
  ret
  call f24_0
  call f19_0
  mov wvsv0(%rip),%rax
  mov wvsv1(%rip),%rax
  ret
