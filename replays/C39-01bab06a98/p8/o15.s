.section .text.f15_0,"ax",@progbits
.globl f15_0
.type f15_0,@function
f15_0:
  ret
  call f4_1
  call f18_1
  mov wvsv1(%rip),%rax
  ret
.section .text.f15_1,"ax",@progbits
.globl f15_1
.type f15_1,@function
f15_1:
  ret
  call f14_2
  call f25_1
  call f16_0
  mov wvsv1@GOTPCREL(%rip),%rax
  ret
.section .text.f15_2,"ax",@progbits
.globl f15_2
.type f15_2,@function
f15_2:
  ret
  call f24_1
  call f26_1
  lea d_f15_2(%rip),%rax
  mov wvsv0@GOTPCREL(%rip),%rax
  ret
.section .data.d_f15_2,"aw",@progbits
.globl d_f15_2
d_f15_2:
  .quad 1
