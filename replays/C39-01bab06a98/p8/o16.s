.section .text.f16_0,"ax",@progbits
.globl f16_0
.type f16_0,@function
f16_0:
  ret
  call f4_1
  call f31_1
  call f20_3
  call f17_1
  call f22_2
  mov wvsv1(%rip),%rax
  ret
.section .text.f16_1,"ax",@progbits
.globl f16_1
.type f16_1,@function
f16_1:
  ret
  call f22_0
  call f18_3
  ret
.section .text.f16_2,"ax",@progbits
.globl f16_2
.type f16_2,@function
f16_2:
  ret
  call f7_0
  call f16_2
  call f9_0
  call f15_0
  call f25_3
  mov wvsv0@GOTPCREL(%rip),%rax
  ret
