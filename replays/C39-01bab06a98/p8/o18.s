.section .text.f18_0,"ax",@progbits
.globl f18_0
.type f18_0,@function
f18_0:
  ret
  call f22_3
  call f30_0
  mov wvsv0@GOTPCREL(%rip),%rax
  ret
.section .text.f18_1,"ax",@progbits
.globl f18_1
.type f18_1,@function
f18_1:
  ret
  call f5_1
  lea d_f18_1(%rip),%rax
  ret
.section .data.d_f18_1,"aw",@progbits
.globl d_f18_1
d_f18_1:
  .quad 1
.section .text.f18_2,"ax",@progbits
.globl f18_2
.type f18_2,@function
f18_2:
  ret
  call f16_1
  call f16_0
  ret
.section .text.f18_3,"ax",@progbits
.globl f18_3
.type f18_3,@function
f18_3:
  ret
  call f26_0
  call f25_3
  call f29_0
  mov wvsv1@GOTPCREL(%rip),%rax
  mov wvsv0(%rip),%rax
  mov wvsv1(%rip),%rax
  ret
