.section .text.f19_0,"ax",@progbits
.globl f19_0
.type f19_0,@function
f19_0:
  ret
  call f25_1
  mov wvsv1(%rip),%rax
  ret
