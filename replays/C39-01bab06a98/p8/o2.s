.section .text.f2_0,"ax",@progbits
.globl f2_0
.type f2_0,@function
f2_0:
  ret
  call f5_1
  lea d_f2_0(%rip),%rax
  ret
.section .data.d_f2_0,"aw",@progbits
.globl d_f2_0
d_f2_0:
  .quad 1
