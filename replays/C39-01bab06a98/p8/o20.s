.section .text.f20_0,"ax",@progbits
.globl f20_0
.type f20_0,@function
f20_0:
  ret
  call f22_2
  call f4_0
  mov wvsv0@GOTPCREL(%rip),%rax
  ret
.section .text.f20_1,"ax",@progbits
.globl f20_1
.type f20_1,@function
f20_1:
  ret
  call f29_3
  call f31_1
  call f8_0
  ret
.section .text.f20_2,"ax",@progbits
.globl f20_2
.type f20_2,@function
f20_2:
  ret
  ret
.section .text.f20_3,"ax",@progbits
.globl f20_3
.type f20_3,@function
f20_3:
  ret
  call f27_2
  mov wvsv1@GOTPCREL(%rip),%rax
  ret
