.section .text.f21_0,"ax",@progbits
.globl f21_0
.type f21_0,@function
f21_0:
  ret
  call f4_1
  call f31_0
  call f19_0
  ret
