.section .text.f21_0,"ax",@progbits
.globl f21_0
.type f21_0,@function
f21_0:
  ret
  call f4_1
  call f31_0
  call f19_0
  mov wvsv0@GOTPCREL(%rip),%rax
  mov wvsv0(%rip),%rax
  mov wvsv1(%rip),%rax
  ret
