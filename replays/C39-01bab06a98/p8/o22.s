.section .text.f22_0,"ax",@progbits
.globl f22_0
.type f22_0,@function
f22_0:
  ret
  call f16_1
  mov wvsv1(%rip),%rax
  ret
.section .text.f22_1,"ax",@progbits
.globl f22_1
.type f22_1,@function
f22_1:
  ret
  call f31_0
  call f10_1
  ret
.section .text.f22_2,"ax",@progbits
.globl f22_2
.type f22_2,@function
f22_2:
  ret
  call f12_2
  call f7_0
  mov wvsv1(%rip),%rax
  ret
.section .text.f22_3,"ax",@progbits
.globl f22_3
.type f22_3,@function
f22_3:
  ret
  call f12_0
  lea d_f22_3(%rip),%rax
  mov wvsv1(%rip),%rax
  ret
.section .data.d_f22_3,"aw",@progbits
.globl d_f22_3
d_f22_3:
  .quad 1
