.section .text.f23_0,"ax",@progbits
.globl f23_0
.type f23_0,@function
f23_0:
  ret
  call f29_0
  call f4_1
  mov wvsv1(%rip),%rax
  ret
