.section .text.f24_0,"ax",@progbits
.globl f24_0
.type f24_0,@function
f24_0:
  ret
  call f25_0
  call f5_0
  mov wvsv0(%rip),%rax
  ret
.section .text.f24_1,"ax",@progbits
.globl f24_1
.type f24_1,@function
f24_1:
  ret
  lea d_f24_1(%rip),%rax
  mov wvsv0@GOTPCREL(%rip),%rax
  ret
.section .data.d_f24_1,"aw",@progbits
.globl d_f24_1
d_f24_1:
  .quad 1
.section .text.f24_2,"ax",@progbits
.globl f24_2
.type f24_2,@function
f24_2:
  ret
  call f29_0
  call f25_0
  ret
