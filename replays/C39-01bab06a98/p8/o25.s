.section .text.f25_0,"ax",@progbits
.globl f25_0
.type f25_0,@function
f25_0:
  ret
  call f6_2
  call f18_3
  call f26_0
  mov wvsv0@GOTPCREL(%rip),%rax
  ret
.section .text.f25_1,"ax",@progbits
.globl f25_1
.type f25_1,@function
f25_1:
  ret
  call f24_0
  call f23_0
  ret
.section .text.f25_2,"ax",@progbits
.globl f25_2
.type f25_2,@function
f25_2:
  ret
  call f12_1
  call f6_0
  ret
.section .text.f25_3,"ax",@progbits
.globl f25_3
.type f25_3,@function
f25_3:
  ret
  call f27_2
  call f3_0
  call f27_0
  call f4_1
  call f20_3
  lea d_f25_3(%rip),%rax
  mov wvsv0(%rip),%rax
  ret
.section .data.d_f25_3,"aw",@progbits
.globl d_f25_3
d_f25_3:
  .quad 1
