.section .text.f26_0,"ax",@progbits
.globl f26_0
.type f26_0,@function
f26_0:
  ret
  call f9_1
  call f18_3
  lea d_f26_0(%rip),%rax
  mov wvsv0(%rip),%rax
  ret
.section .data.d_f26_0,"aw",@progbits
.globl d_f26_0
d_f26_0:
  .quad 1
.section .text.f26_1,"ax",@progbits
.globl f26_1
.type f26_1,@function
f26_1:
  ret
  call f25_1
  call f27_0
  mov wvsv0(%rip),%rax
  mov wvsv1(%rip),%rax
  ret
