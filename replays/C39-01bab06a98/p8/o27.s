.section .text.f27_0,"ax",@progbits
.globl f27_0
.type f27_0,@function
f27_0:
  ret
  call f31_1
  call f9_2
  call f27_2
  call f28_0
  call f28_2
  mov wvsv1@GOTPCREL(%rip),%rax
  ret
.section .text.f27_1,"ax",@progbits
.globl f27_1
.type f27_1,@function
f27_1:
  ret
  call f17_1
  lea d_f27_1(%rip),%rax
  mov wvsv1(%rip),%rax
  ret
.section .data.d_f27_1,"aw",@progbits
.globl d_f27_1
d_f27_1:
  .quad 1
.section .text.f27_2,"ax",@progbits
.globl f27_2
.type f27_2,@function
f27_2:
  ret
  call f31_2
  call f5_2
  call f20_3
  call f22_1
  call f15_0
  lea d_f27_2(%rip),%rax
  ret
.section .data.d_f27_2,"aw",@progbits
.globl d_f27_2
d_f27_2:
  .quad 1
.section .text.f27_3,"ax",@progbits
.globl f27_3
.type f27_3,@function
f27_3:
  ret
  call f12_1
  lea d_f27_3(%rip),%rax
  ret
.section .data.d_f27_3,"aw",@progbits
.globl d_f27_3
d_f27_3:
  .quad 1
