.section .text.f28_0,"ax",@progbits
.globl f28_0
.type f28_0,@function
f28_0:
  ret
  lea d_f28_0(%rip),%rax
  mov wvsv0(%rip),%rax
  ret
.section .data.d_f28_0,"aw",@progbits
.globl d_f28_0
d_f28_0:
  .quad 1
.section .text.f28_1,"ax",@progbits
.globl f28_1
.type f28_1,@function
f28_1:
  ret
  mov wvsv0@GOTPCREL(%rip),%rax
  mov wvsv0(%rip),%rax
  ret
.section .text.f28_2,"ax",@progbits
.globl f28_2
.type f28_2,@function
f28_2:
  ret
  call f11_0
  call f12_2
  ret
