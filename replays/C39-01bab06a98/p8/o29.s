.section .text.f29_0,"ax",@progbits
.globl f29_0
.type f29_0,@function
f29_0:
  ret
  call f26_1
  call f5_1
  lea d_f29_0(%rip),%rax
  mov wvsv0@GOTPCREL(%rip),%rax
  ret
.section .data.d_f29_0,"aw",@progbits
.globl d_f29_0
d_f29_0:
  .quad 1
.section .text.f29_1,"ax",@progbits
.globl f29_1
.type f29_1,@function
f29_1:
  ret
  call f15_1
  call f11_0
  call f29_3
  call f24_0
  call f25_0
  ret
.section .text.f29_2,"ax",@progbits
.globl f29_2
.type f29_2,@function
f29_2:
  ret
  call f15_1
  call f9_2
  ret
.section .text.f29_3,"ax",@progbits
.globl f29_3
.type f29_3,@function
f29_3:
  ret
  call f28_1
  ret
