.section .text.f3_0,"ax",@progbits
.globl f3_0
.type f3_0,@function
f3_0:
  ret
  call f26_0
  call f11_0
  mov wvsv1(%rip),%rax
  ret
