.section .text.f30_0,"ax",@progbits
.globl f30_0
.type f30_0,@function
f30_0:
  ret
  call f20_1
  call f25_3
  call f12_1
  lea d_f30_0(%rip),%rax
  mov wvsv0@GOTPCREL(%rip),%rax
  mov wvsv0(%rip),%rax
  ret
.section .data.d_f30_0,"aw",@progbits
.globl d_f30_0
d_f30_0:
  .quad 1
