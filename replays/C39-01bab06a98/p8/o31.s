.section .text.f31_0,"ax",@progbits
.globl f31_0
.type f31_0,@function
f31_0:
  ret
  call f22_0
  call f5_1
  call f15_2
  call f18_0
  call f17_2
  mov wvsv0@GOTPCREL(%rip),%rax
  mov wvsv1@GOTPCREL(%rip),%rax
  ret
.section .text.f31_1,"ax",@progbits
.globl f31_1
.type f31_1,@function
f31_1:
  ret
  call f21_0
  call f12_2
  mov wvsv0@GOTPCREL(%rip),%rax
  ret
.section .text.f31_2,"ax",@progbits
.globl f31_2
.type f31_2,@function
f31_2:
  ret
  call f7_0
  lea d_f31_2(%rip),%rax
  mov wvsv1(%rip),%rax
  ret
.section .data.d_f31_2,"aw",@progbits
.globl d_f31_2
d_f31_2:
  .quad 1
