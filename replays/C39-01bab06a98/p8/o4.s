.section .text.f4_0,"ax",@progbits
.globl f4_0
.type f4_0,@function
f4_0:
  ret
  call f0_0
  lea d_f4_0(%rip),%rax
  mov wvsv1(%rip),%rax
  ret
.section .data.d_f4_0,"aw",@progbits
.globl d_f4_0
d_f4_0:
  .quad 1
.section .text.f4_1,"ax",@progbits
.globl f4_1
.type f4_1,@function
f4_1:
  ret
  call f18_0
  call f25_1
  call f26_0
  call f5_1
  call f1_0
  mov wvsv1(%rip),%rax
  ret
