.section .text.f5_0,"ax",@progbits
.globl f5_0
.type f5_0,@function
f5_0:
  ret
  call f22_0
  call f13_0
  mov wvsv0@GOTPCREL(%rip),%rax
  ret
.section .text.f5_1,"ax",@progbits
.globl f5_1
.type f5_1,@function
f5_1:
  ret
  call f29_3
  lea d_f5_1(%rip),%rax
  ret
.section .data.d_f5_1,"aw",@progbits
.globl d_f5_1
d_f5_1:
  .quad 1
.section .text.f5_2,"ax",@progbits
.globl f5_2
.type f5_2,@function
f5_2:
  ret
  call f5_2
  mov wvsv0@GOTPCREL(%rip),%rax
  ret
