.section .text.f6_0,"ax",@progbits
.globl f6_0
.type f6_0,@function
f6_0:
  ret
  call f28_0
  call f9_1
  lea d_f6_0(%rip),%rax
  mov wvsv1@GOTPCREL(%rip),%rax
  ret
.section .data.d_f6_0,"aw",@progbits
.globl d_f6_0
d_f6_0:
  .quad 1
.section .text.f6_1,"ax",@progbits
.globl f6_1
.type f6_1,@function
f6_1:
  ret
  call f12_0
  call f28_1
  call f25_3
  call f28_2
  call f29_1
  lea d_f6_1(%rip),%rax
  ret
.section .data.d_f6_1,"aw",@progbits
.globl d_f6_1
d_f6_1:
  .quad 1
.section .text.f6_2,"ax",@progbits
.globl f6_2
.type f6_2,@function
f6_2:
  ret
  call f29_1
  call f27_1
  lea d_f6_2(%rip),%rax
  mov wvsv0(%rip),%rax
  mov wvsv1(%rip),%rax
  ret
.section .data.d_f6_2,"aw",@progbits
.globl d_f6_2
d_f6_2:
  .quad 1
