.section .text.f7_0,"ax",@progbits
.globl f7_0
.type f7_0,@function
f7_0:
  ret
  call f22_3
  call f25_1
  call f16_1
  mov wvsv1(%rip),%rax
  ret
.section .text.f7_1,"ax",@progbits
.globl f7_1
.type f7_1,@function
f7_1:
  ret
  call f13_0
  mov wvsv1@GOTPCREL(%rip),%rax
  mov wvsv1(%rip),%rax
  ret
