.section .text.f8_0,"ax",@progbits
.globl f8_0
.type f8_0,@function
f8_0:
  ret
  lea d_f8_0(%rip),%rax
  ret
.section .data.d_f8_0,"aw",@progbits
.globl d_f8_0
d_f8_0:
  .quad 1
