.section .text.f9_0,"ax",@progbits
.globl f9_0
.type f9_0,@function
f9_0:
  ret
  call f11_0
  call f20_2
  mov wvsv0@GOTPCREL(%rip),%rax
  ret
.section .text.f9_1,"ax",@progbits
.globl f9_1
.type f9_1,@function
f9_1:
  ret
  ret
.section .text.f9_2,"ax",@progbits
.globl f9_2
.type f9_2,@function
f9_2:
  ret
  call f1_0
  call f18_1
  call f25_1
  mov wvsv1@GOTPCREL(%rip),%rax
  mov wvsv1(%rip),%rax
  ret
