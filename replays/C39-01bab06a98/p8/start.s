.section .text._start,"ax",@progbits
.globl _start
_start:
  call f30_0
  mov $60,%eax
  xor %edi,%edi
  syscall
