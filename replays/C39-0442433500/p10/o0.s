.section .text.f0_0,"ax",@progbits
.globl f0_0
.type f0_0,@function
f0_0:
  ret
  call f19_0
  call f25_0
  call f11_0
  ret
.section .text.f0_1,"ax",@progbits
.globl f0_1
.type f0_1,@function
f0_1:
  ret
  call f20_0
  ret
