.section .text.f10_0,"ax",@progbits
.globl f10_0
.type f10_0,@function
f10_0:
  ret
  ret
.section wvset0,"aw",@progbits
  .quad f25_1
