.section .text.f11_0,"ax",@progbits
.globl f11_0
.type f11_0,@function
f11_0:
  ret
  call f13_1
  call f31_0
  call f59_0
  lea __start_wvset0(%rip),%rax
  lea __stop_wvset0(%rip),%rdx
  ret
