.section .text.f12_0,"ax",@progbits
.globl f12_0
.type f12_0,@function
f12_0:
  ret
  call f5_1
  call f47_1
  lea __start_wvset0(%rip),%rax
  lea __stop_wvset0(%rip),%rdx
  ret
.section .text.f12_1,"ax",@progbits
.globl f12_1
.type f12_1,@function
f12_1:
  ret
  lea __start_wvset0(%rip),%rax
  lea __stop_wvset0(%rip),%rdx
  ret
