.section .text.f13_0,"ax",@progbits
.globl f13_0
.type f13_0,@function
f13_0:
  ret
  call f8_0
  call f3_1
  call f57_1
  ret
.section .text.f13_1,"ax",@progbits
.globl f13_1
.type f13_1,@function
f13_1:
  ret
  lea d_f13_1(%rip),%rax
  ret
.section .data.d_f13_1,"aw",@progbits
.globl d_f13_1
d_f13_1:
  .quad 1
