.section .text.f14_0,"ax",@progbits
.globl f14_0
.type f14_0,@function
f14_0:
  ret
  call f7_0
  call f5_1
  call f49_0
  call f52_0
  call f24_0
  call f0_1
  ret
.section .text.f14_1,"ax",@progbits
.globl f14_1
.type f14_1,@function
f14_1:
  ret
  call f27_0
  call f55_0
  call f18_0
  call f5_0
  call f7_0
  lea d_f14_1(%rip),%rax
  ret
.section .data.d_f14_1,"aw",@progbits
.globl d_f14_1
d_f14_1:
  .quad 1
