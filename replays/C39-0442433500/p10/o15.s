.section .text.f15_0,"ax",@progbits
.globl f15_0
.type f15_0,@function
f15_0:
  ret
  call f2_0
  call f16_0
  call f50_0
  ret
