.section .text.f16_0,"ax",@progbits
.globl f16_0
.type f16_0,@function
f16_0:
  ret
  call f53_1
  call f13_1
  ret
.section .text.f16_1,"ax",@progbits
.globl f16_1
.type f16_1,@function
f16_1:
  ret
  call f59_0
  call f37_0
  ret
.section wvset0,"aw",@progbits
  .quad f28_0
