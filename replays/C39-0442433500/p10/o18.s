.section .text.f18_0,"ax",@progbits
.globl f18_0
.type f18_0,@function
f18_0:
  ret
  lea __start_wvset0(%rip),%rax
  lea __stop_wvset0(%rip),%rdx
  ret
.section .text.f18_1,"ax",@progbits
.globl f18_1
.type f18_1,@function
f18_1:
  ret
  call f63_1
  lea d_f18_1(%rip),%rax
  ret
.section .data.d_f18_1,"aw",@progbits
.globl d_f18_1
d_f18_1:
  .quad 1
