.section .text.f19_0,"ax",@progbits
.globl f19_0
.type f19_0,@function
f19_0:
  ret
  call f44_0
  ret
.section wvset0,"aw",@progbits
  .quad f38_0
