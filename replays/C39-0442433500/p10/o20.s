.section .text.f20_0,"ax",@progbits
.globl f20_0
.type f20_0,@function
f20_0:
  ret
  call f13_0
  call f6_1
  lea d_f20_0(%rip),%rax
  ret
.section .data.d_f20_0,"aw",@progbits
.globl d_f20_0
d_f20_0:
  .quad 1
.section .text.f20_1,"ax",@progbits
.globl f20_1
.type f20_1,@function
f20_1:
  ret
  call f43_1
  call f36_0
  call f48_0
  ret
.section wvset0,"aw",@progbits
  .quad f42_0
