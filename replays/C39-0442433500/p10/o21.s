.section .text.f21_0,"ax",@progbits
.globl f21_0
.type f21_0,@function
f21_0:
  ret
  call f3_1
  call f38_0
  call f48_0
  lea d_f21_0(%rip),%rax
  ret
.section .data.d_f21_0,"aw",@progbits
.globl d_f21_0
d_f21_0:
  .quad 1
