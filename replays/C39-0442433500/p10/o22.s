.section .text.f22_0,"ax",@progbits
.globl f22_0
.type f22_0,@function
f22_0:
  ret
  call f5_0
  call f51_0
  ret
.section wvset0,"aw",@progbits
  .quad f40_0
