.section .text.f23_0,"ax",@progbits
.globl f23_0
.type f23_0,@function
f23_0:
  ret
  call f55_1
  call f29_1
  call f25_0
  call f29_1
  call f12_0
  ret
.section .text.f23_1,"ax",@progbits
.globl f23_1
.type f23_1,@function
f23_1:
  ret
  call f29_0
  ret
