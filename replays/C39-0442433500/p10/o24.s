.section .text.f24_0,"ax",@progbits
.globl f24_0
.type f24_0,@function
f24_0:
  ret
  call f50_0
  call f51_0
  call f43_1
  lea __start_wvset0(%rip),%rax
  lea __stop_wvset0(%rip),%rdx
  ret
.section .text.f24_1,"ax",@progbits
.globl f24_1
.type f24_1,@function
f24_1:
  ret
  ret
