.section .text.f25_0,"ax",@progbits
.globl f25_0
.type f25_0,@function
f25_0:
  ret
  call f41_0
  call f30_1
  call f2_0
  call f62_1
  call f28_0
  ret
.section .text.f25_1,"ax",@progbits
.globl f25_1
.type f25_1,@function
f25_1:
  ret
  call f27_0
  call f55_1
  call f30_0
  lea __start_wvset0(%rip),%rax
  lea __stop_wvset0(%rip),%rdx
  ret
.section wvset0,"aw",@progbits
  .quad f58_0
