.section .text.f26_0,"ax",@progbits
.globl f26_0
.type f26_0,@function
f26_0:
  ret
  call f35_0
  call f8_0
  lea d_f26_0(%rip),%rax
  ret
.section .data.d_f26_0,"aw",@progbits
.globl d_f26_0
d_f26_0:
  .quad 1
