.section .text.f28_0,"ax",@progbits
.globl f28_0
.type f28_0,@function
f28_0:
  ret
  call f30_1
  call f44_0
  call f50_0
  ret
.section .text.f28_1,"ax",@progbits
.globl f28_1
.type f28_1,@function
f28_1:
  ret
  call f12_1
  lea d_f28_1(%rip),%rax
  ret
.section .data.d_f28_1,"aw",@progbits
.globl d_f28_1
d_f28_1:
  .quad 1
.section wvset0,"aw",@progbits
  .quad f15_0
