.section .text.f29_0,"ax",@progbits
.globl f29_0
.type f29_0,@function
f29_0:
  ret
  call f51_0
  call f16_1
  call f13_1
  call f8_0
  call f12_1
  call f23_0
  lea d_f29_0(%rip),%rax
  ret
.section .data.d_f29_0,"aw",@progbits
.globl d_f29_0
d_f29_0:
  .quad 1
.section .text.f29_1,"ax",@progbits
.globl f29_1
.type f29_1,@function
f29_1:
  ret
  call f34_0
  call f48_0
  ret
