.section .text.f3_0,"ax",@progbits
.globl f3_0
.type f3_0,@function
f3_0:
  ret
  call f41_1
  call f48_0
  lea d_f3_0(%rip),%rax
  ret
.section .data.d_f3_0,"aw",@progbits
.globl d_f3_0
d_f3_0:
  .quad 1
.section .text.f3_1,"ax",@progbits
.globl f3_1
.type f3_1,@function
f3_1:
  ret
  call f47_1
  call f14_0
  call f50_0
  call f49_0
  call f20_0
  ret
