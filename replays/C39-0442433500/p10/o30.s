.section .text.f30_0,"ax",@progbits
.globl f30_0
.type f30_0,@function
f30_0:
  ret
  call f40_1
  call f60_0
  call f23_0
  lea __start_wvset0(%rip),%rax
  lea __stop_wvset0(%rip),%rdx
  lea d_f30_0(%rip),%rax
  ret
.section .data.d_f30_0,"aw",@progbits
.globl d_f30_0
d_f30_0:
  .quad 1
.section .text.f30_1,"ax",@progbits
.globl f30_1
.type f30_1,@function
f30_1:
  ret
  call f58_0
  ret
