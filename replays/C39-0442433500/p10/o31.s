.section .text.f31_0,"ax",@progbits
.globl f31_0
.type f31_0,@function
f31_0:
  ret
  call f27_0
  lea __start_wvset0(%rip),%rax
  lea __stop_wvset0(%rip),%rdx
  ret
