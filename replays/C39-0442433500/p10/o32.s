.section .text.f32_0,"ax",@progbits
.globl f32_0
.type f32_0,@function
f32_0:
  ret
  call f16_1
  call f9_0
  call f36_1
  call f63_1
  call f60_0
  ret
