.section .text.f33_0,"ax",@progbits
.globl f33_0
.type f33_0,@function
f33_0:
  ret
  call f11_0
  call f35_0
  call f16_1
  ret
