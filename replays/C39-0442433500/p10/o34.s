.section .text.f34_0,"ax",@progbits
.globl f34_0
.type f34_0,@function
f34_0:
  ret
  call f46_0
  call f39_0
  lea d_f34_0(%rip),%rax
  ret
.section .data.d_f34_0,"aw",@progbits
.globl d_f34_0
d_f34_0:
  .quad 1
.section .text.f34_1,"ax",@progbits
.globl f34_1
.type f34_1,@function
f34_1:
  ret
  call f61_0
  call f34_0
  call f15_0
  ret
