.section .text.f35_0,"ax",@progbits
.globl f35_0
.type f35_0,@function
f35_0:
  ret
  ret
