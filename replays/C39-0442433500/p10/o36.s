.section .text.f36_0,"ax",@progbits
.globl f36_0
.type f36_0,@function
f36_0:
  ret
  call f5_1
  call f58_0
  call f16_0
  call f2_0
  ret
.section .text.f36_1,"ax",@progbits
.globl f36_1
.type f36_1,@function
f36_1:
  ret
  call f4_0
  call f12_0
  call f39_0
  call f62_1
  call f26_0
  ret
