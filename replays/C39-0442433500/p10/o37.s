.section .text.f37_0,"ax",@progbits
.globl f37_0
.type f37_0,@function
f37_0:
  ret
  call f13_0
  call f12_0
  ret
