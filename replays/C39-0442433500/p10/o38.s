.section .text.f38_0,"ax",@progbits
.globl f38_0
.type f38_0,@function
f38_0:
  ret
  call f61_0
  call f57_1
  lea d_f38_0(%rip),%rax
  ret
.section .data.d_f38_0,"aw",@progbits
.globl d_f38_0
d_f38_0:
  .quad 1
.section wvset0,"aw",@progbits
  .quad f9_0
