.section .text.f39_0,"ax",@progbits
.globl f39_0
.type f39_0,@function
f39_0:
  ret
  call f8_1
  lea d_f39_0(%rip),%rax
  ret
.section .data.d_f39_0,"aw",@progbits
.globl d_f39_0
d_f39_0:
  .quad 1
.section wvset0,"aw",@progbits
  .quad f60_0
