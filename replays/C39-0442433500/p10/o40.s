.section .text.f40_0,"ax",@progbits
.globl f40_0
.type f40_0,@function
f40_0:
  ret
  call f57_0
  lea __start_wvset0(%rip),%rax
  lea __stop_wvset0(%rip),%rdx
  ret
.section .text.f40_1,"ax",@progbits
.globl f40_1
.type f40_1,@function
f40_1:
  ret
  call f43_0
  call f9_1
  call f44_0
  call f41_0
  call f13_1
  lea d_f40_1(%rip),%rax
  ret
.section .data.d_f40_1,"aw",@progbits
.globl d_f40_1
d_f40_1:
  .quad 1
