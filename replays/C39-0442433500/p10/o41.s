.section .text.f41_0,"ax",@progbits
.globl f41_0
.type f41_0,@function
f41_0:
  ret
  call f32_0
  call f4_0
  lea d_f41_0(%rip),%rax
  ret
.section .data.d_f41_0,"aw",@progbits
.globl d_f41_0
d_f41_0:
  .quad 1
.section .text.f41_1,"ax",@progbits
.globl f41_1
.type f41_1,@function
f41_1:
  ret
  call f21_0
  call f53_0
  ret
