.section .text.f42_0,"ax",@progbits
.globl f42_0
.type f42_0,@function
f42_0:
  ret
  call f20_0
  call f20_0
  ret
.section wvset0,"aw",@progbits
  .quad f30_1
