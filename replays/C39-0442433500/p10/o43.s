.section .text.f43_0,"ax",@progbits
.globl f43_0
.type f43_0,@function
f43_0:
  ret
  call f34_0
  lea d_f43_0(%rip),%rax
  ret
.section .data.d_f43_0,"aw",@progbits
.globl d_f43_0
d_f43_0:
  .quad 1
.section .text.f43_1,"ax",@progbits
.globl f43_1
.type f43_1,@function
f43_1:
  ret
  call f24_0
  call f25_1
  call f48_0
  ret
