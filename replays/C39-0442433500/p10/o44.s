.section .text.f44_0,"ax",@progbits
.globl f44_0
.type f44_0,@function
f44_0:
  ret
  call f38_0
  call f28_1
  call f57_1
  call f36_1
  call f49_0
  lea d_f44_0(%rip),%rax
  ret
.section .data.d_f44_0,"aw",@progbits
.globl d_f44_0
d_f44_0:
  .quad 1
.section .text.f44_1,"ax",@progbits
.globl f44_1
.type f44_1,@function
f44_1:
  ret
  lea __start_wvset0(%rip),%rax
  lea __stop_wvset0(%rip),%rdx
  ret
