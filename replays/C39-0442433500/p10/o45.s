.section .text.f45_0,"ax",@progbits
.globl f45_0
.type f45_0,@function
f45_0:
  ret
  call f53_1
  call f50_0
  call f50_0
  call f42_0
  call f17_0
  lea d_f45_0(%rip),%rax
  ret
.section .data.d_f45_0,"aw",@progbits
.globl d_f45_0
d_f45_0:
  .quad 1
.section .text.f45_1,"ax",@progbits
.globl f45_1
.type f45_1,@function
f45_1:
  ret
  call f57_1
  call f37_0
  call f56_0
  lea d_f45_1(%rip),%rax
  ret
.section .data.d_f45_1,"aw",@progbits
.globl d_f45_1
d_f45_1:
  .quad 1
.section wvset0,"aw",@progbits
  .quad f26_0
