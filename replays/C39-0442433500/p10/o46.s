.section .text.f46_0,"ax",@progbits
.globl f46_0
.type f46_0,@function
f46_0:
  ret
  call f38_0
  call f29_0
  lea d_f46_0(%rip),%rax
  ret
.section .data.d_f46_0,"aw",@progbits
.globl d_f46_0
d_f46_0:
  .quad 1
