.section .text.f47_0,"ax",@progbits
.globl f47_0
.type f47_0,@function
f47_0:
  ret
  call f27_0
  call f25_1
  call f26_0
  ret
.section .text.f47_1,"ax",@progbits
.globl f47_1
.type f47_1,@function
f47_1:
  ret
  call f12_1
  call f42_0
  call f26_0
  call f45_0
  call f8_0
  call f11_0
  ret
