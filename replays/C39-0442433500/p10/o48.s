.section .text.f48_0,"ax",@progbits
.globl f48_0
.type f48_0,@function
f48_0:
  ret
  call f62_1
  call f8_0
  call f39_0
  call f24_0
  call f14_0
  ret
