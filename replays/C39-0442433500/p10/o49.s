.section .text.f49_0,"ax",@progbits
.globl f49_0
.type f49_0,@function
f49_0:
  ret
  call f4_0
  ret
