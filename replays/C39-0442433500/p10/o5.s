.section .text.f5_0,"ax",@progbits
.globl f5_0
.type f5_0,@function
f5_0:
  ret
  call f17_0
  call f21_0
  call f45_0
  call f25_1
  call f12_1
  ret
.section .text.f5_1,"ax",@progbits
.globl f5_1
.type f5_1,@function
f5_1:
  ret
  call f40_1
  call f40_1
  call f47_1
  call f59_0
  call f46_0
  ret
.section wvset0,"aw",@progbits
  .quad f14_0
