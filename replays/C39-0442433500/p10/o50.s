.section .text.f50_0,"ax",@progbits
.globl f50_0
.type f50_0,@function
f50_0:
  ret
  call f14_0
  call f44_1
  call f24_0
  lea d_f50_0(%rip),%rax
  ret
.section .data.d_f50_0,"aw",@progbits
.globl d_f50_0
d_f50_0:
  .quad 1
