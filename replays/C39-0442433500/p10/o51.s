.section .text.f51_0,"ax",@progbits
.globl f51_0
.type f51_0,@function
f51_0:
  ret
  call f50_0
  call f58_0
  lea __start_wvset0(%rip),%rax
  lea __stop_wvset0(%rip),%rdx
  lea d_f51_0(%rip),%rax
  ret
.section .data.d_f51_0,"aw",@progbits
.globl d_f51_0
d_f51_0:
  .quad 1
.section wvset0,"aw",@progbits
  .quad f18_0
