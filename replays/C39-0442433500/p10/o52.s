.section .text.f52_0,"ax",@progbits
.globl f52_0
.type f52_0,@function
f52_0:
  ret
  call f41_1
  ret
