.section .text.f53_0,"ax",@progbits
.globl f53_0
.type f53_0,@function
f53_0:
  ret
  lea d_f53_0(%rip),%rax
  ret
.section .data.d_f53_0,"aw",@progbits
.globl d_f53_0
d_f53_0:
  .quad 1
.section .text.f53_1,"ax",@progbits
.globl f53_1
.type f53_1,@function
f53_1:
  ret
  call f50_0
  call f24_0
  ret
