.section .text.f54_0,"ax",@progbits
.globl f54_0
.type f54_0,@function
f54_0:
  ret
  call f20_0
  lea d_f54_0(%rip),%rax
  ret
.section .data.d_f54_0,"aw",@progbits
.globl d_f54_0
d_f54_0:
  .quad 1
