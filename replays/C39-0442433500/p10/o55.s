.section .text.f55_0,"ax",@progbits
.globl f55_0
.type f55_0,@function
f55_0:
  ret
  call f61_0
  call f21_0
  call f46_0
  ret
.section .text.f55_1,"ax",@progbits
.globl f55_1
.type f55_1,@function
f55_1:
  ret
  lea d_f55_1(%rip),%rax
  ret
.section .data.d_f55_1,"aw",@progbits
.globl d_f55_1
d_f55_1:
  .quad 1
