.section .text.f56_0,"ax",@progbits
.globl f56_0
.type f56_0,@function
f56_0:
  ret
  call f18_0
  call f50_0
  call f53_1
  lea d_f56_0(%rip),%rax
  ret
.section .data.d_f56_0,"aw",@progbits
.globl d_f56_0
d_f56_0:
  .quad 1
