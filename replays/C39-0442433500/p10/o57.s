.section .text.f57_0,"ax",@progbits
.globl f57_0
.type f57_0,@function
f57_0:
  ret
  call f26_0
  call f43_0
  call f25_0
  call f4_0
  call f63_0
  ret
.section .text.f57_1,"ax",@progbits
.globl f57_1
.type f57_1,@function
f57_1:
  ret
  ret
.section wvset0,"aw",@progbits
  .quad f34_0
