.section .text.f58_0,"ax",@progbits
.globl f58_0
.type f58_0,@function
f58_0:
  ret
  call f44_0
  call f23_1
  lea d_f58_0(%rip),%rax
  ret
.section .data.d_f58_0,"aw",@progbits
.globl d_f58_0
d_f58_0:
  .quad 1
.section wvset0,"aw",@progbits
  .quad f14_0
