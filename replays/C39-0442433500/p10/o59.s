.section .text.f59_0,"ax",@progbits
.globl f59_0
.type f59_0,@function
f59_0:
  ret
  call f49_0
  call f6_0
  call f28_1
  call f62_0
  lea d_f59_0(%rip),%rax
  ret
.section .data.d_f59_0,"aw",@progbits
.globl d_f59_0
d_f59_0:
  .quad 1
.section wvset0,"aw",@progbits
  .quad f50_0
