.section .text.f6_0,"ax",@progbits
.globl f6_0
.type f6_0,@function
f6_0:
  ret
  call f42_0
  call f61_0
  lea d_f6_0(%rip),%rax
  ret
.section .data.d_f6_0,"aw",@progbits
.globl d_f6_0
d_f6_0:
  .quad 1
.section .text.f6_1,"ax",@progbits
.globl f6_1
.type f6_1,@function
f6_1:
  ret
  call f18_0
  call f30_0
  lea __start_wvset0(%rip),%rax
  lea __stop_wvset0(%rip),%rdx
  lea d_f6_1(%rip),%rax
  ret
.section .data.d_f6_1,"aw",@progbits
.globl d_f6_1
d_f6_1:
  .quad 1
