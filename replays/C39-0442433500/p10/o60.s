.section .text.f60_0,"ax",@progbits
.globl f60_0
.type f60_0,@function
f60_0:
  ret
  call f58_0
  lea __start_wvset0(%rip),%rax
  lea __stop_wvset0(%rip),%rdx
  ret
.section wvset0,"aw",@progbits
  .quad f45_0
