.section .text.f61_0,"ax",@progbits
.globl f61_0
.type f61_0,@function
f61_0:
  ret
  call f20_1
  call f44_0
  call f47_1
  call f48_0
  call f61_0
  ret
