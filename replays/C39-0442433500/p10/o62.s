.section .text.f62_0,"ax",@progbits
.globl f62_0
.type f62_0,@function
f62_0:
  ret
  call f45_0
  call f43_1
  call f46_0
  call f36_0
  ret
.section .text.f62_1,"ax",@progbits
.globl f62_1
.type f62_1,@function
f62_1:
  ret
  call f8_0
  ret
