.section .text.f63_0,"ax",@progbits
.globl f63_0
.type f63_0,@function
f63_0:
  ret
  call f21_0
  call f14_0
  call f28_1
  lea d_f63_0(%rip),%rax
  ret
.section .data.d_f63_0,"aw",@progbits
.globl d_f63_0
d_f63_0:
  .quad 1
.section .text.f63_1,"ax",@progbits
.globl f63_1
.type f63_1,@function
f63_1:
  ret
  ret
