.section .text.f7_0,"ax",@progbits
.globl f7_0
.type f7_0,@function
f7_0:
  ret
  call f20_1
  ret
