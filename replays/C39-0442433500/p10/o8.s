.section .text.f8_0,"ax",@progbits
.globl f8_0
.type f8_0,@function
f8_0:
  ret
  call f19_0
  call f53_1
  ret
.section .text.f8_1,"ax",@progbits
.globl f8_1
.type f8_1,@function
f8_1:
  ret
  call f56_0
  call f24_1
  call f48_0
  call f31_0
  call f13_0
  ret
.section wvset0,"aw",@progbits
  .quad f26_0
