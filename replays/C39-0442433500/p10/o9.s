.section .text.f9_0,"ax",@progbits
.globl f9_0
.type f9_0,@function
f9_0:
  ret
  call f53_1
  ret
.section .text.f9_1,"ax",@progbits
.globl f9_1
.type f9_1,@function
f9_1:
  ret
  call f47_1
  call f32_0
  call f28_0
  lea d_f9_1(%rip),%rax
  ret
.section .data.d_f9_1,"aw",@progbits
.globl d_f9_1
d_f9_1:
  .quad 1
.section wvset0,"aw",@progbits
  .quad f41_1
