.section .text._start,"ax",@progbits
.globl _start
_start:
  call f23_1
  call f49_0
  call f9_0
  mov $60,%eax
  xor %edi,%edi
  syscall
.section wvset0,"aw",@progbits
  .quad f27_0
