.section .text.f0_0,"ax",@progbits
.globl f0_0
.type f0_0,@function
f0_0:
  ret
  call f11_0
  call f0_0
  lea d_f0_0(%rip),%rax
  mov wvsv0@GOTPCREL(%rip),%rax
  mov wvsv1@GOTPCREL(%rip),%rax
  mov wvsv1(%rip),%rax
  ret
.section .data.d_f0_0,"aw",@progbits
.globl d_f0_0
d_f0_0:
  .quad 1
