.section .text.f1_0,"ax",@progbits
.globl f1_0
.type f1_0,@function
f1_0:
  ret
  call f10_0
  call f8_0
  call f9_0
  call f7_0
  call f5_0
  lea d_f1_0(%rip),%rax
  mov wvsv0@GOTPCREL(%rip),%rax
  ret
.section .data.d_f1_0,"aw",@progbits
.globl d_f1_0
d_f1_0:
  .quad 1
.section wvset0,"aw",@progbits
  .quad f1_0
