.section .text.f10_0,"ax",@progbits
.globl f10_0
.type f10_0,@function
f10_0:
  ret
  call f4_0
  call f8_0
  lea d_f10_0(%rip),%rax
  mov wvsv1@GOTPCREL(%rip),%rax
  ret
.section .data.d_f10_0,"aw",@progbits
.globl d_f10_0
d_f10_0:
  .quad 1
.section wvset0,"aw",@progbits
  .quad f2_0
