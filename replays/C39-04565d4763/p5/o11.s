.section .text.f11_0,"ax",@progbits
.globl f11_0
.type f11_0,@function
f11_0:
  ret
  call f9_0
  lea d_f11_0(%rip),%rax
  mov wvsv1@GOTPCREL(%rip),%rax
  ret
.section .data.d_f11_0,"aw",@progbits
.globl d_f11_0
d_f11_0:
  .quad 1
