.section .text.f2_0,"ax",@progbits
.globl f2_0
.type f2_0,@function
f2_0:
  ret
  call f6_0
  mov wvsv1@GOTPCREL(%rip),%rax
  mov wvsv0(%rip),%rax
  ret
.section wvset0,"aw",@progbits
  .quad f6_0
