.section .text.f3_0,"ax",@progbits
.globl f3_0
.type f3_0,@function
f3_0:
  ret
  call f9_0
  mov wvsv1@GOTPCREL(%rip),%rax
  ret
.section wvset0,"aw",@progbits
  .quad f10_0
