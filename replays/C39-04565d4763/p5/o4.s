.section .text.f4_0,"ax",@progbits
.globl f4_0
.type f4_0,@function
f4_0:
  ret
  call f7_0
  call f9_0
  lea __start_wvset0(%rip),%rax
  lea __stop_wvset0(%rip),%rdx
  lea d_f4_0(%rip),%rax
  mov wvsv1@GOTPCREL(%rip),%rax
  mov wvsv0(%rip),%rax
  ret
.section .data.d_f4_0,"aw",@progbits
.globl d_f4_0
d_f4_0:
  .quad 1
.section wvset0,"aw",@progbits
  .quad f1_0
