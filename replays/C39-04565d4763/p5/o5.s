.section .text.f5_0,"ax",@progbits
.globl f5_0
.type f5_0,@function
f5_0:
  ret
  call f9_0
  call f5_0
  call f3_0
  mov wvsv0@GOTPCREL(%rip),%rax
  mov wvsv1(%rip),%rax
  ret
.section wvset0,"aw",@progbits
  .quad f2_0
