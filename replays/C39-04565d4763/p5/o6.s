.section .text.f6_0,"ax",@progbits
.globl f6_0
.type f6_0,@function
f6_0:
  ret
  call f6_0
  call f0_0
  call f8_0
  call f0_0
  call f4_0
  mov wvsv0(%rip),%rax
  mov wvsv0@GOTPCREL(%rip),%rax
  mov wvsv0(%rip),%rax
  ret
