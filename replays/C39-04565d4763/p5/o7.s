.section .text.f7_0,"ax",@progbits
.globl f7_0
.type f7_0,@function
f7_0:
  ret
  call f5_0
  call f9_0
  call f11_0
  call f8_0
  call f1_0
  lea d_f7_0(%rip),%rax
  mov wvsv1(%rip),%rax
  ret
.section .data.d_f7_0,"aw",@progbits
.globl d_f7_0
d_f7_0:
  .quad 1
.section wvset0,"aw",@progbits
  .quad f7_0
