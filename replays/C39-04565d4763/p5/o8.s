.section .text.f8_0,"ax",@progbits
.globl f8_0
.type f8_0,@function
f8_0:
  ret
  call f3_0
  mov wvsv1@GOTPCREL(%rip),%rax
  mov wvsv1(%rip),%rax
  ret
.section wvset0,"aw",@progbits
  .quad f4_0
