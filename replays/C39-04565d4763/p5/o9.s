.section .text.f9_0,"ax",@progbits
.globl f9_0
.type f9_0,@function
f9_0:
  ret
  call f10_0
  lea d_f9_0(%rip),%rax
  mov wvsv1(%rip),%rax
  ret
.section .data.d_f9_0,"aw",@progbits
.globl d_f9_0
d_f9_0:
  .quad 1
