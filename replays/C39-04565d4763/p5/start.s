.section .text._start,"ax",@progbits
.globl _start
_start:
  call f6_0
  call f0_0
  mov $60,%eax
  xor %edi,%edi
  syscall
.section wvset0,"aw",@progbits
  .quad f0_0
