.section .text.f0_0,"ax",@progbits
.globl f0_0
.type f0_0,@function
f0_0:
  ret
  call f3_0
  call f4_3
  call f2_1
  call f4_3
  call f5_0
  call f3_0
  ret
.section .text.f0_1,"ax",@progbits
.globl f0_1
.type f0_1,@function
f0_1:
  ret
  call f4_1
  ret
