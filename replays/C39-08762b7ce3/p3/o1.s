.section .text.f1_0,"ax",@progbits
.globl f1_0
.type f1_0,@function
f1_0:
  ret
  call f3_2
  call f4_2
  call f0_1
  call f0_1
  call f2_0
  lea d_f1_0(%rip),%rax
  ret
.section .data.d_f1_0,"aw",@progbits
.globl d_f1_0
d_f1_0:
  .quad 1
.section .text.f1_1,"ax",@progbits
.globl f1_1
.type f1_1,@function
f1_1:
  ret
  call f3_0
  call f1_0
  call f1_3
  call f4_0
  call f0_1
  call f3_0
  lea __start_wvset0(%rip),%rax
  lea __stop_wvset0(%rip),%rdx
  lea d_f1_1(%rip),%rax
  ret
.section .data.d_f1_1,"aw",@progbits
.globl d_f1_1
d_f1_1:
  .quad 1
.section .text.f1_2,"ax",@progbits
.globl f1_2
.type f1_2,@function
f1_2:
  ret
  call f0_1
  call f3_1
  call f1_1
  call f4_3
  ret
.section .text.f1_3,"ax",@progbits
.globl f1_3
.type f1_3,@function
f1_3:
  ret
  call f0_0
  call f2_1
  ret
