.section .text.f3_0,"ax",@progbits
.globl f3_0
.type f3_0,@function
f3_0:
  ret
  call f4_2
  call f3_1
  call f4_2
  call f2_0
  lea __start_wvset0(%rip),%rax
  lea __stop_wvset0(%rip),%rdx
  ret
.section .text.f3_1,"ax",@progbits
.globl f3_1
.type f3_1,@function
f3_1:
  ret
  call f1_3
  call f2_0
  call f5_0
  ret
.section .text.f3_2,"ax",@progbits
.globl f3_2
.type f3_2,@function
f3_2:
  ret
  call f5_0
  call f1_1
  call f2_0
  call f2_0
  lea d_f3_2(%rip),%rax
  ret
.section .data.d_f3_2,"aw",@progbits
.globl d_f3_2
d_f3_2:
  .quad 1
