.section .text.f4_0,"ax",@progbits
.globl f4_0
.type f4_0,@function
f4_0:
  ret
  call f4_1
  call f1_3
  call f4_0
  ret
.section .text.f4_1,"ax",@progbits
.globl f4_1
.type f4_1,@function
f4_1:
  ret
  call f5_0
  call f4_2
  ret
.section .text.f4_2,"ax",@progbits
.globl f4_2
.type f4_2,@function
f4_2:
  ret
  call f0_0
  call f0_0
  call f0_0
  call f3_2
  call f4_2
  call f4_2
  call f1_3
  call f5_0
  lea __start_wvset0(%rip),%rax
  lea __stop_wvset0(%rip),%rdx
  ret
.section .text.f4_3,"ax",@progbits
.globl f4_3
.type f4_3,@function
f4_3:
  ret
  call f4_0
  call f4_3
  call f3_0
  lea __start_wvset0(%rip),%rax
  lea __stop_wvset0(%rip),%rdx
  lea d_f4_3(%rip),%rax
  ret
.section .data.d_f4_3,"aw",@progbits
.globl d_f4_3
d_f4_3:
  .quad 1
.section wvset0,"aw",@progbits
  .quad f0_0
