.section .text.f5_0,"ax",@progbits
.globl f5_0
.type f5_0,@function
f5_0:
  ret
  call f2_1
  call f4_0
  call f1_2
  call f1_2
  call f2_0
  call f1_2
  call f1_2
  ret
