.section .text._start,"ax",@progbits
.globl _start
_start:
  call f2_2
  call f5_0
  call f4_1
  call f3_2
  mov $60,%eax
  xor %edi,%edi
  syscall
.section wvset0,"aw",@progbits
  .quad f5_0
