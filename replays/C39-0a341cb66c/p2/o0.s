.section .text.f0_0,"ax",@progbits
.globl f0_0
.type f0_0,@function
f0_0:
  ret
  call f0_0
  call f2_2
  ret
.section .text.f0_1,"ax",@progbits
.globl f0_1
.type f0_1,@function
f0_1:
  ret
  call f2_2
  call f0_1
  ret
.section .text.f0_2,"ax",@progbits
.globl f0_2
.type f0_2,@function
f0_2:
  ret
  call f0_0
  lea d_f0_2(%rip),%rax
  ret
.section .data.d_f0_2,"aw",@progbits
.globl d_f0_2
d_f0_2:
  .quad 1
.section wvset1,"aw",@progbits
  .quad f2_2
