.section .text.f2_0,"ax",@progbits
.globl f2_0
.type f2_0,@function
f2_0:
  ret
  call f0_0
  call f2_2
  lea __start_wvset1(%rip),%rax
  lea __stop_wvset1(%rip),%rdx
  lea d_f2_0(%rip),%rax
  ret
.section .data.d_f2_0,"aw",@progbits
.globl d_f2_0
d_f2_0:
  .quad 1
.section .text.f2_1,"ax",@progbits
.globl f2_1
.type f2_1,@function
f2_1:
  ret
  lea d_f2_1(%rip),%rax
  ret
.section .data.d_f2_1,"aw",@progbits
.globl d_f2_1
d_f2_1:
  .quad 1
.section .text.f2_2,"ax",@progbits
.globl f2_2
.type f2_2,@function
f2_2:
  ret
  ret
