.section .text.f3_0,"ax",@progbits
.globl f3_0
.type f3_0,@function
f3_0:
  ret
  call f1_0
  call f0_1
  call f0_0
  ret
.section wvset0,"aw",@progbits
  .quad f2_2
