.section .text.f0_0,"ax",@progbits
.globl f0_0
.type f0_0,@function
f0_0:
  ret
  call f19_1
  ret
.section .text.f0_1,"ax",@progbits
.globl f0_1
.type f0_1,@function
f0_1:
  ret
  call f14_0
  call f1_1
  lea d_f0_1(%rip),%rax
  mov wvsv2@GOTPCREL(%rip),%rax
  mov wvsv2(%rip),%rax
  ret
.section .data.d_f0_1,"aw",@progbits
.globl d_f0_1
d_f0_1:
  .quad 1
