.section .text.f1_0,"ax",@progbits
.globl f1_0
.type f1_0,@function
f1_0:
  ret
  call f15_0
  mov wvsv1@GOTPCREL(%rip),%rax
  mov wvsv0(%rip),%rax
  ret
.section .text.f1_1,"ax",@progbits
.globl f1_1
.type f1_1,@function
f1_1:
  ret
  call f5_1
  call f13_0
  mov wvsv0@GOTPCREL(%rip),%rax
  ret
