.section .text.f10_0,"ax",@progbits
.globl f10_0
.type f10_0,@function
f10_0:
  ret
  call f19_0
  call f2_0
  call f19_0
  lea d_f10_0(%rip),%rax
  ret
.section .data.d_f10_0,"aw",@progbits
.globl d_f10_0
d_f10_0:
  .quad 1
.section .text.f10_1,"ax",@progbits
.globl f10_1
.type f10_1,@function
f10_1:
  ret
  mov wvsv1(%rip),%rax
  ret
