.section .text.f11_0,"ax",@progbits
.globl f11_0
.type f11_0,@function
f11_0:
  ret
  call f6_0
  mov wvsv2(%rip),%rax
  ret
