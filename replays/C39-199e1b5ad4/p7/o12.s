.section .text.f12_0,"ax",@progbits
.globl f12_0
.type f12_0,@function
f12_0:
  ret
  call f17_0
  mov wvsv1@GOTPCREL(%rip),%rax
  mov wvsv0(%rip),%rax
  ret
