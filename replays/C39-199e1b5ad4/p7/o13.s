.section .text.f13_0,"ax",@progbits
.globl f13_0
.type f13_0,@function
f13_0:
  ret
  call f17_1
  call f5_0
  call f23_1
  ret
