.section .text.f14_0,"ax",@progbits
.globl f14_0
.type f14_0,@function
f14_0:
  ret
  call f17_0
  lea d_f14_0(%rip),%rax
  mov wvsv1@GOTPCREL(%rip),%rax
  ret
.section .data.d_f14_0,"aw",@progbits
.globl d_f14_0
d_f14_0:
  .quad 1
.section .text.f14_1,"ax",@progbits
.globl f14_1
.type f14_1,@function
f14_1:
  ret
  call f21_1
  call f2_0
  ret
