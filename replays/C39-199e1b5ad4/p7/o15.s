.section .text.f15_0,"ax",@progbits
.globl f15_0
.type f15_0,@function
f15_0:
  ret
  call f0_1
  ret
.section .text.f15_1,"ax",@progbits
.globl f15_1
.type f15_1,@function
f15_1:
  ret
  call f7_1
  call f7_0
  call f2_0
  call f15_0
  call f9_0
  mov wvsv1@GOTPCREL(%rip),%rax
  mov wvsv0(%rip),%rax
  ret
