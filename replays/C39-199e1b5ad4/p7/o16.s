.section .text.f16_0,"ax",@progbits
.globl f16_0
.type f16_0,@function
f16_0:
  ret
  call f21_0
  call f7_0
  mov wvsv0(%rip),%rax
  ret
