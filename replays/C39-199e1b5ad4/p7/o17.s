.section .text.f17_0,"ax",@progbits
.globl f17_0
.type f17_0,@function
f17_0:
  ret
  call f7_1
  mov wvsv1(%rip),%rax
  ret
.section .text.f17_1,"ax",@progbits
.globl f17_1
.type f17_1,@function
f17_1:
  ret
  call f4_0
  mov wvsv1(%rip),%rax
  mov wvsv1@GOTPCREL(%rip),%rax
  mov wvsv0@GOTPCREL(%rip),%rax
  mov wvsv1(%rip),%rax
  ret
