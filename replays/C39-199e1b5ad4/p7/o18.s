.section .text.f18_0,"ax",@progbits
.globl f18_0
.type f18_0,@function
f18_0:
  ret
  lea d_f18_0(%rip),%rax
  mov wvsv2@GOTPCREL(%rip),%rax
  mov wvsv0(%rip),%rax
  ret
.section .data.d_f18_0,"aw",@progbits
.globl d_f18_0
d_f18_0:
  .quad 1
