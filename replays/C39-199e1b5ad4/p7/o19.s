.section .text.f19_0,"ax",@progbits
.globl f19_0
.type f19_0,@function
f19_0:
  ret
  mov wvsv2@GOTPCREL(%rip),%rax
  ret
.section .text.f19_1,"ax",@progbits
.globl f19_1
.type f19_1,@function
f19_1:
  ret
  call f1_0
  mov wvsv0@GOTPCREL(%rip),%rax
  mov wvsv2@GOTPCREL(%rip),%rax
  mov wvsv0(%rip),%rax
  mov wvsv2(%rip),%rax
  ret
