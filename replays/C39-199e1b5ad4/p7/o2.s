.section .text.f2_0,"ax",@progbits
.globl f2_0
.type f2_0,@function
f2_0:
  ret
  call f9_0
  call f19_0
  mov wvsv1@GOTPCREL(%rip),%rax
  mov wvsv0(%rip),%rax
  ret
.section .text.f2_1,"ax",@progbits
.globl f2_1
.type f2_1,@function
f2_1:
  ret
  call f21_0
  lea d_f2_1(%rip),%rax
  mov wvsv2(%rip),%rax
  ret
.section .data.d_f2_1,"aw",@progbits
.globl d_f2_1
d_f2_1:
  .quad 1
