.section .text.f20_0,"ax",@progbits
.globl f20_0
.type f20_0,@function
f20_0:
  ret
  call f14_0
  call f16_0
  call f2_0
  call f3_0
  call f19_1
  mov wvsv0@GOTPCREL(%rip),%rax
  ret
