.section .text.f21_0,"ax",@progbits
.globl f21_0
.type f21_0,@function
f21_0:
  ret
  call f5_0
  call f3_1
  ret
.section .text.f21_1,"ax",@progbits
.globl f21_1
.type f21_1,@function
f21_1:
  ret
  call f5_0
  call f19_1
  call f19_0
  call f3_1
  call f21_1
  mov wvsv0(%rip),%rax
  mov wvsv1(%rip),%rax
  ret
