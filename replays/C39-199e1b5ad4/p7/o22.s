.section .text.f22_0,"ax",@progbits
.globl f22_0
.type f22_0,@function
f22_0:
  ret
  call f6_0
  mov wvsv1(%rip),%rax
  ret
