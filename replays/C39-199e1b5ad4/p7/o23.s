.section .text.f23_0,"ax",@progbits
.globl f23_0
.type f23_0,@function
f23_0:
  ret
  call f0_0
  call f5_1
  call f1_0
  call f22_0
  call f13_0
  lea d_f23_0(%rip),%rax
  mov wvsv0@GOTPCREL(%rip),%rax
  ret
.section .data.d_f23_0,"aw",@progbits
.globl d_f23_0
d_f23_0:
  .quad 1
.section .text.f23_1,"ax",@progbits
.globl f23_1
.type f23_1,@function
f23_1:
  ret
  call f22_0
  call f19_1
  mov wvsv2(%rip),%rax
  ret
