.section .text.f3_0,"ax",@progbits
.globl f3_0
.type f3_0,@function
f3_0:
  ret
  call f10_0
  call f12_0
  call f10_0
  call f8_1
  call f15_1
  mov wvsv1(%rip),%rax
  ret
.section .text.f3_1,"ax",@progbits
.globl f3_1
.type f3_1,@function
f3_1:
  ret
  call f15_1
  call f22_0
  mov wvsv0@GOTPCREL(%rip),%rax
  mov wvsv1(%rip),%rax
  ret
