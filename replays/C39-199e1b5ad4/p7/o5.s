.section .text.f5_0,"ax",@progbits
.globl f5_0
.type f5_0,@function
f5_0:
  ret
  call f10_1
  call f6_1
  mov wvsv2@GOTPCREL(%rip),%rax
  mov wvsv0(%rip),%rax
  ret
.section .text.f5_1,"ax",@progbits
.globl f5_1
.type f5_1,@function
f5_1:
  ret
  call f19_1
  call f5_0
  call f10_1
  call f22_0
  call f5_0
  lea d_f5_1(%rip),%rax
  mov wvsv1@GOTPCREL(%rip),%rax
  mov wvsv2@GOTPCREL(%rip),%rax
  mov wvsv1(%rip),%rax
  mov wvsv2(%rip),%rax
  ret
.section .data.d_f5_1,"aw",@progbits
.globl d_f5_1
d_f5_1:
  .quad 1
