.section .text.f6_0,"ax",@progbits
.globl f6_0
.type f6_0,@function
f6_0:
  ret
  mov wvsv0(%rip),%rax
  ret
.section .text.f6_1,"ax",@progbits
.globl f6_1
.type f6_1,@function
f6_1:
  ret
  call f19_1
  mov wvsv0@GOTPCREL(%rip),%rax
  mov wvsv1@GOTPCREL(%rip),%rax
  mov wvsv2@GOTPCREL(%rip),%rax
  ret
