.section .text.f7_0,"ax",@progbits
.globl f7_0
.type f7_0,@function
f7_0:
  ret
  call f14_1
  call f21_1
  ret
.section .text.f7_1,"ax",@progbits
.globl f7_1
.type f7_1,@function
f7_1:
  ret
  call f23_0
  lea d_f7_1(%rip),%rax
  ret
.section .data.d_f7_1,"aw",@progbits
.globl d_f7_1
d_f7_1:
  .quad 1
