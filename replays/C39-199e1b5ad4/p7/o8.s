.section .text.f8_0,"ax",@progbits
.globl f8_0
.type f8_0,@function
f8_0:
  ret
  call f11_0
  call f17_0
  call f14_0
  lea d_f8_0(%rip),%rax
  mov wvsv1@GOTPCREL(%rip),%rax
  ret
.section .data.d_f8_0,"aw",@progbits
.globl d_f8_0
d_f8_0:
  .quad 1
.section .text.f8_1,"ax",@progbits
.globl f8_1
.type f8_1,@function
f8_1:
  ret
  call f2_1
  call f1_0
  mov wvsv0@GOTPCREL(%rip),%rax
  mov wvsv0(%rip),%rax
  ret
