.section .text._start,"ax",@progbits
.globl _start
_start:
  call f17_1
  call f6_1
  mov $60,%eax
  xor %edi,%edi
  syscall
