.section .text.f0_0,"ax",@progbits
.globl f0_0
.type f0_0,@function
f0_0:
  ret
  call f0_1
  call f1_1
  call f1_1
  call f1_0
  call f1_0
  call f0_1
  mov wvsv0@GOTPCREL(%rip),%rax
  ret
.section .text.f0_1,"ax",@progbits
.globl f0_1
.type f0_1,@function
f0_1:
  ret
  call f1_1
  call f1_0
  call f0_1
  call f1_1
  call f1_1
  call f0_0
  call f0_0
  call f0_0
  call f1_1
  call f0_0
  call f0_1
  ret
