.section .text.f1_0,"ax",@progbits
.globl f1_0
.type f1_0,@function
f1_0:
  ret
  call f0_0
  call f0_0
  call f1_1
  call f0_1
  call f0_1
  call f1_0
  call f0_1
  ret
.section .text.f1_1,"ax",@progbits
.globl f1_1
.type f1_1,@function
f1_1:
  ret
  call f0_0
  call f1_0
  call f1_1
  call f1_0
  call f0_1
  call f1_0
  call f0_1
  call f1_0
  lea d_f1_1(%rip),%rax
  mov wvsv1@GOTPCREL(%rip),%rax
  mov wvsv1(%rip),%rax
  mov wvsv1(%rip),%rax
  ret
.section .data.d_f1_1,"aw",@progbits
.globl d_f1_1
d_f1_1:
  .quad 1
