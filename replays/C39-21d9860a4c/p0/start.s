.section .text._start,"ax",@progbits
.globl _start
_start:
  call f1_1
  call f1_0
  call f1_0
  call f0_1
  mov $60,%eax
  xor %edi,%edi
  syscall
