.section .text.f1_0,"ax",@progbits
.globl f1_0
.type f1_0,@function
f1_0:
  ret
  call f2_1
  lea d_f1_0(%rip),%rax
  ret
.section .data.d_f1_0,"aw",@progbits
.globl d_f1_0
d_f1_0:
  .quad 1
.section .text.f1_1,"ax",@progbits
.globl f1_1
.type f1_1,@function
f1_1:
  ret
  call f1_1
  ret
.section .text.f1_2,"ax",@progbits
.globl f1_2
.type f1_2,@function
f1_2:
  ret
  ret
