.section .text._start,"ax",@progbits
.globl _start
_start:
  call f2_0
  call f2_2
  call f2_1
  call f2_0
  mov $60,%eax
  xor %edi,%edi
  syscall
.section wvset0,"aw",@progbits
  .quad f2_2
