.section .text.f0_0,"ax",@progbits
.globl f0_0
.type f0_0,@function
f0_0:
  ret
  call f0_0
  call f0_0
  call f1_0
  call f1_0
  call f0_0
  lea __start_wvset0(%rip),%rax
  lea __stop_wvset0(%rip),%rdx
  ret
