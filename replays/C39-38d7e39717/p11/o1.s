.section .text.f1_0,"ax",@progbits
.globl f1_0
.type f1_0,@function
f1_0:
  ret
  call f1_0
  lea __start_wvset0(%rip),%rax
  lea __stop_wvset0(%rip),%rdx
  ret
