.section .text.f0_0,"ax",@progbits
.globl f0_0
.type f0_0,@function
f0_0:
  ret
  call f6_0
  call f0_0
  lea __start_wvset1(%rip),%rax
  lea __stop_wvset1(%rip),%rdx
  lea d_f0_0(%rip),%rax
  ret
.section .data.d_f0_0,"aw",@progbits
.globl d_f0_0
d_f0_0:
  .quad 1
.section wvset0,"aw",@progbits
  .quad f2_0
.section wvset1,"aw",@progbits
  .quad f3_0
