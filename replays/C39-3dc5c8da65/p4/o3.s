.section .text.f3_0,"ax",@progbits
.globl f3_0
.type f3_0,@function
f3_0:
  ret
  call f6_0
  lea __start_wvset0(%rip),%rax
  lea __stop_wvset0(%rip),%rdx
  lea d_f3_0(%rip),%rax
  ret
.section .data.d_f3_0,"aw",@progbits
.globl d_f3_0
d_f3_0:
  .quad 1
