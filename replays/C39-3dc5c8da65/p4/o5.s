.section .text.f5_0,"ax",@progbits
.globl f5_0
.type f5_0,@function
f5_0:
  ret
  ret
.section wvset1,"aw",@progbits
  .quad f2_0
