.section .text.f7_0,"ax",@progbits
.globl f7_0
.type f7_0,@function
f7_0:
  ret
  call f4_0
  lea __start_wvset0(%rip),%rax
  lea __stop_wvset0(%rip),%rdx
  lea d_f7_0(%rip),%rax
  ret
.section .data.d_f7_0,"aw",@progbits
.globl d_f7_0
d_f7_0:
  .quad 1
.section wvset1,"aw",@progbits
  .quad f6_0
