.section .text._start,"ax",@progbits
.globl _start
_start:
  call f5_0
  call f0_0
  call f1_0
  mov $60,%eax
  xor %edi,%edi
  syscall
.section wvset0,"aw",@progbits
  .quad f0_0
.section wvset1,"aw",@progbits
  .quad f5_0
