.section .text.f0_0,"ax",@progbits
.globl f0_0
.type f0_0,@function
f0_0:
  ret
  call f3_0
  call f3_1
  ret
.section .text.f0_1,"ax",@progbits
.globl f0_1
.type f0_1,@function
f0_1:
  ret
  call f9_0
  ret
