.section .text.f10_0,"ax",@progbits
.globl f10_0
.type f10_0,@function
f10_0:
  ret
  call f14_0
  call f0_1
  call f10_0
  call f9_0
  ret
