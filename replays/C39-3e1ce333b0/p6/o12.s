.section .text.f12_0,"ax",@progbits
.globl f12_0
.type f12_0,@function
f12_0:
  ret
  call f14_0
  lea d_f12_0(%rip),%rax
  ret
.section .data.d_f12_0,"aw",@progbits
.globl d_f12_0
d_f12_0:
  .quad 1
.section .text.f12_1,"ax",@progbits
.globl f12_1
.type f12_1,@function
f12_1:
  ret
  call f7_0
  call f14_0
  lea d_f12_1(%rip),%rax
  ret
.section .data.d_f12_1,"aw",@progbits
.globl d_f12_1
d_f12_1:
  .quad 1
