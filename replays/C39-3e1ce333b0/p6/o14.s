.section .text.f14_0,"ax",@progbits
.globl f14_0
.type f14_0,@function
f14_0:
  ret
  call f11_0
  call f5_0
  call f9_0
  call f15_0
  lea d_f14_0(%rip),%rax
  ret
.section .data.d_f14_0,"aw",@progbits
.globl d_f14_0
d_f14_0:
  .quad 1
