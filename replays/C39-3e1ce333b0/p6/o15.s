.section .text.f15_0,"ax",@progbits
.globl f15_0
.type f15_0,@function
f15_0:
  ret
  call f1_0
  call f15_0
  call f10_0
  call f6_1
  lea d_f15_0(%rip),%rax
  ret
.section .data.d_f15_0,"aw",@progbits
.globl d_f15_0
d_f15_0:
  .quad 1
