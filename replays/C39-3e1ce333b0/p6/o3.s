.section .text.f3_0,"ax",@progbits
.globl f3_0
.type f3_0,@function
f3_0:
  ret
  call f4_0
  call f6_0
  ret
.section .text.f3_1,"ax",@progbits
.globl f3_1
.type f3_1,@function
f3_1:
  ret
  call f15_0
  call f2_0
  call f3_1
  call f3_1
  call f5_0
  ret
