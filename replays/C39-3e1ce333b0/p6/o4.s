.section .text.f4_0,"ax",@progbits
.globl f4_0
.type f4_0,@function
f4_0:
  ret
  call f7_0
  call f11_0
  call f7_0
  call f6_0
  call f14_0
  ret
.section .text.f4_1,"ax",@progbits
.globl f4_1
.type f4_1,@function
f4_1:
  ret
  call f10_0
  ret
