.section .text.f5_0,"ax",@progbits
.globl f5_0
.type f5_0,@function
f5_0:
  ret
  call f0_0
  call f14_0
  call f14_0
  call f5_0
  call f12_0
  ret
