.section .text.f6_0,"ax",@progbits
.globl f6_0
.type f6_0,@function
f6_0:
  ret
  ret
.section .text.f6_1,"ax",@progbits
.globl f6_1
.type f6_1,@function
f6_1:
  ret
  call f8_0
  call f3_0
  call f15_0
  ret
