.section .text.f7_0,"ax",@progbits
.globl f7_0
.type f7_0,@function
f7_0:
  ret
  call f12_1
  call f13_0
  call f6_0
  call f4_1
  call f11_0
  ret
