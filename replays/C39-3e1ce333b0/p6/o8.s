.section .text.f8_0,"ax",@progbits
.globl f8_0
.type f8_0,@function
f8_0:
  ret
  call f9_0
  ret
