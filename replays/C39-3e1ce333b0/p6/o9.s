.section .text.f9_0,"ax",@progbits
.globl f9_0
.type f9_0,@function
f9_0:
  ret
  call f3_1
  call f4_1
  call f12_1
  call f1_0
  call f3_0
  call f15_0
  call f12_1
  ret
