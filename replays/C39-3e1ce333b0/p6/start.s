.section .text._start,"ax",@progbits
.globl _start
_start:
  call f2_0
  call f12_0
  call f15_0
  call f3_1
  mov $60,%eax
  xor %edi,%edi
  syscall
