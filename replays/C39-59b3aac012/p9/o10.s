.section .text.f10_0,"ax",@progbits
.globl f10_0
.type f10_0,@function
f10_0:
  ret
  call f37_0
  ret
.section .text.f10_1,"ax",@progbits
.globl f10_1
.type f10_1,@function
f10_1:
  ret
  call f47_0
  call f33_0
  ret
