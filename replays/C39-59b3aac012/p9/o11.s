.section .text.f11_0,"ax",@progbits
.globl f11_0
.type f11_0,@function
f11_0:
  ret
  call f17_0
  call f20_0
  call f17_1
  call f3_0
  call f3_0
  ret
.section .text.f11_1,"ax",@progbits
.globl f11_1
.type f11_1,@function
f11_1:
  ret
  call f16_1
  lea d_f11_1(%rip),%rax
  ret
.section .data.d_f11_1,"aw",@progbits
.globl d_f11_1
d_f11_1:
  .quad 1
