.section .text.f12_0,"ax",@progbits
.globl f12_0
.type f12_0,@function
f12_0:
  ret
  call f14_0
  lea __start_wvset0(%rip),%rax
  lea __stop_wvset0(%rip),%rdx
  ret
