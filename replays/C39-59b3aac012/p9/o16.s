.section .text.f16_0,"ax",@progbits
.globl f16_0
.type f16_0,@function
f16_0:
  ret
  call f10_0
  call f16_1
  call f30_1
  call f46_0
  call f43_1
  lea __start_wvset0(%rip),%rax
  lea __stop_wvset0(%rip),%rdx
  ret
.section .text.f16_1,"ax",@progbits
.globl f16_1
.type f16_1,@function
f16_1:
  ret
  ret
