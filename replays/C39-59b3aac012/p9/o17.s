.section .text.f17_0,"ax",@progbits
.globl f17_0
.type f17_0,@function
f17_0:
  ret
  call f2_1
  call f5_0
  call f44_0
  lea d_f17_0(%rip),%rax
  ret
.section .data.d_f17_0,"aw",@progbits
.globl d_f17_0
d_f17_0:
  .quad 1
.section .text.f17_1,"ax",@progbits
.globl f17_1
.type f17_1,@function
f17_1:
  ret
  call f14_0
  call f22_1
  call f17_0
  call f22_0
  call f33_0
  ret
