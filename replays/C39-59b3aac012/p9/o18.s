.section .text.f18_0,"ax",@progbits
.globl f18_0
.type f18_0,@function
f18_0:
  ret
  call f28_0
  ret
.section .text.f18_1,"ax",@progbits
.globl f18_1
.type f18_1,@function
f18_1:
  ret
  lea d_f18_1(%rip),%rax
  ret
.section .data.d_f18_1,"aw",@progbits
.globl d_f18_1
d_f18_1:
  .quad 1
