.section .text.f19_0,"ax",@progbits
.globl f19_0
.type f19_0,@function
f19_0:
  ret
  call f10_0
  call f25_1
  call f22_1
  ret
