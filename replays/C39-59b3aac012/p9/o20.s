.section .text.f20_0,"ax",@progbits
.globl f20_0
.type f20_0,@function
f20_0:
  ret
  call f32_0
  ret
.section .text.f20_1,"ax",@progbits
.globl f20_1
.type f20_1,@function
f20_1:
  ret
  ret
.section wvset0,"aw",@progbits
  .quad f41_1
