.section .text.f21_0,"ax",@progbits
.globl f21_0
.type f21_0,@function
f21_0:
  ret
  call f41_1
  call f5_0
  call f46_1
  ret
.section .text.f21_1,"ax",@progbits
.globl f21_1
.type f21_1,@function
f21_1:
  ret
  call f0_0
  ret
