.section .text.f22_0,"ax",@progbits
.globl f22_0
.type f22_0,@function
f22_0:
  ret
  call f38_0
  call f20_1
  call f11_1
  lea d_f22_0(%rip),%rax
  ret
.section .data.d_f22_0,"aw",@progbits
.globl d_f22_0
d_f22_0:
  .quad 1
.section .text.f22_1,"ax",@progbits
.globl f22_1
.type f22_1,@function
f22_1:
  ret
  call f10_0
  call f26_0
  ret
