.section .text.f23_0,"ax",@progbits
.globl f23_0
.type f23_0,@function
f23_0:
  ret
  call f30_0
  call f42_0
  call f44_0
  call f5_1
  call f8_0
  lea d_f23_0(%rip),%rax
  ret
.section .data.d_f23_0,"aw",@progbits
.globl d_f23_0
d_f23_0:
  .quad 1
.section .text.f23_1,"ax",@progbits
.globl f23_1
.type f23_1,@function
f23_1:
  ret
  call f15_0
  call f29_0
  call f18_0
  lea d_f23_1(%rip),%rax
  ret
.section .data.d_f23_1,"aw",@progbits
.globl d_f23_1
d_f23_1:
  .quad 1
.section wvset0,"aw",@progbits
  .quad f3_0
