.section .text.f24_0,"ax",@progbits
.globl f24_0
.type f24_0,@function
f24_0:
  ret
  call f5_0
  call f7_0
  lea __start_wvset0(%rip),%rax
  lea __stop_wvset0(%rip),%rdx
  ret
.section wvset0,"aw",@progbits
  .quad f20_1
