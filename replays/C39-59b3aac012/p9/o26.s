.section .text.f26_0,"ax",@progbits
.globl f26_0
.type f26_0,@function
f26_0:
  ret
  call f31_0
  ret
.section wvset0,"aw",@progbits
  .quad f28_0
