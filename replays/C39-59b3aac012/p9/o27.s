.section .text.f27_0,"ax",@progbits
.globl f27_0
.type f27_0,@function
f27_0:
  ret
  call f45_0
  call f24_0
  call f8_0
  ret
.section wvset0,"aw",@progbits
  .quad f20_0
