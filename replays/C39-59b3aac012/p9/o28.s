.section .text.f28_0,"ax",@progbits
.globl f28_0
.type f28_0,@function
f28_0:
  ret
  call f16_1
  call f18_0
  lea d_f28_0(%rip),%rax
  ret
.section .data.d_f28_0,"aw",@progbits
.globl d_f28_0
d_f28_0:
  .quad 1
