.section .text.f29_0,"ax",@progbits
.globl f29_0
.type f29_0,@function
f29_0:
  ret
  call f43_1
  ret
.section .text.f29_1,"ax",@progbits
.globl f29_1
.type f29_1,@function
f29_1:
  ret
  ret
