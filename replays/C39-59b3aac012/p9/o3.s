.section .text.f3_0,"ax",@progbits
.globl f3_0
.type f3_0,@function
f3_0:
  ret
  call f32_0
  lea __start_wvset0(%rip),%rax
  lea __stop_wvset0(%rip),%rdx
  ret
