.section .text.f30_0,"ax",@progbits
.globl f30_0
.type f30_0,@function
f30_0:
  ret
  call f9_0
  call f39_0
  call f38_0
  call f10_0
  call f41_0
  lea d_f30_0(%rip),%rax
  ret
.section .data.d_f30_0,"aw",@progbits
.globl d_f30_0
d_f30_0:
  .quad 1
.section .text.f30_1,"ax",@progbits
.globl f30_1
.type f30_1,@function
f30_1:
  ret
  call f6_0
  ret
