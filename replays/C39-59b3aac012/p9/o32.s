.section .text.f32_0,"ax",@progbits
.globl f32_0
.type f32_0,@function
f32_0:
  ret
  ret
