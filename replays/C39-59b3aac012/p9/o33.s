.section .text.f33_0,"ax",@progbits
.globl f33_0
.type f33_0,@function
f33_0:
  ret
  call f12_0
  ret
