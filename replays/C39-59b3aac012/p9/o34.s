.section .text.f34_0,"ax",@progbits
.globl f34_0
.type f34_0,@function
f34_0:
  ret
  call f24_0
  call f4_0
  ret
.section .text.f34_1,"ax",@progbits
.globl f34_1
.type f34_1,@function
f34_1:
  ret
  call f41_0
  call f12_0
  call f14_0
  call f35_0
  call f31_0
  lea d_f34_1(%rip),%rax
  ret
.section .data.d_f34_1,"aw",@progbits
.globl d_f34_1
d_f34_1:
  .quad 1
