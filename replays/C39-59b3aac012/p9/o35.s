.section .text.f35_0,"ax",@progbits
.globl f35_0
.type f35_0,@function
f35_0:
  ret
  call f22_0
  ret
.section .text.f35_1,"ax",@progbits
.globl f35_1
.type f35_1,@function
f35_1:
  ret
  call f30_0
  call f9_0
  lea d_f35_1(%rip),%rax
  ret
.section .data.d_f35_1,"aw",@progbits
.globl d_f35_1
d_f35_1:
  .quad 1
