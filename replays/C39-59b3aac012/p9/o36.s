.section .text.f36_0,"ax",@progbits
.globl f36_0
.type f36_0,@function
f36_0:
  ret
  ret
.section .text.f36_1,"ax",@progbits
.globl f36_1
.type f36_1,@function
f36_1:
  ret
  call f33_0
  call f9_0
  call f13_1
  lea d_f36_1(%rip),%rax
  ret
.section .data.d_f36_1,"aw",@progbits
.globl d_f36_1
d_f36_1:
  .quad 1
