.section .text.f37_0,"ax",@progbits
.globl f37_0
.type f37_0,@function
f37_0:
  ret
  call f24_0
  call f35_1
  lea d_f37_0(%rip),%rax
  ret
.section .data.d_f37_0,"aw",@progbits
.globl d_f37_0
d_f37_0:
  .quad 1
