.section .text.f38_0,"ax",@progbits
.globl f38_0
.type f38_0,@function
f38_0:
  ret
  call f8_0
  call f34_0
  call f41_1
  call f20_1
  call f25_0
  ret
