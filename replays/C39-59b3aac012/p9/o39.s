.section .text.f39_0,"ax",@progbits
.globl f39_0
.type f39_0,@function
f39_0:
  ret
  call f17_1
  ret
.section wvset0,"aw",@progbits
  .quad f18_0
