.section .text.f40_0,"ax",@progbits
.globl f40_0
.type f40_0,@function
f40_0:
  ret
  call f41_1
  call f27_0
  call f29_0
  call f24_0
  call f21_0
  ret
.section .text.f40_1,"ax",@progbits
.globl f40_1
.type f40_1,@function
f40_1:
  ret
  ret
