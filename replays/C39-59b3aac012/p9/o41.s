.section .text.f41_0,"ax",@progbits
.globl f41_0
.type f41_0,@function
f41_0:
  ret
  call f15_0
  call f2_1
  call f33_0
  ret
.section .text.f41_1,"ax",@progbits
.globl f41_1
.type f41_1,@function
f41_1:
  ret
  call f23_0
  lea __start_wvset0(%rip),%rax
  lea __stop_wvset0(%rip),%rdx
  lea d_f41_1(%rip),%rax
  ret
.section .data.d_f41_1,"aw",@progbits
.globl d_f41_1
d_f41_1:
  .quad 1
