.section .text.f42_0,"ax",@progbits
.globl f42_0
.type f42_0,@function
f42_0:
  ret
  call f22_0
  ret
