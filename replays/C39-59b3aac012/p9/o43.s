.section .text.f43_0,"ax",@progbits
.globl f43_0
.type f43_0,@function
f43_0:
  ret
  call f43_1
  ret
.section .text.f43_1,"ax",@progbits
.globl f43_1
.type f43_1,@function
f43_1:
  ret
  call f8_0
  call f7_0
  ret
.section wvset0,"aw",@progbits
  .quad f32_0
