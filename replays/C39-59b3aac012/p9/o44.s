.section .text.f44_0,"ax",@progbits
.globl f44_0
.type f44_0,@function
f44_0:
  ret
  call f5_0
  call f19_0
  call f16_0
  call f1_0
  call f25_0
  lea d_f44_0(%rip),%rax
  ret
.section .data.d_f44_0,"aw",@progbits
.globl d_f44_0
d_f44_0:
  .quad 1
.section wvset0,"aw",@progbits
  .quad f10_0
