.section .text.f45_0,"ax",@progbits
.globl f45_0
.type f45_0,@function
f45_0:
  ret
  call f29_1
  lea d_f45_0(%rip),%rax
  ret
.section .data.d_f45_0,"aw",@progbits
.globl d_f45_0
d_f45_0:
  .quad 1
