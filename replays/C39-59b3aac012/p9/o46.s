.section .text.f46_0,"ax",@progbits
.globl f46_0
.type f46_0,@function
f46_0:
  ret
  call f20_1
  call f21_1
  ret
.section .text.f46_1,"ax",@progbits
.globl f46_1
.type f46_1,@function
f46_1:
  ret
  call f39_0
  call f29_1
  call f29_0
  call f46_1
  call f30_0
  lea __start_wvset0(%rip),%rax
  lea __stop_wvset0(%rip),%rdx
  lea d_f46_1(%rip),%rax
  ret
.section .data.d_f46_1,"aw",@progbits
.globl d_f46_1
d_f46_1:
  .quad 1
