.section .text.f47_0,"ax",@progbits
.globl f47_0
.type f47_0,@function
f47_0:
  ret
  call f23_0
  call f10_0
  call f0_0
  call f21_1
  call f17_1
  ret
