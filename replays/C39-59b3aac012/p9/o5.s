.section .text.f5_0,"ax",@progbits
.globl f5_0
.type f5_0,@function
f5_0:
  ret
  call f16_1
  ret
.section .text.f5_1,"ax",@progbits
.globl f5_1
.type f5_1,@function
f5_1:
  ret
  call f18_1
  call f36_1
  ret
.section wvset0,"aw",@progbits
  .quad f13_1
