.section .text.f6_0,"ax",@progbits
.globl f6_0
.type f6_0,@function
f6_0:
  ret
  call f30_0
  call f9_0
  call f16_1
  call f31_0
  call f32_0
  lea d_f6_0(%rip),%rax
  ret
.section .data.d_f6_0,"aw",@progbits
.globl d_f6_0
d_f6_0:
  .quad 1
.section wvset0,"aw",@progbits
  .quad f24_0
