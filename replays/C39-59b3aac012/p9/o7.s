.section .text.f7_0,"ax",@progbits
.globl f7_0
.type f7_0,@function
f7_0:
  ret
  call f34_1
  call f22_1
  ret
.section wvset0,"aw",@progbits
  .quad f20_0
