.section .text.f0_0,"ax",@progbits
.globl f0_0
.type f0_0,@function
f0_0:
  ret
  call f29_0
  ret
