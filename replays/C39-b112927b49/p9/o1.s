.section .text.f1_0,"ax",@progbits
.globl f1_0
.type f1_0,@function
f1_0:
  ret
  call f10_0
  ret
