.section .text.f10_0,"ax",@progbits
.globl f10_0
.type f10_0,@function
f10_0:
  ret
  call f5_1
  call f39_1
  call f42_1
  call f22_0
  call f21_0
  call f13_0
  ret
.section .text.f10_1,"ax",@progbits
.globl f10_1
.type f10_1,@function
f10_1:
  ret
  call f39_1
  lea d_f10_1(%rip),%rax
  ret
.section .data.d_f10_1,"aw",@progbits
.globl d_f10_1
d_f10_1:
  .quad 1
