.section .text.f11_0,"ax",@progbits
.globl f11_0
.type f11_0,@function
f11_0:
  ret
  call f32_0
  call f19_1
  ret
.section .text.f11_1,"ax",@progbits
.globl f11_1
.type f11_1,@function
f11_1:
  ret
  call f8_0
  ret
