.section .text.f12_0,"ax",@progbits
.globl f12_0
.type f12_0,@function
f12_0:
  ret
  call f15_0
  lea d_f12_0(%rip),%rax
  ret
.section .data.d_f12_0,"aw",@progbits
.globl d_f12_0
d_f12_0:
  .quad 1
