.section .text.f13_0,"ax",@progbits
.globl f13_0
.type f13_0,@function
f13_0:
  ret
  call f47_0
  lea d_f13_0(%rip),%rax
  ret
.section .data.d_f13_0,"aw",@progbits
.globl d_f13_0
d_f13_0:
  .quad 1
