.section .text.f14_0,"ax",@progbits
.globl f14_0
.type f14_0,@function
f14_0:
  ret
  call f5_1
  call f21_0
  call f5_1
  call f31_0
  call f23_0
  ret
.section .text.f14_1,"ax",@progbits
.globl f14_1
.type f14_1,@function
f14_1:
  ret
  call f37_0
  ret
