.section .text.f15_0,"ax",@progbits
.globl f15_0
.type f15_0,@function
f15_0:
  ret
  call f15_0
  call f8_0
  call f22_0
  ret
