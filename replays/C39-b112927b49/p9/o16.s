.section .text.f16_0,"ax",@progbits
.globl f16_0
.type f16_0,@function
f16_0:
  ret
  call f22_0
  call f31_1
  call f18_0
  ret
