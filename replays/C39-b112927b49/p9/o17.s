.section .text.f17_0,"ax",@progbits
.globl f17_0
.type f17_0,@function
f17_0:
  ret
  call f6_0
  call f17_1
  ret
.section .text.f17_1,"ax",@progbits
.globl f17_1
.type f17_1,@function
f17_1:
  ret
  call f3_0
  call f36_0
  lea d_f17_1(%rip),%rax
  ret
.section .data.d_f17_1,"aw",@progbits
.globl d_f17_1
d_f17_1:
  .quad 1
