.section .text.f18_0,"ax",@progbits
.globl f18_0
.type f18_0,@function
f18_0:
  ret
  call f12_0
  call f0_0
  call f13_0
  call f16_0
  call f46_0
  ret
