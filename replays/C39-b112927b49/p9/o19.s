.section .text.f19_0,"ax",@progbits
.globl f19_0
.type f19_0,@function
f19_0:
  ret
  call f14_1
  call f22_0
  lea d_f19_0(%rip),%rax
  ret
.section .data.d_f19_0,"aw",@progbits
.globl d_f19_0
d_f19_0:
  .quad 1
.section .text.f19_1,"ax",@progbits
.globl f19_1
.type f19_1,@function
f19_1:
  ret
  call f10_0
  ret
