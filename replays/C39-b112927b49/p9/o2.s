.section .text.f2_0,"ax",@progbits
.globl f2_0
.type f2_0,@function
f2_0:
  ret
  call f20_0
  ret
