.section .text.f20_0,"ax",@progbits
.globl f20_0
.type f20_0,@function
f20_0:
  ret
  ret
.section .text.f20_1,"ax",@progbits
.globl f20_1
.type f20_1,@function
f20_1:
  ret
  call f43_0
  call f21_1
  call f0_0
  ret
