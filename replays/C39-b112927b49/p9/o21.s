.section .text.f21_0,"ax",@progbits
.globl f21_0
.type f21_0,@function
f21_0:
  ret
  ret
.section .text.f21_1,"ax",@progbits
.globl f21_1
.type f21_1,@function
f21_1:
  ret
  call f37_1
  call f35_1
  call f14_1
  ret
