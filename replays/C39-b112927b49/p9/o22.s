.section .text.f22_0,"ax",@progbits
.globl f22_0
.type f22_0,@function
f22_0:
  ret
  call f19_0
  call f38_0
  ret
.section .text.f22_1,"ax",@progbits
.globl f22_1
.type f22_1,@function
f22_1:
  ret
  call f31_1
  ret
