.section .text.f23_0,"ax",@progbits
.globl f23_0
.type f23_0,@function
f23_0:
  ret
  call f44_0
  call f45_1
  call f31_0
  call f27_1
  call f14_1
  call f14_0
  call f10_0
  ret
