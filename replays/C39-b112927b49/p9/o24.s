.section .text.f24_0,"ax",@progbits
.globl f24_0
.type f24_0,@function
f24_0:
  ret
  call f1_0
  call f45_1
  call f38_1
  lea d_f24_0(%rip),%rax
  ret
.section .data.d_f24_0,"aw",@progbits
.globl d_f24_0
d_f24_0:
  .quad 1
