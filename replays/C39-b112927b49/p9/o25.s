.section .text.f25_0,"ax",@progbits
.globl f25_0
.type f25_0,@function
f25_0:
  ret
  ret
