.section .text.f26_0,"ax",@progbits
.globl f26_0
.type f26_0,@function
f26_0:
  ret
  call f27_1
  ret
.section .text.f26_1,"ax",@progbits
.globl f26_1
.type f26_1,@function
f26_1:
  ret
  call f4_0
  call f40_0
  call f38_1
  lea d_f26_1(%rip),%rax
  ret
.section .data.d_f26_1,"aw",@progbits
.globl d_f26_1
d_f26_1:
  .quad 1
