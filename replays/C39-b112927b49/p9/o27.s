.section .text.f27_0,"ax",@progbits
.globl f27_0
.type f27_0,@function
f27_0:
  ret
  call f3_1
  call f35_0
  call f8_1
  lea d_f27_0(%rip),%rax
  ret
.section .data.d_f27_0,"aw",@progbits
.globl d_f27_0
d_f27_0:
  .quad 1
.section .text.f27_1,"ax",@progbits
.globl f27_1
.type f27_1,@function
f27_1:
  ret
  call f43_0
  call f35_1
  call f42_1
  lea d_f27_1(%rip),%rax
  ret
.section .data.d_f27_1,"aw",@progbits
.globl d_f27_1
d_f27_1:
  .quad 1
