.section .text.f28_0,"ax",@progbits
.globl f28_0
.type f28_0,@function
f28_0:
  ret
  call f27_1
  call f27_1
  ret
