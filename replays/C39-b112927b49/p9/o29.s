.section .text.f29_0,"ax",@progbits
.globl f29_0
.type f29_0,@function
f29_0:
  ret
  call f11_0
  call f31_0
  call f36_0
  call f19_1
  call f22_1
  call f45_1
  ret
