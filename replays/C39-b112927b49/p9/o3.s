.section .text.f3_0,"ax",@progbits
.globl f3_0
.type f3_0,@function
f3_0:
  ret
  call f40_0
  call f14_0
  lea d_f3_0(%rip),%rax
  ret
.section .data.d_f3_0,"aw",@progbits
.globl d_f3_0
d_f3_0:
  .quad 1
.section .text.f3_1,"ax",@progbits
.globl f3_1
.type f3_1,@function
f3_1:
  ret
  call f15_0
  call f42_1
  call f9_0
  lea d_f3_1(%rip),%rax
  ret
.section .data.d_f3_1,"aw",@progbits
.globl d_f3_1
d_f3_1:
  .quad 1
