.section .text.f30_0,"ax",@progbits
.globl f30_0
.type f30_0,@function
f30_0:
  ret
  call f9_0
  ret
