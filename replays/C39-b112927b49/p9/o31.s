.section .text.f31_0,"ax",@progbits
.globl f31_0
.type f31_0,@function
f31_0:
  ret
  call f7_0
  call f17_1
  call f21_1
  lea d_f31_0(%rip),%rax
  ret
.section .data.d_f31_0,"aw",@progbits
.globl d_f31_0
d_f31_0:
  .quad 1
.section .text.f31_1,"ax",@progbits
.globl f31_1
.type f31_1,@function
f31_1:
  ret
  call f31_0
  call f36_1
  lea d_f31_1(%rip),%rax
  ret
.section .data.d_f31_1,"aw",@progbits
.globl d_f31_1
d_f31_1:
  .quad 1
