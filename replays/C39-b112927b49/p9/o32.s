.section .text.f32_0,"ax",@progbits
.globl f32_0
.type f32_0,@function
f32_0:
  ret
  call f39_0
  call f36_0
  ret
