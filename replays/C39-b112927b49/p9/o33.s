.section .text.f33_0,"ax",@progbits
.globl f33_0
.type f33_0,@function
f33_0:
  ret
  call f21_1
  call f21_1
  call f38_0
  lea d_f33_0(%rip),%rax
  ret
.section .data.d_f33_0,"aw",@progbits
.globl d_f33_0
d_f33_0:
  .quad 1
