.section .text.f34_0,"ax",@progbits
.globl f34_0
.type f34_0,@function
f34_0:
  ret
  ret
