.section .text.f35_0,"ax",@progbits
.globl f35_0
.type f35_0,@function
f35_0:
  ret
  call f35_0
  lea d_f35_0(%rip),%rax
  ret
.section .data.d_f35_0,"aw",@progbits
.globl d_f35_0
d_f35_0:
  .quad 1
.section .text.f35_1,"ax",@progbits
.globl f35_1
.type f35_1,@function
f35_1:
  ret
  call f10_0
  ret
