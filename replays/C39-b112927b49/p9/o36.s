.section .text.f36_0,"ax",@progbits
.globl f36_0
.type f36_0,@function
f36_0:
  ret
  call f3_1
  call f1_0
  call f10_1
  call f45_1
  call f45_1
  ret
.section .text.f36_1,"ax",@progbits
.globl f36_1
.type f36_1,@function
f36_1:
  ret
  call f40_1
  call f37_1
  ret
