.section .text.f37_0,"ax",@progbits
.globl f37_0
.type f37_0,@function
f37_0:
  ret
  call f39_0
  ret
.section .text.f37_1,"ax",@progbits
.globl f37_1
.type f37_1,@function
f37_1:
  ret
  call f29_0
  call f17_0
  call f14_0
  ret
