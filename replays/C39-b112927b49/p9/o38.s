.section .text.f38_0,"ax",@progbits
.globl f38_0
.type f38_0,@function
f38_0:
  ret
  call f24_0
  call f20_1
  call f31_1
  lea d_f38_0(%rip),%rax
  ret
.section .data.d_f38_0,"aw",@progbits
.globl d_f38_0
d_f38_0:
  .quad 1
.section .text.f38_1,"ax",@progbits
.globl f38_1
.type f38_1,@function
f38_1:
  ret
  call f34_0
  call f30_0
  ret
