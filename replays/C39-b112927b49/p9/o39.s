.section .text.f39_0,"ax",@progbits
.globl f39_0
.type f39_0,@function
f39_0:
  ret
  call f14_0
  ret
.section .text.f39_1,"ax",@progbits
.globl f39_1
.type f39_1,@function
f39_1:
  ret
  call f45_0
  lea d_f39_1(%rip),%rax
  ret
.section .data.d_f39_1,"aw",@progbits
.globl d_f39_1
d_f39_1:
  .quad 1
