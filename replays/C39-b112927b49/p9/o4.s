.section .text.f4_0,"ax",@progbits
.globl f4_0
.type f4_0,@function
f4_0:
  ret
  call f22_1
  ret
