.section .text.f40_0,"ax",@progbits
.globl f40_0
.type f40_0,@function
f40_0:
  ret
  call f26_0
  call f10_1
  ret
.section .text.f40_1,"ax",@progbits
.globl f40_1
.type f40_1,@function
f40_1:
  ret
  call f12_0
  call f45_1
  call f42_0
  call f6_1
  call f13_0
  ret
