.section .text.f41_0,"ax",@progbits
.globl f41_0
.type f41_0,@function
f41_0:
  ret
  call f31_1
  call f12_0
  call f3_0
  call f17_1
  call f27_0
  ret
