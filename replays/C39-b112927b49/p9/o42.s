.section .text.f42_0,"ax",@progbits
.globl f42_0
.type f42_0,@function
f42_0:
  ret
  call f29_0
  lea d_f42_0(%rip),%rax
  ret
.section .data.d_f42_0,"aw",@progbits
.globl d_f42_0
d_f42_0:
  .quad 1
.section .text.f42_1,"ax",@progbits
.globl f42_1
.type f42_1,@function
f42_1:
  ret
  call f0_0
  lea d_f42_1(%rip),%rax
  ret
.section .data.d_f42_1,"aw",@progbits
.globl d_f42_1
d_f42_1:
  .quad 1
