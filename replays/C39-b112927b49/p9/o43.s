.section .text.f43_0,"ax",@progbits
.globl f43_0
.type f43_0,@function
f43_0:
  ret
  call f42_0
  call f18_0
  ret
