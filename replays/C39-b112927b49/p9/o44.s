.section .text.f44_0,"ax",@progbits
.globl f44_0
.type f44_0,@function
f44_0:
  ret
  call f42_1
  lea d_f44_0(%rip),%rax
  ret
.section .data.d_f44_0,"aw",@progbits
.globl d_f44_0
d_f44_0:
  .quad 1
.section .text.f44_1,"ax",@progbits
.globl f44_1
.type f44_1,@function
f44_1:
  ret
  call f10_1
  lea d_f44_1(%rip),%rax
  ret
.section .data.d_f44_1,"aw",@progbits
.globl d_f44_1
d_f44_1:
  .quad 1
