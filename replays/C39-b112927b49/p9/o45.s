.section .text.f45_0,"ax",@progbits
.globl f45_0
.type f45_0,@function
f45_0:
  ret
  call f42_1
  ret
.section .text.f45_1,"ax",@progbits
.globl f45_1
.type f45_1,@function
f45_1:
  ret
  call f24_0
  call f23_0
  call f17_0
  call f23_0
  ret
