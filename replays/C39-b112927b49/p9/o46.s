.section .text.f46_0,"ax",@progbits
.globl f46_0
.type f46_0,@function
f46_0:
  ret
  call f40_0
  call f9_0
  ret
