.section .text.f47_0,"ax",@progbits
.globl f47_0
.type f47_0,@function
f47_0:
  ret
  call f38_0
  ret
