.section .text.f5_0,"ax",@progbits
.globl f5_0
.type f5_0,@function
f5_0:
  ret
  call f42_0
  call f15_0
  call f8_0
  call f18_0
  call f7_0
  lea d_f5_0(%rip),%rax
  ret
.section .data.d_f5_0,"aw",@progbits
.globl d_f5_0
d_f5_0:
  .quad 1
.section .text.f5_1,"ax",@progbits
.globl f5_1
.type f5_1,@function
f5_1:
  ret
  call f20_1
  call f19_1
  ret
