.section .text.f6_0,"ax",@progbits
.globl f6_0
.type f6_0,@function
f6_0:
  ret
  call f5_1
  call f38_0
  call f18_0
  lea d_f6_0(%rip),%rax
  ret
.section .data.d_f6_0,"aw",@progbits
.globl d_f6_0
d_f6_0:
  .quad 1
.section .text.f6_1,"ax",@progbits
.globl f6_1
.type f6_1,@function
f6_1:
  ret
  call f7_0
  call f34_0
  ret
