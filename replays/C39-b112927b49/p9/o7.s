.section .text.f7_0,"ax",@progbits
.globl f7_0
.type f7_0,@function
f7_0:
  ret
  call f22_0
  ret
