.section .text.f8_0,"ax",@progbits
.globl f8_0
.type f8_0,@function
f8_0:
  ret
  call f29_0
  call f1_0
  call f45_0
  ret
.section .text.f8_1,"ax",@progbits
.globl f8_1
.type f8_1,@function
f8_1:
  ret
  call f31_1
  call f27_0
  call f42_1
  ret
