.section .text._start,"ax",@progbits
.globl _start
_start:
  call f8_1
  call f37_1
  mov $60,%eax
  xor %edi,%edi
  syscall
