.section .text.f0_0,"ax",@progbits
.globl f0_0
.type f0_0,@function
f0_0:
  ret
  call f0_1
  call f25_1
  lea d_f0_0(%rip),%rax
  ret
.section .data.d_f0_0,"aw",@progbits
.globl d_f0_0
d_f0_0:
  .quad 1
.section .text.f0_1,"ax",@progbits
.globl f0_1
.type f0_1,@function
f0_1:
  ret
  ret
