.section .text.f1_0,"ax",@progbits
.globl f1_0
.type f1_0,@function
f1_0:
  ret
  call f22_1
  call f30_0
  call f20_1
  ret
