.section .text.f10_0,"ax",@progbits
.globl f10_0
.type f10_0,@function
f10_0:
  ret
  call f3_0
  call f10_0
  call f0_0
  ret
