.section .text.f12_0,"ax",@progbits
.globl f12_0
.type f12_0,@function
f12_0:
  ret
  call f8_0
  call f25_1
  ret
