.section .text.f13_0,"ax",@progbits
.globl f13_0
.type f13_0,@function
f13_0:
  ret
  call f23_0
  call f8_1
  call f23_1
  lea d_f13_0(%rip),%rax
  ret
.section .data.d_f13_0,"aw",@progbits
.globl d_f13_0
d_f13_0:
  .quad 1
.section .text.f13_1,"ax",@progbits
.globl f13_1
.type f13_1,@function
f13_1:
  ret
  call f11_0
  call f2_0
  ret
