.section .text.f14_0,"ax",@progbits
.globl f14_0
.type f14_0,@function
f14_0:
  ret
  call f18_0
  call f2_1
  ret
