.section .text.f15_0,"ax",@progbits
.globl f15_0
.type f15_0,@function
f15_0:
  ret
  call f14_0
  call f18_0
  call f31_0
  ret
