.section .text.f16_0,"ax",@progbits
.globl f16_0
.type f16_0,@function
f16_0:
  ret
  call f19_0
  call f21_0
  call f25_0
  call f25_0
  call f29_0
  ret
.section .text.f16_1,"ax",@progbits
.globl f16_1
.type f16_1,@function
f16_1:
  ret
  ret
