.section .text.f17_0,"ax",@progbits
.globl f17_0
.type f17_0,@function
f17_0:
  ret
  call f22_1
  ret
