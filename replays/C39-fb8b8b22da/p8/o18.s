.section .text.f18_0,"ax",@progbits
.globl f18_0
.type f18_0,@function
f18_0:
  ret
  call f14_0
  call f31_0
  lea d_f18_0(%rip),%rax
  ret
.section .data.d_f18_0,"aw",@progbits
.globl d_f18_0
d_f18_0:
  .quad 1
.section .text.f18_1,"ax",@progbits
.globl f18_1
.type f18_1,@function
f18_1:
  ret
  ret
