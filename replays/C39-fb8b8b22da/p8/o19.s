.section .text.f19_0,"ax",@progbits
.globl f19_0
.type f19_0,@function
f19_0:
  ret
  call f25_0
  call f19_0
  call f9_0
  call f26_0
  call f11_0
  ret
