.section .text.f2_0,"ax",@progbits
.globl f2_0
.type f2_0,@function
f2_0:
  ret
  call f16_0
  call f2_0
  call f10_0
  ret
.section .text.f2_1,"ax",@progbits
.globl f2_1
.type f2_1,@function
f2_1:
  ret
  call f10_0
  call f13_1
  call f7_1
  call f23_1
  call f14_0
  ret
