.section .text.f20_0,"ax",@progbits
.globl f20_0
.type f20_0,@function
f20_0:
  ret
  call f31_0
  call f2_1
  call f25_0
  call f18_1
  call f18_1
  lea d_f20_0(%rip),%rax
  ret
.section .data.d_f20_0,"aw",@progbits
.globl d_f20_0
d_f20_0:
  .quad 1
.section .text.f20_1,"ax",@progbits
.globl f20_1
.type f20_1,@function
f20_1:
  ret
  call f16_1
  call f23_1
  ret
