.section .text.f21_0,"ax",@progbits
.globl f21_0
.type f21_0,@function
f21_0:
  ret
  call f27_0
  call f3_0
  call f31_0
  call f29_1
  call f29_0
  ret
