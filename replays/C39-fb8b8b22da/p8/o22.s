.section .text.f22_0,"ax",@progbits
.globl f22_0
.type f22_0,@function
f22_0:
  ret
  ret
.section .text.f22_1,"ax",@progbits
.globl f22_1
.type f22_1,@function
f22_1:
  ret
  call f23_0
  call f27_0
  call f17_0
  call f7_0
  call f4_0
  ret
