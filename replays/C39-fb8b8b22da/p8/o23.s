.section .text.f23_0,"ax",@progbits
.globl f23_0
.type f23_0,@function
f23_0:
  ret
  call f4_0
  call f27_0
  call f2_0
  ret
.section .text.f23_1,"ax",@progbits
.globl f23_1
.type f23_1,@function
f23_1:
  ret
  call f1_0
  call f8_1
  lea d_f23_1(%rip),%rax
  ret
.section .data.d_f23_1,"aw",@progbits
.globl d_f23_1
d_f23_1:
  .quad 1
