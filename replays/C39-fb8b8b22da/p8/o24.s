.section .text.f24_0,"ax",@progbits
.globl f24_0
.type f24_0,@function
f24_0:
  ret
  ret
