.section .text.f25_0,"ax",@progbits
.globl f25_0
.type f25_0,@function
f25_0:
  ret
  call f3_0
  call f1_0
  call f25_1
  call f7_0
  call f29_0
  ret
.section .text.f25_1,"ax",@progbits
.globl f25_1
.type f25_1,@function
f25_1:
  ret
  call f0_1
  call f26_0
  lea d_f25_1(%rip),%rax
  ret
.section .data.d_f25_1,"aw",@progbits
.globl d_f25_1
d_f25_1:
  .quad 1
