.section .text.f26_0,"ax",@progbits
.globl f26_0
.type f26_0,@function
f26_0:
  ret
  call f25_1
  call f25_0
  ret
