.section .text.f27_0,"ax",@progbits
.globl f27_0
.type f27_0,@function
f27_0:
  ret
  call f20_1
  lea d_f27_0(%rip),%rax
  ret
.section .data.d_f27_0,"aw",@progbits
.globl d_f27_0
d_f27_0:
  .quad 1
