.section .text.f28_0,"ax",@progbits
.globl f28_0
.type f28_0,@function
f28_0:
  ret
  call f20_0
  call f20_0
  lea d_f28_0(%rip),%rax
  ret
.section .data.d_f28_0,"aw",@progbits
.globl d_f28_0
d_f28_0:
  .quad 1
.section .text.f28_1,"ax",@progbits
.globl f28_1
.type f28_1,@function
f28_1:
  ret
  call f28_0
  call f0_0
  call f11_1
  ret
