.section .text.f29_0,"ax",@progbits
.globl f29_0
.type f29_0,@function
f29_0:
  ret
  call f30_0
  call f8_1
  ret
.section .text.f29_1,"ax",@progbits
.globl f29_1
.type f29_1,@function
f29_1:
  ret
  call f0_1
  lea d_f29_1(%rip),%rax
  ret
.section .data.d_f29_1,"aw",@progbits
.globl d_f29_1
d_f29_1:
  .quad 1
