.section .text.f3_0,"ax",@progbits
.globl f3_0
.type f3_0,@function
f3_0:
  ret
  call f22_1
  call f21_0
  call f7_0
  ret
