.section .text.f30_0,"ax",@progbits
.globl f30_0
.type f30_0,@function
f30_0:
  ret
  call f24_0
  call f22_1
  call f28_0
  ret
