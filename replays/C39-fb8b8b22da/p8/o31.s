.section .text.f31_0,"ax",@progbits
.globl f31_0
.type f31_0,@function
f31_0:
  ret
  call f7_1
  lea d_f31_0(%rip),%rax
  ret
.section .data.d_f31_0,"aw",@progbits
.globl d_f31_0
d_f31_0:
  .quad 1
