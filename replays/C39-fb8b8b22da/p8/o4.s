.section .text.f4_0,"ax",@progbits
.globl f4_0
.type f4_0,@function
f4_0:
  ret
  call f13_1
  call f15_0
  lea d_f4_0(%rip),%rax
  ret
.section .data.d_f4_0,"aw",@progbits
.globl d_f4_0
d_f4_0:
  .quad 1
.section .text.f4_1,"ax",@progbits
.globl f4_1
.type f4_1,@function
f4_1:
  ret
  ret
