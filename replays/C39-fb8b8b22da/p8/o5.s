.section .text.f5_0,"ax",@progbits
.globl f5_0
.type f5_0,@function
f5_0:
  ret
  call f2_0
  ret
