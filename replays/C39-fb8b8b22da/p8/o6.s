.section .text.f6_0,"ax",@progbits
.globl f6_0
.type f6_0,@function
f6_0:
  ret
  call f26_0
  ret
