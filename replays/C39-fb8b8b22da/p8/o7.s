.section .text.f7_0,"ax",@progbits
.globl f7_0
.type f7_0,@function
f7_0:
  ret
  call f4_0
  call f2_1
  lea d_f7_0(%rip),%rax
  ret
.section .data.d_f7_0,"aw",@progbits
.globl d_f7_0
d_f7_0:
  .quad 1
.section .text.f7_1,"ax",@progbits
.globl f7_1
.type f7_1,@function
f7_1:
  ret
  call f8_1
  call f9_0
  lea d_f7_1(%rip),%rax
  ret
.section .data.d_f7_1,"aw",@progbits
.globl d_f7_1
d_f7_1:
  .quad 1
