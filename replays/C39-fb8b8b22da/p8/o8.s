.section .text.f8_0,"ax",@progbits
.globl f8_0
.type f8_0,@function
f8_0:
  ret
  call f13_1
  ret
.section .text.f8_1,"ax",@progbits
.globl f8_1
.type f8_1,@function
f8_1:
  ret
  ret
