.section .text.f9_0,"ax",@progbits
.globl f9_0
.type f9_0,@function
f9_0:
  ret
  call f23_1
  call f28_1
  ret
