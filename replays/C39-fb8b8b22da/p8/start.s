.section .text._start,"ax",@progbits
.globl _start
_start:
  call f18_0
  call f14_0
  mov $60,%eax
  xor %edi,%edi
  syscall
