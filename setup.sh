#!/bin/sh
# Offline build of the whole framework from files on disk: harness + hooked wild from /repo's working
# tree, every Lean model / theorem module and the model driver.
set -e
cd "$(dirname "$0")"
export CARGO_NET_OFFLINE=true
(cd harness && cargo build --offline)
cargo build --offline --manifest-path /repo/Cargo.toml -p wild-linker --features verif --target-dir /verif/.target/wild
(cd lean && lake build)
