#!/usr/bin/env python3
"""Regenerates DESIGN.md section 14 (14.1 is hand-written text kept in tools/design14_intro.md; 14.2 theorems, 14.3 defects and
14.4 seeded changes are generated from vlib/props, known_findings.json and seeded/)."""
import importlib, json, os, subprocess, sys
V = os.path.dirname(os.path.dirname(os.path.abspath(__file__)))
sys.path.insert(0, V)
kf = json.load(open(os.path.join(V, "known_findings.json")))["findings"]
out = ["\n## 14. Implementation status (written after the build rounds; supersedes the plan above where they differ)\n",
       open(os.path.join(V, "tools", "design14_intro.md")).read(),
       "\n### 14.2 Theorems per property (the proof obligations audited on every run)\n\n"]
for i in range(1, 41):
    pid = "C%02d" % i
    m = importlib.import_module("vlib.props." + pid.lower())
    th = getattr(m, "THEOREMS", [])
    short = sorted({t.split(".")[-1] for t in th})
    ns = sorted({".".join(t.split(".")[:-1]) for t in th})
    out.append(f"* **{pid}** ({getattr(m, 'LEVEL', 'proof')}; modules {', '.join(x.replace('WildModel.', '') for x in getattr(m, 'LEAN_MODULES', []))}; "
               f"namespace {', '.join(ns)}; {len(th)} obligations): " + ", ".join(f"`{s}`" for s in short) + "\n")
out.append("\n### 14.3 Genuine defects found\n\nRepaired (one unguarded `fix:` commit each in /repo, existing suite unedited still passes; `fixed:` entries in known_findings.json):\n\n")
for f in kf:
    if f.get("status") == "fixed":
        out.append(f"* {f['property']} `{f['commit']}` {f['what'].split(' ', 3)[-1]}\n")
out.append("\nRecorded as known findings (status open; the check prints KNOWN-FINDING for exactly these keys and still reports anything else):\n\n")
for f in kf:
    if f.get("status", "open") == "open":
        w = f["what"].replace("\n", " ")
        out.append(f"* {f['property']} `{f['key']}` — {w[:260]}{'…' if len(w) > 260 else ''}\n")
subprocess.run([sys.executable, os.path.join(V, "tools", "mkseedtable.py")], check=True, stdout=subprocess.DEVNULL)
out.append(open(os.path.join(V, "scratch", "me", "design144.md")).read())
s = open(os.path.join(V, "DESIGN.md")).read()
if "\n## 14. Implementation status" in s:
    s = s[:s.index("\n## 14. Implementation status")]
open(os.path.join(V, "DESIGN.md"), "w").write(s + "".join(out))
print("DESIGN.md section 14 regenerated:", sum(len(x) for x in out), "bytes")
