#!/usr/bin/env python3
"""Regenerates /verif/MANIFEST.json from the property modules in vlib/props (claimed) and
properties.jsonl (everything else goes under not_applicable with a reason)."""
import importlib
import json
import os
import subprocess
import sys

V = os.path.dirname(os.path.dirname(os.path.abspath(__file__)))
sys.path.insert(0, V)
props = [json.loads(l) for l in open(os.path.join(V, "properties.jsonl"))]
NA_REASONS = json.load(open(os.path.join(V, "tools", "na_reasons.json"))) if os.path.exists(os.path.join(V, "tools", "na_reasons.json")) else {}
checks = []
na = []
CLAIMED = set(open(os.path.join(V, "tools", "claimed.txt")).read().split())
LEVELS = {"exploration", "fault_enumeration", "model_checking", "proof", "translation_validation", "other"}
for p in props:
    pid = p["id"]
    path = os.path.join(V, "vlib", "props", pid.lower() + ".py")
    if os.path.exists(path) and pid in CLAIMED:
        m = importlib.import_module("vlib.props." + pid.lower())
        checks.append({
            "property_id": pid,
            "quick_cmd": f"./check {pid} --tier quick",
            "thorough_cmd": f"./check {pid} --tier thorough",
            "evidence_file": f"/verif/evidence/{pid}.json",
            "replay_cmd_template": f"./check {pid} --replay {{path}}",
            "engine": "lean4-model+correspondence",
            "level_claimed": {
                "category": getattr(m, "LEVEL", "proof") if getattr(m, "LEVEL", "proof") in LEVELS else "other",
                "text": getattr(m, "LEVEL_TEXT", m.__doc__ or ""),
                "design_ref": f"DESIGN.md section 8, {pid}",
            },
            "level_note": "; ".join(getattr(m, "TRUSTED", [])) or "see DESIGN.md section 5",
            "technique": getattr(m, "TECHNIQUE", "Lean 4 theorems over an executable model + differential correspondence with the real code"),
        })
    else:
        na.append({"property_id": pid, "reason": NA_REASONS.get(pid, "not claimed yet: the Lean model, theorems and tie for this property are not built in this round (planned in DESIGN.md section 8)")})
hooks = subprocess.run(["git", "-C", "/repo", "log", "--format=%H %s", "--grep=^verif:"], capture_output=True, text=True).stdout.strip().split("\n")
man = {
    "version": 1,
    "setup_cmd": "./setup.sh",
    "hooks": {
        "guard": "cargo feature `verif` (libwild/verif, forwarded by wild-linker/verif)",
        "enable": "cargo build --offline --manifest-path /repo/Cargo.toml -p wild-linker --features verif --target-dir /verif/.target/wild; harness crate /verif/harness depends on /repo/libwild with features=[verif]",
        "baseline_off_cmd": "cd /repo && cargo nextest run --workspace --no-fail-fast --test-threads 8 --offline || cargo test --workspace --no-fail-fast --offline",
        "source_commits": [h.split()[0] for h in hooks if h],
        "add_only": True,
    },
    "engines": [{
        "name": "lean4-model+correspondence",
        "path": "/verif/check",
        "serves_properties": [c["property_id"] for c in checks],
        "kind_free_text": "Lean 4 theorems (lake build + #print axioms audit) over executable models in /verif/lean; models tied to /repo's working tree by regenerated tables (wvh dump-*) and differential correspondence (wvh / hooked wild vs compiled model driver wmdriver)",
    }],
    "checks": checks,
    "not_applicable": na,
    "notes": "See DESIGN.md. known_findings.json lists recorded genuine defects (KNOWN-FINDING lines) and fixed: entries.",
}
json.dump(man, open(os.path.join(V, "MANIFEST.json"), "w"), indent=1)
print(f"claimed {len(checks)} not_applicable {len(na)}")
