#!/usr/bin/env python3
"""Writes the markdown table of seeded changes (DESIGN.md 14.4) from seeded/*/meta.json + seeded/RESULTS.json and
adds a `verification` block to each meta.json."""
import json, os, glob
V = os.path.dirname(os.path.dirname(os.path.abspath(__file__)))
res = json.load(open(os.path.join(V, "seeded", "RESULTS.json")))
rows = []
for d in sorted(glob.glob(os.path.join(V, "seeded", "C*"))):
    name = os.path.basename(d)
    mp = os.path.join(d, "meta.json")
    if not os.path.exists(mp):
        continue
    m = json.load(open(mp))
    r = res.get(name)
    if r:
        m["verification"] = r
        m["verification"]["ran"] = f"rsync copy of /repo + git apply patch.diff; WILD_REPO=<copy> ./check <id> (scratch/me/seedrun.sh); build, full suite and demo in both directions re-run by scratch/me/seedconfirm.sh where listed in seeded/CONFIRM.log"
        json.dump(m, open(mp, "w"), indent=1)
    needs = (m.get("needs") or "")
    if isinstance(needs, list):
        needs = "; ".join(map(str, needs))
    rows.append((name, m.get("property", name[:3]), str(needs).replace("\n", " ")[:220], r))
out = ["\n### 14.4 Seeded changes (written by sub-agents that saw only the property text) and which checks catch them\n\n",
       "Each directory `/verif/seeded/<name>/` holds `patch.diff`, the demonstration and `meta.json` (what it needs to manifest, what was run, and a `verification` block with the outcome below).\n\n",
       "| seed | property | needs | caught by | first run | what the check reported |\n|---|---|---|---|---|---|\n"]
for name, prop, needs, r in rows:
    if r:
        first = "missed, check strengthened: " + r.get("strengthening", "") if r.get("needed_strengthening") else "caught"
        out.append(f"| {name} | {r['property']} | {needs} | {r['detected_by']} | {first} | {r['how'][:300]} |\n")
    else:
        out.append(f"| {name} | {prop} | {needs} | (not yet run) | | |\n")
open(os.path.join(V, "scratch", "me", "design144.md"), "w").write("".join(out))
print(len(rows), "seeds;", sum(1 for x in rows if x[3]), "with results")
