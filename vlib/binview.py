"""Independent view of the relocated sites of a linked x86-64 binary (used by C34).

view(path) -> list of Site: every call/jmp rel32 and every RIP-relative operand found by disassembling the
functions named in the symbol table (objdump -d; the position of the displacement inside the instruction is
found by solving `next_ip + disp32 == printed target`, so no x86 length decoder is needed), every GOT slot and
every pointer-sized word of .data/.data.rel.ro/.init_array/.fini_array that holds the address of a symbol
(directly, or through an R_X86_64_RELATIVE dynamic relocation).  rel64_sites() adds the 8-byte RELATIVE words of a generated table
(`.quad sym - . + A` = R_X86_64_PC64, `.quad sym@GOTOFF + A` = R_X86_64_GOTOFF64): the expected stored value S + A - P resp.
S + A - _GLOBAL_OFFSET_TABLE_ is recomputed from the output's symbol table.  Nothing here shares code with linker-diff.
"""
import re
import struct
import subprocess

from .elfread import Elf

R_RELATIVE = 8
R_GLOB_DAT = 6
R_64 = 1


class Site:
    def __init__(self, kind, owner, addr, field_addr, size, target, pcrel_end=None, rela_index=None, rela_sec=None):
        self.kind = kind              # call | jmp | rip (lea/mov ...) | got | data
        self.owner = owner            # enclosing function / section
        self.addr = addr              # instruction (or word) address
        self.field_addr = field_addr  # address of the bytes to patch
        self.size = size
        self.target = target          # resolved referent address
        self.pcrel_end = pcrel_end    # next-instruction address for pc-relative fields
        self.rela_index = rela_index  # index of the RELATIVE dynamic relocation carrying the value, if any
        self.rela_sec = rela_sec
        self.mnemonic = ""

    def __repr__(self):
        return f"Site({self.kind} {self.owner}+0x{self.addr:x} field@0x{self.field_addr:x} -> 0x{self.target:x})"


LINE = re.compile(r"^\s*([0-9a-f]+):\t((?:[0-9a-f]{2} )+)\s*\t?(\S+)?\s*(.*)$")
FUNC = re.compile(r"^([0-9a-f]+) <([^>]+)>:$")
TGT_COMMENT = re.compile(r"#\s*([0-9a-f]+)\s*<")
TGT_BRANCH = re.compile(r"^\s*([0-9a-f]+)\s*<")


def symbols(e):
    """name -> (addr, size, type) for defined function/object symbols (first definition wins)."""
    out = {}
    for y in e.symtab():
        if y.shndx != 0 and y.shndx < 0xFF00 and y.type in (0, 1, 2) and y.name and not y.name.startswith("$"):
            out.setdefault(y.name, (y.value, y.size, y.type, y.bind))
    return out


def addr_to_names(e):
    m = {}
    for n, (a, sz, t, b) in symbols(e).items():
        m.setdefault(a, []).append(n)
    return m


def code_sites(path, e):
    p = subprocess.run(["objdump", "-d", "-w", "--section=.text", path], stdout=subprocess.PIPE, stderr=subprocess.PIPE, text=True)
    sites = []
    owner = "?"
    for line in p.stdout.split("\n"):
        m = FUNC.match(line)
        if m:
            owner = m.group(2)
            continue
        m = LINE.match(line)
        if not m:
            continue
        addr = int(m.group(1), 16)
        raw = bytes.fromhex(m.group(2).replace(" ", ""))
        mnem = m.group(3) or ""
        rest = m.group(4) or ""
        L = len(raw)
        nxt = addr + L
        if mnem in ("call", "jmp") and L == 5 and raw[0] in (0xE8, 0xE9):
            disp = struct.unpack("<i", raw[1:5])[0]
            s = Site("call" if raw[0] == 0xE8 else "jmp", owner, addr, addr + 1, 4, (nxt + disp) & 0xFFFFFFFFFFFFFFFF, pcrel_end=nxt)
            s.mnemonic = mnem
            sites.append(s)
            continue
        if "(%rip)" in rest:
            tm = TGT_COMMENT.search(rest)
            if not tm:
                continue
            tgt = int(tm.group(1), 16)
            for immsz in (0, 1, 4, 2):
                pos = L - 4 - immsz
                if pos < 1:
                    continue
                disp = struct.unpack("<i", raw[pos:pos + 4])[0]
                if (nxt + disp) & 0xFFFFFFFFFFFFFFFF == tgt:
                    s = Site("rip", owner, addr, addr + pos, 4, tgt, pcrel_end=nxt)
                    s.mnemonic = mnem
                    sites.append(s)
                    break
    return sites


def data_sites(e):
    """GOT slots and data pointers."""
    sites = []
    names = addr_to_names(e)
    relative = {}
    for s in e.sections:
        if s.type == 4 and (s.flags & 2):
            for i, (off, typ, si, add) in enumerate(e.relas(s)):
                if typ == R_RELATIVE:
                    relative[off] = (s, i, add)
    for s in e.sections:
        if s.name in (".got", ".data", ".data.rel.ro", ".init_array", ".fini_array", ".data.rel.ro.local") and s.type != 8:
            kind = "got" if s.name == ".got" else "data"
            d = e.sec_data(s)
            for o in range(0, len(d) - 7, 8):
                a = s.addr + o
                v = struct.unpack_from("<Q", d, o)[0]
                if a in relative:
                    rs, ri, add = relative[a]
                    if add in names:
                        sites.append(Site(kind, s.name, a, a, 8, add, rela_index=ri, rela_sec=rs))
                elif v in names and v != 0 and e.e_type == 2:
                    sites.append(Site(kind, s.name, a, a, 8, v))
    return sites


def view(path):
    e = Elf(path)
    return e, code_sites(path, e) + data_sites(e)


def retarget(e, data, site, new_target):
    """Returns a copy of the file bytes with `site` pointing at new_target (file stays structurally valid)."""
    b = bytearray(data)
    fo = e.vaddr_to_off(site.field_addr)
    if fo is None:
        return None
    if site.pcrel_end is not None:
        disp = new_target - site.pcrel_end
        if not -(1 << 31) <= disp < (1 << 31):
            return None
        b[fo:fo + 4] = struct.pack("<i", disp)
    else:
        if site.rela_index is not None:
            ro = site.rela_sec.offset + 24 * site.rela_index + 16
            b[ro:ro + 8] = struct.pack("<q", new_target)
            # linkers also store the addend in place for RELATIVE relocations
            old = struct.unpack_from("<Q", b, fo)[0]
            if old == site.target:
                b[fo:fo + 8] = struct.pack("<Q", new_target)
        else:
            b[fo:fo + 8] = struct.pack("<Q", new_target)
    return bytes(b)


M64 = (1 << 64) - 1


def rel64_sites(e, table_sym, entries):
    """Sites of a generated table of 8-byte relative references.  entries: [(form, symbol, addend)] in table order, form in
    {'pc64', 'gotoff64'}.  A site is returned only if the word the linker stored equals the value recomputed here from the output's symbols."""
    syms = symbols(e)
    if table_sym not in syms:
        return [], [f"{table_sym} not in the symbol table"]
    tab = syms[table_sym][0]
    got = syms.get("_GLOBAL_OFFSET_TABLE_", (None,))[0]
    sites, problems = [], []
    for i, (form, name, addend) in enumerate(entries):
        a = tab + 8 * i
        if name not in syms or (form == "gotoff64" and got is None):
            problems.append(f"entry {i}: {name} / GOT base not in the symbol table")
            continue
        base = a if form == "pc64" else got
        want = (syms[name][0] + addend - base) & M64
        have = e.u64(a)
        if have != want:
            problems.append(f"entry {i} ({form} {name}{addend:+d}): stored 0x{have:x}, expected 0x{want:x}")
            continue
        s = Site("rel64", table_sym, a, a, 8, syms[name][0])
        s.form, s.addend, s.base, s.stored, s.target_name = form, addend, base, have, name
        s.reloc = "R_X86_64_PC64" if form == "pc64" else "R_X86_64_GOTOFF64"
        sites.append(s)
    return sites, problems


def corrupt_rel64(e, data, site, how, new_target=None, bit=None):
    """how: 'high32-add' / 'high32-sub' (value +- 2^32), 'high32-bit' (flip bit `bit` in 32..63): only the HIGH 32 bits of the stored word change;
    'retarget': the word is recomputed for new_target (another named symbol).  Returns (new file bytes, new stored value) or None."""
    fo = e.vaddr_to_off(site.field_addr)
    if fo is None:
        return None
    old = struct.unpack_from("<Q", data, fo)[0]
    if how == "high32-add":
        new = (old + (1 << 32)) & M64
    elif how == "high32-sub":
        new = (old - (1 << 32)) & M64
    elif how == "high32-bit":
        new = old ^ (1 << bit)
    elif how == "retarget":
        new = (old + new_target - site.target) & M64
    else:
        raise ValueError(how)
    if new == old or (how.startswith("high32") and (new ^ old) & 0xFFFFFFFF):
        return None
    b = bytearray(data)
    b[fo:fo + 8] = struct.pack("<Q", new)
    return bytes(b), new
