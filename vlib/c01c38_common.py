"""Helpers shared by C01 / C38 / C28: link C programs against the system libc with an explicit file list
(what `gcc -###` passes to collect2), with wild or GNU ld; run natively."""
import os

from . import linkutil as lu

GCCDIR = "/usr/lib/gcc/x86_64-linux-gnu/12"
LIBDIR = "/usr/lib/x86_64-linux-gnu"
DYNLINKER = "/lib64/ld-linux-x86-64.so.2"


def crt(mode):
    """mode: dyn (non-PIE dynamic) | pie | static | static-pie -> (prefix files, suffix files, flags)"""
    g, x = GCCDIR, LIBDIR
    if mode == "dyn":
        return [f"{x}/crt1.o", f"{x}/crti.o", f"{g}/crtbegin.o"], [f"{g}/crtend.o", f"{x}/crtn.o"], ["--dynamic-linker", DYNLINKER]
    if mode == "pie":
        return [f"{x}/Scrt1.o", f"{x}/crti.o", f"{g}/crtbeginS.o"], [f"{g}/crtendS.o", f"{x}/crtn.o"], ["-pie", "--dynamic-linker", DYNLINKER]
    if mode == "static":
        return [f"{x}/crt1.o", f"{x}/crti.o", f"{g}/crtbeginT.o"], [f"{g}/crtend.o", f"{x}/crtn.o"], ["-static"]
    if mode == "static-pie":
        return [f"{x}/rcrt1.o", f"{x}/crti.o", f"{g}/crtbeginS.o"], [f"{g}/crtendS.o", f"{x}/crtn.o"], ["-static", "-pie", "--no-dynamic-linker"]
    raise ValueError(mode)


def link_c(linker, mode, objs, out, libs=(), extra=(), cwd=None, timeout=180):
    """Link objs (+ shared libs given as paths) into an executable the way gcc would."""
    pre, post, flags = crt(mode)
    a = ["--eh-frame-hdr", "-m", "elf_x86_64"] + flags + list(extra) + ["-o", out] + pre + [f"-L{GCCDIR}", f"-L{LIBDIR}"] + list(objs) + list(libs)
    if mode in ("static", "static-pie"):
        a += ["--start-group", "-lgcc", "-lgcc_eh", "-lc", "--end-group"]
    else:
        a += ["-lgcc", "--as-needed", "-lgcc_s", "--no-as-needed", "-lc", "-lgcc", "--as-needed", "-lgcc_s", "--no-as-needed"]
    a += post
    return lu.link(linker, a, cwd=cwd, timeout=timeout)


def link_so(linker, objs, out, libs=(), extra=(), cwd=None):
    return lu.link(linker, ["-shared", "-o", out] + list(extra) + list(objs) + list(libs), cwd=cwd)


def run_exe(path, libdir=None, timeout=20):
    env = {"LD_LIBRARY_PATH": libdir} if libdir else None
    return lu.run_native(path, env=env, timeout=timeout)
