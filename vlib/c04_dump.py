"""C04: turns a `WILD_VERIF_DUMP/layout.txt` (written by libwild/src/verif_api/layoutdump.rs) into
(request line for the Lean driver op `layout`, canonical rendering of the implementation's outputs)."""


def parse(path):
    d = {"cfg": {}, "defs": [], "segs": {}, "secs": {}, "szs": {}, "lay": {}, "sl": {}, "ev": [], "active": None, "sg": [], "sgdone": False}
    for line in open(path):
        t = line.split()
        if not t:
            continue
        k = t[0]
        if k == "cfg":
            d["cfg"] = dict(x.split("=", 1) for x in t[1:])
        elif k == "def":
            d["defs"].append(dict(x.split("=", 1) for x in t[2:]))
        elif k == "seg":
            d["segs"][int(t[1])] = int(t[2].split("=")[1])
        elif k == "sec":
            d["secs"][int(t[1])] = dict(x.split("=", 1) for x in t[2:])
        elif k == "szs":
            d["szs"][int(t[1])] = [tuple(x.split(":")) for x in t[2:]]
        elif k == "lay":
            d["lay"][int(t[1])] = t[2:]
        elif k == "sl":
            d["sl"][int(t[1])] = t[2:]
        elif k == "ev":
            d["ev"].append((t[1], t[2]))
        elif k == "active":
            d["active"] = [int(x) for x in t[1:]]
        elif k == "sg":
            d["sg"].append(t[1:])
        elif k == "sgdone":
            d["sgdone"] = True
    return d


def def_index(d, name):
    for i, x in enumerate(d["defs"]):
        if x["name"].startswith(name):
            return i
    return None


def request(d):
    cfg = d["cfg"]
    ncond = sum(1 for x in d["defs"] if x["uncond"] == "0")
    nuncond = len(d["defs"]) - ncond
    note_bits = 0
    for nm in ("NOTE,", "RISCV_ATTRIBUTES,"):
        i = def_index(d, nm)
        if i is not None:
            note_bits |= 1 << i
    file_header = 1
    toks = ["layout", "P" + cfg["partial"], "B" + cfg["base"], "G" + cfg["page"], "K" + cfg["stack"], "R" + cfg["relropad"], f"H{file_header}",
            f"U{nuncond}"]
    for x in d["defs"]:
        toks.append("D" + x["load"] + x["w"] + x["x"] + x["tls"] + x["stack"] + x["cut"] + ":" + x["key"])
    for sid in sorted(d["secs"]):
        s = d["secs"][sid]
        incl = int(s["incl"], 16)
        notelike = "1" if incl & note_bits else "0"
        fl = s["alloc"] + s["w"] + s["x"] + s["tls"] + s["nobits"] + s["hasdata"] + s["emitted"] + notelike
        parts = ",".join(f"{a}.{sz}" for a, sz in d["szs"][sid])
        toks.append(f"S{sid}:{s['prim']}:{fl}:{s['minalign']}:{s['loc']}:{s['incl']}:{parts}")
    # add_section calls: primary section events, each followed by its secondaries
    calls = []
    for k, v in d["ev"]:
        if k != "X":
            continue
        sid = int(v)
        if d["secs"][sid]["prim"] == "-":
            calls.append([sid])
        else:
            calls[-1].append(sid)
    for c in calls:
        toks.append("C" + ",".join(str(x) for x in c))
    toks.append("A" + ",".join(str(x) for x in (d["active"] or [])))
    return " ".join(toks)


def rec(t):
    """dump fields fileoff memoff filesz memsz align -> canonical"""
    return ":".join(x.lstrip("0") or "0" for x in t[:4]) + ":" + t[4]


def canonical(d, expect_elf_defs=True):
    ev = " ".join(("L" + (v.lstrip("0") or "0")) if k == "L" else k + v for k, v in d["ev"])
    sd = ",".join(str(d["segs"][i]) for i in sorted(d["segs"]))
    order = [int(v) for k, v in d["ev"] if k == "X"]
    lay = " ".join(f"{sid}=" + ",".join(rec(x.split(":")) for x in d["lay"][sid]) for sid in order)
    sl = " ".join(f"{sid}=" + rec(d["sl"][sid]) for sid in sorted(d["secs"]))
    if d["sgdone"]:
        sg = " ".join(f"{t[0]}=" + rec(t[1:]) for t in d["sg"])
    else:
        sg = "err"
    return f"defs=elf ; ev {ev} ; segdefs {sd} ; lay {lay} ; sl {sl} ; sg {sg}"


def canon_model(line):
    """model output: collapse the specific error name (the dump only knows that compute_segment_layout failed)."""
    head, _, sg = line.rpartition(" ; sg ")
    if sg.startswith("err:"):
        sg = "err"
    return head + " ; sg " + sg


def first_difference(a, b):
    ta, tb = a.split(" "), b.split(" ")
    for i, (x, y) in enumerate(zip(ta, tb)):
        if x != y:
            ctx = " ".join(ta[max(0, i - 3):i])
            return f"token {i}: impl={x!r} model={y!r} (after {ctx!r})"
    if len(ta) != len(tb):
        return f"length {len(ta)} vs {len(tb)}; extra: {(ta[len(tb):] or tb[len(ta):])[:3]}"
    return None
