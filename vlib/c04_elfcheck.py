"""C04: the property's predicates checked DIRECTLY on a written ELF file (independent of the Lean model and of
wild's own data structures): reads the headers with vlib/elfread.py and returns a list of (key, message).

An empty list means the file is structurally well-formed in the sense of property C04.
"""
from .elfread import Elf, ElfError, SHT_NOBITS, SHT_NOTE, SHT_NULL, SHF_ALLOC, SHF_WRITE, SHF_EXECINSTR, SHF_TLS, PF_X, PF_W

ET_REL, ET_EXEC, ET_DYN = 1, 2, 3
RUNTIME_PAGE = 4096

# sections that wild's SECTION_DEFINITIONS / should_include_section place in PT_GNU_RELRO (besides SHF_TLS sections)
RELRO_NAMES = {".init_array", ".fini_array", ".preinit_array", ".data.rel.ro", ".dynamic", ".got", ".relro_padding"}


def is_pow2(x):
    return x != 0 and x & (x - 1) == 0


def overlap(a0, a1, b0, b1):
    return a0 < b1 and b0 < a1


def check_file(path, expect_type=None, execstack=False, script=False):
    try:
        e = Elf(path)
    except (ElfError, Exception) as ex:  # noqa: BLE001 - unreadable output is a finding in itself
        return [("unreadable", f"output is not a readable ELF64 file: {ex}")]
    return check_elf(e, expect_type, execstack, script)


def check_elf(e, expect_type=None, execstack=False, script=False):
    """script=True: the link used a SECTIONS script, where an output section merely NAMED like a relro section is an ordinary one."""
    out = []

    def bad(key, msg):
        out.append((key, msg))

    fsize = len(e.d)
    if expect_type is not None and e.e_type != expect_type:
        bad("e_type", f"e_type={e.e_type}, expected {expect_type}")
    # ---- header tables
    if e.e_ehsize != 64:
        bad("ehsize", f"e_ehsize={e.e_ehsize}")
    if e.e_shentsize != 64 and e.e_shnum:
        bad("shentsize", f"e_shentsize={e.e_shentsize}")
    shnum = len(e.sections)
    sh0, sh1 = e.e_shoff, e.e_shoff + shnum * 64
    if shnum:
        if e.e_shoff % 8 != 0 or e.e_shoff < 64 or sh1 > fsize:
            bad("shoff", f"section header table [0x{sh0:x},0x{sh1:x}) not inside the file (size 0x{fsize:x}) or misaligned")
        z = e.sections[0]
        if z.type != SHT_NULL or z.size not in (0, shnum) or z.addr != 0 or z.flags != 0 or z.offset != 0 or z.align != 0 or z.entsize != 0:
            bad("sh0", f"section header 0 is not the all-zero null header the gABI requires: {z}")
        idx = e.e_shstrndx if e.e_shstrndx != 0xFFFF else e.sections[0].link
        if not (0 < idx < shnum) or e.sections[idx].type != 3:
            bad("shstrndx", f"e_shstrndx={e.e_shstrndx} does not name a string table")
    ph0, ph1 = e.e_phoff, e.e_phoff + e.e_phnum * 56
    if e.e_phnum:
        if e.e_phentsize != 56:
            bad("phentsize", f"e_phentsize={e.e_phentsize}")
        if e.e_phoff % 8 != 0 or e.e_phoff < 64 or ph1 > fsize:
            bad("phoff", f"program header table [0x{ph0:x},0x{ph1:x}) not inside the file or misaligned")
        if shnum and overlap(ph0, ph1, sh0, sh1):
            bad("phoff-shoff", "program header table overlaps section header table")
    if e.e_type == ET_REL and e.e_phnum:
        bad("rel-phdrs", "relocatable output has program headers")

    secs = [s for s in e.sections if s.index != 0]
    # ---- section alignment / address sanity
    for s in secs:
        if s.align not in (0, 1) and not is_pow2(s.align):
            bad("sh_addralign:" + s.name, f"{s.name}: sh_addralign={s.align} is not a power of two")
            continue
        if s.flags & SHF_ALLOC and s.align > 1 and e.e_type != ET_REL and s.addr % s.align != 0:
            bad("sec-align:" + s.name, f"{s.name}: sh_addr 0x{s.addr:x} is not a multiple of sh_addralign {s.align}")
        if e.e_type == ET_REL and s.addr != 0:
            bad("rel-addr:" + s.name, f"{s.name}: sh_addr 0x{s.addr:x} != 0 in a relocatable file")
        if e.e_type == ET_REL and s.align > 1 and s.type != SHT_NOBITS and s.size and s.offset % s.align != 0:
            bad("rel-off-align:" + s.name, f"{s.name}: sh_offset 0x{s.offset:x} not a multiple of sh_addralign {s.align}")
        if not (s.flags & SHF_ALLOC) and s.addr != 0:
            bad("nonalloc-addr:" + s.name, f"{s.name}: non-alloc section has address 0x{s.addr:x}")
    # ---- file ranges: every section with file contents inside the file, pairwise disjoint, disjoint from the tables
    filed = [s for s in secs if s.type != SHT_NOBITS and s.size > 0]
    for s in filed:
        if s.offset + s.size > fsize:
            bad("sec-file-range:" + s.name, f"{s.name}: file range [0x{s.offset:x},0x{s.offset + s.size:x}) beyond end of file 0x{fsize:x}")
        if s.offset < 64:
            bad("sec-in-ehdr:" + s.name, f"{s.name}: file range starts inside the ELF header")
        if shnum and overlap(s.offset, s.offset + s.size, sh0, sh1):
            bad("sec-in-shdrs:" + s.name, f"{s.name}: file range overlaps the section header table")
        if e.e_phnum and overlap(s.offset, s.offset + s.size, ph0, ph1):
            bad("sec-in-phdrs:" + s.name, f"{s.name}: file range overlaps the program header table")
    srt = sorted(filed, key=lambda s: (s.offset, s.size))
    for a, b in zip(srt, srt[1:]):
        if a.offset + a.size > b.offset:
            key = "file-overlap" if (a.flags | b.flags) & SHF_ALLOC else "file-overlap-nonalloc"
            bad(f"{key}:{a.name}:{b.name}", f"sections overlap in the file: {a} / {b}")
    if e.e_type == ET_REL:
        return out

    # ---- memory ranges of SHF_ALLOC sections (a TLS NOBITS section occupies no address space in the image)
    alloc = [s for s in secs if s.flags & SHF_ALLOC and s.size > 0]
    memd = [s for s in alloc if not (s.type == SHT_NOBITS and s.flags & SHF_TLS)]
    srt = sorted(memd, key=lambda s: (s.addr, s.size))
    for a, b in zip(srt, srt[1:]):
        if a.addr + a.size > b.addr:
            bad(f"mem-overlap:{a.name}:{b.name}", f"allocated sections overlap in memory: {a} / {b}")
    # ---- LOAD segments
    loads = e.segs("LOAD")
    for L in loads:
        if L.flags & PF_W and L.flags & PF_X:
            bad("load-wx", f"LOAD segment is writable and executable: {L}")
        if not is_pow2(L.align) and L.align not in (0, 1):
            bad("load-align-pow2", f"p_align not a power of two: {L}")
        elif L.align > 1 and (L.offset - L.vaddr) % L.align != 0:
            bad("load-congruence", f"p_offset is not congruent to p_vaddr modulo p_align: {L}")
        if L.filesz > L.memsz:
            bad("load-filesz", f"p_filesz > p_memsz: {L}")
        if L.offset + L.filesz > fsize:
            bad("load-file-range", f"LOAD file range beyond end of file: {L}")
        if L.vaddr + L.memsz > 1 << 64:
            bad("load-wrap", f"LOAD wraps the address space: {L}")
    for a, b in zip(loads, loads[1:]):
        if b.vaddr < a.vaddr:
            bad("load-order", f"LOAD segments not in ascending p_vaddr order: {a} / {b}")
    sl = sorted(loads, key=lambda L: L.vaddr)
    for a, b in zip(sl, sl[1:]):
        if a.vaddr + a.memsz > b.vaddr and a.memsz and b.memsz:
            bad("load-overlap", f"LOAD segments overlap in memory: {a} / {b}")
        # the loader maps whole pages: two LOADs with different permissions must not share a runtime page with
        # conflicting file contents (a later mapping replaces the earlier one's page)
        if a.memsz and b.memsz and (a.vaddr + a.memsz - 1) // RUNTIME_PAGE == b.vaddr // RUNTIME_PAGE:
            if (a.offset - a.vaddr) != (b.offset - b.vaddr):
                bad("load-page-share", f"two LOAD segments share a runtime page but map different file offsets there: {a} / {b}")
    # ---- every alloc section inside a LOAD with matching permissions and consistent offset
    for s in alloc:
        host = [L for L in loads if L.vaddr <= s.addr and s.addr + s.size <= L.vaddr + L.memsz]
        if s.type == SHT_NOBITS and s.flags & SHF_TLS:
            continue  # .tbss: described by PT_TLS only
        if not host:
            bad("sec-not-in-load:" + s.name, f"allocated section not contained in any LOAD segment: {s}")
            continue
        L = host[0]
        sw, sx = bool(s.flags & SHF_WRITE), bool(s.flags & SHF_EXECINSTR)
        lw, lx = bool(L.flags & PF_W), bool(L.flags & PF_X)
        if (sw, sx) != (lw, lx):
            bad("sec-perm:" + s.name, f"section permissions W={sw} X={sx} differ from its LOAD segment's W={lw} X={lx}: {s} in {L}")
        if s.type != SHT_NOBITS:
            if s.addr - L.vaddr != s.offset - L.offset:
                bad("sec-offset-vs-addr:" + s.name, f"sh_offset - p_offset != sh_addr - p_vaddr (the loader maps other bytes at the section's address): {s} in {L}")
            elif s.addr + s.size > L.vaddr + L.filesz:
                bad("sec-beyond-filesz:" + s.name, f"PROGBITS section extends beyond p_filesz of its LOAD: {s} in {L}")
        else:
            if s.addr < L.vaddr + L.filesz:
                # a NOBITS section inside the file-backed part: the loader maps file bytes there, they must be zero
                fo = L.offset + (s.addr - L.vaddr)
                n = min(s.size, L.vaddr + L.filesz - s.addr)
                if any(e.d[fo:fo + n]):
                    bad("nobits-file-backed:" + s.name, f"NOBITS section lies in the file-backed part of its LOAD and the file bytes there are not zero: {s} in {L}")
    # ---- auxiliary segments
    def in_load(g, what):
        if g.memsz == 0 and g.filesz == 0:
            return
        host = [L for L in loads if L.vaddr <= g.vaddr and g.vaddr + g.memsz <= L.vaddr + L.memsz]
        if not host:
            bad(what + "-not-in-load", f"{what} segment not contained in a LOAD segment: {g}")
            return
        L = host[0]
        if g.filesz and g.vaddr - L.vaddr != g.offset - L.offset:
            bad(what + "-offset", f"{what}: p_offset inconsistent with the containing LOAD: {g} in {L}")

    def exact(g, s, what, allow_nobits=False):
        if s is None:
            bad(what + "-no-section", f"{what} segment present but its section is missing: {g}")
            return
        if (g.vaddr, g.memsz) != (s.addr, s.size) or g.offset != s.offset or g.filesz != s.size:
            bad(what + "-range", f"{what} segment does not cover exactly {s.name}: {g} vs {s}")

    for g in e.segments:
        t = g.tname
        if t in ("LOAD", "GNU_STACK", "NULL"):
            continue
        if not is_pow2(g.align) and g.align not in (0, 1):
            bad(t + "-align-pow2", f"p_align not a power of two: {g}")
        elif t == "TLS" and g.align > 1 and g.memsz and g.vaddr % g.align != 0:
            bad("tls-start-misaligned", f"p_vaddr not a multiple of p_align: {g}")
        elif t not in ("TLS", "GNU_RELRO") and g.align > 1 and g.memsz and (g.vaddr - g.offset) % g.align != 0:
            # gABI: p_vaddr = p_offset (mod p_align); a PT_NOTE over two notes of different alignment starts at the less aligned one
            bad(t + "-align", f"p_vaddr is not congruent to p_offset modulo p_align: {g}")
        in_load(g, t)
    for t, secname in (("DYNAMIC", ".dynamic"), ("INTERP", ".interp"), ("GNU_EH_FRAME", ".eh_frame_hdr"), ("GNU_PROPERTY", ".note.gnu.property"),
                       ("GNU_SFRAME", ".sframe")):
        gs = e.segs(t)
        if len(gs) > 1:
            bad(t + "-dup", f"more than one {t} segment")
        for g in gs:
            exact(g, e.sec(secname), t)
        s = e.sec(secname)
        if s is not None and s.flags & SHF_ALLOC and s.size and not gs and t != "GNU_SFRAME":
            bad(t + "-missing", f"{secname} present but no {t} segment")
    for g in e.segs("PHDR"):
        if g.offset != e.e_phoff or g.filesz != e.e_phnum * 56 or g.memsz != g.filesz:
            bad("PHDR-range", f"PT_PHDR does not describe the program header table (e_phoff=0x{e.e_phoff:x}, phnum={e.e_phnum}): {g}")
        first_load = next((i for i, x in enumerate(e.segments) if x.type == 1), None)
        if first_load is not None and e.segments.index(g) > first_load:
            bad("PHDR-order", "PT_PHDR does not precede the LOAD segments")
    if e.e_phnum and loads:
        # the program headers must be mapped (the loader and libc read them through AT_PHDR / PT_PHDR)
        if e.segs("PHDR") or e.segs("INTERP"):
            ok = any(L.offset <= ph0 and ph1 <= L.offset + L.filesz for L in loads)
            if not ok:
                bad("phdrs-not-mapped", "program header table is not inside the file-backed part of any LOAD")
    # TLS
    tls_secs = [s for s in secs if s.flags & SHF_TLS and s.flags & SHF_ALLOC]
    tls_segs = e.segs("TLS")
    if len(tls_segs) > 1:
        bad("TLS-dup", "more than one PT_TLS")
    if tls_secs and not tls_segs and any(s.size for s in tls_secs):
        bad("TLS-missing", "SHF_TLS sections present but no PT_TLS")
    for g in tls_segs:
        if not tls_secs:
            bad("TLS-no-sections", f"PT_TLS without SHF_TLS sections: {g}")
            continue
        nz = [s for s in tls_secs if s.size] or tls_secs
        lo = min(s.addr for s in nz)
        hi = max(s.addr + s.size for s in nz)
        # zero-size TLS sections have an address too (an empty, strongly aligned .tbss input): the segment may cover the hull
        # with or without them
        lo_all = min(s.addr for s in tls_secs)
        hi_all = max(s.addr + s.size for s in tls_secs)
        if (g.vaddr, g.vaddr + g.memsz) not in ((lo, hi), (lo_all, hi_all), (lo, hi_all)):
            bad("TLS-range", f"PT_TLS [0x{g.vaddr:x},0x{g.vaddr + g.memsz:x}) is not the hull [0x{lo:x},0x{hi:x}) of the SHF_TLS sections")
        if g.filesz > g.memsz:
            bad("TLS-filesz", f"PT_TLS p_filesz > p_memsz: {g}")
        for s in nz:
            if s.type != SHT_NOBITS and not (g.vaddr <= s.addr and s.addr + s.size <= g.vaddr + g.filesz and s.offset - g.offset == s.addr - g.vaddr):
                bad("TLS-init-image:" + s.name, f"TLS data section not inside the PT_TLS initialisation image: {s} vs {g}")
            if s.align > g.align:
                bad("TLS-align:" + s.name, f"PT_TLS p_align {g.align} smaller than alignment of {s}")
        # bytes of the init image that belong to NOBITS TLS sections must be zero
        for s in nz:
            if s.type == SHT_NOBITS and s.addr < g.vaddr + g.filesz:
                fo = g.offset + (s.addr - g.vaddr)
                n = min(s.size, g.vaddr + g.filesz - s.addr)
                if any(e.d[fo:fo + n]):
                    bad("TLS-tbss-nonzero:" + s.name, f".tbss bytes inside the TLS initialisation image are not zero: {s}")
        # nothing else inside the TLS range
        for s in memd:
            if not (s.flags & SHF_TLS) and overlap(s.addr, s.addr + s.size, g.vaddr, g.vaddr + g.filesz):
                bad("TLS-foreign:" + s.name, f"non-TLS section inside the PT_TLS initialisation image: {s} vs {g}")
    # RELRO
    relro = e.segs("GNU_RELRO")
    if len(relro) > 1:
        bad("RELRO-dup", "more than one PT_GNU_RELRO")
    for g in relro:
        lo, hi = g.vaddr, g.vaddr + g.memsz
        host = [L for L in loads if L.vaddr <= lo and hi <= L.vaddr + L.memsz]
        if host and not host[0].flags & PF_W:
            bad("RELRO-host", f"PT_GNU_RELRO inside a non-writable LOAD: {g}")
        # what the loader really protects: [lo rounded down, hi rounded down) at the runtime page size
        plo, phi = lo // RUNTIME_PAGE * RUNTIME_PAGE, hi // RUNTIME_PAGE * RUNTIME_PAGE
        for s in memd:
            eligible = bool(s.flags & SHF_TLS) or s.name in RELRO_NAMES or s.name.startswith(".data.rel.ro")
            inside = lo <= s.addr and s.addr + s.size <= hi
            if eligible and s.flags & SHF_WRITE and not inside and not script:
                bad("RELRO-uncovered:" + s.name, f"relro section not covered by PT_GNU_RELRO [0x{lo:x},0x{hi:x}): {s}")
            if not eligible and s.flags & SHF_WRITE:
                if overlap(s.addr, s.addr + s.size, lo, hi):
                    bad("RELRO-foreign:" + s.name, f"ordinary writable section inside PT_GNU_RELRO [0x{lo:x},0x{hi:x}): {s}")
                elif overlap(s.addr, s.addr + s.size, plo, phi):
                    bad("RELRO-page:" + s.name, f"ordinary writable section shares a page that the loader will make read-only (PT_GNU_RELRO [0x{lo:x},0x{hi:x})): {s}")
    # NOTE
    notes = [s for s in secs if s.type == SHT_NOTE and s.flags & SHF_ALLOC and s.size]
    nsegs = e.segs("NOTE")
    for g in nsegs:
        inside = [s for s in memd if overlap(s.addr, s.addr + s.size, g.vaddr, g.vaddr + g.memsz)]
        if not inside:
            bad("NOTE-empty", f"PT_NOTE covers no section: {g}")
            continue
        if any(s.type != SHT_NOTE for s in inside):
            bad("NOTE-foreign", f"PT_NOTE covers non-note sections {[s.name for s in inside if s.type != SHT_NOTE]}: {g}")
        lo = min(s.addr for s in inside)
        hi = max(s.addr + s.size for s in inside)
        if (g.vaddr, g.vaddr + g.memsz) != (lo, hi) or g.filesz != g.memsz or g.offset != min(s.offset for s in inside):
            bad("NOTE-range", f"PT_NOTE is not the hull of the note sections it covers: {g} vs {[s.name for s in inside]}")
    for s in notes:
        if not any(g.vaddr <= s.addr and s.addr + s.size <= g.vaddr + g.memsz for g in nsegs):
            bad("NOTE-uncovered:" + s.name, f"allocated note section not covered by any PT_NOTE: {s}")
    # GNU_STACK
    for g in e.segs("GNU_STACK"):
        if g.flags & PF_X and not execstack:
            bad("STACK-exec", f"PT_GNU_STACK executable without -z execstack: {g}")
    # entry
    if e.e_type == ET_EXEC or (e.e_type == ET_DYN and e.segs("INTERP")):
        if e.e_entry and not any(L.flags & PF_X and L.vaddr <= e.e_entry < L.vaddr + L.memsz for L in loads):
            bad("entry", f"e_entry 0x{e.e_entry:x} is not inside an executable LOAD")
    return out


def summarize(e):
    """Short text used for readelf cross-checks and replays."""
    return {"segments": [repr(s) for s in e.segments], "sections": [repr(s) for s in e.sections]}
