"""C04: generator of link cases (programs with many custom sections, output kinds, page sizes, section-start
options, small linker scripts) and the machinery to build, link with the hooked wild and run them."""
import os
import shutil

from . import linkutil as lu

SIZES = [0, 1, 3, 7, 8, 24, 100, 255, 1000, 4097, 9000, 70000]
# flags string, type, class
SEC_KINDS = [
    ("a", "progbits", "ro"), ("a", "progbits", "ro"),
    ("aw", "progbits", "data"), ("aw", "progbits", "data"), ("aw", "progbits", "data"),
    ("ax", "progbits", "exec"), ("ax", "progbits", "exec"),
    ("aw", "nobits", "bss"), ("aw", "nobits", "bss"),
    ("awT", "progbits", "tdata"),
    ("awT", "nobits", "tbss"),
    ("a", "note", "note"),
    ("", "progbits", "nonalloc"),
    ("aM", "progbits,1", "ro"),
]
STD_NAMES = {  # input section names that wild's built-in rules map into built-in output sections
    "ro": [".rodata.x%d", ".rodata"], "data": [".data.x%d", ".data", ".data.rel.ro.x%d", ".data.rel.ro"], "exec": [".text.x%d", ".text.hot.x%d"],
    "bss": [".bss.x%d", ".bss"], "tdata": [".tdata.x%d", ".tdata"], "tbss": [".tbss.x%d", ".tbss"],
}


def pick_align(r):
    k = r.below(20)
    if k < 10:
        return 1 << r.below(5)
    if k < 16:
        return 1 << r.range(5, 9)
    if k < 19:
        return 1 << r.range(10, 13)
    return 1 << r.range(14, 16)


def gen_sections(r, n, bare, allow_tls, custom_tls=True):
    """List of dicts: name, flags, type, cls, align, size, val, sym."""
    secs = []
    for k in range(n):
        flags, ty, cls = r.choice(SEC_KINDS)
        if cls in ("tdata", "tbss") and not allow_tls:
            flags, ty, cls = ("aw", "progbits", "data")
        custom = r.chance(3, 4) or cls in ("note", "nonalloc")
        if cls in ("tdata", "tbss") and not custom_tls:
            custom = False
        if custom:
            name = {"note": ".note.cs%d", "nonalloc": ".cs_na%d"}.get(cls, "cs_%s%%d" % cls if r.chance(1, 2) else ".cs_%s%%d" % cls) % k
        else:
            name = r.choice(STD_NAMES[cls])
            if "%d" in name:
                name = name % k
        size = r.choice(SIZES)
        if cls == "note":
            size = 20
        if cls in ("tdata", "tbss"):
            size = min(size, 9000)
        if cls == "exec" and size == 0:
            size = 1
        align = pick_align(r)
        if cls == "note":
            align = 4
        if cls in ("tdata", "tbss"):
            align = min(align, 4096)
        val = 0 if ty == "nobits" else r.range(1, 250)
        if cls == "exec":
            val = 0xC3
        secs.append({"name": name, "flags": flags, "type": ty, "cls": cls, "align": align, "size": size, "val": val, "sym": f"sym{k}", "k": k})
    return secs


def asm_sections(secs):
    out = []
    for s in secs:
        out.append(f'    .section {s["name"]},"{s["flags"]}",@{s["type"]}\n')
        out.append(f'    .balign {s["align"]}\n')
        out.append(f'    .globl {s["sym"]}\n')
        if s["cls"] in ("tdata", "tbss"):
            out.append(f'    .type {s["sym"]},@object\n')
        out.append(f'{s["sym"]}:\n')
        if s["cls"] == "note":
            out.append('    .long 4, 4, 0x4304\n    .asciz "CS4"\n    .long 0\n')
        elif s["type"] == "nobits":
            out.append(f'    .zero {s["size"]}\n')
        elif s["size"]:
            out.append(f'    .fill {s["size"]},1,{s["val"]}\n')
        out.append(f'    .size {s["sym"]}, {s["size"]}\n')
    return "".join(out)


def writable(s):
    return "w" in s["flags"] and ".rel.ro" not in s["name"]


def checkable(s):
    return s["cls"] not in ("note", "nonalloc") and s["size"] > 0


def bare_start(secs, pie):
    """Freestanding _start: checks first and last byte of every allocated non-TLS section, writes to writable ones."""
    out = ["    .text\n    .globl _start\n_start:\n"]
    for s in secs:
        if not checkable(s) or s["cls"] in ("tdata", "tbss"):
            continue
        k = s["k"]
        if pie:
            out.append(f'    lea {s["sym"]}(%rip), %rsi\n')
        else:
            out.append(f'    movabs ${s["sym"]}, %rsi\n')
        if s["align"] <= 4096:
            out.append(f'    test ${s["align"] - 1}, %rsi\n    jnz fail{k}\n')
        for off in sorted({0, s["size"] - 1}):
            out.append(f'    movzbl {off}(%rsi), %eax\n    cmp ${s["val"]}, %eax\n    jne fail{k}\n')
        if writable(s):
            out.append(f'    movb $0x5a, (%rsi)\n    movb $0x5a, {s["size"] - 1}(%rsi)\n')
    out.append("    mov $60, %eax\n    xor %edi, %edi\n    syscall\n")
    for s in secs:
        if checkable(s) and s["cls"] not in ("tdata", "tbss"):
            out.append(f'fail{s["k"]}:\n    mov $60, %eax\n    mov ${s["k"] + 1}, %edi\n    syscall\n')
    return "".join(out)


def c_checker(secs, fn="main"):
    """C translation unit that verifies contents/alignment of every section at run time (needs libc startup for TLS)."""
    out = ["#include <stdint.h>\n"]
    for s in secs:
        if not checkable(s):
            continue
        if s["cls"] in ("tdata", "tbss"):
            out.append(f'extern __thread volatile unsigned char {s["sym"]}[];\n')
        elif s["cls"] == "exec":
            out.append(f'extern void {s["sym"]}(void);\n')
        else:
            out.append(f'extern volatile unsigned char {s["sym"]}[];\n')
    out.append("""
__attribute__((aligned(32))) volatile int own_data[5] = {1, 2, 3, 4, 5};
volatile char own_bss[300];
__thread volatile int own_tls = 7;
__thread volatile char own_tbss[40];
static volatile int ctor_ran;
__attribute__((constructor)) static void ctor(void) { ctor_ran = 1; }
static const char *const relro_tab[] = {"a", "b", "c"};
const char *const *volatile relro_ptr = relro_tab;
static int chk(volatile unsigned char *p, unsigned long n, unsigned v, int w, unsigned long al) {
  if (al <= 4096 && (uintptr_t)p % al) return 1;
  for (unsigned long i = 0; i < n; i++) if (p[i] != v) return 1;
  if (w) for (unsigned long i = 0; i < n; i++) p[i] = (unsigned char)~v;
  return 0;
}
""")
    out.append(f"int {fn}(void) {{\n")
    out.append("  if (!ctor_ran) return 201;\n  if (own_data[4] != 5 || own_bss[299] != 0 || own_tls != 7 || own_tbss[39] != 0 || relro_ptr[2][0] != 'c') return 202;\n")
    out.append("  own_tls = 8; own_tbss[39] = 1; own_bss[0] = 1;\n")
    for s in secs:
        if not checkable(s):
            continue
        k = s["k"]
        if s["cls"] == "exec":
            out.append(f'  {s["sym"]}();\n')
            al = s["align"]
            if al <= 4096:
                out.append(f'  if ((uintptr_t)&{s["sym"]} % {al}) return {k + 1};\n')
        else:
            w = 1 if writable(s) else 0
            tls_al = min(s["align"], 64) if s["cls"] in ("tdata", "tbss") else s["align"]
            out.append(f'  if (chk((volatile unsigned char *){s["sym"]}, {s["size"]}, {s["val"]}, {w}, {tls_al})) return {k + 1};\n')
    out.append("  return 0;\n}\n")
    return "".join(out)


PAGE_OPTS = [None, None, None, 0x1000, 0x4000, 0x10000, 0x200000]
KINDS = ["bare-static", "bare-static", "bare-static-pie", "bare-script", "bare-script", "bare-secstart", "bare-secstart", "bare-T",
         "libc-static", "libc-static-pie", "libc-pie", "libc-pie", "libc-nopie", "libc-nopie-secstart", "libc-shared", "libc-shared",
         "reloc", "reloc"]


def gen_case(r, i):
    kind = KINDS[i % len(KINDS)] if i < 2 * len(KINDS) else r.choice(KINDS)
    bare = kind.startswith("bare")
    n = r.range(3, 14)
    secs = gen_sections(r, n, bare, allow_tls=not bare, custom_tls=kind != "reloc")
    case = {"kind": kind, "secs": secs, "page": r.choice(PAGE_OPTS), "common_page": r.choice([None, None, None, 0x1000]), "zopts": [], "script": None,
            "secstart": [], "extra": []}
    if r.chance(1, 4):
        case["zopts"].append(r.choice(["norelro", "relro", "now", "lazy", "separate-code", "noseparate-code"]))
    if r.chance(1, 6):
        case["extra"].append("--no-eh-frame-hdr")
    if r.chance(1, 6):
        case["extra"].append("--build-id=sha1" if r.chance(1, 2) else "--build-id=none")
    if r.chance(1, 8):
        case["extra"].append("--gc-sections")
    if r.chance(1, 10):
        case["zopts"].append("execstack")
    customs = [s for s in secs if s["name"].lstrip(".").startswith("cs_") and s["cls"] not in ("tdata", "tbss", "nonalloc")]
    if kind in ("bare-secstart", "libc-nopie-secstart"):
        # ascending, well above everything else, in wild's own placement order (ro < exec < data < bss) so that nothing moves backwards
        order = {"ro": 0, "exec": 1, "data": 2, "bss": 3}
        cs = sorted(customs, key=lambda s: (order.get(s["cls"], 9), s["k"]))
        addr = 0x2000000 if bare else 0x8000000
        for s in cs:
            if r.chance(2, 3):
                addr += r.choice([0x1000, 0x10000, 0x123400, 0x200000, 0x10])
                if r.chance(1, 3):
                    addr += r.choice([1, 4, 0x28, 0x800])
                case["secstart"].append((s["name"], addr))
                addr += s["size"] + 0x20000
    if kind == "bare-T":
        case["extra"].append(r.choice(["-Ttext=0x800000", "-Tdata=0x900000", "-Tbss=0xa00000", "-Ttext-segment=0x600000", "--image-base=0x800000"]))
    if kind == "bare-script":
        case["script"] = gen_script(r, secs)
    return case


def gen_script(r, secs):
    """Small SECTIONS script over the case's input sections, in wild's own placement order, locations increasing."""
    order = {"ro": 0, "note": 0, "exec": 1, "data": 2, "bss": 3, "nonalloc": 4}
    groups = {}
    for s in secs:
        groups.setdefault(s["name"], s)
    lines = ["ENTRY(_start)", "SECTIONS {"]
    addr = r.choice([0x400000, 0x10000, 0x200000, 0x7000000])
    if r.chance(3, 4):
        lines.append(f"  . = 0x{addr:x};")
    names = sorted(groups.values(), key=lambda s: (order.get(s["cls"], 9), s["k"]))
    placed_text = False
    for s in names:
        if s["cls"] == "nonalloc":
            continue
        if s["cls"] in ("data", "bss") and not placed_text:
            lines.append("  .text : { *(.text .text.*) }")
            placed_text = True
        c = r.below(6)
        if c == 0:
            addr += r.choice([0x100000, 0x234000, 0x10000]) + 0x200000
            lines.append(f"  . = 0x{addr:x};")
        elif c == 1:
            lines.append(f"  . = ALIGN({1 << r.range(0, 13)});")
        nm = s["name"]
        out_name = nm if r.chance(3, 4) else ".o_" + nm.lstrip(".")
        start = ""
        if c == 2:
            addr += r.choice([0x100000, 0x300000]) + 0x200000
            start = f" 0x{addr:x}"
        al = f" ALIGN({1 << r.range(0, 12)})" if r.chance(1, 4) else ""
        keep = f"KEEP(*({nm}))"
        lines.append(f"  {out_name}{start} :{al} {{ {keep} }}")
        addr += s["size"] + 0x20000
    if not placed_text:
        lines.append("  .text : { *(.text .text.*) }")
    lines.append("}")
    return "\n".join(lines) + "\n"


def setup_driver_dir(scratch, wild):
    """Directory with `ld` -> wild, for `gcc -B<dir>/`."""
    d = os.path.join(scratch, "bin")
    os.makedirs(d, exist_ok=True)
    p = os.path.join(d, "ld")
    if not os.path.exists(p):
        os.symlink(wild, p)
    return d


def build_and_link(case, d, bindir, wild, dump=True):
    """Builds the inputs under d, links with wild. Returns dict: rc, err, out (path), cmd (replay), run (callable or None), etype."""
    os.makedirs(d, exist_ok=True)
    secs = case["secs"]
    kind = case["kind"]
    env = {"WILD_VERIF_DUMP": d} if dump else {}
    wl = []
    if case["page"]:
        wl += ["-z", f"max-page-size=0x{case['page']:x}"]
    if case["common_page"]:
        wl += ["-z", f"common-page-size=0x{case['common_page']:x}"]
    for z in case["zopts"]:
        wl += ["-z", z]
    wl += case["extra"]
    for name, addr in case["secstart"]:
        wl.append(f"--section-start={name}=0x{addr:x}")
    out = os.path.join(d, "out")
    res = {"out": out, "run": None, "etype": None, "execstack": "execstack" in case["zopts"]}
    if kind.startswith("bare"):
        pie = kind == "bare-static-pie"
        src = asm_sections(secs) + bare_start(secs, pie)
        obj = lu.asm_obj(d, "prog", src)
        args = ["-o", out, obj] + wl
        if pie:
            args += ["-static", "-pie", "--no-dynamic-linker"]
        if case["script"]:
            lu.write(os.path.join(d, "script.ld"), case["script"])
            args += ["-T", os.path.join(d, "script.ld")]
        rc, o, e = lu.run([wild] + args, env=env, cwd=d)
        res.update(rc=rc, err=e, cmd=[wild] + args, etype=3 if pie else 2)
        res["run"] = lambda: lu.run_native(out)
        res["ld_args"] = args
        return res
    gccwl = []
    for a in wl:
        gccwl.append("-Wl," + a)
    asm_obj = lu.asm_obj(d, "secs", asm_sections(secs))
    if kind == "reloc":
        chk = lu.cc_obj(d, "chk", c_checker(secs), flags=["-O1", "-fPIC"])
        args = ["-r", "-o", out + ".o", asm_obj, chk]
        rc, o, e = lu.run([wild] + args, env=env, cwd=d)
        res.update(rc=rc, err=e, cmd=[wild] + args, out=out + ".o", etype=1)

        def run_reloc():
            rc2, o2, e2 = lu.run(["gcc", "-o", out, out + ".o"], cwd=d)
            if rc2 != 0:
                return -998, "", "final link of the -r output with GNU ld failed: " + e2[-600:]
            r1 = lu.run_native(out)
            if r1[0] != 0:
                # the final link is GNU ld's: it may legitimately transform the inputs (e.g. de-duplicate the constants of an
                # SHF_MERGE section). Only a difference from the same program linked WITHOUT wild's -r step counts.
                rc3, o3, e3 = lu.run(["gcc", "-o", out + ".direct", asm_obj, chk], cwd=d)
                if rc3 == 0 and lu.run_native(out + ".direct")[0] == r1[0]:
                    return 0, "", "same exit status without the -r step: GNU ld's own transformation of the generated sections"
            return r1
        res["run"] = run_reloc
        return res
    if kind.startswith("libc-shared"):
        chk = lu.cc_obj(d, "chk", c_checker(secs, fn="check_all"), flags=["-O1", "-fPIC"])
        so = os.path.join(d, "libchk.so")
        cmd = ["gcc", f"-B{bindir}/", "-shared", "-o", so, asm_obj, chk] + gccwl
        rc, o, e = lu.run(cmd, env=env, cwd=d)
        res.update(rc=rc, err=e, cmd=cmd, out=so, etype=3)

        def run_shared():
            lu.write(os.path.join(d, "main.c"), "int check_all(void);\nint main(void) { return check_all(); }\n")
            rc2, o2, e2 = lu.run(["gcc", "-o", out, os.path.join(d, "main.c"), so, f"-Wl,-rpath,{d}"], cwd=d)
            if rc2 != 0:
                return -998, "", "linking a main program against the shared object with GNU ld failed: " + e2[-600:]
            return lu.run_native(out)
        res["run"] = run_shared
        return res
    mode = {"libc-static": ["-static"], "libc-static-pie": ["-static-pie"], "libc-pie": ["-pie"], "libc-nopie": ["-no-pie"],
            "libc-nopie-secstart": ["-no-pie"]}[kind]
    pic = ["-fPIE"] if "pie" in kind and "nopie" not in kind else ["-fno-pie"]
    chk = lu.cc_obj(d, "chk", c_checker(secs), flags=["-O1"] + pic)
    cmd = ["gcc", f"-B{bindir}/"] + mode + ["-o", out, asm_obj, chk] + gccwl
    rc, o, e = lu.run(cmd, env=env, cwd=d)
    res.update(rc=rc, err=e, cmd=cmd, etype=3 if ("pie" in kind and "nopie" not in kind) else 2)
    res["run"] = lambda: lu.run_native(out)
    return res


def cleanup(d):
    shutil.rmtree(d, ignore_errors=True)
