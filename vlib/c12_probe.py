"""C12 oracle: one-relocation programs linked by wild, GNU ld and ld.lld against absolute symbols
(`--defsym`) so that the computed relocation value is chosen exactly. Returns per linker
(accepted?, written field bytes). The relocation sits in .text right after `_start` (kept section)."""
import os
import struct
import subprocess

# name -> (arch, r_type, assembler line with {S} as the symbol expression, field size, pc-relative?)
PROBES = {
    ("x86_64", 1): ("x86_64", ".quad big", 8, False),
    ("x86_64", 10): ("x86_64", ".long big", 4, False),
    ("x86_64", 11): ("x86_64", "movq $big, %rax", 4, False),   # R_X86_64_32S at +3
    ("x86_64", 12): ("x86_64", ".short big", 2, False),
    ("x86_64", 14): ("x86_64", ".byte big", 1, False),
    ("x86_64", 2): ("x86_64", ".long big - .", 4, True),
    ("x86_64", 13): ("x86_64", ".short big - .", 2, True),
    ("x86_64", 15): ("x86_64", ".byte big - .", 1, True),
    ("x86_64", 24): ("x86_64", ".quad big - .", 8, True),
    ("aarch64", 257): ("aarch64", ".xword big", 8, False),
    ("aarch64", 258): ("aarch64", ".word big", 4, False),
    ("aarch64", 259): ("aarch64", ".hword big", 2, False),
    ("aarch64", 261): ("aarch64", ".word big - .", 4, True),
    ("aarch64", 262): ("aarch64", ".hword big - .", 2, True),
    ("aarch64", 283): ("aarch64", "bl big", 4, True),
    ("aarch64", 280): ("aarch64", "b.eq big", 4, True),
    ("aarch64", 279): ("aarch64", "tbz x0, #1, big", 4, True),
    ("aarch64", 274): ("aarch64", "adr x0, big", 4, True),
    ("aarch64", 273): ("aarch64", "ldr x0, big", 4, True),
    ("aarch64", 263): ("aarch64", "movz x0, #:abs_g0:big", 4, False),
    ("aarch64", 265): ("aarch64", "movz x0, #:abs_g1:big", 4, False),
    ("aarch64", 270): ("aarch64", "movz x0, #:abs_g0_s:big", 4, False),
    ("aarch64", 286): ("aarch64", "ldr x0, [x1, #:lo12:big]", 4, False),
    ("aarch64", 277): ("aarch64", "add x0, x1, #:lo12:big", 4, False),
    ("riscv64", 1): ("riscv64", ".word big", 4, False),
    ("riscv64", 2): ("riscv64", ".quad big", 8, False),
    ("riscv64", 16): ("riscv64", "beq a0, a1, big", 4, True),
    ("riscv64", 17): ("riscv64", "jal ra, big", 4, True),
    ("riscv64", 18): ("riscv64", "call big", 8, True),
    ("riscv64", 26): ("riscv64", "lui a0, %hi(big)", 4, False),
}
TEXT = 0x400000  # -Ttext address; the field is at TEXT + 4 (+ offset inside the instruction for 32S)
M64 = (1 << 64) - 1


def _as(arch, src, obj):
    if arch == "x86_64":
        cmd = ["as", "--64", "-o", obj, src]
    elif arch == "aarch64":
        cmd = ["clang", "--target=aarch64-linux-gnu", "-c", src, "-o", obj]
    else:
        cmd = ["clang", "--target=riscv64-linux-gnu", "-march=rv64gc", "-mno-relax", "-c", src, "-o", obj]
    p = subprocess.run(cmd, stdout=subprocess.PIPE, stderr=subprocess.STDOUT, text=True)
    return p.returncode == 0, p.stdout


def read_at(path, vaddr, n):
    """bytes at virtual address `vaddr` of an ELF64 LE executable (via section headers, falling back to PT_LOAD)"""
    d = open(path, "rb").read()
    if d[:4] != b"\x7fELF":
        return None
    phoff, shoff = struct.unpack_from("<QQ", d, 32)
    phentsize, phnum, shentsize, shnum = struct.unpack_from("<HHHH", d, 54)
    for i in range(shnum):
        (_, typ, flags, addr, off, size) = struct.unpack_from("<IIQQQQ", d, shoff + i * shentsize)
        if typ == 1 and flags & 2 and addr <= vaddr and vaddr + n <= addr + size:
            return d[off + vaddr - addr: off + vaddr - addr + n]
    for i in range(phnum):
        (typ, fl, off, va, pa, fsz, msz, al) = struct.unpack_from("<IIQQQQQQ", d, phoff + i * phentsize)
        if typ == 1 and va <= vaddr and vaddr + n <= va + fsz:
            return d[off + vaddr - va: off + vaddr - va + n]
    return None


def sym_addr(path, name):
    d = open(path, "rb").read()
    if d[:4] != b"\x7fELF":
        return None
    shoff, = struct.unpack_from("<Q", d, 40)
    shentsize, shnum = struct.unpack_from("<HH", d, 58)
    secs = [struct.unpack_from("<IIQQQQIIQQ", d, shoff + i * shentsize) for i in range(shnum)]
    for (_, typ, _, _, off, size, link, _, _, entsize) in secs:
        if typ != 2:
            continue
        stroff = secs[link][4]
        for j in range(size // 24):
            st_name, _, _, _, st_value, _ = struct.unpack_from("<IBBHQQ", d, off + 24 * j)
            e = d.index(b"\0", stroff + st_name)
            if d[stroff + st_name:e] == name.encode():
                return st_value
    return None


class Prober:
    def __init__(self, scratch, wild):
        self.dir = scratch
        self.wild = wild
        self.objs = {}
        self.place = {}
        self.n = 0

    def linkers(self, arch):
        ls = [("wild", [self.wild])]
        if arch == "x86_64":
            ls.append(("ld", ["ld"]))
        ls.append(("lld", ["ld.lld"]))
        return ls

    def obj(self, key):
        if key in self.objs:
            return self.objs[key]
        arch, line, size, pcrel = PROBES[key]
        src = os.path.join(self.dir, f"probe_{arch}_{key[1]}.s")
        obj = src[:-2] + ".o"
        pad = "nop" if arch != "x86_64" else ".byte 0x90,0x90,0x90,0x90"
        open(src, "w").write(f".globl _start\n.text\n_start:\n  {pad}\nfld:\n  {line}\n  {pad}\n")
        ok, out = _as(arch, src, obj)
        self.objs[key] = obj if ok else None
        if not ok:
            self.err = out
        return self.objs[key]

    def _link(self, name, cmd, arch, obj, sym, out):
        self.n += 1
        if os.path.exists(out):
            os.unlink(out)
        args = cmd + [f"--defsym=big=0x{sym:x}", "-z", "norelro", obj, "-o", out]
        if name == "wild" and arch == "riscv64":
            args = cmd + ["-m", "elf64lriscv"] + args[1:]
        if name == "wild" and arch == "aarch64":
            args = cmd + ["-m", "aarch64linux"] + args[1:]
        p = subprocess.run(args, stdout=subprocess.PIPE, stderr=subprocess.STDOUT, text=True)
        return p.returncode == 0 and os.path.exists(out), p.stdout[:300].replace("\n", " ")

    def layout_obj(self, key):
        """same program with the relocated item replaced by a gap of the same size (no relocation)"""
        arch, line, size, pcrel = PROBES[key]
        src = os.path.join(self.dir, f"layout_{arch}_{key[1]}.s")
        obj = src[:-2] + ".o"
        if not os.path.exists(obj):
            pad = "nop" if arch != "x86_64" else ".byte 0x90,0x90,0x90,0x90"
            gap = 7 if key == ("x86_64", 11) else size
            open(src, "w").write(f".globl _start\n.text\n_start:\n  {pad}\nfld:\n  .skip {gap}\n  {pad}\n")
            ok, out = _as(arch, src, obj)
            if not ok:
                return None
        return obj

    def fld(self, name, cmd, key):
        """address of the relocated field as this linker lays the probe out (independent of `big`)"""
        if (name, key) not in self.place:
            arch = PROBES[key][0]
            out = os.path.join(self.dir, f"probe.{name}.out")
            lo = self.layout_obj(key)
            a = None
            if lo is not None:
                ok, msg = self._link(name, cmd, arch, lo, 0, out)
                a = sym_addr(out, "fld") if ok else None
            self.place[(name, key)] = a
        return self.place[(name, key)]

    def run(self, key, value):
        """value: the relocation's computed value (i64 as python int). Returns {linker: (accepted, bytes|None, stderr-head)}"""
        arch, line, size, pcrel = PROBES[key]
        obj = self.obj(key)
        if obj is None:
            return None
        res = {}
        for name, cmd in self.linkers(arch):
            base = self.fld(name, cmd, key)
            if base is None:
                res[name] = (None, None, "could not lay out the probe")
                continue
            sym = (value + base) & M64 if pcrel else value & M64
            out = os.path.join(self.dir, f"probe.{name}.out")
            ok, msg = self._link(name, cmd, arch, obj, sym, out)
            faddr = base + (3 if key == ("x86_64", 11) else 0)
            data = read_at(out, faddr, size) if ok else None
            res[name] = (ok, data.hex() if data is not None else None, msg)
        return res
