"""T1 regeneration shared by C12 and C13: `wvh dump-reloc-tables` -> translators/gen_reloc_tables.py
-> lean/WildModel/Gen/RelocTables.lean (rewritten only when the content changes, under the lake lock,
so that concurrent checks never see a half-written file)."""
import importlib.util
import os
import subprocess

from vlib import runner

GEN = os.path.join(runner.LEAN_DIR, "WildModel", "Gen", "RelocTables.lean")


def _translator():
    p = os.path.join(runner.VERIF, "translators", "gen_reloc_tables.py")
    spec = importlib.util.spec_from_file_location("gen_reloc_tables", p)
    m = importlib.util.module_from_spec(spec)
    spec.loader.exec_module(m)
    return m


def dump(limit=65536):
    p = subprocess.run([runner.WVH, "dump-reloc-tables", str(limit)], stdout=subprocess.PIPE, stderr=subprocess.PIPE, text=True, timeout=3600)
    if p.returncode != 0:
        raise runner.BuildError("wvh dump-reloc-tables failed: " + p.stderr[-2000:])
    return p.stdout


def parse(text):
    """rows as dicts (the same fields as Gen.RelocRow)"""
    rows = []
    for ln in text.splitlines():
        t = ln.split()
        if not t or t[0] != "row":
            continue
        r = {"arch": t[1], "rtype": int(t[2]), "name": t[3], "kind": t[4]}
        i = 5
        if t[i] == "bytes":
            r["bytes"] = int(t[i + 1])
            r["bits"] = None
            i += 2
        else:
            r["bytes"] = None
            r["bits"] = (int(t[i + 1]), int(t[i + 2]), t[i + 3])
            i += 4
        r["min"], r["max"], r["alignment"], r["bias"] = int(t[i]), int(t[i + 1]), int(t[i + 2]), int(t[i + 3])
        r["mask"], r["thunkable"] = t[i + 4], t[i + 5] == "1"
        rows.append(r)
    return rows


def regenerate(ctx):
    text = dump()
    try:
        lean = _translator().render(text)
    except ValueError as e:
        ctx.broken.append(f"translator gen_reloc_tables.py: {e}")
        ctx.tables = parse(text)
        return
    with runner.Lock("lake"):
        old = open(GEN, encoding="utf-8").read() if os.path.exists(GEN) else None
        if old != lean:
            tmp = GEN + ".tmp"
            with open(tmp, "w", encoding="utf-8") as f:
                f.write(lean)
            os.replace(tmp, GEN)
    ctx.tables = parse(text)
    ctx.count("tables", "rows", len(ctx.tables))
