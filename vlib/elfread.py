"""Independent ELF64 little-endian reader used by the whole-link correspondences.

Reads headers, segments, sections, symbol tables, RELA/RELR, dynamic entries, GNU/SysV hash tables,
version tables, notes, .eh_frame / .eh_frame_hdr.  Pure Python, no dependency on wild's own code.
"""
import struct

PT = {0: "NULL", 1: "LOAD", 2: "DYNAMIC", 3: "INTERP", 4: "NOTE", 6: "PHDR", 7: "TLS", 0x6474E550: "GNU_EH_FRAME",
      0x6474E551: "GNU_STACK", 0x6474E552: "GNU_RELRO", 0x6474E553: "GNU_PROPERTY", 0x6474E554: "GNU_SFRAME"}
SHT_NULL, SHT_PROGBITS, SHT_SYMTAB, SHT_STRTAB, SHT_RELA, SHT_HASH, SHT_DYNAMIC, SHT_NOTE, SHT_NOBITS, SHT_REL = range(10)
SHT_DYNSYM = 11
SHT_INIT_ARRAY, SHT_FINI_ARRAY, SHT_PREINIT_ARRAY, SHT_GROUP = 14, 15, 16, 17
SHT_RELR = 19
SHT_GNU_HASH = 0x6FFFFFF6
SHT_GNU_VERDEF, SHT_GNU_VERNEED, SHT_GNU_VERSYM = 0x6FFFFFFD, 0x6FFFFFFE, 0x6FFFFFFF
SHF_WRITE, SHF_ALLOC, SHF_EXECINSTR, SHF_MERGE, SHF_STRINGS = 1, 2, 4, 0x10, 0x20
SHF_TLS = 0x400
PF_X, PF_W, PF_R = 1, 2, 4
DT = {1: "NEEDED", 2: "PLTRELSZ", 3: "PLTGOT", 4: "HASH", 5: "STRTAB", 6: "SYMTAB", 7: "RELA", 8: "RELASZ", 9: "RELAENT", 10: "STRSZ",
      11: "SYMENT", 12: "INIT", 13: "FINI", 14: "SONAME", 15: "RPATH", 16: "SYMBOLIC", 20: "PLTREL", 21: "DEBUG", 23: "JMPREL",
      24: "BIND_NOW", 25: "INIT_ARRAY", 26: "FINI_ARRAY", 27: "INIT_ARRAYSZ", 28: "FINI_ARRAYSZ", 29: "RUNPATH", 30: "FLAGS",
      32: "PREINIT_ARRAY", 33: "PREINIT_ARRAYSZ", 35: "RELRSZ", 36: "RELR", 37: "RELRENT", 0x6FFFFEF5: "GNU_HASH",
      0x6FFFFFF0: "VERSYM", 0x6FFFFFF9: "RELACOUNT", 0x6FFFFFFB: "FLAGS_1", 0x6FFFFFFC: "VERDEF", 0x6FFFFFFD: "VERDEFNUM",
      0x6FFFFFFE: "VERNEED", 0x6FFFFFFF: "VERNEEDNUM", 0x7FFFFFFD: "AUXILIARY", 0x7FFFFFFF: "FILTER"}
STB = {0: "LOCAL", 1: "GLOBAL", 2: "WEAK", 10: "GNU_UNIQUE"}
STT = {0: "NOTYPE", 1: "OBJECT", 2: "FUNC", 3: "SECTION", 4: "FILE", 5: "COMMON", 6: "TLS", 10: "GNU_IFUNC"}
STV = {0: "DEFAULT", 1: "INTERNAL", 2: "HIDDEN", 3: "PROTECTED"}
SHN_UNDEF, SHN_ABS, SHN_COMMON = 0, 0xFFF1, 0xFFF2


class Sym:
    __slots__ = ("name", "value", "size", "bind", "type", "vis", "shndx", "index", "other", "info")

    def __repr__(self):
        return f"Sym({self.name!r} v=0x{self.value:x} sz={self.size} {STB.get(self.bind, self.bind)} {STT.get(self.type, self.type)} {STV.get(self.vis)} shndx={self.shndx})"


class Sec:
    __slots__ = ("name", "type", "flags", "addr", "offset", "size", "link", "info", "align", "entsize", "index")

    def __repr__(self):
        return f"Sec({self.name!r} type=0x{self.type:x} flags=0x{self.flags:x} addr=0x{self.addr:x} off=0x{self.offset:x} size=0x{self.size:x} align={self.align})"


class Seg:
    __slots__ = ("type", "flags", "offset", "vaddr", "paddr", "filesz", "memsz", "align")

    @property
    def tname(self):
        return PT.get(self.type, hex(self.type))

    def __repr__(self):
        return f"Seg({self.tname} flags={self.flags} off=0x{self.offset:x} va=0x{self.vaddr:x} fsz=0x{self.filesz:x} msz=0x{self.memsz:x} align=0x{self.align:x})"


class ElfError(Exception):
    pass


def cstr(data, off):
    end = data.index(b"\0", off)
    return data[off:end]


class Elf:
    def __init__(self, path=None, data=None):
        if data is None:
            with open(path, "rb") as f:
                data = f.read()
        self.path = path
        self.d = data
        if data[:4] != b"\x7fELF" or data[4] != 2 or data[5] != 1:
            raise ElfError("not ELF64 LE")
        (self.e_type, self.e_machine, self.e_version, self.e_entry, self.e_phoff, self.e_shoff, self.e_flags, self.e_ehsize,
         self.e_phentsize, self.e_phnum, self.e_shentsize, self.e_shnum, self.e_shstrndx) = struct.unpack_from("<HHIQQQIHHHHHH", data, 16)
        self.segments = []
        for i in range(self.e_phnum):
            s = Seg()
            (s.type, s.flags, s.offset, s.vaddr, s.paddr, s.filesz, s.memsz, s.align) = struct.unpack_from("<IIQQQQQQ", data, self.e_phoff + i * self.e_phentsize)
            self.segments.append(s)
        self.sections = []
        shnum = self.e_shnum
        if self.e_shoff and shnum == 0:
            shnum = struct.unpack_from("<Q", data, self.e_shoff + 32)[0]
        raw = []
        for i in range(shnum):
            raw.append(struct.unpack_from("<IIQQQQIIQQ", data, self.e_shoff + i * self.e_shentsize))
        shstr = self.e_shstrndx
        if shstr == 0xFFFF and raw:
            shstr = raw[0][6]
        for i, r in enumerate(raw):
            s = Sec()
            (nameoff, s.type, s.flags, s.addr, s.offset, s.size, s.link, s.info, s.align, s.entsize) = r
            s.index = i
            if raw and shstr < len(raw):
                so = raw[shstr][4]
                s.name = cstr(data, so + nameoff).decode("latin1")
            else:
                s.name = ""
            self.sections.append(s)

    # ---- basic access
    def sec(self, name):
        for s in self.sections:
            if s.name == name:
                return s
        return None

    def secs(self, name):
        return [s for s in self.sections if s.name == name]

    def sec_data(self, s):
        if s is None or s.type == SHT_NOBITS:
            return b""
        return self.d[s.offset:s.offset + s.size]

    def segs(self, tname):
        return [s for s in self.segments if s.tname == tname]

    def vaddr_to_off(self, va):
        for s in self.segments:
            if s.type == 1 and s.vaddr <= va < s.vaddr + s.filesz:
                return s.offset + (va - s.vaddr)
        return None

    def read(self, va, n):
        """n bytes of the memory image at link-time address va (zero-fill beyond filesz)."""
        out = bytearray()
        while n > 0:
            hit = None
            for s in self.segments:
                if s.type == 1 and s.vaddr <= va < s.vaddr + s.memsz:
                    hit = s
                    break
            if hit is None:
                # non-loaded: try section (relocatable files / non-alloc)
                raise ElfError(f"address 0x{va:x} not mapped")
            avail = hit.vaddr + hit.memsz - va
            take = min(n, avail)
            fo = va - hit.vaddr
            chunk = self.d[hit.offset + fo: hit.offset + min(fo + take, hit.filesz)] if fo < hit.filesz else b""
            out += chunk + b"\0" * (take - len(chunk))
            va += take
            n -= take
        return bytes(out)

    def u64(self, va):
        return struct.unpack("<Q", self.read(va, 8))[0]

    def u32(self, va):
        return struct.unpack("<I", self.read(va, 4))[0]

    def cstr_at(self, va, maxlen=1 << 16):
        out = bytearray()
        while len(out) < maxlen:
            b = self.read(va + len(out), 1)
            if b == b"\0":
                break
            out += b
        return bytes(out)

    # ---- symbols
    def _symtab(self, s):
        if s is None:
            return []
        strs = self.sec_data(self.sections[s.link])
        data = self.sec_data(s)
        out = []
        for i in range(len(data) // 24):
            (nameoff, info, other, shndx, value, size) = struct.unpack_from("<IBBHQQ", data, i * 24)
            y = Sym()
            y.name = cstr(strs, nameoff).decode("latin1") if nameoff < len(strs) else "?"
            y.value, y.size, y.bind, y.type, y.vis, y.shndx, y.index, y.other, y.info = value, size, info >> 4, info & 15, other & 3, shndx, i, other, info
            out.append(y)
        return out

    def symtab(self):
        for s in self.sections:
            if s.type == SHT_SYMTAB:
                return self._symtab(s)
        return []

    def symtab_sec(self):
        for s in self.sections:
            if s.type == SHT_SYMTAB:
                return s
        return None

    def dynsym(self):
        for s in self.sections:
            if s.type == SHT_DYNSYM:
                return self._symtab(s)
        return []

    def dynsym_sec(self):
        for s in self.sections:
            if s.type == SHT_DYNSYM:
                return s
        return None

    def sym(self, name, dyn=False):
        for y in (self.dynsym() if dyn else self.symtab()):
            if y.name == name and y.shndx != 0:
                return y
        return None

    def symaddr(self, name):
        y = self.sym(name)
        return y.value if y else None

    # ---- relocations
    def relas(self, sec):
        data = self.sec_data(sec)
        out = []
        for i in range(len(data) // 24):
            off, info, addend = struct.unpack_from("<QQq", data, i * 24)
            out.append((off, info & 0xFFFFFFFF, info >> 32, addend))  # (offset, type, symidx, addend)
        return out

    def all_dyn_relas(self):
        out = []
        for s in self.sections:
            if s.type == SHT_RELA and (s.flags & SHF_ALLOC):
                out += [(s.name,) + r for r in self.relas(s)]
        return out

    def relr_words(self):
        out = []
        for s in self.sections:
            if s.type == SHT_RELR:
                d = self.sec_data(s)
                out += list(struct.unpack(f"<{len(d) // 8}Q", d))
        return out

    @staticmethod
    def decode_relr(words):
        """glibc elf_dynamic_do_Relr decoding: returns list of relocated addresses."""
        out = []
        where = 0
        for e in words:
            if e & 1 == 0:
                out.append(e)
                where = e + 8
            else:
                i = 0
                b = e >> 1
                while b:
                    if b & 1:
                        out.append(where + 8 * i)
                    b >>= 1
                    i += 1
                where += 8 * 63
        return out

    # ---- dynamic
    def dynamic(self):
        s = None
        for x in self.sections:
            if x.type == SHT_DYNAMIC:
                s = x
        if s is None:
            return []
        d = self.sec_data(s)
        out = []
        for i in range(len(d) // 16):
            tag, val = struct.unpack_from("<QQ", d, i * 16)
            if tag == 0:
                break
            out.append((DT.get(tag, hex(tag)), val))
        return out

    def dynstr_at(self, off):
        for x in self.sections:
            if x.type == SHT_DYNSYM:
                strs = self.sec_data(self.sections[x.link])
                return cstr(strs, off).decode("latin1")
        s = self.sec(".dynstr")
        return cstr(self.sec_data(s), off).decode("latin1")

    def needed(self):
        return [self.dynstr_at(v) for t, v in self.dynamic() if t == "NEEDED"]

    def soname(self):
        for t, v in self.dynamic():
            if t == "SONAME":
                return self.dynstr_at(v)
        return None

    # ---- hash tables
    def gnu_hash(self):
        s = None
        for x in self.sections:
            if x.type == SHT_GNU_HASH:
                s = x
        if s is None:
            return None
        d = self.sec_data(s)
        nbuckets, symoffset, bloom_size, bloom_shift = struct.unpack_from("<IIII", d, 0)
        p = 16
        bloom = list(struct.unpack_from(f"<{bloom_size}Q", d, p))
        p += 8 * bloom_size
        buckets = list(struct.unpack_from(f"<{nbuckets}I", d, p))
        p += 4 * nbuckets
        chain = list(struct.unpack_from(f"<{(len(d) - p) // 4}I", d, p))
        return {"nbuckets": nbuckets, "symoffset": symoffset, "bloom_size": bloom_size, "bloom_shift": bloom_shift, "bloom": bloom,
                "buckets": buckets, "chain": chain}

    def sysv_hash(self):
        s = None
        for x in self.sections:
            if x.type == SHT_HASH:
                s = x
        if s is None:
            return None
        d = self.sec_data(s)
        nbucket, nchain = struct.unpack_from("<II", d, 0)
        buckets = list(struct.unpack_from(f"<{nbucket}I", d, 8))
        chain = list(struct.unpack_from(f"<{nchain}I", d, 8 + 4 * nbucket))
        return {"nbucket": nbucket, "nchain": nchain, "buckets": buckets, "chain": chain}

    # ---- versions
    def versym(self):
        for x in self.sections:
            if x.type == SHT_GNU_VERSYM:
                d = self.sec_data(x)
                return list(struct.unpack(f"<{len(d) // 2}H", d))
        return None

    def verdef(self):
        for x in self.sections:
            if x.type == SHT_GNU_VERDEF:
                d = self.sec_data(x)
                strs = self.sec_data(self.sections[x.link])
                out = []
                p = 0
                for _ in range(x.info):
                    ver, flags, ndx, cnt, h, aux, nxt = struct.unpack_from("<HHHHIII", d, p)
                    names = []
                    q = p + aux
                    for _ in range(cnt):
                        nm, anext = struct.unpack_from("<II", d, q)
                        names.append(cstr(strs, nm).decode("latin1"))
                        if anext == 0:
                            break
                        q += anext
                    out.append({"version": ver, "flags": flags, "ndx": ndx, "hash": h, "names": names})
                    if nxt == 0:
                        break
                    p += nxt
                return out
        return None

    def verneed(self):
        for x in self.sections:
            if x.type == SHT_GNU_VERNEED:
                d = self.sec_data(x)
                strs = self.sec_data(self.sections[x.link])
                out = []
                p = 0
                for _ in range(x.info):
                    ver, cnt, file, aux, nxt = struct.unpack_from("<HHIII", d, p)
                    auxs = []
                    q = p + aux
                    for _ in range(cnt):
                        h, flags, other, nm, anext = struct.unpack_from("<IHHII", d, q)
                        auxs.append({"hash": h, "flags": flags, "other": other, "name": cstr(strs, nm).decode("latin1")})
                        if anext == 0:
                            break
                        q += anext
                    out.append({"file": cstr(strs, file).decode("latin1"), "aux": auxs})
                    if nxt == 0:
                        break
                    p += nxt
                return out
        return None

    # ---- notes
    def notes(self):
        out = []
        for x in self.sections:
            if x.type == SHT_NOTE:
                d = self.sec_data(x)
                p = 0
                al = 8 if x.align == 8 else 4
                while p + 12 <= len(d):
                    namesz, descsz, ntype = struct.unpack_from("<III", d, p)
                    p += 12
                    name = d[p:p + namesz].rstrip(b"\0").decode("latin1")
                    p = (p + namesz + 3) & ~3
                    desc = d[p:p + descsz]
                    p = (p + descsz + al - 1) & ~(al - 1)
                    out.append({"section": x.name, "name": name, "type": ntype, "desc": desc})
        return out

    def gnu_properties(self):
        """{pr_type: bytes} from NT_GNU_PROPERTY_TYPE_0 notes."""
        res = {}
        for n in self.notes():
            if n["name"] == "GNU" and n["type"] == 5:
                d = n["desc"]
                p = 0
                while p + 8 <= len(d):
                    t, sz = struct.unpack_from("<II", d, p)
                    p += 8
                    res[t] = d[p:p + sz]
                    p = (p + sz + 7) & ~7
        return res

    # ---- eh_frame
    def eh_frame_hdr(self):
        s = self.sec(".eh_frame_hdr")
        if s is None:
            return None
        d = self.sec_data(s)
        ver, ptr_enc, cnt_enc, tbl_enc = d[0], d[1], d[2], d[3]
        if ptr_enc != 0x1B or cnt_enc != 0x03 or tbl_enc != 0x3B:
            return {"raw": d, "version": ver, "encodings": (ptr_enc, cnt_enc, tbl_enc), "entries": None}
        eh_ptr = struct.unpack_from("<i", d, 4)[0] + s.addr + 4
        cnt = struct.unpack_from("<I", d, 8)[0]
        ents = []
        for i in range(cnt):
            a, b = struct.unpack_from("<ii", d, 12 + 8 * i)
            ents.append(((a + s.addr) & 0xFFFFFFFFFFFFFFFF, (b + s.addr) & 0xFFFFFFFFFFFFFFFF))
        return {"version": ver, "eh_frame_ptr": eh_ptr, "count": cnt, "entries": ents, "size": len(d)}

    def eh_frame(self):
        """List of entries: dicts with kind CIE/FDE, addr, length; FDE: cie_addr, pc_begin (pcrel sdata4 assumed), pc_range."""
        s = self.sec(".eh_frame")
        if s is None:
            return []
        d = self.sec_data(s)
        out = []
        p = 0
        while p + 4 <= len(d):
            ln = struct.unpack_from("<I", d, p)[0]
            if ln == 0:
                out.append({"kind": "TERM", "addr": s.addr + p, "off": p})
                p += 4
                continue
            if ln == 0xFFFFFFFF:
                raise ElfError("64-bit eh_frame entry")
            cid = struct.unpack_from("<I", d, p + 4)[0]
            if cid == 0:
                out.append({"kind": "CIE", "addr": s.addr + p, "off": p, "length": ln, "bytes": d[p:p + 4 + ln]})
            else:
                cie_off = p + 4 - cid
                pcb = struct.unpack_from("<i", d, p + 8)[0]
                pcr = struct.unpack_from("<I", d, p + 12)[0]
                out.append({"kind": "FDE", "addr": s.addr + p, "off": p, "length": ln, "cie_addr": s.addr + cie_off,
                            "pc_begin": (s.addr + p + 8 + pcb) & 0xFFFFFFFFFFFFFFFF, "pc_range": pcr})
            p += 4 + ln
        return out


def gnu_hash(name):
    h = 5381
    for c in name.encode("latin1") if isinstance(name, str) else name:
        h = (h * 33 + c) & 0xFFFFFFFF
    return h


def sysv_hash(name):
    h = 0
    for c in name.encode("latin1") if isinstance(name, str) else name:
        h = ((h << 4) + c) & 0xFFFFFFFF
        g = h & 0xF0000000
        if g:
            h ^= g >> 24
        h &= ~g & 0xFFFFFFFF
    return h
