"""Abstract link inputs (M-Link) -> real files + link lines + observation of the linked output.

Shared by C02 (symbol selection), C03 (archive member loading), C37 (DT_NEEDED).
An abstract input is a list of files in command-line order:
    {"kind": "obj"|"ar"|"so", "whole": bool (ar only), "as_needed": bool (so only), "group": int (ar: archive number),
     "entries": [("D", name, strength, size, comdat) | ("U", name, weak)]}
strength in "w" (weak), "u" (gnu unique), "s" (strong), "c" (common).
"""
import os

from . import linkutil as lu
from .elfread import Elf

MARK = 0x5A5A000000000000


def symname(n):
    """name numbers: n < 1000 plain, 1000+n = __wrap_<n>, 2000+n = __real_<n> (see Model/Wrap.lean)."""
    if n >= 2000 and n < 3000:
        return f"__real_sym_{n - 2000}"
    if n >= 1000 and n < 2000:
        return f"__wrap_sym_{n - 1000}"
    return f"sym_{n}"


def calign(k):
    """alignment requested by the common definitions of file k: decreasing along the command line, so that the storage of
    a common symbol allocated from a LATER definition than the selected one is (usually) visibly under-aligned."""
    return 128 >> min(k, 4)


def optional(f):
    return (f["kind"] == "ar" and not f.get("whole")) or (f["kind"] == "so" and f.get("as_needed", False))


def request_line(files, allow_multi=False):
    toks = ["lk", "1" if allow_multi else "0"]
    for f in files:
        toks.append("F%d%d" % (1 if f["kind"] == "so" else 0, 1 if optional(f) else 0))
        for e in f["entries"]:
            if e[0] == "D":
                toks.append("D:%d:%s:%d:%d" % (e[1], e[2], e[3], 1 if e[4] else 0))
            else:
                toks.append("U:%d:%d" % (e[1], 1 if e[2] else 0))
    return " ".join(toks)


def render_file(k, f, is_main):
    """Assembly text for file k."""
    out = []
    if f["kind"] != "so":
        out.append(f"    .globl present_{k}\n    .data\n    .balign 8\npresent_{k}:\n    .quad {MARK + (k << 16) + 0xFFFF}\n")
    if is_main:
        out.append("    .text\n    .globl _start\n_start:\n    mov $60, %eax\n    xor %edi, %edi\n    syscall\n")
    if f.get("filler"):
        # filler global definitions, used to push later symbols to chosen symbol-table indices
        out.append("    .data\n" + "".join(f"    .globl fill_{k}_{i}\nfill_{k}_{i}:\n" for i in range(f["filler"])) + "    .quad 0\n")
    for e in f["entries"]:
        if e[0] == "D":
            _, n, s, size, comdat = e
            name = symname(n)
            if s == "c":
                out.append(f"    .comm {name},{size},{calign(k)}\n")
                continue
            if comdat:
                out.append(f'    .section .data.{name},"awG",@progbits,grp_{name},comdat\n')
            else:
                out.append("    .data\n")
            if s == "w":
                out.append(f"    .weak {name}\n")
            elif s == "u":
                out.append(f"    .type {name}, @gnu_unique_object\n")
            else:
                out.append(f"    .globl {name}\n")
            out.append(f"    .balign 8\n{name}:\n    .quad {MARK + (k << 16) + n}\n")
            if s == "u":
                out.append(f"    .size {name}, 8\n")
        else:
            _, n, weak = e
            name = symname(n)
            if weak:
                out.append(f"    .weak {name}\n")
            out.append(f"    .data\n    .balign 8\n    .globl ref_{k}_{n}\nref_{k}_{n}:\n    .quad {name}\n")
    return "".join(out)


def build_inputs(d, files):
    """Writes objects / archives / shared objects under d; returns the list of link-line tokens."""
    os.makedirs(d, exist_ok=True)
    objs = {}
    for k, f in enumerate(files):
        objs[k] = lu.asm_obj(d, f"f{k}", render_file(k, f, k == 0))
    line = []
    whole = False
    as_needed = False
    k = 0
    n = len(files)
    while k < n:
        f = files[k]
        if f["kind"] == "obj":
            line.append(objs[k])
            k += 1
        elif f["kind"] == "so":
            so = os.path.join(d, f"libs{k}.so")
            rc, o, e = lu.link("ld", ["-shared", "-o", so, "-soname", f"libs{k}.so", objs[k]])
            if rc != 0:
                raise RuntimeError("building shared object failed: " + e)
            want = bool(f.get("as_needed"))
            if want != as_needed:
                line.append("--as-needed" if want else "--no-as-needed")
                as_needed = want
            line.append(so)
            k += 1
        else:
            g = f["group"]
            members = []
            j = k
            while j < n and files[j]["kind"] == "ar" and files[j]["group"] == g:
                members.append(objs[j])
                j += 1
            a = os.path.join(d, f"liba{g}.a")
            lu.archive(a, members, thin=bool(f.get("thin")))
            want = bool(f.get("whole"))
            if want != whole:
                line.append("--whole-archive" if want else "--no-whole-archive")
                whole = want
            line.append(a)
            k = j
    return line


def observe(out_path, files):
    """Canonical observation of a linked output: (loaded bits, {name: binding per reference})."""
    e = Elf(out_path)
    syms = {}
    for y in e.symtab():
        if y.shndx != 0 and y.bind != 0:
            syms[y.name] = y
    needed = set(e.needed())
    bits = []
    for k, f in enumerate(files):
        if f["kind"] == "so":
            bits.append("1" if f"libs{k}.so" in needed else "0")
        else:
            bits.append("1" if f"present_{k}" in syms else "0")
    dynrel = {}
    dsyms = e.dynsym()
    for (_sec, off, typ, symidx, addend) in e.all_dyn_relas():
        if symidx:
            dynrel[off] = dsyms[symidx].name
    refs = {}
    for k, f in enumerate(files):
        if f["kind"] == "so" or bits[k] == "0":
            continue
        for en in f["entries"]:
            if en[0] != "U":
                continue
            n = en[1]
            y = syms.get(f"ref_{k}_{n}")
            if y is None:
                refs[(k, n)] = "noref"
                continue
            if y.value in dynrel:
                refs[(k, n)] = "dyn"
                continue
            p = e.u64(y.value)
            refs[(k, n)] = classify_ptr(e, syms, p, n)
    defs = {}
    names = sorted({en[1] for f in files for en in f["entries"]})
    for n in names:
        y = syms.get(symname(n))
        if y is None:
            defs[n] = "undef"
        else:
            defs[n] = classify_ptr(e, syms, y.value, n)
    return "".join(bits), refs, defs


def common_alignments(out_path, files):
    """{name number: address of the symbol} for every name that has a common definition and is defined in the output's .bss."""
    e = Elf(out_path)
    commons = {en[1] for f in files for en in f["entries"] if en[0] == "D" and en[2] == "c"}
    res = {}
    for y in e.symtab():
        if y.shndx != 0 and y.bind != 0:
            for n in commons:
                if y.name == symname(n):
                    res[n] = y.value
    return res


def classify_ptr(e, syms, p, n):
    if p == 0:
        return "undef"
    try:
        v = e.u64(p)
    except Exception:
        return f"bad-pointer-0x{p:x}"
    if v >> 48 == MARK >> 48:
        return str((v >> 16) & 0xFFFF)
    y = syms.get(symname(n))
    if y is not None and y.value == p and v == 0:
        return f"c{y.size}"
    return f"unknown-0x{v:x}"


def model_binding(files, res):
    """Map the model's per-name result (file index / undef / none / dup) to the observable form."""
    out = {}
    for tok in res:
        n, r = tok.split(":")
        n = int(n)
        if r.isdigit():
            f = files[int(r)]
            if f["kind"] == "so":
                r = "dyn"
            else:
                for en in f["entries"]:
                    if en[0] == "D" and en[1] == n and en[2] == "c":
                        # every common definition of the name is the same storage: identify by size
                        r = f"c{en[3]}"
        elif r == "none":
            r = "undef"
        out[n] = r
    return out
