"""Helpers for whole-link correspondences: build inputs (as/gcc/clang/ar), run wild / GNU ld / ld.lld,
run outputs natively.  All scratch files live under a caller-supplied directory (ctx.scratch)."""
import os
import subprocess

from . import runner

LD = "/usr/bin/ld"
LLD = "/usr/bin/ld.lld"


def wild_path():
    return runner.WILD


def run(cmd, cwd=None, timeout=120, env=None, input=None):
    e = dict(os.environ)
    if env:
        e.update(env)
    try:
        p = subprocess.run(cmd, cwd=cwd, env=e, input=input, stdout=subprocess.PIPE, stderr=subprocess.PIPE, timeout=timeout)
        return p.returncode, p.stdout.decode("utf-8", "replace"), p.stderr.decode("utf-8", "replace")
    except subprocess.TimeoutExpired as ex:
        return -999, (ex.stdout or b"").decode("utf-8", "replace"), "TIMEOUT " + (ex.stderr or b"").decode("utf-8", "replace")


def write(path, text):
    os.makedirs(os.path.dirname(path), exist_ok=True)
    with open(path, "w") as f:
        f.write(text)
    return path


def assemble(src_path, obj_path, target=None):
    """GNU as for x86-64 (default); clang for other targets."""
    if target is None:
        rc, o, e = run(["as", "--64", "-o", obj_path, src_path])
    else:
        rc, o, e = run(["clang", f"--target={target}", "-c", "-o", obj_path, src_path])
    if rc != 0:
        raise RuntimeError(f"assemble failed: {src_path}: {e}")
    return obj_path


def asm_obj(dirpath, name, text, target=None):
    s = write(os.path.join(dirpath, name + ".s"), text)
    return assemble(s, os.path.join(dirpath, name + ".o"), target)


def cc_obj(dirpath, name, text, flags=(), cc="gcc"):
    s = write(os.path.join(dirpath, name + ".c"), text)
    o = os.path.join(dirpath, name + ".o")
    rc, out, e = run([cc, "-c", "-o", o, s] + list(flags))
    if rc != 0:
        raise RuntimeError(f"cc failed: {s}: {e}")
    return o


def archive(path, members, thin=False):
    if os.path.exists(path):
        os.unlink(path)
    rc, o, e = run(["ar", "rcT" if thin else "rc", path] + list(members))
    if rc != 0:
        raise RuntimeError(f"ar failed: {e}")
    return path


def link(linker, args, cwd=None, env=None, timeout=120):
    """linker in {'wild','ld','lld'} -> (rc, stdout, stderr)."""
    exe = {"wild": wild_path(), "ld": LD, "lld": LLD}[linker]
    return run([exe] + list(args), cwd=cwd, env=env, timeout=timeout)


def shared_lib(linker, out, objs, extra=()):
    return link(linker, ["-shared", "-o", out] + list(objs) + list(extra))


def run_native(path, args=(), timeout=20, env=None, cwd=None):
    return run([path] + list(args), timeout=timeout, env=env, cwd=cwd)


# Minimal freestanding x86-64 runtime pieces for generated programs (no libc needed).
START_EXIT0 = """
    .globl _start
    .text
_start:
    mov $60, %eax
    xor %edi, %edi
    syscall
"""


def asm_exit(code_reg="%edi"):
    return f"    mov $60, %eax\n    syscall\n"
