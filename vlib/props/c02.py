"""C02 - Symbol references bind to the definition the ELF rules select."""
import os
import shutil

from .. import linkmodel as lm
from .. import linkutil as lu

NEEDS_WILD = True
LEAN_MODULES = ["WildModel.Props.C02"]
THEOREMS = [
    "Wild.Link.select_eq_spec",
    "Wild.Link.select_dup_iff",
    "Wild.Link.spec_strong_first",
    "Wild.Link.spec_common_largest_first",
    "Wild.Link.spec_weak_first",
    "Wild.Link.spec_dynamic_never_overrides",
    "Wild.Link.spec_dynamic_first",
    "Wild.Link.select_order_of_equals",
    "Wild.Link.undefined_error_iff",
    "Wild.Link.undefined_error_iff_regular",
]
LEVEL = "proof"
TECHNIQUE = "Lean 4 theorems over an executable model of select_symbol/SymbolPrioritySelector + whole-link differential correspondence (wild vs model, GNU ld/lld as oracle)"
TRUSTED = [
    "hand-written model lean/WildModel/Model/Link.lean of symbol_db.rs select_symbol / SymbolPrioritySelector and of resolution.rs archive activation, "
    "tied by whole-link correspondence `lk`: random symbol universes are rendered to assembly, linked by the hooked wild from /repo's working tree, "
    "and the definition every reference binds to is read back from the output (marker words)",
    "the declarative rule set `specSelect` in Props/C02.lean is the reading of the ELF rules named by the property; validated against GNU ld 2.40 and ld.lld 14 on the same link lines",
    "parallel bucket fill (populate_symbol_db) is modelled as the id-ordered candidate list; exercised with --threads=1..8",
    "as, ar, GNU ld (to build the shared objects), vlib/elfread.py",
]
RULE = ("random abstract link inputs (2-6 files: objects, archive members, shared objects; 1-5 names; strong/weak/unique/common/COMDAT definitions, "
        "weak and non-weak references; shuffled command lines); non-trivial = at least one name with >= 2 definitions; distinct by request line")
ASSUMPTIONS = ["default-visibility references only (hidden/protected references that skip dynamic definitions are not generated)",
               "one definition per (file, name)"]


def gen_input(r, quick):
    nfiles = r.range(2, 6)
    nnames = r.range(1, 5)
    files = []
    group = 0
    for k in range(nfiles):
        if k == 0:
            kind = "obj"
        else:
            kind = r.choice(["obj", "obj", "ar", "ar", "so"])
        f = {"kind": kind, "entries": []}
        if kind == "ar":
            f["whole"] = r.chance(1, 6)
            if k > 0 and files[-1]["kind"] == "ar" and files[-1].get("whole") == f["whole"] and r.chance(1, 2):
                f["group"] = files[-1]["group"]
                f["thin"] = files[-1]["thin"]
            else:
                group += 1
                f["group"] = group
                f["thin"] = r.chance(1, 3)      # thin archives (ar rcT): members stay separate files, same loading rules
        if kind == "so":
            f["as_needed"] = r.chance(1, 3)
        files.append(f)
    # distribute definitions/references
    for n in range(nnames):
        for k, f in enumerate(files):
            c = r.below(10)
            if c < 4:
                continue
            if c < 8:
                if f["kind"] == "so":
                    s = r.choice(["s", "s", "w"])
                else:
                    s = r.choice(["s", "s", "w", "w", "c", "c", "u"])
                size = r.choice([8, 16, 16, 32]) if s == "c" else 0
                comdat = s == "s" and f["kind"] != "so" and r.chance(1, 5)
                f["entries"].append(("D", n, s, size, comdat))
            else:
                if f["kind"] == "so" and r.chance(1, 2):
                    continue
                f["entries"].append(("U", n, r.chance(1, 3)))
    # names nobody defines, referenced weakly / non-weakly from several files in either order
    if r.chance(1, 3):
        n = 200
        refs = [k for k, f in enumerate(files) if f["kind"] != "so" and r.chance(1, 2)] or [0]
        for k in refs:
            files[k]["entries"].append(("U", n, r.chance(1, 2)))
    # several common definitions of one name with EQUAL sizes ("the first definition in command-line order wins among equals"),
    # sometimes next to a smaller one; the selected definition is visible through the alignment it asks for (linkmodel.calign)
    if r.chance(1, 3):
        n = 300
        objs = [k for k, f in enumerate(files) if f["kind"] == "obj"]
        if len(objs) >= 2:
            size = r.choice([8, 16, 32])
            chosen = [k for k in objs if r.chance(2, 3)]
            if len(chosen) < 2:
                chosen = objs[:2]
            for k in chosen:
                files[k]["entries"].append(("D", n, "c", size // 2 if (size > 8 and r.chance(1, 5)) else size, False))
            files[0]["entries"].append(("U", n, False))
    # archive members are only interesting if something may pull them: give each a unique name sometimes referenced from file 0
    for k, f in enumerate(files):
        if f["kind"] == "ar" and r.chance(2, 3):
            n = 100 + k
            f["entries"].append(("D", n, "s", 0, False))
            if r.chance(2, 3):
                files[0]["entries"].append(("U", n, False))
    return files


def weak_canon(files, bits, k, en, v):
    """In a dynamically linked output a weak reference that is unbound at link time and one bound to a
    shared object look the same (an undefined weak dynamic symbol resolved by the loader): one token."""
    if en[2] and v in ("dyn", "undef") and any(f["kind"] == "so" for f in files):
        return "weak-runtime"
    return v


def mask_so(files, bits):
    """Whether a shared object ends up in DT_NEEDED is property C37's subject; C02 compares object/archive files only."""
    return "".join("x" if f["kind"] == "so" else b for f, b in zip(files, bits))


def load_set_differs(files, model_raw_line, oracle_verdict):
    """ld/lld and wild differ in WHICH archive members take part for some inputs (e.g. a definition in a shared object already
    satisfies the reference for ld/lld, while wild requests the first definer): that is C03's subject. C02's oracle is only
    consulted when both load the same regular files."""
    if not oracle_verdict.startswith("L="):
        return False
    mbits = mask_so(files, model_raw_line.split()[0][2:])
    return oracle_verdict.split()[0][2:] != mbits


def shlib_undefined_region(files):
    """Some shared object references (non-weakly) a name nobody defines. Whether that is an error depends on whether the linker
    considers the library part of the link (--as-needed) and on --[no-]allow-shlib-undefined handling; it is not a reference of the
    executable, which is what the property speaks about. The oracles' `undefined` verdict is not used there."""
    defs = {en[1] for f in files for en in f["entries"] if en[0] == "D"}
    return any(en[0] == "U" and not en[2] and en[1] not in defs for f in files if f["kind"] == "so" for en in f["entries"])


def fortran_common_region(files):
    """GNU ld and lld also load an archive member to replace a COMMON symbol by a real definition; the
    property does not ask for that (a common definition is not a reference), so the oracles are not consulted there."""
    commons = {en[1] for f in files for en in f["entries"] if en[0] == "D" and en[2] == "c"}
    return any(en[0] == "D" and en[2] != "c" and en[1] in commons for f in files if f["kind"] == "ar" for en in f["entries"])


def canon_model(files, line):
    """model line -> canonical outcome string comparable with the implementation's."""
    toks = line.split()
    bits = toks[0][2:]
    errs = toks[1][2:]
    res = toks[2:]
    b = lm.model_binding(files, res)
    if any(v == "dup" for v in b.values()):
        return "err:dup"
    if errs:
        return "err:undef"
    out = ["L=" + mask_so(files, bits)]
    for k, f in enumerate(files):
        if f["kind"] == "so" or bits[k] == "0":
            continue
        for en in f["entries"]:
            if en[0] == "U":
                out.append(f"{k}.{en[1]}={weak_canon(files, bits, k, en, b[en[1]])}")
    return " ".join(out)


def common_alignment_verdict(files, model_raw_line, ci, out):
    """A common symbol's storage is allocated from the selected definition, so it must honour that definition's alignment
    (the definitions ask for decreasing alignments along the command line, see linkmodel.calign). Appends MISALIGNED:<name>
    to the implementation's outcome when the selected common definition's alignment is not honoured."""
    if ci.startswith("err") or not os.path.exists(out):
        return ci
    toks = model_raw_line.split()
    bad = []
    addrs = None
    for t in toks[2:]:
        n, r = t.split(":")
        if not r.isdigit():
            continue
        n, r = int(n), int(r)
        f = files[r]
        if f["kind"] == "so" or not any(en[0] == "D" and en[1] == n and en[2] == "c" for en in f["entries"]):
            continue
        if addrs is None:
            addrs = lm.common_alignments(out, files)
        if n in addrs and addrs[n] % lm.calign(r) != 0:
            bad.append(f"MISALIGNED:{n}:selected-common-of-file-{r}-wants-{lm.calign(r)}:addr-0x{addrs[n]:x}")
    return ci + (" " + " ".join(bad) if bad else "")


def run_linker(linker, d, line, allow_multi, out, threads=None):
    args = ["--no-gc-sections", "-o", out] + line
    if allow_multi:
        args.insert(0, "--allow-multiple-definition")
    if linker == "wild" and threads:
        args.insert(0, f"--threads={threads}")
    if linker != "wild":
        args = [a for a in args]
    return lu.link(linker, args, cwd=d)


def canon_impl(files, rc, err, out):
    if rc != 0:
        e = err.lower()
        if "duplicate symbol" in e or "multiple definition" in e:
            return "err:dup"
        if "undefined symbol" in e or "undefined reference" in e:
            return "err:undef"
        return "err:other:" + err.strip().split("\n")[0][:120]
    bits, refs, defs = lm.observe(out, files)
    toks = ["L=" + mask_so(files, bits)]
    for k, f in enumerate(files):
        if f["kind"] == "so" or bits[k] == "0":
            continue
        for en in f["entries"]:
            if en[0] == "U":
                toks.append(f"{k}.{en[1]}={weak_canon(files, bits, k, en, refs.get((k, en[1]), 'noref'))}")
    return " ".join(toks)


def _outcomes(ctx, files, am, tag):
    """(request, wild outcome, model outcome, link line, dir) for one abstract input."""
    d = os.path.join(ctx.scratch, tag)
    shutil.rmtree(d, ignore_errors=True)
    line = lm.build_inputs(d, files)
    out = os.path.join(d, "out.wild")
    rc, o, e = run_linker("wild", d, line, am, out, threads=2)
    req = lm.request_line(files, am)
    mraw = ctx.model_eval([req])[0]
    return req, common_alignment_verdict(files, mraw, canon_impl(files, rc, e, out), out), canon_model(files, mraw), line, d


def shrink(ctx, files, am, budget=60):
    """Greedy minimisation of a model/implementation disagreement: drop files and entries while they still disagree."""
    import copy
    cur = copy.deepcopy(files)
    tries = 0
    changed = True
    while changed and tries < budget:
        changed = False
        cands = []
        for k in range(len(cur) - 1, 0, -1):
            cands.append(("file", k, None))
        for k in range(len(cur)):
            for j in range(len(cur[k]["entries"]) - 1, -1, -1):
                cands.append(("entry", k, j))
        for kind, k, j in cands:
            if tries >= budget:
                break
            t = copy.deepcopy(cur)
            if kind == "file":
                del t[k]
            else:
                del t[k]["entries"][j]
            tries += 1
            try:
                req, a, b, _, _ = _outcomes(ctx, t, am, "shrink")
            except RuntimeError:
                continue
            if a != b:
                cur = t
                changed = True
                break
    return cur


def run(ctx):
    r = ctx.rng
    n = 60 if ctx.quick else 450
    reqs, impl, inputs = [], [], []
    oracle_checked = 0
    for i in range(n):
        files = gen_input(r, ctx.quick)
        am = r.chance(1, 8)
        d = os.path.join(ctx.scratch, f"c{i}")
        try:
            line = lm.build_inputs(d, files)
        except RuntimeError as ex:
            ctx.count("gen", "build-failed")
            continue
        req = lm.request_line(files, am)
        out = os.path.join(d, "out.wild")
        rc, o, e = run_linker("wild", d, line, am, out, threads=r.choice([1, 2, 8]))
        ci = canon_impl(files, rc, e, out)
        reqs.append(req)
        impl.append(ci)
        inputs.append((files, line, am, d))
        ctx.count("impl-outcome", ci.split()[0] if ci.startswith("err") else "linked")
        ctx.count("files", str(len(files)))
        for f in files:
            ctx.count("file-kind", f["kind"])
    model_raw = ctx.model_eval(reqs)
    model = [canon_model(inp[0], m) for inp, m in zip(inputs, model_raw)]
    impl = [common_alignment_verdict(inp[0], m, ci, os.path.join(inp[3], "out.wild")) for inp, m, ci in zip(inputs, model_raw, impl)]

    def nontrivial(l, a, b):
        defs = {}
        for t in l.split():
            if t.startswith("D:"):
                k = t.split(":")[1]
                defs[k] = defs.get(k, 0) + 1
        return any(v >= 2 for v in defs.values())

    dis, _, _ = ctx.differential("lk-select", reqs, impl_out=impl, model_out=model, nontrivial=nontrivial)
    # Oracle: on disagreements (and on a sample of agreements) ask GNU ld and lld.
    sample = set(range(0, len(reqs), 4 if ctx.quick else 10))
    dis_idx = {reqs.index(x[0]) for x in dis}
    for i in sorted(sample | dis_idx):
        files, line, am, d = inputs[i]
        if fortran_common_region(files):
            ctx.count("oracle", "skipped-common-vs-archive")
            continue
        verdicts = {}
        for lk in ("ld", "lld"):
            out = os.path.join(d, "out." + lk)
            rc, o, e = run_linker(lk, d, line, am, out)
            verdicts[lk] = common_alignment_verdict(files, model_raw[i], canon_impl(files, rc, e, out), out)
        oracle_checked += 1
        if verdicts["ld"] == verdicts["lld"] == "err:undef" and not impl[i].startswith("err") and shlib_undefined_region(files):
            ctx.count("oracle", "skipped-shlib-undefined")
            continue
        if verdicts["ld"] == verdicts["lld"] and load_set_differs(files, model_raw[i], verdicts["ld"]):
            ctx.count("oracle", "skipped-load-set-differs")
            continue
        if verdicts["ld"] == verdicts["lld"] and verdicts["ld"] != impl[i] and not verdicts["ld"].startswith("err:other"):
            ctx.cov["impl_oracle_failures"] += 1
            # Is the difference explained by GNU ld/lld treating STB_GNU_UNIQUE as a strong (global) definition?
            alt = reqs[i].replace(":u:", ":s:")
            if alt != reqs[i] and canon_model(files, ctx.model_eval([alt])[0]) == verdicts["ld"]:
                ctx.violation("gnu-unique-treated-as-weak", "STB_GNU_UNIQUE definitions outside COMDAT are ranked like weak ones; GNU ld and lld rank them like strong ones",
                              {"request": reqs[i], "link_line": line, "wild": impl[i], "ld": verdicts["ld"], "lld": verdicts["lld"]})
                continue
            keep = os.path.join(ctx.replay_dir(), f"c02-{i}")
            shutil.copytree(d, keep, dirs_exist_ok=True)
            ctx.violation("select:" + reqs[i], f"wild binds differently from GNU ld and lld (which agree): wild={impl[i]} ld/lld={verdicts['ld']}",
                          {"request": reqs[i], "link_line": line, "dir": keep, "wild": impl[i], "ld": verdicts["ld"], "lld": verdicts["lld"], "model": model[i]})
    ctx.cov["oracle_links_checked"] = oracle_checked
    # Search: minimise the first disagreements and ask the oracles about the minimal input.
    for (l, a, b) in dis[:2]:
        i = reqs.index(l)
        files, line, am, d = inputs[i]
        small = shrink(ctx, files, am)
        try:
            req, wi, mo, line2, d2 = _outcomes(ctx, small, am, "shrunk")
        except RuntimeError:
            continue
        vs = {}
        for lk in ("ld", "lld"):
            out = os.path.join(d2, "out." + lk)
            rc, o, e = run_linker(lk, d2, line2, am, out)
            vs[lk] = canon_impl(small, rc, e, out)
        ctx.sample({"minimised_disagreement": req, "wild": wi, "model": mo, "ld": vs["ld"], "lld": vs["lld"]})
        if vs["ld"] == vs["lld"] == "err:undef" and not wi.startswith("err") and shlib_undefined_region(small):
            continue
        if vs["ld"] == vs["lld"] and vs["ld"] != wi and not vs["ld"].startswith("err:other") and not fortran_common_region(small) \
                and not load_set_differs(small, ctx.model_eval([req])[0], vs["ld"]):
            alt = req.replace(":u:", ":s:")
            if alt != req and canon_model(small, ctx.model_eval([alt])[0]) == vs["ld"]:
                continue
            keep = os.path.join(ctx.replay_dir(), f"c02-min-{i}")
            shutil.copytree(d2, keep, dirs_exist_ok=True)
            ctx.violation("select-min:" + req, f"minimised input: wild={wi}, GNU ld and lld agree on {vs['ld']} (model of the unchanged code: {mo})",
                          {"request": req, "link_line": line2, "dir": keep, "wild": wi, "ld": vs["ld"], "lld": vs["lld"], "model": mo})
    for _, _, _, d in inputs:
        shutil.rmtree(d, ignore_errors=True)
