"""C03 - Archive members are loaded exactly when needed."""
import os
import shutil

from .. import linkmodel as lm
from . import c02

NEEDS_WILD = True
LEAN_MODULES = ["WildModel.Props.C03"]
THEOREMS = [
    "Wild.Link.loaded_iff_reach",
    "Wild.Link.any_order_is_reach",
    "Wild.Link.worklist_processed_once",
    "Wild.Link.worklist_terminal_is_reach",
    "Wild.Link.wstep_measure",
    "Wild.Link.reach_perm",
    "Wild.Link.reach_perm_iff",
]
LEVEL = "proof"
TECHNIQUE = "Lean 4 least-fixpoint + work-list (test-and-set) theorems over the M-Link model; whole-link differential correspondence of the loaded set, position-move metamorphic runs, ld.lld as oracle"
TRUSTED = [
    "hand-written model lean/WildModel/Model/Link.lean (requestsOf / next / loadedMask) of resolution.rs resolve_group/is_optional/resolve_symbol/try_request_file_id, "
    "tied by whole-link correspondence: loaded set read from the output (per-file marker symbols, DT_NEEDED) for random reference graphs over objects, archives, --whole-archive regions, shared objects",
    "rayon scope modelled as: any pending task may run next, all spawned tasks run before the scope returns; AtomicTake modelled as an atomic test-and-set",
    "ld.lld 14 and GNU ld 2.40 as oracles in the region where the first definition of every referenced name is unambiguous",
]
RULE = ("random abstract link inputs with archive members (2-7 files) + 'race' inputs (many objects referencing the same few archive members, --threads=16) "
        "+ position moves of archives; non-trivial = at least one optional file; distinct by request line")
ASSUMPTIONS = c02.ASSUMPTIONS


def gen_race(r):
    nm = r.range(2, 5)
    no = r.range(8, 24)
    files = [{"kind": "obj", "entries": []}]
    for k in range(no):
        f = {"kind": "obj", "entries": []}
        for m in range(nm):
            if r.chance(2, 3):
                f["entries"].append(("U", m, False))
        files.append(f)
    for m in range(nm):
        f = {"kind": "ar", "whole": False, "group": 1 + (m // 2), "thin": r.chance(1, 4), "entries": [("D", m, "s", 0, False)]}
        # chains: member m references member m+1
        if m + 1 < nm and r.chance(1, 2):
            f["entries"].append(("U", m + 1, False))
        files.append(f)
    # one member nobody references
    files.append({"kind": "ar", "whole": False, "group": 99, "thin": False, "entries": [("D", 50, "s", 0, False)]})
    return files


def chunk_size():
    """Symbol resolution is split into work items of MAX_SYMBOLS_PER_WORK_ITEM symbols (resolution.rs); boundary indices are worth a case each."""
    import re
    from .. import runner
    try:
        m = re.search(r"MAX_SYMBOLS_PER_WORK_ITEM\s*:\s*usize\s*=\s*([0-9_]+)", open(os.path.join(runner.REPO, "libwild/src/resolution.rs")).read())
        return int(m.group(1).replace("_", ""))
    except Exception:
        return 5000


def gen_boundary(d, target_index):
    """main object whose only non-weak reference to an archive-defined symbol sits at symbol-table index `target_index`."""
    from ..elfread import Elf
    filler = max(target_index - 8, 0)
    for _ in range(4):
        files = [{"kind": "obj", "filler": filler, "entries": [("U", 0, False)]},
                 {"kind": "ar", "whole": False, "group": 1, "thin": False, "entries": [("D", 0, "s", 0, False)]},
                 {"kind": "ar", "whole": False, "group": 2, "thin": False, "entries": [("D", 1, "s", 0, False)]}]
        line = lm.build_inputs(d, files)
        idx = [y.index for y in Elf(os.path.join(d, "f0.o")).symtab() if y.name == "sym_0"][0]
        if idx == target_index:
            return files, line
        filler += target_index - idx
    return files, line


def move_archives(r, files):
    """Move every archive group to a random position after file 0, keeping the relative order of the
    definers of each name (only names with a single definer are kept in moved archives)."""
    defs = {}
    for f in files:
        for en in f["entries"]:
            if en[0] == "D":
                defs[en[1]] = defs.get(en[1], 0) + 1
    groups = {}
    rest = []
    # an archive moves as a whole, and only if every member qualifies (all its definitions are the only ones of their names)
    ok_group = {}
    for f in files:
        if f["kind"] == "ar":
            q = all(defs[en[1]] == 1 for en in f["entries"] if en[0] == "D")
            ok_group[f["group"]] = ok_group.get(f["group"], True) and q
    for k, f in enumerate(files):
        if f["kind"] == "ar" and ok_group[f["group"]]:
            groups.setdefault(f["group"], []).append(k)
        elif f["kind"] == "ar" and rest and files[rest[-1][-1]]["kind"] == "ar" and files[rest[-1][-1]]["group"] == f["group"] and rest[-1][-1] == k - 1:
            rest[-1].append(k)     # an archive that stays is one block too: its members are never separated
        else:
            rest.append([k])
    if not groups:
        return None
    blocks = rest[1:] + list(groups.values())
    blocks = r.shuffle(blocks)
    # keep non-moved files in their relative order
    fixed = [b for b in rest[1:]]
    it = iter(fixed)
    order = [[0]]
    for b in blocks:
        order.append(next(it) if b in fixed else b)
    perm = [k for b in order for k in b]
    return perm


def loaded_names(files, bits):
    return sorted(k for k, b in enumerate(bits) if b == "1" and files[k]["kind"] != "so")


def run(ctx):
    r = ctx.rng
    n = 50 if ctx.quick else 400
    reqs, impl, inputs = [], [], []
    ch = chunk_size()
    boundary = [ch, ch + 1, 2 * ch] if ctx.quick else [ch - 1, ch, ch + 1, 2 * ch - 1, 2 * ch, 2 * ch + 1, 3 * ch]
    for i in range(n + len(boundary)):
        d = os.path.join(ctx.scratch, f"c{i}")
        if i >= n:
            kind = "boundary"
            try:
                files, line = gen_boundary(d, boundary[i - n])
            except RuntimeError:
                ctx.count("gen", "build-failed")
                continue
        else:
            kind = "race" if i % 5 == 0 else "mixed"
            files = gen_race(r) if kind == "race" else c02.gen_input(r, ctx.quick)
            if kind == "mixed" and r.chance(1, 3):
                # one archive (two times out of three a THIN one) is put into a --whole-archive region: all its members take part
                gs = sorted({f["group"] for f in files if f["kind"] == "ar"})
                if gs:
                    gsel = r.choice(gs)
                    thin = r.chance(2, 3)
                    for f in files:
                        if f["kind"] == "ar" and f["group"] == gsel:
                            f["whole"], f["thin"] = True, thin
                    kind = "whole-thin" if thin else "whole"
            try:
                line = lm.build_inputs(d, files)
            except RuntimeError:
                ctx.count("gen", "build-failed")
                continue
        out = os.path.join(d, "out.wild")
        threads = 16 if kind == "race" else r.choice([1, 2, 8])
        rc, o, e = c02.run_linker("wild", d, line, False, out, threads=threads)
        ci = c02.canon_impl(files, rc, e, out)
        reqs.append(lm.request_line(files, False))
        impl.append(ci.split()[0] if not ci.startswith("err") else ci)
        inputs.append((files, line, d, kind))
        ctx.count("kind", kind)
        ctx.count("impl-outcome", ci.split()[0] if ci.startswith("err") else "linked")
    model_raw = ctx.model_eval(reqs)
    model = []
    for (files, _, _, _), m in zip(inputs, model_raw):
        cm = c02.canon_model(files, m)
        model.append(cm.split()[0] if not cm.startswith("err") else cm)
    dis, _, _ = ctx.differential("lk-loaded", reqs, impl_out=impl, model_out=model,
                                 nontrivial=lambda l, a, b: " F01" in l or " F11" in l)
    dis_idx = {reqs.index(x[0]) for x in dis}
    # Oracle + position-move metamorphic runs
    moved = 0
    for i, (files, line, d, kind) in enumerate(inputs):
        if impl[i].startswith("err"):
            continue
        if i in dis_idx or i % 3 == 0:
            if not c02.fortran_common_region(files):
                vs = {}
                for lk in ("ld", "lld"):
                    out = os.path.join(d, "out." + lk)
                    rc, o, e = c02.run_linker(lk, d, line, False, out)
                    c = c02.canon_impl(files, rc, e, out)
                    vs[lk] = c.split()[0] if not c.startswith("err") else c
                if vs["ld"] == vs["lld"] == "err:undef" and not impl[i].startswith("err") and c02.shlib_undefined_region(files):
                    ctx.count("oracle", "skipped-shlib-undefined")
                elif vs["ld"] == vs["lld"] and vs["lld"] != impl[i] and not vs["lld"].startswith("err:other"):
                    alt = reqs[i].replace(":u:", ":s:")
                    if alt != reqs[i]:
                        continue  # GNU-unique ranking difference is C02's recorded finding
                    ctx.cov["impl_oracle_failures"] += 1
                    keep = os.path.join(ctx.replay_dir(), f"c03-{i}")
                    shutil.copytree(d, keep, dirs_exist_ok=True)
                    ctx.violation("loaded:" + reqs[i], f"wild loads a different set of archive members than GNU ld and lld (which agree): wild={impl[i]} ld/lld={vs['lld']}",
                                  {"request": reqs[i], "link_line": line, "dir": keep, "wild": impl[i], "ld": vs["ld"], "lld": vs["lld"]})
        if i % 2 == 0:
            perm = move_archives(r, files)
            if perm is None or perm == list(range(len(files))):
                continue
            files2 = [files[k] for k in perm]
            d2 = d + "m"
            try:
                line2 = lm.build_inputs(d2, files2)
            except RuntimeError:
                continue
            out2 = os.path.join(d2, "out.wild")
            rc, o, e = c02.run_linker("wild", d2, line2, False, out2, threads=r.choice([1, 4, 16]))
            c2 = c02.canon_impl(files2, rc, e, out2)
            moved += 1
            ctx.note_case(("move", reqs[i], tuple(perm)))
            if c2.startswith("err"):
                got = c2
            else:
                bits2 = c2.split()[0][2:]
                got = sorted(perm[j] for j, b in enumerate(bits2) if b == "1" and files2[j]["kind"] != "so")
            want = loaded_names(files, impl[i][2:])
            if got != want:
                ctx.cov["impl_oracle_failures"] += 1
                ctx.violation("position:" + reqs[i], f"moving archives on the command line changed the loaded set: before={want} after={got}",
                              {"request": reqs[i], "permutation": perm, "link_line_before": line, "link_line_after": line2})
            shutil.rmtree(d2, ignore_errors=True)
    ctx.cov["position_moves"] = moved
    for _, _, d, _ in inputs:
        shutil.rmtree(d, ignore_errors=True)
