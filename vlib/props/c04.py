"""C04 - Output ELF files are structurally well-formed."""
import os
import shutil

from .. import c04_dump as cd
from .. import c04_elfcheck as ck
from .. import c04_gen as g
from .. import linkutil as lu
from .. import runner
from ..elfread import Elf

NEEDS_WILD = True
LEAN_MODULES = ["WildModel.Props.C04", "WildModel.Props.C04Ext"]
THEOREMS = [
    "Wild.Layout.alignUpN_spec",
    "Wild.Layout.alignModuloN_spec",
    "Wild.Layout.alignUp_bridge",
    "Wild.Layout.alignModulo_bridge",
    "Wild.Layout.parts_aligned",
    "Wild.Layout.parts_disjoint_file",
    "Wild.Layout.parts_disjoint_mem",
    "Wild.Layout.parts_disjoint_mem_witness",
    "Wild.Layout.load_start_congruent",
    "Wild.Layout.load_run_displacement",
    "Wild.Layout.hull_congruent",
    "Wild.Layout.load_offsets_witness",
    "Wild.Layout.aux_segments_cover",
    "Wild.Layout.load_flags_match",
    "Wild.Layout.no_wx_load",
    "Wild.Layout.segment_hull_contains",
    "Wild.Layout.tls_start_aligned_witness",
    "Wild.Layout.C04_full_witness",
    "Wild.Layout.C04_partial",
    "Wild.Layout.startStopLoop_counts",
    "Wild.Layout.addSection_inv",
    "Wild.Layout.order_wellbracketed",
    "Wild.Layout.region_displacement",
    "Wild.Layout.sectionLayout_good",
    "Wild.Layout.segLoop_region",
    "Wild.Layout.load_segment_congruent",
    "Wild.Layout.segmentLayout_records",
    "Wild.Layout.segmentAlignments_ge",
    "Wild.Layout.load_segment_congruent_all",
    "Wild.ShdrExt.decode_encode_shnum",
    "Wild.ShdrExt.decode_encode_shstrndx",
    "Wild.ShdrExt.fields_fit",
    "Wild.ShdrExt.small_is_plain",
    "Wild.ShdrExt.off_by_one_witness",
]
LEVEL = "proof"
TECHNIQUE = ("Lean 4 theorems over an executable model of OutputOrderBuilder / layout_section_parts / layout_sections / compute_segment_layout; "
             "dump correspondence on real links; the property's predicates checked directly on the written ELF headers; native execution")
TRUSTED = [
    "hand-written model lean/WildModel/Model/Layout.lean of output_section_id.rs OutputOrderBuilder, elf.rs should_include_section / "
    "align_load_segment_start, layout.rs layout_section_parts / compute_segment_alignments / layout_sections / compute_segment_layout, tied by the dump "
    "correspondence `layout`: the hooked wild writes the inputs and outputs of these functions for every generated link "
    "(libwild/src/verif_api/layoutdump.rs, WILD_VERIF_DUMP), the Lean driver recomputes event order, part, section and segment layouts from the inputs",
    "the model computes in Nat; u64 overflow is outside the model (the debug-profile code panics there): hypothesis `fits` is implicit in "
    "'the link returned'; alignUpN/alignModuloN are proved equal to the BitVec-64 kernels of C29 for exponents <= 16 (bridge lemmas)",
    "write_program_headers / write_section_headers are not modelled: tied by checking the written headers of every generated link directly "
    "(vlib/c04_elfcheck.py on vlib/elfread.py; cross-checked against readelf -lSW in the thorough tier)",
    "gcc/as to build inputs, glibc 2.36 + Linux loader for native runs, GNU ld 2.40 as behavioural reference in the three defect probes",
    "model lean/WildModel/Model/ShdrExt.lean of the extended-section-numbering fields (populate_file_header e_shnum/e_shstrndx and the SHT_NULL arm of write_section_headers), "
    "tied by the correspondence `shdr-ext` on links whose section count / .shstrtab index cross SHN_LORESERVE",
]
RULE = ("generated links: 3-14 custom/standard sections of random size (0..70000), alignment (1..65536), flags (a, aw, ax, awT, nobits, note, "
        "non-alloc, merge) x output kind (static, static-pie, pie, no-pie dynamic, shared, -r; freestanding and glibc-based) x -z max-page-size x "
        "--section-start x generated SECTIONS scripts; every accepted link is non-trivial; distinct by request line (the dumped layout inputs)")
ASSUMPTIONS = [
    "x86-64 only (native runs); aarch64/riscv64 share layout.rs but their page-size defaults are only exercised through -z max-page-size",
    "thread counts, GC and relaxation do not influence layout_section_parts beyond the sizes it is given (sizes are inputs of the model)",
]
EXPLANATION = ("Four defect classes of wild are recorded as known findings (see known_findings.json): layout:backwards-location, "
               "layout:nobits-not-last-in-load, tls:segment-start-misaligned, shdr0:not-null. Theorems exclude exactly these regions by explicit "
               "hypotheses (locsForward, parts with data only, TLS alignment) and carry proved witnesses for each.")

KNOWN_MAP = {"sh0": "shdr0:not-null", "tls-start-misaligned": "tls:segment-start-misaligned"}


def viol_key(k):
    base = k.split(":")[0]
    return KNOWN_MAP.get(base, "elf:" + base)


def do_case(scratch, bindir, thorough, i, case):
    """Worker (thread): build, link, check, run one case. Pure function of the case; results are recorded in index order."""
    d = os.path.join(scratch, f"c{i}")
    out = {"i": i, "case": case, "d": d}
    try:
        res = g.build_and_link(case, d, bindir, runner.WILD)
    except RuntimeError as ex:
        out["build_failed"] = str(ex)[:200]
        return out
    out["rc"], out["err"], out["cmd"] = res["rc"], res["err"], res["cmd"]
    if res["rc"] != 0:
        g.cleanup(d)
        return out
    out["bad"] = ck.check_file(res["out"], res["etype"], res["execstack"], script=bool(case["script"]))
    out["run"] = res["run"]()
    dump = os.path.join(d, "layout.txt")
    if os.path.exists(dump):
        dd = cd.parse(dump)
        out["req"], out["impl"] = cd.request(dd), cd.canonical(dd)
    out["readelf"] = readelf_crosscheck(res["out"]) if thorough else []
    out["keep"] = bool([b for b in out["bad"] if viol_key(b[0]).startswith("elf:")]) or (out["run"][0] not in (0, -998) and not any(
        k == "tls-start-misaligned" for k, _ in out["bad"]))
    if not out["keep"]:
        g.cleanup(d)
    return out


def run_links(ctx, n, bindir):
    from concurrent.futures import ThreadPoolExecutor
    r = ctx.rng
    cases = [g.gen_case(r, i) for i in range(n)]
    with ThreadPoolExecutor(max_workers=int(os.environ.get("VERIF_JOBS", "4"))) as ex:
        results = list(ex.map(lambda ic: do_case(ctx.scratch, bindir, ctx.tier == "thorough", ic[0], ic[1]), enumerate(cases)))
    reqs, impl, model_in = [], [], []
    accepted = 0
    for o in results:
        i, case, d = o["i"], o["case"], o["d"]
        if "build_failed" in o:
            ctx.count("gen", "build-failed")
            continue
        ctx.count("kind", case["kind"])
        if o["rc"] != 0:
            ctx.count("outcome", "rejected:" + (o["err"].strip().split("\n")[-1][:60] if o["err"].strip() else "?"))
            continue
        accepted += 1
        ctx.count("outcome", "accepted")
        ctx.count("page", str(case["page"]))
        replay = {"cmd": " ".join(o["cmd"]), "kind": case["kind"], "note": "gcc -B<dir>/ uses <dir>/ld -> /verif/.target/wild/debug/wild",
                  "sections": [(s["name"], s["flags"], s["type"], s["align"], s["size"]) for s in case["secs"]], "script": case["script"]}
        keep = None
        if o["keep"]:
            keep = os.path.join(ctx.replay_dir(), f"c04-{ctx.seed}-{i}")
            shutil.copytree(d, keep, dirs_exist_ok=True)
            g.cleanup(d)
        # (b) the property's predicates directly on the written headers
        bad = o["bad"]
        # A user-given location (--section-start / a script's `. = X`) that lands inside or behind a region wild has already laid out
        # (headers at the image base, .relro_padding, an earlier section) gives overlapping sections: every predicate such a case
        # violates is the recorded finding layout:backwards-location (GNU ld rejects these links with "section X overlaps").
        user_loc = bool(case["secstart"] or case["script"])
        overlap = any(k.split(":")[0] in ("mem-overlap", "load-overlap", "load-page-share") for k, _ in bad)
        for k, m in bad:
            ctx.cov["impl_oracle_failures"] += 1
            key = viol_key(k)
            if user_loc and overlap and key.startswith("elf:"):
                key = "layout:backwards-location"
            ctx.violation(key, f"{case['kind']}: {m}", dict(replay, violated=k, dir=keep))
        ctx.count("direct-check", "clean" if not [b for b in bad if viol_key(b[0]).startswith("elf:")] else "violations")
        # (c) kernel / loader acceptance
        rr = o["run"]
        tls_bad = any(k == "tls-start-misaligned" for k, _ in bad)
        if rr[0] != 0:
            if tls_bad and case["kind"] in ("libc-static", "libc-static-pie"):
                ctx.count("native-run", "failed:known-tls-misaligned")
                ctx.violation("tls:segment-start-misaligned", f"{case['kind']}: program crashes or reads wrong TLS values (rc={rr[0]})", replay)
            elif rr[0] == -998:
                ctx.count("native-run", "final-link-failed")
                ctx.violation("run:final-link", f"{case['kind']}: {rr[2][:300]}", replay)
            elif user_loc and overlap:
                ctx.count("native-run", "failed:known-backwards-location")
                ctx.violation("layout:backwards-location", f"{case['kind']}: overlapping image fails at run time (rc={rr[0]})", replay)
            else:
                ctx.count("native-run", "failed")
                ctx.violation("run:" + case["kind"], f"{case['kind']}: linked program fails at run time (rc={rr[0]}; exit code k+1 = section k has wrong "
                              f"contents/alignment) {rr[2][:200]}", dict(replay, dir=keep))
        else:
            ctx.count("native-run", "ok")
        # (a) model vs dump
        if "req" in o:
            reqs.append(o["req"])
            impl.append(o["impl"])
            model_in.append(replay)
        else:
            ctx.broken.append(f"no layout dump written for case {i} ({case['kind']})")
        for key, what in o["readelf"]:
            ctx.violation(key, what, replay)
        if ctx.tier == "thorough":
            ctx.count("readelf", "cross-checked")
    return reqs, impl, model_in, accepted


def readelf_crosscheck(path):
    """elfread.py vs `readelf -lSW` on section addr/off/size and segment fields. Returns [(key, what)]."""
    import re
    out = []
    rc, o, e = lu.run(["readelf", "-lSW", path])
    if rc != 0:
        return [("readelf:rejects", f"readelf -lSW fails: {e[:200]}")]
    el = Elf(path)
    secs = {}
    for m in re.finditer(r"^\s*\[\s*(\d+)\]\s+(\S*)\s+\S+\s+([0-9a-f]{16})\s+([0-9a-f]+)\s+([0-9a-f]+)\s", o, re.M):
        secs[int(m.group(1))] = (int(m.group(3), 16), int(m.group(4), 16), int(m.group(5), 16))
    for s in el.sections:
        if s.index in secs and s.name and secs[s.index] != (s.addr, s.offset, s.size):
            out.append(("readelf:section-mismatch", f"elfread and readelf disagree on section {s.index} {s.name}: {secs[s.index]} vs {s}"))
    segs = re.findall(r"^\s+([A-Z_]+)\s+0x([0-9a-f]+)\s+0x([0-9a-f]+)\s+0x[0-9a-f]+\s+0x([0-9a-f]+)\s+0x([0-9a-f]+)\s+([RWE ]{3})\s+0x([0-9a-f]+)", o, re.M)
    mine = [(s.tname, s.offset, s.vaddr, s.filesz, s.memsz, s.align) for s in el.segments]
    theirs = [(t, int(a, 16), int(b, 16), int(c, 16), int(d, 16), int(f, 16)) for t, a, b, c, d, _, f in segs]
    if (not theirs and mine) or (len(theirs) == len(mine) and mine != theirs):
        out.append(("readelf:segment-mismatch", f"elfread and readelf disagree on program headers: {mine} vs {theirs}"))
    return out


# ---- defect probes (known findings): a violated predicate on a link wild accepted, GNU ld as behavioural reference

PROBE_B = """
    .section .cs_a,"a",@progbits
    .globl sa
sa: .fill 0x3000,1,0x41
    .section .cs_b,"a",@progbits
    .globl sb
sb: .fill 0x100,1,0x42
    .text
    .globl _start
_start:
    movabs $sa, %rsi
    movzbl 0x2fff(%rsi), %eax
    cmp $0x41, %eax
    jne fail
    movabs $sb, %rsi
    movzbl (%rsi), %eax
    cmp $0x42, %eax
    jne fail
    mov $60, %eax
    xor %edi, %edi
    syscall
fail: mov $60, %eax
    mov $1, %edi
    syscall
"""
PROBE_N = """
    .section cs_ronb,"a",@nobits
    .balign 16
    .globl ronb
ronb: .zero 5000
    .section cs_ro2,"a",@progbits
    .balign 16
    .globl ro2
ro2: .fill 100,1,0x42
    .text
    .globl _start
_start:
    movabs $ro2, %rsi
    movzbl (%rsi), %eax
    cmp $0x42, %eax
    jne fail
    movabs $ronb, %rsi
    movzbl 4999(%rsi), %eax
    cmp $0, %eax
    jne fail
    mov $60, %eax
    xor %edi, %edi
    syscall
fail: mov $60, %eax
    mov $1, %edi
    syscall
"""
PROBE_SCRIPT = "ENTRY(_start)\nSECTIONS {\n  . = 0x800000;\n  .cs_a : { *(.cs_a) }\n  . = 0x801000;\n  .cs_b : { *(.cs_b) }\n  .text : { *(.text) }\n}\n"


def probe(ctx, name, key, src, args, expect_prefixes, script=None):
    d = os.path.join(ctx.scratch, "probe-" + name)
    obj = lu.asm_obj(d, "p", src)
    if script:
        lu.write(os.path.join(d, "s.ld"), script)
        args = args + ["-T", os.path.join(d, "s.ld")]
    out = os.path.join(d, "out")
    rc, o, e = lu.run([runner.WILD, "-o", out, obj] + args, cwd=d, env={"WILD_VERIF_DUMP": d})
    rcl, ol, el = lu.run([lu.LD, "-o", out + ".ld", obj] + args, cwd=d)
    ld_says = "links" if rcl == 0 else "error: " + (el.strip().split("\n")[0][-160:] if el.strip() else "?")
    replay = {"asm": src, "script": script, "cmd": "as -o p.o p.s; wild -o out p.o " + " ".join(a.replace(d + "/", "") for a in args), "gnu_ld": ld_says}
    if rc != 0:
        ctx.count("probe", name + ":wild-rejects")
        return
    # every violated predicate of this link lies in the defect region the probe is about
    bad = [b for b in ck.check_file(out, 2, script=bool(script)) if not b[0].startswith("sh0")]
    rr = lu.run_native(out)
    ctx.count("probe", f"{name}:{'violation' if bad or rr[0] != 0 else 'clean'}")
    if bad or rr[0] != 0:
        ctx.cov["impl_oracle_failures"] += 1
        ctx.violation(key, f"wild accepts the link and writes a malformed image ({'; '.join(m for _, m in bad)[:400]}; program exit code {rr[0]}); GNU ld: {ld_says}",
                      dict(replay, violated=[b[0] for b in bad], run_rc=rr[0]))
    # the model must still agree with the implementation in the defect region
    dump = os.path.join(d, "layout.txt")
    if os.path.exists(dump):
        dd = cd.parse(dump)
        return cd.request(dd), cd.canonical(dd), replay
    return None


# ---- synthetic layouts straight through the driver (testing of the theorems' statements on the model)

def synth_request(r):
    ndefs = len(SYN_DEFS)
    toks = ["layout-props", f"P{1 if r.chance(1, 12) else 0}", "B" + r.choice(["0", "400000", "10000", "7fff0000"]), f"G{r.choice([12, 12, 14, 16, 21])}", "K0", "R900", "H0",
            "U1"] + SYN_DEFS
    n = r.range(1, 12)
    calls = []
    loc = 0x1000000
    for sid in range(n):
        cls = r.choice(["hdr", "ro", "ro", "rx", "rw", "rw", "tdata", "tbss", "bss", "relro", "note", "na", "dyn"])
        alloc, w, x, tls, nobits = {"hdr": (1, 0, 0, 0, 0), "ro": (1, 0, 0, 0, 0), "rx": (1, 0, 1, 0, 0), "rw": (1, 1, 0, 0, 0), "tdata": (1, 1, 0, 1, 0),
                                    "tbss": (1, 1, 0, 1, 1), "bss": (1, 1, 0, 0, 1), "relro": (1, 1, 0, 0, 0), "note": (1, 0, 0, 0, 0), "na": (0, 0, 0, 0, 0),
                                    "dyn": (1, 1, 0, 0, 0)}[cls]
        if r.chance(1, 25):
            nobits = 1  # nobits anywhere (the nobits-not-last-in-load region)
        hasdata = 1 if (not nobits or tls) else 0
        aux = 0
        if cls == "note":
            aux |= 1 << 2
        if cls in ("relro", "dyn") or tls:
            aux |= 1 << 11
        if cls == "dyn":
            aux |= 1 << 10
        if cls == "hdr" and r.chance(1, 2):
            aux |= 1 << 0
        location = "-"
        if r.chance(1, 6):
            loc += r.choice([0x1000, 0x123458, 0x200000])
            location = f"{loc:x}"
            if r.chance(1, 8):
                location = f"{r.choice([0x1000, 0x400100, loc - 0x100000]):x}"  # possibly backwards
        if r.chance(1, 2):
            parts = [(r.below(17), r.choice([0, 0, 1, 5, 16, 100, 4097, 70000]))]
        else:
            parts = [(16 - k, r.choice([0, 0, 0, 0, 8, 24, 100, 5000]) // (1 << min(16 - k, 3)) * (1 << min(16 - k, 3))) for k in range(17)]
        mina = r.choice([0, 0, 0, 3, 4, 12])
        fl = f"{alloc}{w}{x}{tls}{nobits}{hasdata}1{1 if cls == 'note' else 0}"
        toks.append(f"S{sid}:-:{fl}:{mina}:{location}:{aux:x}:" + ",".join(f"{a}.{s:x}" for a, s in parts))
        calls.append(sid)
        loc += sum(s for _, s in parts) + 0x20000
    calls = r.shuffle(calls) if r.chance(1, 3) else calls
    toks += [f"C{c}" for c in calls]
    toks.append("A*")
    return " ".join(toks)


SYN_DEFS = ["D000000:0", "D000000:1", "D000000:8", "D000000:1685382487", "D100000:2", "D101000:2", "D110000:2", "D000100:11", "D000000:1685382484",
            "D000000:1685382488", "D010000:3", "D000001:1685382486", "D000000:1879048199", "D010010:1685382485"]
# predicates that hold for ALL model inputs (theorems) vs those that only hold outside the recorded defect regions
ALWAYS = {"parts-aligned", "disjoint-file", "disjoint-mem", "well-bracketed", "load-flags", "aux-cover", "no-wx", "load-congruent"}
DEFECT_REGION = {"tls-start-aligned": "tls:segment-start-misaligned", "load-offsets": "layout:nobits-not-last-in-load"}


def many_sections_link(ctx, n, rel):
    """Link an object with n one-byte custom sections; returns (path, [(key, what)]) or (None, reason)."""
    d = os.path.join(ctx.scratch, "manysec")
    os.makedirs(d, exist_ok=True)
    src = ".globl _start\n.text\n_start:\n  mov $60,%eax\n  xor %edi,%edi\n  syscall\n" + "".join(
        f'.section sec{i:05d},"a",@progbits\n.byte 1\n' for i in range(n))
    obj = lu.asm_obj(d, f"many{n}", src)
    out = os.path.join(d, f"many{n}{'.r' if rel else ''}.out")
    rc, o, e = lu.run([runner.WILD, obj, "-o", out, "--no-gc-sections"] + (["-r"] if rel else []))
    os.unlink(obj)
    if rc != 0:
        return None, e.strip().split("\n")[-1][:200]
    bad = ck.check_file(out, 1 if rel else 2)
    el = Elf(out)
    idx = el.e_shstrndx if el.e_shstrndx != 0xFFFF else el.sections[0].link
    if 0 < idx < len(el.sections) and el.sections[idx].name != ".shstrtab":
        bad.append(("shstrndx", f"section {idx} named by e_shstrndx/sh_link is {el.sections[idx].name!r}, not .shstrtab"))
    if el.e_shstrndx != 0xFFFF and el.sections and el.sections[0].link != 0:
        bad.append(("sh0", f"section header 0 has sh_link={el.sections[0].link} although e_shstrndx={el.e_shstrndx} is not SHN_XINDEX"))
    if el.e_shnum != 0 and el.sections and el.sections[0].size != 0:
        bad.append(("sh0", f"section header 0 has sh_size={el.sections[0].size} although e_shnum={el.e_shnum}"))
    if el.e_shnum >= 0xFF00:
        bad.append(("shnum", f"e_shnum={el.e_shnum} is a reserved value"))
    named = sum(1 for x in el.sections if x.name.startswith("sec") and len(x.name) == 8)
    if named != n:
        bad.append(("shnum", f"{named} of the {n} custom output sections are reachable through the section header table"))
    if not rel:
        rr, _, _ = lu.run([out])
        if rr != 0:
            bad.append(("run", f"the program with {n} sections exits with {rr}"))
    raw = f"e_shnum={el.e_shnum} e_shstrndx={el.e_shstrndx} sh0_size={el.sections[0].size} sh0_link={el.sections[0].link}"
    shstr = [x.index for x in el.sections if x.name == ".shstrtab" and x.type == 3]
    return (out, len(el.sections), idx, raw, shstr[0] if len(shstr) == 1 else -1), bad


def section_count_boundary(ctx):
    """Outputs whose section count / .shstrtab index cross SHN_LORESERVE (0xff00): e_shnum = 0 + sh_size of header 0,
    e_shstrndx = SHN_XINDEX + sh_link of header 0 must switch over at exactly that value and agree with each other."""
    ext_reqs, ext_impl = [], []
    for rel in ((False,) if ctx.quick else (False, True)):
        n0 = 65262
        info, bad = many_sections_link(ctx, n0, rel)
        if info is None:
            ctx.count("section-count-boundary", "rejected")
            ctx.broken.append(f"wild rejects a link with {n0} sections: {bad}")
            return
        extra = info[1] - n0          # sections wild adds
        strdelta = info[2] - n0       # index of .shstrtab minus n
        targets = sorted({0xFF00 - extra - 1, 0xFF00 - extra, 0xFF00 - strdelta - 1, 0xFF00 - strdelta, 0xFF00 - strdelta + 1})
        if not ctx.quick:
            targets = list(range(min(targets) - 2, max(targets) + 3))
        for n in [n0] + targets:
            if n != n0:
                info, bad = many_sections_link(ctx, n, rel)
            ctx.note_case(("manysec", n, rel))
            ctx.cov["evaluations"] += 1
            if info is None:
                ctx.count("section-count-boundary", "rejected")
                continue
            ctx.count("section-count-boundary", f"shnum=0x{info[1]:x} shstrndx=0x{info[2]:x}")
            # correspondence with Model/ShdrExt.lean: the header fields for this (section count, position of .shstrtab)
            if info[4] > 0:
                ext_reqs.append(f"shdr-ext {info[1]} {info[4]}")
                ext_impl.append(info[3])
            for k, m in bad:
                key = viol_key(k)
                if key.startswith("elf:"):
                    keep = os.path.join(ctx.replay_dir(), f"c04-manysec-{n}{'-r' if rel else ''}.out")
                    shutil.copy(info[0], keep)
                ctx.cov["impl_oracle_failures"] += 1
                ctx.violation(key, f"{'-r' if rel else 'static'} link of {n} one-byte sections: {m}",
                              {"sections": n, "relocatable": rel, "violated": k, "how": "as: n x `.section secNNNNN,\"a\"; .byte 1` + _start; wild obj -o out --no-gc-sections"})
            os.unlink(info[0])
    if ext_reqs:
        dis, _, _ = ctx.differential("shdr-ext", ext_reqs, impl_out=ext_impl)
        for l, a, b in dis[:2]:
            ctx.violation("elf:shdr-ext", f"extended section numbering fields differ from the model for `{l}`: wild {a}, model {b}", {"request": l, "wild": a, "model": b})


def run(ctx):
    bindir = g.setup_driver_dir(ctx.scratch, runner.WILD)
    section_count_boundary(ctx)
    n = 60 if ctx.quick else 900
    reqs, impl, infos, accepted = run_links(ctx, n, bindir)
    # defect probes
    for name, key, src, args, pref, script in [
        ("secstart-overlap", "layout:backwards-location", PROBE_B, ["--section-start=.cs_a=0x800000", "--section-start=.cs_b=0x801000"], ["mem-overlap", "load-overlap"], None),
        ("secstart-in-headers", "layout:backwards-location", PROBE_B, ["--section-start=.cs_a=0x400100"], ["mem-overlap", "load-overlap", "load-page-share", "NOTE-", "PHDR", "sec-"], None),
        ("script-backwards", "layout:backwards-location", PROBE_B, [], ["mem-overlap", "load-overlap"], PROBE_SCRIPT),
        ("nobits-mid-segment", "layout:nobits-not-last-in-load", PROBE_N, [], ["sec-offset-vs-addr", "nobits-file-backed", "sec-beyond-filesz"], None),
    ]:
        got = probe(ctx, name, key, src, args, pref, script)
        if got:
            reqs.append(got[0])
            impl.append(got[1])
            infos.append(got[2])
    # (a) correspondence model vs dump
    if reqs:
        raw = ctx.model_eval(reqs)
        model = [cd.canon_model(x) for x in raw]
        dis, _, _ = ctx.differential("layout", reqs, impl_out=impl, model_out=model)
        for l, a, b in dis[:3]:
            i = reqs.index(l)
            ctx.violation("model:layout-disagreement", "the Lean model of the layout code and the dumped outputs of the real code differ: " + str(cd.first_difference(a, b)),
                          dict(infos[i], request=l[:2000]), found_input=True)
        # the model's own predicates on the real inputs
        props = ctx.model_eval([x.replace("layout ", "layout-props ", 1) for x in reqs])
        for l, p, info in zip(reqs, props, infos):
            fails = [x for x in p.split()[0][5:].split(",") if x] if p.startswith("fail:") else []
            for f in fails:
                ctx.count("model-predicates-on-real-inputs", f)
                if f in DEFECT_REGION:
                    ctx.violation(DEFECT_REGION[f], f"model predicate {f} fails on the dumped inputs of an accepted link", info)
                else:
                    ctx.violation("model-predicate:" + f, f"a predicate proved for all model inputs fails in the driver: {f}", dict(info, request=l[:2000]))
            if not fails:
                ctx.count("model-predicates-on-real-inputs", "all-hold")
    if accepted < n // 2:
        ctx.broken.append(f"only {accepted} of {n} generated links were accepted by wild")
    # synthetic layouts (testing): 2000 random section lists straight through the driver
    ns = 2000 if ctx.quick else 40000
    sreq = [synth_request(ctx.rng) for _ in range(ns)]
    sout = ctx.model_eval(sreq)
    for l, o in zip(sreq, sout):
        ctx.note_case(("synth", l))
        tag = o.split()[0]
        fails = [x for x in tag[5:].split(",") if x] if tag.startswith("fail:") else []
        if "note:locations-not-forward" in o:
            ctx.count("synthetic", "locations-not-forward")
        if o == "bad-request":
            ctx.broken.append("driver rejected a synthetic request: " + l[:300])
            break
        for f in fails:
            ctx.count("synthetic", "fails:" + f)
            if f in ALWAYS:
                ctx.violation("model-predicate:" + f, f"synthetic layout violates a predicate that is proved for all inputs: {f}", {"request": l}, found_input=True)
        if not fails:
            ctx.count("synthetic", "all-hold")
    ctx.cov["evaluations"] += 0
