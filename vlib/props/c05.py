"""C05 - Garbage collection keeps everything reachable."""
import os
import shutil

from .. import linkutil as lu
from ..elfread import Elf

NEEDS_WILD = True


def run_bytes(path, timeout=20):
    """Run a linked program; returns (returncode, raw stdout bytes)."""
    import subprocess
    try:
        p = subprocess.run([path], stdout=subprocess.PIPE, stderr=subprocess.PIPE, timeout=timeout)
        return p.returncode, p.stdout
    except subprocess.TimeoutExpired:
        return -999, b""

LEAN_MODULES = ["WildModel.Props.C05"]
THEOREMS = [
    "Wild.Gc.gc_sound",
    "Wild.Gc.kept_iff_reachable",
    "Wild.Gc.keep_never_collected",
    "Wild.Gc.root_ref_never_collected",
    "Wild.Gc.start_stop_keeps_all",
    "Wild.Gc.any_order_is_reachable",
    "Wild.Gc.worklist_processed_once",
    "Wild.Gc.worklist_terminal_is_reachable",
    "Wild.Gc.wstep_measure",
]
LEVEL = "proof"
TECHNIQUE = ("Lean 4 theorems over an executable model of the GC root set and edge relation (least-fixpoint closure, any-order and work-list "
             "theorems) + whole-link differential correspondence on random section graphs (kept set of wild vs the model's closure; native "
             "execution with and without GC; GNU ld --gc-sections as second opinion)")
TRUSTED = [
    "hand-written model lean/WildModel/Model/Gc.lean of resolve_section(must_load) / ObjectLayoutState::activate / load_section / process_relocation / "
    "load_symbol (objects and __start/__stop synthetic symbols) / non_empty_section_loaded, tied by whole-link correspondence `gc`: random section graphs "
    "are rendered to assembly (one section per node), linked by the hooked wild with GC on, and the kept set is read from the output symbol table",
    "the parallel protocol is C39's subject (Props/C39.lean terminal_is_closure); here the schedule is varied only through --threads",
    "observation: a node is kept iff its marker symbol n_K survives in .symtab (wild drops symbols of discarded sections)",
    "as, gcc (freestanding runtime), ar, GNU ld, the kernel/ld.so for native runs, vlib/elfread.py",
]
RULE = ("random graphs of 6-18 section nodes in 1-4 files (functions in .text.fK, data records in .data.dK, TLS records in .tdata.tK, members of "
        "__start/__stop sets, retained/note/init_array/KEEP roots), edges by named symbol (global, hidden, local), by section symbol + non-zero addend, by FDE "
        "(LSDA) and CIE (personality), by relocations that need nothing from the symbol at link time (`.reloc ., R_X86_64_NONE, sym|section+addend` in code, "
        "data, TLS and set-member sections; `sym@tlsld`), in two thirds of the graphs one node is reachable ONLY through such a relocation; cycles and self loops; link modes static / -u / PIE+--export-dynamic / PIE+--export-dynamic-symbol / -shared / linker script KEEP; "
        "non-trivial = at least one node is collected and at least one non-root node is kept; distinct by request line")
ASSUMPTIONS = ["x86-64 only", "COMDAT groups are not generated (wild's traversal has no group edges; C02 covers COMDAT selection)",
               "every node section with an FDE is non-empty",
               "R_X86_64_SIZE32/64 edges are not generated: wild rejects these relocation types outright ('Unsupported relocation type', a loud link failure, "
               "not a GC question); gas resolves sym@SIZE of local symbols itself"]

RUNTIME_C = r"""
typedef unsigned long u64;
unsigned char vis[256];
u64 sum;
struct ent { u64 kind; u64 ptr; };
void walk_set(struct ent *s, struct ent *e);
static int mark(u64 id) { if (vis[id]) return 0; vis[id] = 1; sum = sum * 31 + id + 1; return 1; }
int visit_fn(u64 id) { return mark(id); }
void walk_data(u64 *rec) {
  if (!mark(rec[0])) return;
  u64 n = rec[1];
  struct ent *e = (struct ent *)(rec + 2);
  for (u64 i = 0; i < n; i++) {
    if (e[i].kind == 0) ((void (*)(void))e[i].ptr)();
    else if (e[i].kind == 1) walk_data((u64 *)e[i].ptr);
    else if (e[i].kind == 2) { walk_set((struct ent *)e[i].ptr, (struct ent *)e[i + 1].ptr); i++; }
  }
}
void walk_set(struct ent *s, struct ent *e) {
  for (; s < e; s++) {
    if (s->kind == 4) mark(s->ptr);
    else if (s->kind == 0) ((void (*)(void))s->ptr)();
    else if (s->kind == 1) walk_data((u64 *)s->ptr);
  }
}
void finish(void) {
  long r;
  __asm__ volatile("syscall" : "=a"(r) : "a"(1), "D"(1), "S"(&sum), "d"(8) : "rcx", "r11", "memory");
  __asm__ volatile("syscall" : "=a"(r) : "a"(1), "D"(1), "S"(vis), "d"(64) : "rcx", "r11", "memory");
  __asm__ volatile("syscall" : : "a"(60), "D"(0) : "rcx", "r11", "memory");
  for (;;) {}
}
"""

MODES = ["static", "static", "static", "undef", "pie-export-all", "pie-export-some", "shared", "script"]


class Node:
    pass


def gen_graph(r, mode):
    nfiles = r.range(1, 4)
    n = r.range(6, 18)
    nsets = r.range(0, 2)
    nodes = []
    for k in range(n):
        nd = Node()
        nd.id = k
        nd.file = 0 if k == 0 else r.below(nfiles)
        c = r.below(10)
        nd.kind = "f" if (k == 0 or c < 5) else ("d" if c < 8 or nsets == 0 else "m")
        if nd.kind == "d" and mode != "script" and r.chance(1, 5):
            nd.kind = "t"                    # TLS data record in .tdata.tK: only reachable through x@tlsld / keep-alive relocations
        nd.set = r.below(nsets) if nd.kind == "m" else None
        if nd.kind == "m" and any(x.kind == "m" and x.set == nd.set and x.file == nd.file for x in nodes):
            nd.kind, nd.set = "d", None      # one member section per (file, set): the assembler merges same-named sections
        nd.vis = "global" if k == 0 else r.choice(["global", "global", "hidden", "local"])
        nd.pad = r.choice([0, 0, 4, 8, 16]) if nd.kind not in ("m", "t") else 0
        nd.retain = k != 0 and nd.kind not in ("m", "t") and r.chance(1, 12)
        nd.keep = False
        nd.succ = []       # (how, target) how in name|secsym|member (relocations that need the symbol's address) or
        #                    none|none-secsym|tlsld (relocations that need NOTHING from the symbol at link time: R_X86_64_NONE keep-alive, x@tlsld)
        nd.sets = []       # referenced start/stop sets
        nd.setref = {}     # set -> both|start|stop (which boundary symbols the reference uses)
        nd.lsda = None
        nodes.append(nd)
    # edges
    for nd in nodes:
        for _ in range(r.choice([0, 1, 1, 2, 2, 3])):
            t = nodes[r.below(n)]
            if nd.kind == "m" and t.kind == "m":
                continue
            same = t.file == nd.file
            noflag = nd.kind == "t" or r.chance(1, 4)     # a TLS image holds no pointers: its only edges are keep-alive relocations
            if t.kind == "t":
                if t.vis == "local" and not same:
                    continue
                how = "tlsld" if (nd.kind == "f" and not noflag) else "none"
            elif t.kind == "m":
                how = "none" if noflag else "member"
                if t.vis == "local" and not same:
                    continue
            elif same and r.chance(1, 3):
                how = "none-secsym" if noflag else "secsym"
            else:
                how = "none" if noflag else "name"
                if t.vis == "local" and not same:
                    continue
            nd.succ.append((how, t.id))
        if nd.kind not in ("m", "t") and nsets and r.chance(1, 5):
            j = r.below(nsets)
            if any(x.kind == "m" and x.set == j for x in nodes) and j not in nd.sets:
                nd.sets.append(j)
                # which of the two boundary symbols is referenced: each one alone keeps the whole set alive
                nd.setref[j] = r.choice(["both", "both", "start", "stop"])
    # FDEs with LSDA (function -> data node of the same file), one personality per file
    pers = {}
    for nd in nodes:
        if nd.kind == "f" and mode not in ("shared", "script") and r.chance(1, 4):
            cands = [x for x in nodes if x.kind == "d" and x.file == nd.file]
            if cands:
                nd.lsda = r.choice(cands).id
    for f in range(nfiles):
        if any(nd.lsda is not None and nd.file == f for nd in nodes) and r.chance(1, 2):
            cands = [x for x in nodes if x.kind == "f" and (x.file == f or x.vis != "local")]
            if cands:
                pers[f] = r.choice(cands).id
    g = {"nodes": nodes, "nfiles": nfiles, "nsets": nsets, "pers": pers, "mode": mode, "extra": [], "undef": [], "export": [], "archive": []}
    # special root sections (unnumbered helper sections that are must-load and point at a node)
    for kind in ("init_array", "note"):
        if r.chance(1, 4):
            t = nodes[r.below(n)]
            if t.kind == "f" and t.vis != "local":
                g["extra"].append((kind, r.below(nfiles), t.id))
    globals_ = [x for x in nodes if x.vis == "global" and x.id != 0]
    if mode == "undef" and globals_:
        g["undef"] = [x.id for x in r.shuffle(globals_)[:r.range(1, 2)]]
    if mode == "pie-export-some" and globals_:
        g["export"] = [x.id for x in r.shuffle(globals_)[:r.range(1, 2)]]
    if mode == "script":
        for x in nodes:
            if x.kind == "d" and x.id != 0 and r.chance(1, 4):
                x.keep = True
    if nfiles > 1 and r.chance(1, 3):
        g["archive"] = [r.range(1, nfiles - 1)]
    # In two thirds of the graphs one node is made reachable ONLY through a relocation that needs nothing from its symbol
    # (`.reloc ., R_X86_64_NONE, sym`, or `sym@tlsld` for a TLS record): all other ways of reaching it are removed.
    if r.chance(2, 3):
        busy = set(g["pers"].values()) | {t for _, _, t in g["extra"]} | set(g["undef"]) | set(g["export"]) | {x.lsda for x in nodes if x.lsda is not None}
        exported = mode in ("pie-export-all", "shared")
        cands = [x for x in nodes if x.id != 0 and x.kind in ("f", "d", "t") and not x.retain and not x.keep and x.id not in busy
                 and not (exported and x.vis == "global")]
        if cands:
            u = r.choice(cands)
            srcs = [x for x in nodes if x.id != u.id and x.kind in ("f", "d") and (u.vis != "local" or x.file == u.file)]
            if srcs:
                src = nodes[0] if (nodes[0] in srcs and r.chance(1, 2)) else r.choice(srcs)
                for x in nodes:
                    x.succ = [(h, t) for h, t in x.succ if t != u.id or x.id == u.id]
                if u.kind == "t" and src.kind == "f" and r.chance(1, 2):
                    how = "tlsld"
                elif u.kind != "t" and src.file == u.file and r.chance(1, 3):
                    how = "none-secsym"
                else:
                    how = "none"
                src.succ.append((how, u.id))
                g["only_noflag"] = u.id
    return g


NOFLAG = ("none", "none-secsym", "tlsld")


def secname(nd):
    if nd.kind == "f":
        return f".text.f{nd.id}"
    if nd.kind == "d":
        return f".data.keep{nd.id}" if nd.keep else f".data.d{nd.id}"
    if nd.kind == "t":
        return f".tdata.t{nd.id}"
    return f"myset{nd.set}"


def symdecl(nd):
    s = ""
    if nd.vis != "local":
        s += f"    .globl n_{nd.id}\n"
    if nd.vis == "hidden":
        s += f"    .hidden n_{nd.id}\n"
    return s


def member_size(nd):
    return 16 * (1 + len(nd.succ))


def set_size(g, j):
    """total size of the output section mysetJ when every member is kept (member sections have alignment 1: no padding)"""
    return sum(member_size(x) for x in g["nodes"] if x.kind == "m" and x.set == j)


def render_file(g, f):
    nodes = g["nodes"]
    mine = [x for x in nodes if x.file == f]
    out = []
    # declare every section of the file first so that section symbols can be used in expressions
    for nd in mine:
        if nd.kind == "f":
            out.append(f'    .section {secname(nd)},"ax{"R" if nd.retain else ""}",@progbits\n')
        elif nd.kind == "d":
            out.append(f'    .section {secname(nd)},"aw{"R" if nd.retain else ""}",@progbits\n')
        elif nd.kind == "t":
            out.append(f'    .section {secname(nd)},"awT",@progbits\n')
        else:
            out.append(f'    .section {secname(nd)},"aw",@progbits\n')
    if f == 0:
        out.append('    .section .text._start,"ax",@progbits\n    .globl _start\n_start:\n    xor %ebp, %ebp\n    and $-16, %rsp\n'
                   '    call n_0@PLT\n    call finish@PLT\n')
    if f in g["archive"]:
        out.append(f"    .data\n    .globl pull_{f}\npull_{f}: .quad 0\n")
    if f == 0:
        for a in g["archive"]:
            out.append(f'    .section .data.pulls,"aw",@progbits\n    .quad pull_{a}\n')

    # GNU ld refuses a TLS definition whose reference in another file is an untyped undefined symbol ("mismatches non-TLS reference")
    for t in sorted({t for nd in mine for _, t in nd.succ if nodes[t].kind == "t" and nodes[t].file != f}):
        out.append(f"    .type n_{t}, @tls_object\n")

    def ptr_expr(how, t):
        tn = nodes[t]
        if how in ("secsym", "none-secsym"):
            return f"{secname(tn)}+{tn.pad}"
        return f"n_{t}"

    def keepalive(how, t):
        """a relocation that patches nothing: the referenced section must stay alive all the same"""
        return f"    .reloc ., R_X86_64_NONE, {ptr_expr(how, t)}\n"

    for nd in mine:
        if nd.kind == "f":
            out.append(f'    .section {secname(nd)},"ax{"R" if nd.retain else ""}",@progbits\n')
            if nd.pad:
                out.append(f"    .skip {nd.pad}, 0xcc\n")
            out.append(symdecl(nd))
            out.append(f"    .type n_{nd.id}, @function\nn_{nd.id}:\n")
            if nd.lsda is not None:
                out.append("    .cfi_startproc\n")
                if f in g["pers"]:
                    out.append(f"    .cfi_personality 0x1b, n_{g['pers'][f]}\n")
                out.append(f"    .cfi_lsda 0x1b, n_{nd.lsda}\n")
            out.append(f"    sub $8, %rsp\n    mov ${nd.id}, %edi\n    call visit_fn@PLT\n    test %eax, %eax\n    jz 9f\n")
            for how, t in nd.succ:
                tn = nodes[t]
                if how == "tlsld":
                    # never executed (no TLS block is set up in the freestanding runs); R_X86_64_TLSLD designates the module, not the symbol
                    out.append(f"    jmp 7f\n    leaq n_{t}@tlsld(%rip), %rdi\n    call __tls_get_addr@PLT\n7:\n")
                elif how in ("none", "none-secsym"):
                    out.append(keepalive(how, t))
                elif tn.kind == "f":
                    if how == "secsym":
                        out.append(f"    call {secname(tn)}+{tn.pad}\n")
                    elif tn.vis == "global":
                        out.append(f"    call n_{t}@PLT\n")
                    else:
                        out.append(f"    call n_{t}\n")
                elif tn.kind == "d":
                    if how == "secsym":
                        out.append(f"    lea {secname(tn)}+{tn.pad}(%rip), %rdi\n")
                    elif tn.vis == "global":
                        out.append(f"    mov n_{t}@GOTPCREL(%rip), %rdi\n")
                    else:
                        out.append(f"    lea n_{t}(%rip), %rdi\n")
                    out.append("    call walk_data@PLT\n")
                else:
                    if tn.vis == "global":
                        out.append(f"    mov n_{t}@GOTPCREL(%rip), %rdi\n")
                    else:
                        out.append(f"    lea n_{t}(%rip), %rdi\n")
                    out.append(f"    lea {member_size(tn)}(%rdi), %rsi\n    call walk_set@PLT\n")
            for j in nd.sets:
                which = nd.setref.get(j, "both")
                if which == "both":
                    out.append(f"    mov __start_myset{j}@GOTPCREL(%rip), %rdi\n    mov __stop_myset{j}@GOTPCREL(%rip), %rsi\n    call walk_set@PLT\n")
                elif which == "start":
                    out.append(f"    mov __start_myset{j}@GOTPCREL(%rip), %rdi\n    lea {set_size(g, j)}(%rdi), %rsi\n    call walk_set@PLT\n")
                else:
                    out.append(f"    mov __stop_myset{j}@GOTPCREL(%rip), %rsi\n    lea -{set_size(g, j)}(%rsi), %rdi\n    call walk_set@PLT\n")
            out.append("9:  add $8, %rsp\n    ret\n")
            if nd.lsda is not None:
                out.append("    .cfi_endproc\n")
            out.append(f"    .size n_{nd.id}, .-n_{nd.id}\n")
        elif nd.kind == "d":
            out.append(f'    .section {secname(nd)},"aw{"R" if nd.retain else ""}",@progbits\n')
            if nd.pad:
                out.append(f"    .skip {nd.pad}\n")
            out.append(symdecl(nd))
            ents = []
            for how, t in nd.succ:
                tn = nodes[t]
                if how in ("none", "none-secsym"):
                    ents.append(keepalive(how, t) + "    .quad 5, 0\n")      # kind 5: ignored by the run-time walk
                elif tn.kind == "f":
                    ents.append(f"    .quad 0, {ptr_expr(how, t)}\n")
                elif tn.kind == "d":
                    ents.append(f"    .quad 1, {ptr_expr(how, t)}\n")
                else:
                    ents.append(f"    .quad 2, n_{t}\n    .quad 3, n_{t}+{member_size(tn)}\n")
            for j in nd.sets:
                which = nd.setref.get(j, "both")
                if which == "both":
                    ents.append(f"    .quad 2, __start_myset{j}\n    .quad 3, __stop_myset{j}\n")
                elif which == "start":
                    ents.append(f"    .quad 2, __start_myset{j}\n    .quad 3, __start_myset{j}+{set_size(g, j)}\n")
                else:
                    ents.append(f"    .quad 2, __stop_myset{j}-{set_size(g, j)}\n    .quad 3, __stop_myset{j}\n")
            cnt = sum(e.count(".quad") for e in ents)
            out.append(f"n_{nd.id}:\n    .quad {nd.id}\n    .quad {cnt}\n" + "".join(ents))
        elif nd.kind == "t":
            out.append(f'    .section {secname(nd)},"awT",@progbits\n')
            out.append(symdecl(nd))
            out.append(f"n_{nd.id}:\n    .quad {nd.id}\n")
            for how, t in nd.succ:
                out.append(keepalive(how, t))
        else:
            out.append(f'    .section {secname(nd)},"aw",@progbits\n')
            out.append(symdecl(nd))
            out.append(f"n_{nd.id}:\n    .quad 4, {nd.id}\n")
            for how, t in nd.succ:
                tn = nodes[t]
                if how in ("none", "none-secsym"):
                    out.append(keepalive(how, t) + "    .quad 5, 0\n")
                else:
                    out.append(f"    .quad {0 if tn.kind == 'f' else 1}, {ptr_expr(how, t)}\n")
    for kind, ef, t in g["extra"]:
        if ef != f:
            continue
        if kind == "init_array":
            out.append(f'    .section .init_array,"aw",@init_array\n    .quad n_{t}\n')
        else:
            out.append(f'    .section .note.c05,"aw",@note\n    .long 4, 8, 0x1234\n    .asciz "c05"\n    .quad n_{t}\n')
    return "".join(out)


def startstop_export_closure(g, kept):
    """Nodes reachable from the kept ones plus the members of every start/stop set that ANY node (kept or not) mentions."""
    nodes = g["nodes"]
    ref_sets = {j for nd in nodes for j in nd.sets}
    seen = {k for k in range(len(nodes)) if kept[k] == "1"} | {nd.id for nd in nodes if nd.kind == "m" and nd.set in ref_sets}
    work = list(seen)
    while work:
        nd = nodes[work.pop()]
        nxt = [t for _, t in nd.succ] + [m.id for j in nd.sets for m in nodes if m.kind == "m" and m.set == j]
        if nd.lsda is not None:
            nxt.append(nd.lsda)
        for t in nxt:
            if t not in seen:
                seen.add(t)
                work.append(t)
    return seen


def model_request(g, no_gc=False, drop_noflag=False):
    """The abstract graph in the model's terms. Node numbering: 0..n-1, n = `.text._start`, then the helper sections.
    Every relocation is an edge, whatever its type; `drop_noflag` leaves out the relocations that need nothing from their symbol
    (used only to measure how many cases have a node that is reachable through such a relocation alone)."""
    nodes = g["nodes"]
    n = len(nodes)
    mode = g["mode"]
    secs = []
    for nd in nodes:
        refs = [f"s{t}" for how, t in nd.succ if not (drop_noflag and how in NOFLAG)] + [f"x{j}" for j in nd.sets]
        fde = []
        if nd.lsda is not None:
            fde = [f"s{nd.id}", f"s{nd.lsda}"]
        must = nd.retain or nd.keep or no_gc
        st = str(nd.set) if (nd.kind == "m") else "-"
        secs.append(f"{1 if must else 0}1/{st}/{','.join(refs)}/{','.join(fde)}")
    secs.append(f"{1 if no_gc else 0}1/-/s0/")          # .text._start
    for kind, ef, t in g["extra"]:
        secs.append(f"11/-/s{t}/")
    roots = [f"s{n}"]
    roots += [f"s{p}" for p in g["pers"].values()]
    if mode == "undef":
        roots += [f"s{t}" for t in g["undef"]]
    if mode in ("pie-export-all", "shared"):
        roots += [f"s{nd.id}" for nd in nodes if nd.vis == "global"]
    if mode == "pie-export-some":
        roots += [f"s{t}" for t in g["export"]]
    return "gc R=" + ",".join(roots) + " " + " ".join(secs)


def build(d, g):
    os.makedirs(d, exist_ok=True)
    rt = os.path.join(os.path.dirname(d), "rt.o")
    if not os.path.exists(rt):
        rt = lu.cc_obj(os.path.dirname(d), "rt", RUNTIME_C, flags=["-O1", "-ffreestanding", "-fPIC", "-fno-asynchronous-unwind-tables", "-fno-stack-protector", "-fno-builtin"])
    objs = [lu.asm_obj(d, f"f{f}", render_file(g, f)) for f in range(g["nfiles"])]
    line = []
    for f, o in enumerate(objs):
        if f in g["archive"]:
            a = os.path.join(d, f"lib{f}.a")
            lu.archive(a, [o])
            line.append(a)
        else:
            line.append(o)
    line.append(rt)
    mode = g["mode"]
    flags = []
    if mode == "undef":
        for t in g["undef"]:
            flags += ["-u", f"n_{t}"]
    elif mode == "pie-export-all":
        flags = ["-pie", "--dynamic-linker=/lib64/ld-linux-x86-64.so.2", "--export-dynamic"]
    elif mode == "pie-export-some":
        flags = ["-pie", "--dynamic-linker=/lib64/ld-linux-x86-64.so.2"] + [f"--export-dynamic-symbol=n_{t}" for t in g["export"]]
    elif mode == "shared":
        flags = ["-shared"]
    elif mode == "script":
        sc = lu.write(os.path.join(d, "keep.ld"),
                      "SECTIONS {\n  .text : { *(.text .text.*) }\n  .keepdata : { KEEP(*(.data.keep*)) }\n  .init_array : { KEEP(*(.init_array)) }\n  .data : { *(.data .data.*) }\n  .bss : { *(.bss .bss.*) }\n}\n")
        flags = ["-T", sc]
    return line, flags


def observe(path, g):
    e = Elf(path)
    present = {y.name for y in e.symtab() if y.shndx != 0}
    bits = "".join("1" if f"n_{nd.id}" in present else "0" for nd in g["nodes"])
    return bits


def run(ctx):
    r = ctx.rng
    ncases = 48 if ctx.quick else 1500
    reqs, impl, cases = [], [], []
    for i in range(ncases):
        mode = r.choice(MODES)
        g = gen_graph(r, mode)
        d = os.path.join(ctx.scratch, f"c{i}")
        try:
            line, flags = build(d, g)
        except RuntimeError as ex:
            ctx.count("gen", "build-failed")
            ctx.sample({"build-failed": str(ex)[:300]})
            continue
        n = len(g["nodes"])
        out = os.path.join(d, "out.wild")
        rc, o, e = lu.link("wild", [f"--threads={r.choice([1, 2, 8])}", "--gc-sections"] + flags + ["-o", out] + line, cwd=d)
        req = model_request(g)
        if rc != 0:
            ctx.count("impl-outcome", "link-failed")
            obs = "link-failed:" + e.strip().split("\n")[0][:160]
        else:
            ctx.count("impl-outcome", "linked")
            obs = observe(out, g)
        reqs.append(req)
        impl.append(obs)
        cases.append((g, line, flags, d))
        ctx.count("mode", mode)
        ctx.count("nodes", str(n))
        for nd in g["nodes"]:
            ctx.count("node-kind", nd.kind)
            for how, _ in nd.succ:
                ctx.count("edge", how)
    model_full = ctx.model_eval(reqs)
    model = [m[:len(c[0]["nodes"])] for m, c in zip(model_full, cases)]
    # coverage of the input class "reachable ONLY through a relocation that needs nothing from its symbol": the model's closure without those edges
    without = ctx.model_eval([model_request(c[0], drop_noflag=True) for c in cases])
    essential = 0
    for m, w, c in zip(model, without, cases):
        lost = [k for k in range(len(m)) if m[k] == "1" and w[k] == "0"]
        ctx.count("noflag-edge", "some-node-reachable-only-through-it" if lost else "redundant-or-absent")
        essential += 1 if lost else 0
        if lost:
            ctx.count("noflag-edge-kind-of-lost-node", "+".join(sorted({c[0]["nodes"][k].kind for k in lost})))
    if cases and essential == 0:
        ctx.broken.append("coverage: no generated graph has a section that is reachable only through an R_X86_64_NONE / TLSLD relocation")

    def nontrivial(l, a, b):
        return "0" in b and b.count("1") >= 2

    ctx.differential("gc", reqs, impl_out=impl, model_out=model, nontrivial=nontrivial)
    # oracles
    for idx, (g, line, flags, d) in enumerate(cases):
        n = len(g["nodes"])
        mode = g["mode"]
        kept = impl[idx]
        replay = {"request": reqs[idx], "mode": mode, "flags": flags, "link_line": [os.path.basename(x) for x in line], "wild_kept": kept, "model_kept": model[idx],
                  "sources": {f"f{f}.s": render_file(g, f) for f in range(g["nfiles"])}, "runtime": "rt.c = vlib/props/c05.py RUNTIME_C (gcc -O1 -ffreestanding -fPIC)",
                  "how": "as the fK.s; wild --gc-sections <flags> -o out <link_line>; nm out | grep n_"}
        if kept.startswith("link-failed"):
            # must also fail without GC / with GNU ld, else GC broke the link
            rc2, _, e2 = lu.link("ld", ["--gc-sections"] + flags + ["-o", os.path.join(d, "out.ld")] + line, cwd=d)
            if rc2 == 0:
                ctx.cov["impl_oracle_failures"] += 1
                ctx.violation("gc-link-failed:" + reqs[idx], f"wild --gc-sections fails to link a program GNU ld links: {kept}", replay)
            continue
        # (1) GNU ld --gc-sections: everything ld keeps must be kept by wild
        rc2, _, e2 = lu.link("ld", ["--gc-sections"] + flags + ["-o", os.path.join(d, "out.ld")] + line, cwd=d)
        if rc2 == 0:
            ld_kept = observe(os.path.join(d, "out.ld"), g)
            replay["ld_kept"] = ld_kept
            missing = [k for k in range(n) if ld_kept[k] == "1" and kept[k] == "0"]
            ctx.count("oracle-ld", "wild-superset" if not missing else "wild-drops-ld-kept")
            if missing:
                ctx.cov["impl_oracle_failures"] += 1
                if mode in ("shared", "pie-export-all") and all(k in startstop_export_closure(g, kept) for k in missing):
                    # GNU ld defines __start_X/__stop_X as soon as ANY input (even a section that is collected) mentions them, gives
                    # them protected visibility and, in outputs that export their globals, treats them as exported: the X sections
                    # become roots. wild only defines them for references from kept sections and exports nothing, so nothing outside
                    # can reach those sections: not a lost reachable section.
                    ctx.count("oracle-ld", "ld-exports-start-stop-symbols")
                elif mode == "undef" and all(k in undef_closure(g, ld_kept) for k in missing):
                    ctx.violation("c05:undefined-option-not-a-root",
                                  f"`-u sym` does not keep sym's section under --gc-sections (GNU ld keeps it): nodes {missing} dropped", replay)
                else:
                    keep = os.path.join(ctx.replay_dir(), f"c05-{idx}")
                    shutil.copytree(d, keep, dirs_exist_ok=True)
                    replay["dir"] = keep
                    ctx.violation("gc-drops:" + reqs[idx], f"wild --gc-sections drops sections {missing} that GNU ld --gc-sections keeps (mode {mode})", replay)
        else:
            ctx.count("oracle-ld", "ld-failed")
        # (2) native: same program with and without GC must behave the same
        if mode != "shared":
            out_ng = os.path.join(d, "out.nogc")
            rc3, _, e3 = lu.link("wild", ["--no-gc-sections"] + flags + ["-o", out_ng] + line, cwd=d)
            if rc3 != 0:
                ctx.count("oracle-native", "nogc-link-failed")
                continue
            a = run_bytes(os.path.join(d, "out.wild"))
            b = run_bytes(out_ng)
            same = (a[0], a[1]) == (b[0], b[1]) and a[0] == 0
            ctx.count("oracle-native", "same" if same else "different")
            if not same:
                ctx.cov["impl_oracle_failures"] += 1
                keep = os.path.join(ctx.replay_dir(), f"c05-{idx}")
                shutil.copytree(d, keep, dirs_exist_ok=True)
                replay["dir"] = keep
                ctx.violation("gc-behaviour:" + reqs[idx], f"program behaves differently with --gc-sections (rc={a[0]}) and --no-gc-sections (rc={b[0]})", replay)
            else:
                # every node the program visited at run time must be in the kept set
                visited = a[1][8:]
                lost = [k for k in range(n) if k < len(visited) and visited[k] and kept[k] == "0"]
                if lost:
                    ctx.cov["impl_oracle_failures"] += 1
                    ctx.violation("gc-visited-but-dropped:" + reqs[idx], f"nodes {lost} were executed but their marker symbols are not in the output", replay)
    for _, _, _, d in cases:
        shutil.rmtree(d, ignore_errors=True)


def undef_closure(g, ld_kept):
    """Nodes reachable (through any edge) from the -u symbols: what `-u` additionally keeps."""
    nodes = g["nodes"]
    seen = set(g["undef"])
    work = list(seen)
    while work:
        k = work.pop()
        nd = nodes[k]
        nxt = [t for _, t in nd.succ]
        for j in nd.sets:
            nxt += [x.id for x in nodes if x.kind == "m" and x.set == j]
        if nd.lsda is not None:
            nxt.append(nd.lsda)
        for t in nxt:
            if t not in seen:
                seen.add(t)
                work.append(t)
    return seen
