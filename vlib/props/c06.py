"""C06 - Output bytes are deterministic."""
import hashlib
import os
import shutil

from .. import linkutil as lu
from .. import runner
from ..elfread import Elf

NEEDS_WILD = True
LEAN_MODULES = ["WildModel.Props.C06"]
THEOREMS = [
    "Wild.Determinism.bucket_fill_schedule_free",
    "Wild.Determinism.bucket_fill_config_free",
    "Wild.Determinism.bucket_order_irrelevant",
    "Wild.Determinism.undefined_canonicalisation_sorted",
    "Wild.Determinism.dynsort_total_of_unique_names",
    "Wild.Determinism.dynsort_counterexample",
    "Wild.Determinism.dynsort_total_with_id",
    "Wild.Determinism.grouping_irrelevant",
    "Wild.Determinism.grouping_partition_free",
    "Wild.StrMerge.split_invisible",
    "Wild.ProtoMerge.bucket_order",
    "Wild.ProtoLayout.terminal_is_closure",
    "Wild.InPlace.Chain.cover",
    "Wild.InPlace.tiles_chain",
    "Wild.InPlace.inplace_covers_all",
]
LEVEL = "proof"
TECHNIQUE = ("Lean 4 theorems: every modelled parallel combination point is a function of its ORDERED inputs (bucket fill, undefined-symbol "
             "canonicalisation, dynamic-symbol sort key, group partition, string-merge and GC protocols) + whole-link byte-identity exploration")
TRUSTED = [
    "hand-written models in lean/WildModel/Props/C06.lean of symbol_db.rs populate_symbol_db / SymbolBucket::add_symbol (bucket b walks the per-group pending "
    "lists in group order), resolution.rs canonicalise_undefined_symbols (sort by descending symbol id), elf.rs create_gnu_hash_layout "
    "(par_sort_unstable_by_key (bucket, unversioned name)), grouping.rs create_groups / layout.rs compute_start_offsets_by_group (prefix sums); read from the "
    "source, not regenerated",
    "PARTIAL BY CONSTRUCTION: the theorems cover the modelled merge points only. Whole-file determinism beyond them (every other parallel loop of the writer, "
    "hash-map iteration anywhere, the build-id hash, in-place update over old contents) is shown only by the exploration in this check: testing in support "
    "of the model's validity, not proof",
    "rayon is modelled as 'tasks run in any order, all finish before the scope returns'; WILD_VERIF_SCHED / WILD_VERIF_SCHED_LAYOUT perturbation hooks "
    "(verif_api/trace.rs, mtrace.rs) delay threads pseudo-randomly",
    "gcc/as/ar to build the inputs; sha256",
]
RULE = ("programs of 9 shapes (static C with libc.a, freestanding asm with many objects/archives, shared library with many exports + version script + "
        "versioned duplicate names, string-merge heavy, TLS, IFUNC, --gc-sections heavy, SysV-hash executable exporting on request of shared objects, input sections of >= 1,000,000 bytes (parallel chunked copy; sizes coprime to the thread counts, exactly at and just below the threshold, one with a relocation, one from an archive; their output bytes are also compared with the input bytes); thorough adds a SysV-hash shared library) x configurations varying only knobs that "
        "must not matter (--threads=1..16, WILD_FILES_PER_GROUP, --wild-experiments, schedule perturbation seeds, prior output file state, --update-in-place); "
        "a case = one (program, configuration) link compared byte-for-byte (sha256) with the program's reference link; all cases non-trivial")
ASSUMPTIONS = ["--build-id=uuid is random by design and excluded", "inputs, argument order and environment other than the listed knobs are fixed"]

WILD_ENV_BASE = {"WILD_FILES_PER_GROUP": None, "WILD_VERIF_SCHED": None, "WILD_VERIF_SCHED_LAYOUT": None}


# ---------------------------------------------------------------- programs
def gcc_static_line(d):
    """crt files / library search path of `gcc -static`, taken from `gcc -###`."""
    o = lu.cc_obj(d, "probe", "int main(void){return 0;}\n")
    rc, out, err = lu.run(["gcc", "-###", "-static", o, "-o", os.path.join(d, "probe.out")])
    for line in err.split("\n"):
        if "collect2" in line or "/ld" in line.split(" ")[0:2].__str__():
            toks = [t.strip('"') for t in line.strip().split(" ")]
            pre, post, libdirs = [], [], []
            seen_obj = False
            for t in toks[1:]:
                if t.startswith("-L"):
                    libdirs.append(t)
                elif t.endswith(".o") and t != o:
                    (post if seen_obj else pre).append(t)
                elif t == o:
                    seen_obj = True
            if pre and post:
                return pre, libdirs, post
    return None


def prog_static_c(d, r, scale):
    line = gcc_static_line(d)
    if line is None:
        return None
    pre, libdirs, post = line
    objs = []
    for k in range(3 * scale):
        src = f"""
#include <stdio.h>
#include <string.h>
#include <stdlib.h>
__thread int tls_{k} = {k + 1};
const char *msg_{k}(void) {{ return "message number {k % 4}"; }}
int work_{k}(int x) {{ char b[64]; snprintf(b, sizeof b, "%s-%d", msg_{k}(), x + tls_{k}); return (int)strlen(b) + atoi("{k}"); }}
"""
        objs.append(lu.cc_obj(d, f"w{k}", src, flags=["-O1", "-ffunction-sections"]))
    calls = " + ".join(f"work_{k}(argc)" for k in range(3 * scale))
    decl = "".join(f"int work_{k}(int);" for k in range(3 * scale))
    objs.insert(0, lu.cc_obj(d, "main", f'#include <stdio.h>\n{decl}\nint main(int argc, char **argv) {{ printf("%d\\n", {calls}); return 0; }}\n', flags=["-O1"]))
    return ["-static", "--hash-style=gnu"] + pre + libdirs + objs + ["--start-group", "-lgcc", "-lgcc_eh", "-lc", "--end-group"] + post


def asm_unit(k, n_units, r, merge=False, tls=False, ifunc=False, sections=False):
    out = [f"    .text\n    .globl fn_{k}\n    .type fn_{k},@function\nfn_{k}:\n"]
    for _ in range(r.range(1, 3)):
        out.append(f"    call fn_{r.below(n_units)}\n")
    out.append("    ret\n")
    out.append(f"    .data\n    .globl dat_{k}\ndat_{k}:\n    .quad fn_{r.below(n_units)}\n    .quad dat_{r.below(n_units)}\n")
    if merge:
        out.append('    .section .rodata.str1.1,"aMS",@progbits,1\n')
        for j in range(r.range(3, 12)):
            out.append(f'.Ls_{k}_{j}:\n    .string "str-{r.below(40)}-{"x" * r.below(20)}"\n')
        out.append(f"    .data\n    .quad .Ls_{k}_0\n    .quad .Ls_{k}_1 + 2\n")
        out.append('    .section .rodata.cst8,"aM",@progbits,8\n' + f"    .quad {r.below(6)}\n    .quad {r.below(6)}\n")
    if tls:
        out.append(f'    .section .tdata,"awT",@progbits\n    .globl tv_{k}\ntv_{k}:\n    .long {k}\n'
                   f'    .section .tbss,"awT",@nobits\n    .globl tb_{k}\ntb_{k}:\n    .zero {4 * r.range(1, 5)}\n'
                   f"    .text\n    movq %fs:0, %rax\n    leaq tv_{r.below(n_units)}@tpoff(%rax), %rdx\n    movq tb_{k}@gottpoff(%rip), %rcx\n")
    if ifunc:
        out.append(f"    .text\n    .globl if_{k}\n    .type if_{k},@gnu_indirect_function\nif_{k}:\n    lea fn_{k}(%rip), %rax\n    ret\n"
                   f"    call if_{r.below(n_units)}@PLT\n    .data\n    .quad if_{k}\n")
    if sections:
        for j in range(r.range(2, 8)):
            out.append(f'    .section .text.s_{k}_{j},"ax",@progbits\n    .globl s_{k}_{j}\ns_{k}_{j}:\n')
            if r.chance(1, 2):
                out.append(f"    call s_{r.below(n_units)}_{0}\n")
            out.append("    ret\n")
        out.append(f"    .text\n    call s_{k}_0\n")
    return "".join(out)


def build_asm_program(d, r, n_units, n_archives, **kw):
    objs = []
    for k in range(n_units):
        objs.append(lu.asm_obj(d, f"u{k}", asm_unit(k, n_units, r, **kw)))
    start = lu.asm_obj(d, "start", "    .text\n    .globl _start\n_start:\n    call fn_0\n" + "".join(f"    call fn_{k}\n" for k in range(0, n_units, 3)) +
                       "    mov $60, %eax\n    xor %edi, %edi\n    syscall\n")
    per = max(1, n_units // (n_archives + 1))
    line = [start] + objs[:per]
    rest = objs[per:]
    for a in range(n_archives):
        chunk = rest[a * per:(a + 1) * per] if a < n_archives - 1 else rest[a * per:]
        if not chunk:
            continue
        p = os.path.join(d, f"libu{a}.a")
        lu.archive(p, chunk)
        line.append(p)
    return line


def prog_asm_many(d, r, scale):
    return ["--no-gc-sections"] + build_asm_program(d, r, 14 * scale, 3)


def prog_strmerge(d, r, scale):
    return ["-pie"] + build_asm_program(d, r, 12 * scale, 1, merge=True)


def prog_tls(d, r, scale):
    return build_asm_program(d, r, 8 * scale, 1, tls=True)


def prog_ifunc(d, r, scale):
    return r.choice([[], ["-pie"]]) + build_asm_program(d, r, 6 * scale, 1, ifunc=True)


def prog_gc(d, r, scale):
    return ["--gc-sections"] + build_asm_program(d, r, 12 * scale, 2, sections=True)


def shared_units(d, r, n_units, versioned):
    objs = []
    for k in range(n_units):
        t = [f"    .text\n"]
        for j in range(r.range(4, 12)):
            t.append(f"    .globl exp_{k}_{j}\n    .type exp_{k}_{j},@function\nexp_{k}_{j}:\n    call exp_{r.below(n_units)}_0@PLT\n    ret\n")
        t.append(f"    .globl loc_{k}\nloc_{k}:\n    ret\n    .data\n    .globl var_{k}\n    .type var_{k},@object\nvar_{k}:\n    .quad exp_{k}_0\n    .size var_{k},8\n")
        if versioned:
            # two versions of the same name, defined in DIFFERENT files: dup_<m>@V1 here, dup_<m>@@V2 in the next unit
            m = k // 2
            if k % 2 == 0:
                t.append(f"    .text\n    .globl dup_old_{m}\ndup_old_{m}:\n    ret\n    .symver dup_old_{m}, dup_{m}@V1\n")
            else:
                t.append(f"    .text\n    .globl dup_new_{m}\ndup_new_{m}:\n    nop\n    ret\n    .symver dup_new_{m}, dup_{m}@@V2\n")
        objs.append(lu.asm_obj(d, f"s{k}", "".join(t)))
    return objs


def prog_shared_versions(d, r, scale):
    n = 10 * scale
    n -= n % 2
    objs = shared_units(d, r, n, True)
    vs = lu.write(os.path.join(d, "vs.map"), "V1 { global: exp_*; var_*; dup_*; local: loc_*; };\nV2 { global: dup_*; } V1;\n")
    return ["-shared", f"--version-script={vs}", "-soname", "libdet.so"] + objs


def prog_shared_sysv(d, r, scale):
    objs = shared_units(d, r, 10 * scale, False)
    return ["-shared", "--hash-style=sysv", "-soname", "libsysv.so"] + objs


def prog_exe_sysv_requests(d, r, scale):
    """Dynamically linked executable without .gnu.hash whose definitions are exported only because shared
    objects reference them: the export requests cross work groups, so their arrival order is schedule dependent."""
    n, m = 12 * scale, 6
    objs = [lu.asm_obj(d, f"cb{k}", "    .text\n" + "".join(f"    .globl cb_{k}_{j}\n    .type cb_{k}_{j},@function\ncb_{k}_{j}:\n    ret\n" for j in range(m)))
            for k in range(n)]
    sos = []
    for L in range(3):
        o = lu.asm_obj(d, f"l{L}", f"    .text\n    .globl lib{L}\nlib{L}:\n" +
                       "".join(f"    call cb_{k}_{j}@PLT\n" for k in range(n) for j in range(m) if (k + j + L) % 3 == 0) + "    ret\n")
        so = os.path.join(d, f"libl{L}.so")
        rc, out, err = lu.link("ld", ["-shared", "-o", so, "-soname", f"libl{L}.so", o])
        if rc != 0:
            raise RuntimeError(err)
        sos.append(so)
    st = lu.asm_obj(d, "st", "    .text\n    .globl _start\n_start:\n    call lib0@PLT\n    call lib1@PLT\n    call lib2@PLT\n    mov $60, %eax\n    syscall\n")
    return ["--hash-style=sysv", "--no-gc-sections", st] + objs + sos


def prog_big_sections(d, r, scale):
    """Input sections at and above 1,000,000 bytes (file_writer.rs copy_section_data copies those in parallel chunks of len / threads bytes): sizes
    coprime to every small thread count, exactly the threshold, and just below it; non-periodic pseudo-random bytes that are non-zero up to the very end
    of each section; one of the big sections carries a relocation and one comes out of an archive. Returns (arguments, verifier): the verifier compares
    the bytes of every big symbol in an output with the input bytes."""
    def odd_size(lo, hi):
        while True:
            n = r.range(lo, hi)
            if all(n % q for q in (2, 3, 5, 7, 11, 13)):
                return n
    plan = [("big_ro", ".rodata", "a", 1_000_003, False),
            ("big_rw", ".data", "aw", odd_size(1_000_000, 1_000_000 + 300_000 * scale), True),
            ("big_edge", ".rodata.edge", "a", 1_000_000, False),
            ("big_below", ".data.below", "aw", 999_999, False),
            ("big_arch", ".rodata.arch", "a", odd_size(1_000_000, 1_000_000 + 1_000_000 * scale), False)]
    objs, expect = [], {}
    for k, (sym, sec, fl, n, with_reloc) in enumerate(plan):
        body = bytearray(hashlib.shake_128(r.next().to_bytes(8, "little")).digest(n))
        for i in range(max(0, n - 64), n):     # the tail is what a short copy loses: keep every byte of it non-zero
            body[i] = body[i] or (i % 255) + 1
        binp = os.path.join(d, f"tab{k}.bin")
        with open(binp, "wb") as f:
            f.write(body)
        skip = 8 if with_reloc else 0
        expect[sym] = (n, skip, bytes(body[skip:]))
        src = (f'    .section {sec},"{fl}",@progbits\n    .globl {sym}\n    .type {sym},@object\n{sym}:\n' +
               (f"    .quad fn_0\n    .incbin \"{binp}\", 8\n" if with_reloc else f'    .incbin "{binp}"\n') + f"    .size {sym}, . - {sym}\n")
        objs.append(lu.asm_obj(d, f"big{k}", src))
    arch = lu.archive(os.path.join(d, "libbig.a"), [objs.pop()])
    line = build_asm_program(d, r, 6 * scale, 1)
    use = lu.asm_obj(d, "use", "    .text\n    .globl use_big\nuse_big:\n" + "".join(f"    lea {p[0]}(%rip), %rax\n" for p in plan) + "    ret\n"
                     "    .section .init_array,\"aw\"\n    .quad use_big\n")

    def verify(out_path):
        e = Elf(out_path)
        syms = {y.name: y for y in e.symtab()}
        bad = []
        for sym, (n, skip, want) in expect.items():
            y = syms.get(sym)
            if y is None or y.size != n:
                bad.append((sym, n, -1, f"symbol missing or st_size {getattr(y, 'size', None)} != {n}"))
                continue
            got = e.read(y.value + skip, n - skip)
            if got != want:
                i = next(j for j in range(len(want)) if got[j] != want[j])
                bad.append((sym, n, i + skip, f"{sum(1 for j in range(len(want)) if got[j] != want[j])} bytes differ from the input section, first at +{i + skip} "
                                             f"(input 0x{want[i]:02x}, output 0x{got[i]:02x})"))
        return bad
    return ["--no-gc-sections"] + r.choice([[], ["-pie"]]) + line[:1] + [use] + objs + line[1:] + [arch], verify


SHAPES = [("static-c", prog_static_c), ("asm-many", prog_asm_many), ("shared-versions", prog_shared_versions), ("strmerge", prog_strmerge),
          ("tls", prog_tls), ("ifunc", prog_ifunc), ("gc-heavy", prog_gc), ("exe-sysv-requests", prog_exe_sysv_requests),
          ("big-sections", prog_big_sections), ("shared-sysv", prog_shared_sysv)]
BUILD_IDS = ["--build-id=fast", "--build-id=sha1", "--build-id=none", "--build-id=0x0123456789abcdef", "--build-id=md5"]


# ---------------------------------------------------------------- configurations
def fixed_configs(r):
    s = lambda: str(r.below(1 << 30) + 1)
    return [
        {"threads": 1, "prior": "absent"},
        {"threads": 2, "fpg": 1, "prior": "shorter"},
        {"threads": 3, "fpg": 2, "prior": "longer", "inplace": True},
        {"threads": 4, "fpg": 7, "exp": "1,4096,1,1", "prior": "identical", "inplace": True},
        {"threads": 4, "prior": "longer", "mode": "default"},
        {"threads": 1, "prior": "longer", "mode": "default"},
        {"threads": 8, "sched": s(), "prior": "absent"},
        {"threads": 16, "sched_layout": s(), "exp": "8,65536,3,2", "prior": "longer"},
        {"threads": 16, "prior": "shorter", "inplace": True},
        {"threads": 5, "fpg": 1, "sched": s(), "exp": "2,_,1,300", "prior": "absent"},
        {"threads": 12, "exp": "_,1,_,_", "prior": "identical"},
        {"threads": 7, "sched": s(), "prior": "absent"},
        {"threads": 16, "fpg": 2, "sched": s(), "prior": "longer", "inplace": True},
        {"threads": 2, "exp": "1,_,50,1", "prior": "absent"},
        {"threads": 6, "prior": "shorter", "mode": "default"},
    ]


def random_config(r):
    c = {"threads": r.range(1, 16), "prior": r.choice(["absent", "shorter", "longer", "identical"]), "inplace": r.chance(1, 2)}
    if r.chance(1, 3):
        c["mode"] = "default"
    if r.chance(1, 2):
        c["fpg"] = r.choice([1, 2, 7, 3, 64])
    if r.chance(1, 2):
        c["exp"] = ",".join(r.choice(["_", str(v)]) for v in (r.range(1, 16), r.choice([1, 4096, 65536, 1 << 20]), r.range(1, 50), r.range(1, 400)))
    k = r.below(4)
    if k == 0:
        c["sched"] = str(r.below(1 << 30) + 1)
    elif k == 1:
        c["sched_layout"] = str(r.below(1 << 30) + 1)
    return c


def cfg_str(c):
    return " ".join(f"{k}={v}" for k, v in sorted(c.items()))


def sha(path):
    with open(path, "rb") as f:
        return hashlib.sha256(f.read()).hexdigest()


def first_diff(a_path, b_path):
    a = open(a_path, "rb").read()
    b = open(b_path, "rb").read()
    n = min(len(a), len(b))
    off = next((i for i in range(n) if a[i] != b[i]), n)
    ndiff = sum(1 for i in range(n) if a[i] != b[i]) + abs(len(a) - len(b))
    sec = "?"
    try:
        e = Elf(a_path)

        def where(o):
            hits = [x.name for x in e.sections if x.type != 8 and x.offset <= o < x.offset + x.size]
            return hits[0] if hits else ("section-headers" if e.e_shoff <= o < e.e_shoff + 64 * len(e.sections) else
                                         ("program-headers" if o < 64 + e.e_phnum * 56 else "padding"))
        secs = []
        i = off
        while i < n and len(secs) < 6:
            if a[i] != b[i]:
                w = where(i)
                if w not in secs:
                    secs.append(w)
                # skip to the end of this section
                nxt = [x.offset + x.size for x in e.sections if x.type != 8 and x.offset <= i < x.offset + x.size]
                i = max(nxt + [i + 1])
            else:
                i += 1
        sec = ",".join(secs) if secs else where(off)
    except Exception as ex:
        sec = f"unreadable ({ex})"
    return off, sec, ndiff, len(a), len(b)


def link(d, base_args, c, out, ref_out, r):
    """Prepare the prior state of `out`, run wild under configuration c."""
    if os.path.exists(out):
        os.unlink(out)
    prior = c.get("prior", "absent")
    if prior == "shorter":
        with open(out, "wb") as f:
            f.write(bytes(r.below(256) for _ in range(100)))
    elif prior == "longer":
        size = os.path.getsize(ref_out) + (1 << 20)
        seed = r.next()
        with open(out, "wb") as f:
            f.write(hashlib.shake_128(seed.to_bytes(8, "little")).digest(size))
    elif prior == "identical":
        shutil.copyfile(ref_out, out)
    if prior != "absent":
        os.chmod(out, 0o755)
    env = {}
    if "fpg" in c:
        env["WILD_FILES_PER_GROUP"] = str(c["fpg"])
    if "sched" in c:
        env["WILD_VERIF_SCHED"] = c["sched"]
    if "sched_layout" in c:
        env["WILD_VERIF_SCHED_LAYOUT"] = c["sched_layout"]
    args = [f"--threads={c['threads']}"]
    if "exp" in c:
        args.append(f"--wild-experiments={c['exp']}")
    if c.get("mode") != "default":      # "default": neither flag, wild picks the write mode itself (in place for existing executables)
        args.append("--update-in-place" if c.get("inplace") else "--no-update-in-place")
    e = {k: v for k, v in os.environ.items() if k not in WILD_ENV_BASE}
    e.update(env)
    import subprocess
    p = subprocess.run([lu.wild_path()] + args + base_args + ["-o", out], cwd=d, env=e, stdout=subprocess.PIPE, stderr=subprocess.PIPE, timeout=600)
    return p.returncode, p.stderr.decode("utf-8", "replace"), env, args


def run(ctx):
    r = ctx.rng
    n_prog = 9 if ctx.quick else 60
    n_cfg = 14 if ctx.quick else 60
    configs0 = fixed_configs(r)
    linked = 0
    for pi in range(n_prog):
        shape, fn = SHAPES[pi % len(SHAPES)]
        scale = 1 if ctx.quick else 1 + (pi // len(SHAPES)) % 4
        d = os.path.join(ctx.scratch, f"p{pi}")
        os.makedirs(d, exist_ok=True)
        pr = r.fork()
        try:
            base = fn(d, pr, scale)
        except RuntimeError as ex:
            ctx.count("gen", f"build-failed:{shape}")
            ctx.sample({"build-failed": shape, "why": str(ex)[:200]})
            continue
        if base is None:
            ctx.count("gen", f"unavailable:{shape}")
            continue
        verify = None
        if isinstance(base, tuple):
            base, verify = base
        bid = BUILD_IDS[(pi // len(SHAPES) + pi) % len(BUILD_IDS)] if not ctx.quick else BUILD_IDS[pi % 3]
        base = [bid] + base
        ctx.count("shape", shape)
        ctx.count("build-id", bid.split("=")[1][:4])
        configs = configs0[:n_cfg] if ctx.quick else configs0 + [random_config(pr) for _ in range(n_cfg - len(configs0))]
        ref = os.path.join(d, "ref.out")
        rc, err, _, _ = link(d, base, configs[0], ref, None, pr)
        if rc != 0:
            ctx.count("gen", f"reference-link-failed:{shape}")
            ctx.sample({"reference-link-failed": shape, "stderr": err[:300]})
            # a program wild cannot link says nothing about determinism, but an unlinkable quick program would silently shrink the check
            ctx.broken.append(f"exploration: reference link of program shape {shape} failed: {err.strip().splitlines()[0][:200] if err.strip() else rc}")
            continue
        ref_sha = sha(ref)
        ctx.note_case((pi, "ref"))

        def check_content(path, c, env, args, tag):
            for sym, n, at, why in (verify(path) if verify else []):
                ctx.cov["impl_oracle_failures"] += 1
                kd = os.path.join(ctx.replay_dir(), f"c06-{ctx.seed}-{pi}-{tag}-content")
                shutil.copytree(d, kd, dirs_exist_ok=True)
                ctx.violation(f"section-content-differs-from-input:{shape}:{'large' if n >= 1_000_000 else 'small'}",
                              f"{shape}: bytes of {sym} ({n} byte input section) in the output linked with [{cfg_str(c)}] are not the input bytes: {why}",
                              {"shape": shape, "base_args": base, "config": c, "env": env, "wild_args": args, "dir": kd, "symbol": sym, "section_size": n,
                               "first_bad_offset_in_section": at, "how": "cd <dir>; run wild with <wild_args> <base_args> -o cur.out under <env>; compare the "
                               "bytes at symbol <symbol> with tab<k>.bin"})
            if verify:
                ctx.count("content", "big-section-bytes-compared-with-input")
        check_content(ref, configs[0], {}, [], "ref")
        for ci, c in enumerate(configs[1:], 1):
            out = os.path.join(d, "cur.out")
            rc, err, env, args = link(d, base, c, out, ref, pr)
            linked += 1
            ctx.note_case((pi, cfg_str(c)))
            ctx.count("threads", str(c["threads"]))
            ctx.count("prior", c.get("prior", "absent") + ("+inplace" if c.get("inplace") else ""))
            for k in ("fpg", "exp", "sched", "sched_layout"):
                if k in c:
                    ctx.count("knob", k)
            if rc != 0:
                ctx.cov["impl_oracle_failures"] += 1
                ctx.violation(f"link-fails-under-config:{shape}", f"the same link succeeds with {cfg_str(configs[0])} but fails with {cfg_str(c)}: {err.strip()[:200]}",
                              {"shape": shape, "base_args": base, "config": c, "env": env, "args": args, "stderr": err[:1000]})
                continue
            h = sha(out)
            check_content(out, c, env, args, ci)
            if h != ref_sha:
                ctx.cov["impl_oracle_failures"] += 1
                off, sec, ndiff, la, lb = first_diff(ref, out)
                kd = os.path.join(ctx.replay_dir(), f"c06-{ctx.seed}-{pi}-{ci}")
                shutil.copytree(d, kd, dirs_exist_ok=True)
                key = f"nondeterministic:{shape}:{sec.split(',')[0]}"
                ctx.violation(key, f"output bytes differ for the same inputs and arguments ({shape}): reference [{cfg_str(configs[0])}] vs [{cfg_str(c)}]; "
                                   f"first difference at file offset 0x{off:x} in {sec}; {ndiff} bytes differ; sizes {la}/{lb}",
                              {"shape": shape, "base_args": base, "reference_config": configs[0], "config": c, "env": env, "wild_args": args, "dir": kd,
                               "first_diff_offset": off, "section": sec, "ref_sha256": ref_sha, "sha256": h,
                               "how": "cd <dir>; run wild with <wild_args> <base_args> -o cur.out under <env>; cmp ref.out cur.out"})
        shutil.rmtree(d, ignore_errors=True)
    ctx.cov["links_compared"] = linked
    ctx.sample({"exploration": f"{linked} links compared byte-for-byte with their program's reference link"})
