"""C07 - String merging preserves every referenced string."""
import os
import re
import struct
import subprocess

from vlib import runner

NEEDS_WILD = True
LEAN_MODULES = ["WildModel.Props.C07"]
THEOREMS = [
    "Wild.StrMerge.skip_boundary",
    "Wild.StrMerge.processSection_mem",
    "Wild.StrMerge.merge_unterminated_error",
    "Wild.StrMerge.merge_error_unterminated_iff",
    "Wild.StrMerge.each_string_in_output",
    "Wild.StrMerge.each_string_once",
    "Wild.StrMerge.merge_preserves_cstr",
    "Wild.StrMerge.section_symbol_reference",
    "Wild.StrMerge.named_symbol_reference",
    "Wild.StrMerge.split_invisible",
    "Wild.StrMerge.splitSections_valid",
]
LEVEL = "proof"
TRUSTED = [
    "hand-written model lean/WildModel/Model/StrMerge.lean of libwild/src/string_merging.rs (split_sections, process_input_section, add_string, "
    "bucket offsets, find_string, get_merged_string_output_address), tied by the differential correspondences sm-split / sm-merge (full offset map, "
    "bucket bytes, bucket offsets, find_string answers) and by whole links",
    "OffsetMap (crate sharded-offset-map) + overflow HashMap abstracted as one finite map; per-bucket HashMap<string,offset> abstracted as "
    "'offset of first occurrence'; BucketOffset u32 packing modelled as a pair (carry of offset+i into bucket bits needs >256 MiB in a bucket)",
    "hash function is a parameter h of the model (theorems hold for every h and every bucket count > 0); the correspondence passes the real "
    "hash_bytes(s) % 16 to the model as a table",
    "schedule not modelled here (C40): groups are consumed by every bucket in index order",
    "whole-link tie: assembler (as), readelf-free ELF reader in this file, GNU ld 2.40 as reference for the meaning of both reference styles",
]
RULE = ("in-process: generated section lists over a 4-letter alphabet (duplicates, shared suffixes, empty strings, strings longer than the group size, "
        "NUL runs > 12 per block, non-string merge sections, unterminated sections) x group sizes {1..1024,140000} x threads; a case is non-trivial if it has "
        ">= 2 groups or a mid-string query; distinct by request text. whole-link: generated assembly programs; every relocated pointer is a case.")
ASSUMPTIONS = [
    "sections reaching string merging are non-empty (resolution.rs discards empty merge sections) and have alignment <= 1 (part_id::should_merge_sections)",
    "named-symbol references: the property is stated for addends that stay inside the string the symbol points into (GNU ld agrees outside, checked by the oracle)",
]

ALPHA = [0x61, 0x62, 0x63]


# ------------------------------------------------------------------ generators
def gen_string_section(r, maxlen):
    """bytes of a string section: short strings, duplicates, shared suffixes, empties, NUL runs, a few long strings."""
    out = bytearray()
    pool = [bytes(r.choice(ALPHA) for _ in range(r.range(0, 4))) for _ in range(6)]
    target = r.range(1, maxlen)
    while len(out) < target:
        k = r.below(10)
        if k < 5:
            s = r.choice(pool)
        elif k == 5:
            s = r.choice(pool)
            s = s[r.below(len(s) + 1):]           # shared suffix
        elif k == 6:
            s = b""                               # empty string
        elif k == 7:
            out += b"\0" * r.range(2, 20)         # NUL run: > 12 keys per 256-byte block
            continue
        elif k == 8:
            s = bytes(r.choice(ALPHA) for _ in range(r.choice([200, 255, 256, 257, 300, 520, 700])))  # straddles group boundaries
        else:
            s = bytes(r.choice(ALPHA) for _ in range(r.range(1, 12)))
        out += s + b"\0"
    return bytes(out)


def gen_sections(r, maxlen):
    secs = []
    for _ in range(r.range(1, 5)):
        if r.chance(1, 8):
            n = r.choice([1, 8, 255, 256, 257, 300])
            secs.append(("N", bytes(r.choice(ALPHA + [0]) for _ in range(n))))
        else:
            d = gen_string_section(r, maxlen)
            if r.chance(1, 3):
                # land the end exactly on / around a block boundary
                want = r.choice([256, 512, 255, 257, 511, 513])
                if len(d) > want:
                    d = d[:want - 1] + b"\0"
            secs.append(("S", d))
    return secs


def split_strings(kind, data):
    """Independent scanner: (offset, bytes incl NUL) for every terminated string; second value: terminated?"""
    if kind == "N":
        return [(0, data)], True
    res, p = [], 0
    while p < len(data):
        q = data.find(b"\0", p)
        if q < 0:
            return res, False
        res.append((p, data[p:q + 1]))
        p = q + 1
    return res, True


def cstr(buf, o):
    if o < 0 or o >= len(buf):
        return None
    q = buf.find(b"\0", o)
    return None if q < 0 else buf[o:q + 1]


def enc_secs(secs):
    return ",".join(f"{k}:{d.hex()}" for k, d in secs)


def gen_case(r, unterminated):
    secs = gen_sections(r, r.choice([40, 300, 700, 1500]))
    if unterminated:
        idx = [i for i, (k, _) in enumerate(secs) if k == "S"]
        if not idx:
            secs.append(("S", b"ab\0c"))
            idx = [len(secs) - 1]
        i = r.choice(idx)
        k, d = secs[i]
        d = d.rstrip(b"\0") + bytes(r.choice(ALPHA) for _ in range(r.range(1, 3)))
        secs[i] = (k, d)
    gb = r.choice([1, 256, 256, 256, 257, 512, 512, 768, 1024, 140000])
    par = r.range(1, 4)
    thr = r.range(1, 4)
    queries = []
    for si, (k, d) in enumerate(secs):
        for _ in range(r.range(1, 6)):
            o = r.below(len(d))
            style = r.below(4)
            if style == 0:
                queries.append((si, 0, o, "s"))                       # section symbol + offset
            elif style == 1:
                v = r.below(o + 1)
                queries.append((si, v, o - v, "s"))                   # unnamed symbol with value
            elif style == 2:
                queries.append((si, o, 0, "n"))                       # named symbol at o
            else:
                nxt = d.find(b"\0", o)
                end = nxt if (nxt >= 0 and k == "S") else len(d) - 1
                a = r.range(0, max(0, end - o))
                if r.chance(1, 4) and o > 0:
                    a = -r.range(0, min(o, 3))                        # negative addend (may cross a string start)
                queries.append((si, o, a, "n"))
    return secs, gb, par, thr, queries


# ------------------------------------------------------------------ in-process correspondence
def inprocess(ctx):
    r = ctx.rng.fork()
    n = 3000 if ctx.quick else 60000
    cases = []
    for i in range(n):
        cases.append(gen_case(r, unterminated=(i % 9 == 8)))
    # bucket table from the real hash
    strings = set()
    for secs, *_ in cases:
        for k, d in secs:
            ss, _ok = split_strings(k, d)
            for _, s in ss:
                strings.add(s)
    strings = sorted(strings)
    outs = ctx.impl_eval([f"sm-bucket {s.hex()}" for s in strings])
    if len(outs) != len(strings):
        raise runner.BuildError("wvh sm-bucket failed")
    bucket = {s: int(o) for s, o in zip(strings, outs)}
    for b in bucket.values():
        ctx.count("bucket", str(b))
    lines, meta = [], []
    for secs, gb, par, thr, queries in cases:
        tab = {}
        for k, d in secs:
            for _, s in split_strings(k, d)[0]:
                tab[s] = bucket[s]
        t = ",".join(f"{s.hex()}={b}" for s, b in sorted(tab.items())) or "-"
        q = ",".join(f"{si}:{v}:{a}:{st}" for si, v, a, st in queries) or "-"
        lines.append(f"sm-merge {gb} {par} {thr} {enc_secs(secs)} {t} {q}")
        meta.append((secs, gb, queries))
        lines.append(f"sm-split {gb} {enc_secs(secs)}")
        meta.append(None)

    def nontrivial(l, a, b):
        if l.startswith("sm-split"):
            return ";" in a
        return True

    dis, impl, model = ctx.differential("sm", lines, nontrivial=nontrivial)
    # independent oracle of the property on the implementation's answers
    for l, o, m in zip(lines, impl, meta):
        if m is None:
            ctx.count("groups", str(min(o.count(";") + 1, 8)))
            continue
        secs, gb, queries = m
        term = all(split_strings(k, d)[1] for k, d in secs)
        if not term:
            ctx.count("result", "unterminated")
            if o != "err unterminated":
                ctx.cov["impl_oracle_failures"] += 1
                ctx.violation("inproc:unterminated-accepted", f"unterminated string section not rejected: {o[:80]}",
                              {"request": l, "observed": o, "how": "echo '<request>' | /verif/.target/wvh/debug/wvh"})
            continue
        if not o.startswith("ok "):
            ctx.cov["impl_oracle_failures"] += 1
            ctx.violation("inproc:spurious-error", f"valid merge input rejected/crashed: {o[:80]}",
                          {"request": l, "observed": o, "how": "echo '<request>' | /verif/.target/wvh/debug/wvh"})
            continue
        ctx.count("result", "ok")
        f = dict(p.split("=", 1) for p in o[3:].split(" "))
        out = b"".join(bytes.fromhex(x) if x != "-" else b"" for x in f["bytes"].split(","))
        # (i) every distinct string occurs, and exactly once as a whole entry (dedup)
        want = set()
        for k, d in secs:
            for _, s in split_strings(k, d)[0]:
                want.add(s)
        if len(out) != sum(len(s) for s in want):
            ctx.cov["impl_oracle_failures"] += 1
            ctx.violation("inproc:dedup-size", f"output size {len(out)} != total size of distinct strings {sum(len(s) for s in want)}",
                          {"request": l, "observed": o})
        for s in want:
            if out.find(s) < 0:
                ctx.cov["impl_oracle_failures"] += 1
                ctx.violation("inproc:string-missing", f"string {s!r} missing from merged output", {"request": l, "observed": o})
                break
        # (ii) every query
        ans = f["q"].split(",") if f["q"] != "-" else []
        for (si, v, a, st), x in zip(queries, ans):
            k, d = secs[si]
            tgt = v + a
            if k == "N":
                continue
            if st == "n":
                # property region: addend stays inside the string that contains v
                lo_ = d.rfind(b"\0", 0, v) + 1
                hi_ = d.find(b"\0", v)
                if not (lo_ <= tgt <= hi_):
                    ctx.count("query", "named-outside-string")
                    continue
            ctx.count("query", "named" if st == "n" else "section")
            exp = cstr(d, tgt)
            got = cstr(out, int(x, 16)) if not x.startswith("e:") else None
            if got != exp:
                ctx.cov["impl_oracle_failures"] += 1
                ctx.violation("inproc:wrong-string", f"reference sec={si} value={v} addend={a} style={st}: input string {exp!r}, output string {got!r}",
                              {"request": l, "observed": o, "query": [si, v, a, st], "how": "echo '<request>' | /verif/.target/wvh/debug/wvh"})
                break


# ------------------------------------------------------------------ whole links
class Elf:
    """Minimal independent ELF64-LE reader: sections, symtab, RELA."""

    def __init__(self, path):
        self.b = open(path, "rb").read()
        b = self.b
        assert b[:4] == b"\x7fELF" and b[4] == 2 and b[5] == 1, "not ELF64 LE"
        shoff, = struct.unpack_from("<Q", b, 0x28)
        shentsize, shnum, shstrndx = struct.unpack_from("<HHH", b, 0x3A)
        raw = []
        for i in range(shnum):
            name, typ, flags, addr, off, size, link, info, align, entsize = struct.unpack_from("<IIQQQQIIQQ", b, shoff + i * shentsize)
            raw.append(dict(name_off=name, type=typ, flags=flags, addr=addr, off=off, size=size, link=link, info=info, entsize=entsize, idx=i))
        strtab = raw[shstrndx]
        for s in raw:
            s["name"] = self._str(strtab["off"], s["name_off"])
        self.sections = raw
        self.symbols = []
        for s in raw:
            if s["type"] == 2:  # SHT_SYMTAB
                st = raw[s["link"]]
                for j in range(s["size"] // 24):
                    n, info, other, shndx, value, size = struct.unpack_from("<IBBHQQ", b, s["off"] + j * 24)
                    self.symbols.append(dict(name=self._str(st["off"], n), info=info, shndx=shndx, value=value, size=size))

    def _str(self, base, off):
        e = self.b.index(b"\0", base + off)
        return self.b[base + off:e].decode("latin1")

    def data(self, sec):
        return b"" if sec["type"] == 8 else self.b[sec["off"]:sec["off"] + sec["size"]]

    def relas(self, target_idx):
        out = []
        for s in self.sections:
            if s["type"] == 4 and s["info"] == target_idx:
                for j in range(s["size"] // 24):
                    off, info, addend = struct.unpack_from("<QQq", self.b, s["off"] + j * 24)
                    out.append((off, info >> 32, info & 0xffffffff, addend))
        return out

    def sym(self, name):
        for s in self.symbols:
            if s["name"] == name:
                return s
        return None

    def read_at(self, vaddr, n):
        for s in self.sections:
            if s["addr"] and s["type"] != 8 and s["addr"] <= vaddr < s["addr"] + s["size"] and (s["flags"] & 2):
                o = s["off"] + (vaddr - s["addr"])
                return self.b[o:min(o + n, s["off"] + s["size"])]
        return None

    def cstr_at(self, vaddr):
        for s in self.sections:
            if s["addr"] and s["type"] != 8 and s["addr"] <= vaddr < s["addr"] + s["size"] and (s["flags"] & 2):
                buf = self.b[s["off"]:s["off"] + s["size"]]
                return cstr(buf, vaddr - s["addr"])
        return None


def asm_bytes(bs):
    return ".byte " + ",".join(str(x) for x in bs)


def gen_program(r, big, unterminated):
    """Returns list of (asm text) per object. Section symbol, .L-label and named-label references, .quad and lea."""
    nobj = r.range(1, 3)
    pool = [bytes(r.choice(ALPHA) for _ in range(r.range(0, 5))) for _ in range(8)]
    objs = []
    for o in range(nobj):
        lines = []
        refs = []
        leas = []
        nsec = r.range(1, 3)
        for k in range(nsec):
            sname = f".rodata.k{o}x{k}.str1.1"
            lines.append(f'.section {sname},"aMS",@progbits,1')
            off = 0
            n = r.range(2, 40)
            if big and o == 0 and k == 0:
                n = 40000                       # > 140000 bytes: split with the DEFAULT group size
            for i in range(n):
                c = r.below(12)
                if big and o == 0 and k == 0 and c > 2:
                    body = b"w%d" % r.below(6000)
                elif c < 5:
                    body = r.choice(pool)
                elif c == 5:
                    body = r.choice(pool)
                    body = body[r.below(len(body) + 1):]
                elif c == 6:
                    body = b""
                elif c == 7:
                    body = bytes(r.choice(ALPHA) for _ in range(r.choice([250, 256, 300, 520, 900])))
                else:
                    body = bytes(r.choice(ALPHA) for _ in range(r.range(1, 14)))
                s = body + b"\0"
                lab = f"S{o}_{k}_{i}"
                lines.append(f"{lab}:")
                lines.append(f".L{lab}:")
                lines.append(asm_bytes(s))
                if i < 60 or r.chance(1, 200):
                    a = r.range(0, len(s) - 1)
                    kind = r.below(5)
                    if kind == 0:
                        refs.append(f".quad {sname}+{off + a}")       # section symbol + offset (mid-string)
                    elif kind == 1:
                        refs.append(f".quad .L{lab}+{a}")
                    elif kind == 2:
                        refs.append(f".quad {lab}+{a}")                # named symbol + addend
                    elif kind == 3:
                        leas.append(f"lea {lab}+{a}(%rip), %rax")
                    else:
                        leas.append(f"lea .L{lab}+{a}(%rip), %rax")
                off += len(s)
            if unterminated and o == nobj - 1 and k == nsec - 1:
                lines.append(asm_bytes(bytes(r.choice(ALPHA) for _ in range(r.range(1, 4)))))
        lines.append(f'.section .data.refs{o},"aw",@progbits')
        lines.append(f".globl R{o}\nR{o}:")
        lines += refs or [".quad 0"]
        lines.append(".text")
        lines.append(f".globl C{o}\nC{o}:")
        if o == 0:
            lines.append(".globl _start\n_start:")
        lines += leas
        lines.append("ret")
        objs.append("\n".join(lines) + "\n")
    return objs


MERGE_FLAGS = 0x10 | 0x20


def expected_refs(obj_path, o):
    """From the INPUT object: list of (holder_symbol, r_offset, kind, style, expected C string)."""
    e = Elf(obj_path)
    out = []
    skipped = 0
    for sec in e.sections:
        if sec["name"] == f".data.refs{o}":
            holder = f"R{o}"
        elif sec["name"] == ".text":
            holder = f"C{o}"
        else:
            continue
        for off, symi, typ, addend in e.relas(sec["idx"]):
            sym = e.symbols[symi]
            if sym["shndx"] == 0 or sym["shndx"] >= len(e.sections):
                continue
            tsec = e.sections[sym["shndx"]]
            if tsec["flags"] & MERGE_FLAGS != MERGE_FLAGS:
                continue
            data = e.data(tsec)
            is_section = (sym["info"] & 0xf) == 3
            if typ == 1:            # R_X86_64_64
                a, kind = addend, "abs64"
            elif typ in (2, 4):     # PC32 / PLT32 in `lea sym+a(%rip)`: disp is the last field of the instruction
                a, kind = addend + 4, "pc32"
                if is_section:
                    skipped += 1    # pc-relative against a section symbol of a merge section: meaning not defined by the property
                    continue
            else:
                continue
            tgt = sym["value"] + a
            if not is_section:
                lo_ = data.rfind(b"\0", 0, sym["value"]) + 1
                hi_ = data.find(b"\0", sym["value"])
                if hi_ < 0 or not (lo_ <= tgt <= hi_):
                    skipped += 1
                    continue
            out.append((holder, off, kind, "section" if is_section else "named", cstr(data, tgt)))
    return out, skipped


def observed(elf, holder, off, kind):
    h = elf.sym(holder)
    if h is None:
        return None, None
    place = h["value"] + off
    if kind == "abs64":
        raw = elf.read_at(place, 8)
        if raw is None or len(raw) < 8:
            return None, None
        addr, = struct.unpack("<Q", raw)
    else:
        raw = elf.read_at(place, 4)
        if raw is None or len(raw) < 4:
            return None, None
        d, = struct.unpack("<i", raw)
        addr = place + 4 + d
    return addr, elf.cstr_at(addr)


def run_links(ctx):
    r = ctx.rng.fork()
    n = 14 if ctx.quick else 200
    wild = runner.WILD
    ld = "/usr/bin/ld"
    for case in range(n):
        big = case % 7 == 3
        unterminated = case % 7 == 5
        d = os.path.join(ctx.scratch, f"l{case}")
        os.makedirs(d)
        objs = gen_program(r, big, unterminated)
        paths = []
        for o, text in enumerate(objs):
            sp = os.path.join(d, f"o{o}.s")
            open(sp, "w").write(text)
            op = os.path.join(d, f"o{o}.o")
            rc, out = runner.sh(["as", "-o", op, sp])
            if rc != 0:
                raise runner.BuildError("as failed: " + out[-500:])
            paths.append(op)
        exp_knob = None if big else r.choice(["1,256", "2,256", "3,512", "_,256", "4,1024", "2,768"])
        threads = r.choice([1, 2, 4])
        base = [wild, "--no-gc-sections", f"--threads={threads}"] + ([f"--wild-experiments={exp_knob}"] if exp_knob else [])
        replay = {"dir": "regenerate with VERIF_SEED", "case": case, "objects_asm": [t[:4000] for t in objs],
                  "cmd": " ".join(base[1:]) + " -o out o*.o", "how": "as -o oN.o oN.s; /verif/.target/wild/debug/wild <cmd>"}
        ctx.count("link", "big-default-group" if big else ("unterminated" if unterminated else f"knob={exp_knob}"))
        outp = os.path.join(d, "out")
        rc, out = runner.sh(base + ["-o", outp] + paths)
        if unterminated:
            ctx.note_case(("link-unterminated", case))
            if rc == 0 or "not null-terminated" not in out:
                ctx.cov["impl_oracle_failures"] += 1
                ctx.violation("link:unterminated-accepted", f"wild accepted an unterminated string-merge section (rc={rc}): {out[-200:]}", replay)
            continue
        if rc != 0:
            ctx.cov["impl_oracle_failures"] += 1
            ctx.violation("link:wild-failed", f"wild failed on valid string-merge input: {out[-300:]}", replay)
            continue
        rc2, out2 = runner.sh(base + ["--no-string-merge", "-o", outp + ".nm"] + paths)
        rc3, out3 = runner.sh([ld, "-o", outp + ".ld"] + paths)
        if rc3 != 0:
            raise runner.BuildError("GNU ld failed on generated input: " + out3[-300:])
        ew = Elf(outp)
        enm = Elf(outp + ".nm") if rc2 == 0 else None
        eld = Elf(outp + ".ld")
        if enm is None:
            ctx.violation("link:no-string-merge-failed", f"wild --no-string-merge failed: {out2[-300:]}", replay)
        want = set()
        max_in = 0
        for o, op in enumerate(paths):
            eo = Elf(op)
            for sec in eo.sections:
                if sec["flags"] & MERGE_FLAGS == MERGE_FLAGS and sec["size"]:
                    max_in = max(max_in, sec["size"])
                    for _, s in split_strings("S", eo.data(sec))[0]:
                        want.add(s)
            refs, skipped = expected_refs(op, o)
            ctx.count("ref", "skipped(pc32-section/outside-string)", skipped)
            for holder, off, kind, style, exp in refs:
                ctx.note_case(("link-ref", case, o, holder, off))
                ctx.count("ref", f"{style}-{kind}")
                # the reference rule itself is validated against GNU ld
                _, s_ld = observed(eld, holder, off, kind)
                if s_ld != exp:
                    ctx.count("ref", "oracle-differs(ignored)")
                    continue
                addr, s_w = observed(ew, holder, off, kind)
                if s_w != exp:
                    ctx.cov["impl_oracle_failures"] += 1
                    ctx.violation("link:wrong-string", f"{style} reference at {holder}+{off} ({kind}): input string {exp!r:.60}, wild output at {addr and hex(addr)} is {s_w!r:.60} (GNU ld: same as input)",
                                  dict(replay, holder=holder, offset=off, expected=repr(exp)[:200], observed=repr(s_w)[:200]))
                    break
                if enm is not None:
                    _, s_nm = observed(enm, holder, off, kind)
                    if s_nm != exp:
                        ctx.cov["impl_oracle_failures"] += 1
                        ctx.violation("link:no-string-merge-differs", f"{style} reference at {holder}+{off}: --no-string-merge output denotes {s_nm!r:.60}, input {exp!r:.60}", replay)
                        break
        # (i) + dedup: .rodata of the merged output is exactly the distinct strings, each once
        ro = [s for s in ew.sections if s["name"] == ".rodata"]
        if len(ro) != 1:
            ctx.violation("link:no-rodata", "merged output has no single .rodata section", replay)
            continue
        got, ok = split_strings("S", ew.data(ro[0]))
        gl = sorted(s for _, s in got)
        if not ok or gl != sorted(want):
            ctx.cov["impl_oracle_failures"] += 1
            missing = sorted(want - set(gl))[:3]
            ctx.violation("link:rodata-content", f".rodata is not the set of distinct input strings, each once (terminated={ok}, {len(gl)} strings vs {len(want)} distinct; missing e.g. {missing})", replay)
        ctx.count("link-size", "input-section>140000" if max_in > 140000 else "small")




def run(ctx):
    inprocess(ctx)
    run_links(ctx)
