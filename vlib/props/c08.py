"""C08 - Dynamic symbol hash tables find every exported symbol."""
import os
import shutil

from .. import elfread as E
from .. import linkutil as lu

NEEDS_WILD = True
LEAN_MODULES = ["WildModel.Props.C08"]
THEOREMS = [
    "Wild.Hash.gnu_lookup_complete_of_wf",
    "Wild.Hash.gnu_lookup_sound",
    "Wild.Hash.sysv_lookup_complete_of_wf",
    "Wild.Hash.sysv_lookup_sound",
    "Wild.Hash.gnu_builder_wf",
    "Wild.Hash.sysv_builder_wf",
    "Wild.Hash.gnu_complete",
    "Wild.Hash.gnu_sound",
    "Wild.Hash.gnu_absent_not_found",
    "Wild.Hash.gnu_complete_distinct",
    "Wild.Hash.sysv_complete",
    "Wild.Hash.sysv_sound",
    "Wild.Hash.sysv_absent_not_found",
    "Wild.Hash.sysv_complete_distinct",
    "Wild.Hash.gnu_chain_terminates",
    "Wild.Hash.sysv_chain_terminates",
    "Wild.Hash.gnu_lookup_total_of_closed",
    "Wild.Hash.gnu_builder_closed",
    "Wild.Hash.gnu_absent_notFound",
    "Wild.Hash.sysv_lookup_total_of_closed",
    "Wild.Hash.sysv_builder_closed",
    "Wild.Hash.sysv_absent_notFound",
    "Wild.Hash.sorted_by_bucket_of_sort",
    "Wild.Hash.sortSyms_perm",
    "Wild.Hash.elfHash_eq_gabiHash",
]
LEVEL = "proof"
TECHNIQUE = ("Lean 4 theorems over an executable model of wild's .gnu.hash/.hash builders and a transcription of glibc's do_lookup_x; "
             "whole-link differential correspondence (tables rebuilt word for word by the model from wild's dynsym), modelled glibc lookups on "
             "wild's actual table words, real loader (dlopen/dlsym/dlvsym) as oracle")
TRUSTED = [
    "hand-written model lean/WildModel/Model/Hash.lean of create_gnu_hash_layout / write_gnu_hash_tables / allocate_sysv_hash / "
    "write_sysv_hash_table and of object::elf::{gnu_hash,hash}; tied by the correspondences hash-gnu / hash-sysv: every generated link's "
    ".gnu.hash and .hash words (header, bloom, buckets, chains) and the dynsym order are rebuilt by the model from the symbol names and must be identical",
    "transcription of glibc do_lookup_x (bloom test, bucket, chain walk, SysV loop; check_match reduced to the name comparison) in the same file; "
    "validated by running the real loader (dlopen + dlsym/dlvsym of every exported name, address compared with st_value + l_addr) on sampled outputs",
    "index-valued table words are modelled as Nat (wild: u32; equal while symbol_base + num_defs < 2^32)",
    "as, gcc (oracle program), vlib/elfread.py (independent ELF reader), the dynamic loader of the host glibc",
]
RULE = ("generated shared objects / PIE / dynamic executables with 0..N exported names (random identifiers, long names, names differing in the last byte, "
        "searched equal-hash pairs for both hash functions, searched same-bucket families, high-byte and quoted names, versioned duplicates) x "
        "--hash-style=gnu|sysv|both; one build request per table per link plus one lookup request per table; non-trivial = at least 2 defined names; "
        "distinct by request text")
ASSUMPTIONS = ["symbol_base + num_defs < 2^32 (index words modelled as Nat)",
               "check_match is modelled as the name comparison (symbol versions, visibility and st_value==0 filters of glibc are outside the model; "
               "the loader oracle exercises them on the sampled outputs)"]

DLCHECK_C = r"""
#define _GNU_SOURCE
#include <dlfcn.h>
#include <link.h>
#include <stdio.h>
#include <stdlib.h>
#include <string.h>
/* usage: dlcheck lib.so list ; list lines: <hexname> <value-hex> <version|-> */
int main(int argc, char **argv) {
  void *h = dlopen(argv[1], RTLD_NOW | RTLD_LOCAL);
  if (!h) { printf("DLOPEN-FAIL %s\n", dlerror()); return 2; }
  struct link_map *lm = 0;
  if (dlinfo(h, RTLD_DI_LINKMAP, &lm) != 0 || !lm) { printf("DLINFO-FAIL\n"); return 2; }
  FILE *f = fopen(argv[2], "r");
  static char hex[1 << 16], name[1 << 15], ver[256];
  unsigned long val; long bad = 0, n = 0;
  while (fscanf(f, "%65535s %lx %255s", hex, &val, ver) == 3) {
    size_t l = strlen(hex) / 2;
    for (size_t i = 0; i < l; i++) { unsigned b; sscanf(hex + 2 * i, "%2x", &b); name[i] = (char)b; }
    name[l] = 0;
    void *p = strcmp(ver, "-") ? dlvsym(h, name, ver) : dlsym(h, name);
    n++;
    if (val == (unsigned long)-1) { /* expected absent */
      if (p) { printf("FOUND-ABSENT %s %s %lx\n", hex, ver, (unsigned long)p - lm->l_addr); bad++; }
    } else if (!p) { printf("MISS %s %s\n", hex, ver); bad++; }
    else if ((unsigned long)p - lm->l_addr != val) { printf("WRONG %s %s got=%lx want=%lx\n", hex, ver, (unsigned long)p - lm->l_addr, val); bad++; }
  }
  printf("DONE %ld %ld\n", n, bad);
  return bad ? 1 : 0;
}
"""

IDCH = "abcdefghijklmnopqrstuvwxyzABCDEFGHIJKLMNOPQRSTUVWXYZ0123456789_"


def hx(b):
    return b.hex()


def jl(items):
    items = list(items)
    return ",".join(items) if items else "."


def rand_ident(r, lo=1, hi=24):
    n = r.range(lo, hi)
    s = r.choice(IDCH[:52] + "_")
    return (s + "".join(r.choice(IDCH) for _ in range(n - 1))).encode()


def gen_names(r, n, flavour):
    """n distinct byte-string names. flavour selects the dominant family."""
    out = []
    seen = set()

    def add(b):
        if b not in seen and len(out) < n and b not in (b"_start",):
            seen.add(b)
            out.append(b)

    if flavour == "bucket":
        # searched same-bucket family: all hashes equal modulo 4096 for the GNU hash (half) or the SysV hash (half)
        tg = r.below(4096)
        ts = r.below(4096)
        tries = 0
        while len(out) < n and tries < 4096 * n * 3:
            tries += 1
            c = rand_ident(r, 3, 10)
            if len(out) % 2 == 0:
                if E.gnu_hash(c) % 4096 == tg:
                    add(c)
            else:
                if E.sysv_hash(c) % 4096 == ts:
                    add(c)
    while len(out) < n:
        k = r.below(12) if flavour != "plain" else 11
        if k == 0:      # equal GNU hash pair: "..az" / "..bY" (33*'a'+'z' == 33*'b'+'Y')
            p, s = rand_ident(r, 1, 8), (rand_ident(r, 1, 4) if r.chance(1, 2) else b"")
            add(p + b"az" + s)
            add(p + b"bY" + s)
        elif k == 1:    # equal SysV hash pair: "..aq" / "..ba" (16*'a'+'q' == 16*'b'+'a')
            p, s = rand_ident(r, 1, 8), (rand_ident(r, 1, 3) if r.chance(1, 2) else b"")
            add(p + b"aq" + s)
            add(p + b"ba" + s)
        elif k == 2:    # long names
            add(rand_ident(r, 200, 3000))
        elif k == 3:    # differ in the last byte only
            p = rand_ident(r, 1, 40)
            for c in r.shuffle(list(IDCH))[: r.range(2, 6)]:
                add(p + c.encode())
        elif k == 4:    # differ in the first byte only / prefixes of each other
            p = rand_ident(r, 1, 12)
            add(b"a" + p)
            add(b"b" + p)
            add(p)
            add(p + p)
        elif k == 5:    # high bytes (as accepts them in identifiers) and quoted names
            add(rand_ident(r, 1, 6) + bytes([r.range(0x80, 0xFF), r.range(0x80, 0xFF)]) + rand_ident(r, 1, 3))
        elif k == 6:
            add(rand_ident(r, 1, 5) + r.choice([b" ", b"-", b"+", b"~", b"::", b"(int)"]) + rand_ident(r, 1, 5))
        elif k == 7:    # one and two byte names
            add(rand_ident(r, 1, 2))
        else:
            add(rand_ident(r))
    return out


def asm_name(b):
    """GNU as spelling of a symbol name (quoted when it is not a plain identifier)."""
    if all(chr(c) in IDCH or c >= 0x80 for c in b) and not chr(b[0]).isdigit():
        return b
    return b'"' + b.replace(b"\\", b"\\\\").replace(b'"', b'\\"') + b'"'


def render(names, versioned, with_start):
    """Assembly source (bytes). versioned: list of (base_name, nversions)."""
    L = [b"    .data"]
    for i, nm in enumerate(names):
        a = asm_name(nm)
        L.append(b"    .globl " + a)
        if i % 3 == 0:
            L.append(b"    .type " + a + b", @object")
        L.append(a + b": .byte " + str(i & 0xFF).encode())
    for base, k in versioned:
        for v in range(1, k + 1):
            impl = base + b"_impl_v" + str(v).encode()
            L.append(b"    .globl " + impl)
            L.append(impl + b": .byte " + str(v).encode())
            at = b"@@" if v == k else b"@"
            L.append(b"    .symver " + impl + b", " + base + at + b"VER_" + str(v).encode())
    if with_start:
        L += [b"    .text", b"    .globl _start", b"_start:", b"    mov $60, %eax", b"    xor %edi, %edi", b"    syscall"]
    return b"\n".join(L) + b"\n"


def version_script(maxk):
    s = ""
    for v in range(1, maxk + 1):
        s += f"VER_{v} {{ {'global: *;' if v == 1 else ''} }}{'' if v == 1 else ' VER_' + str(v - 1)};\n"
    return s


class Case:
    pass


def plan(ctx):
    r = ctx.rng
    cases = []
    if ctx.quick:
        sizes = [0, 1, 2, 3, 4, 5, 7, 8, 9, 16, 17, 31, 33, 64, 100, 150, 257, 300, 400, 700, 1600, 2700]
    else:
        sizes = [0, 1, 2, 3, 4, 5, 6, 7, 8, 9, 15, 16, 17, 31, 32, 33, 63, 64, 65, 100, 127, 128, 129, 255, 256, 257, 300, 511, 513,
                 700, 1000, 1023, 1025, 1500, 2047, 2049, 3000, 4097, 5000] + [r.range(0, 600) for _ in range(60)]
    styles = ["gnu", "sysv", "both", None]
    kinds = ["shared", "shared", "shared", "pie", "dyn"]
    for i, n in enumerate(sizes):
        c = Case()
        c.n = n
        c.style = styles[i % 4] if i < 8 else r.choice(styles)
        if n >= 1500 and ctx.quick:
            c.style = "gnu" if n % 200 == 0 else "both"     # large tables: the bloom filter has more than one word
        c.kind = kinds[i % 5] if ctx.quick else r.choice(kinds)
        c.flavour = "bucket" if (n >= 8 and i % 4 == 1) else ("plain" if i % 7 == 6 else "mixed")
        c.nver = 0
        if c.kind == "shared" and n >= 2 and i % 3 == 2:
            c.nver = r.range(1, 4)
        c.threads = r.choice([None, 1, 2, 8])
        cases.append(c)
    return cases


def defined_part(elf):
    ds = elf.dynsym()
    base = len(ds)
    for y in ds[1:]:
        if y.shndx != 0:
            base = y.index
            break
    return ds, base


def run(ctx):
    r = ctx.rng
    sd = ctx.scratch
    dlcheck = os.path.join(sd, "dlcheck")
    lu.write(dlcheck + ".c", DLCHECK_C)
    rc, o, e = lu.run(["gcc", "-O1", "-o", dlcheck, dlcheck + ".c", "-ldl"])
    have_oracle = rc == 0
    if not have_oracle:
        ctx.assumptions.append("loader oracle unavailable: gcc failed: " + e[-200:])
    dep = os.path.join(sd, "libdep.so")
    lu.asm_obj(sd, "dep", "    .globl dep_fn\n    .text\ndep_fn: ret\n")
    lu.link("ld", ["-shared", "-o", dep, os.path.join(sd, "dep.o")])

    build_lines, build_impl, meta = [], [], []
    lookup_lines, lookup_meta = [], []
    n_oracle = 0
    for ci, c in enumerate(plan(ctx)):
        d = os.path.join(sd, f"c{ci}")
        os.makedirs(d, exist_ok=True)
        names = gen_names(r, c.n, c.flavour)
        versioned = []
        if c.nver:
            for _ in range(c.nver):
                versioned.append((b"vsym_" + rand_ident(r, 2, 8), r.range(2, 4)))
        with_start = c.kind != "shared"
        src = os.path.join(d, "in.s")
        with open(src, "wb") as f:
            f.write(render(names, versioned, with_start))
        obj = os.path.join(d, "in.o")
        rc, o, e = lu.run(["as", "--64", "-o", obj, src])
        if rc != 0:
            raise RuntimeError("as failed: " + e[:500])
        out = os.path.join(d, "out.so" if c.kind == "shared" else "out")
        args = ["-o", out, obj]
        if c.kind == "shared":
            args = ["-shared"] + args
        elif c.kind == "pie":
            args = ["-pie", "--export-dynamic", "-dynamic-linker", "/lib64/ld-linux-x86-64.so.2"] + args
        else:
            args = ["--export-dynamic", "-dynamic-linker", "/lib64/ld-linux-x86-64.so.2"] + args + [dep]
        if c.style:
            args.append("--hash-style=" + c.style)
        if versioned:
            vs = os.path.join(d, "v.map")
            lu.write(vs, version_script(max(k for _, k in versioned)))
            args.append("--version-script=" + vs)
        if c.threads:
            args.append(f"--threads={c.threads}")
        rc, o, e = lu.link("wild", args)
        ctx.count("kind", c.kind)
        ctx.count("hash_style", str(c.style))
        ctx.count("flavour", c.flavour)
        ctx.count("size_class", "0" if c.n == 0 else "1-9" if c.n < 10 else "10-99" if c.n < 100 else "100-999" if c.n < 1000 else ">=1000")
        if rc != 0:
            ctx.violation(f"link-failed:{c.kind}:{c.style}", f"wild failed to link {c.n} exported names ({c.kind}, hash-style={c.style}): {e[-300:]}",
                          keep(ctx, d, ci, {"args": args, "stderr": e[-2000:]}))
            continue
        elf = E.Elf(out)
        ds, base = defined_part(elf)
        defs = ds[base:]
        dnames = [y.name.encode("latin1") for y in defs]
        want = set(names) | {b for b, _ in versioned} | {b + b"_impl_v" + str(v).encode() for b, k in versioned for v in range(1, k + 1)}
        if with_start:
            want.add(b"_start")
        replay = mk_replay(ctx, d, ci, {"args": ["wild"] + args, "n": c.n, "kind": c.kind, "hash_style": c.style})
        if any(y.shndx == 0 for y in defs):
            ctx.violation("dynsym:undefined-after-defined", "an undefined dynamic symbol follows the defined ones (hash tables index it)", replay())
        missing = want - set(dnames)
        if missing:
            ctx.violation("dynsym:export-missing", f"{len(missing)} exported names are missing from .dynsym, e.g. {sorted(missing)[0]!r}", replay())
        gh = elf.gnu_hash()
        sh = elf.sysv_hash()
        want_gnu = c.style in ("gnu", "both", None)
        want_sysv = c.style in ("sysv", "both", None)
        have_sysv = sh is not None and sh["nchain"] > 0
        if want_gnu != (gh is not None) or (want_sysv and dnames and not have_sysv) or (have_sysv and not want_sysv):
            ctx.violation("tables:presence", f"hash-style={c.style}: .gnu.hash present={gh is not None}, .hash present={have_sysv}", replay())
        has_dups = len(set(dnames)) != len(dnames)
        nontrivial = len(dnames) >= 2
        absent = [rand_ident(r, 1, 12) for _ in range(10)] + [n_[:-1] for n_ in dnames[:5] if len(n_) > 1] + [n_ + b"x" for n_ in dnames[:5]] + [b"dep_fn"]
        absent = [a for a in absent if a not in set(dnames)]
        queries = dnames + absent
        if gh is not None:
            if gh["symoffset"] != base:
                ctx.violation("gnu:symoffset", f".gnu.hash symoffset {gh['symoffset']} != index of first defined dynsym {base}", replay())
            # model rebuild; distinct names are fed in a shuffled order (the model must reproduce wild's sort), duplicates in table order
            feed = dnames if has_dups else r.shuffle(dnames)
            build_lines.append(f"hash-gnu {base} {jl(hx(n_) for n_ in feed)}")
            build_impl.append(f"nb={gh['nbuckets']} so={gh['symoffset']} bs={gh['bloom_size']} sh={gh['bloom_shift']} "
                              f"bloom={jl('0x%x' % w for w in gh['bloom'])} buckets={jl(str(w) for w in gh['buckets'])} "
                              f"chain={jl('0x%x' % w for w in gh['chain'])} order={jl(hx(n_) for n_ in dnames)}")
            meta.append((nontrivial, replay))
            lookup_lines.append(f"hash-lookup-gnu {gh['nbuckets']} {gh['symoffset']} {gh['bloom_size']} {gh['bloom_shift']} {jl(str(w) for w in gh['bloom'])} "
                                f"{jl(str(w) for w in gh['buckets'])} {jl(str(w) for w in gh['chain'])} {jl(hx(n_) for n_ in dnames)} {jl(hx(q) for q in queries)}")
            lookup_meta.append(("gnu", ds, dnames, queries, replay, out))
        if sh is not None and sh["nchain"] > 0:
            build_lines.append(f"hash-sysv {base} {jl(hx(n_) for n_ in dnames)}")
            build_impl.append(f"nb={sh['nbucket']} nchain={sh['nchain']} buckets={jl(str(w) for w in sh['buckets'])} chain={jl(str(w) for w in sh['chain'])}")
            meta.append((nontrivial, replay))
            if sh["nchain"] != len(ds):
                ctx.violation("sysv:nchain", f".hash nchain {sh['nchain']} != number of dynsym entries {len(ds)}", replay())
            lookup_lines.append(f"hash-lookup-sysv {sh['nbucket']} {base} {jl(str(w) for w in sh['buckets'])} {jl(str(w) for w in sh['chain'])} "
                                f"{jl(hx(n_) for n_ in dnames)} {jl(hx(q) for q in queries)}")
            lookup_meta.append(("sysv", ds, dnames, queries, replay, out))
        # ---- oracle: the real loader
        if have_oracle and c.kind == "shared" and (ctx.quick is False or ci % 2 == 0 or versioned):
            n_oracle += 1
            vs = elf.versym()
            vd = {x["ndx"]: x["names"][0] for x in (elf.verdef() or [])}
            lst = []
            default_of = {}
            for y in defs:
                v = vs[y.index] if vs else 1
                nmb = y.name.encode("latin1")
                if vs and (v & 0x7FFF) >= 2:
                    lst.append(f"{hx(nmb)} {y.value:x} {vd[v & 0x7FFF]}")
                if not (v & 0x8000):
                    default_of[nmb] = y.value
            for nmb, val in default_of.items():
                lst.append(f"{hx(nmb)} {val:x} -")
            for a in absent:
                if a != b"dep_fn":
                    lst.append(f"{hx(a)} {(1 << 64) - 1:x} -")
            lp = os.path.join(d, "names.lst")
            lu.write(lp, "\n".join(lst) + "\n")
            rc, o, e = lu.run([dlcheck, out, lp], timeout=120)
            ctx.count("oracle", "dlsym-names", len(lst))
            if rc != 0 or "DONE" not in o:
                ctx.cov["impl_oracle_failures"] += 1
                first = (o.strip().split("\n") or ["?"])[0]
                nm = ""
                t = first.split()
                if len(t) >= 2 and t[0] in ("MISS", "WRONG", "FOUND-ABSENT"):
                    nm = repr(bytes.fromhex(t[1]))
                ctx.violation(f"loader:{t[0] if t else 'fail'}:{c.style}", f"the dynamic loader's lookup disagrees on wild's output: {first} name={nm}",
                              replay({"dlcheck_output": o[-2000:], "names_list": "names.lst", "how": "gcc dlcheck.c -ldl; ./dlcheck out.so names.lst"}))
                shutil.copy(dlcheck + ".c", os.path.join(ctx.replay_dir(), "dlcheck.c"))

    # ---- correspondence: model rebuild == wild's words
    idx = {l: i for i, l in enumerate(build_lines)}
    dis, _, model = ctx.differential("hash-build", build_lines, impl_out=build_impl, nontrivial=lambda l, a, b: meta[idx[l]][0])
    for (l, a, b) in dis[:3]:
        # which field differs: gives the search a concrete input (the link itself is the failing input candidate; the lookup check below decides)
        fa = dict(x.split("=", 1) for x in a.split())
        fb = dict(x.split("=", 1) for x in b.split())
        diff = [k for k in fa if fa.get(k) != fb.get(k)]
        ctx.sample({"build-disagreement-fields": diff, "request": l[:200]})
        meta[idx[l]][1]({"disagreeing_fields": diff, "wild": a[:4000], "model": b[:4000]})
    # ---- modelled glibc lookups on wild's actual table words
    outs = ctx.model_eval(lookup_lines)
    for line, res, (style, ds, dnames, queries, replay, path) in zip(lookup_lines, outs, lookup_meta):
        rs = res.split(",") if res != "." else []
        ctx.cov["evaluations"] += len(rs)
        ctx.count("lookups", style, len(rs))
        dset = set(dnames)
        for q, x in zip(queries, rs):
            ok = True
            if q in dset:
                if not x.startswith("f"):
                    ok = False
                    what = f"defined dynamic symbol {q!r} is not found by the {style} hash lookup (result {x})"
                else:
                    i = int(x[1:])
                    if i >= len(ds) or ds[i].name.encode("latin1") != q or ds[i].shndx == 0:
                        ok = False
                        what = f"{style} hash lookup of {q!r} returns dynsym index {i} which is a different symbol"
            elif x != "n":
                ok = False
                what = f"{style} hash lookup of the absent name {q!r} returns {x}"
            if not ok:
                ctx.cov["impl_oracle_failures"] += 1
                ctx.violation(f"lookup:{style}:{'miss' if q in dset else 'absent'}", what, replay({"name_hex": hx(q), "name": repr(q), "lookup_result": x, "table": style}))
                break
    ctx.count("oracle", "dlopen-links", n_oracle)
    # ---- hash functions: model vs the independent Python transcriptions
    hl, ho = [], []
    for _ in range(300 if ctx.quick else 5000):
        nm = gen_names(r, 1, "mixed")[0]
        hl.append("hash-fn " + hx(nm))
        ho.append(f"gnu=0x{E.gnu_hash(nm):x} sysv=0x{E.sysv_hash(nm):x} gabi=0x{E.sysv_hash(nm):x}")
    ctx.differential("hash-fn(model vs python gABI transcription)", hl, impl_out=ho)


def mk_replay(ctx, d, ci, base_info):
    return lambda extra=None: keep(ctx, d, ci, dict(base_info, **(extra or {})))


def keep(ctx, d, ci, info):
    """Copy the link directory of a failing case to the replay dir and return the replay dict."""
    dst = os.path.join(ctx.replay_dir(), f"case{ci}")
    if not os.path.exists(dst):
        shutil.copytree(d, dst)
    info = dict(info)
    info["dir"] = dst
    info["output"] = os.path.join(dst, "out.so" if os.path.exists(os.path.join(dst, "out.so")) else "out")
    return info
