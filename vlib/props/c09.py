"""C09 - Position-independent outputs are correct at any load address."""
import os
import shutil
import struct

from .. import linkutil as lu
from ..elfread import Elf

NEEDS_WILD = True
LEAN_MODULES = ["WildModel.Props.C09"]
THEOREMS = [
    "Wild.Relr.relr_decode_roundtrip",
    "Wild.Relr.relr_odd_entry_misdecoded",
    "Wild.Relr.alloc_eq_write",
    "Wild.Relr.alloc_eq_write_counts",
    "Wild.Relr.relr_entries_even",
    "Wild.Relr.relr_entries_even_layout",
    "Wild.Relr.cover_exactly_once",
    "Wild.Relr.cover_count_one",
    "Wild.Relr.relr_decodes_to_places",
    "Wild.Relr.image_shift",
    "Wild.Relr.link_image_shift",
    "Wild.Relr.alloc_ne_write_old_witness",
    "Wild.Relr.alloc_eq_write_old_partial",
]
LEVEL = "proof"
TECHNIQUE = ("Lean 4 theorems over an executable model of wild's RELR/RELA choice (layout side and write side), its .relr.dyn writer and "
             "glibc's loader loop + whole-link differential correspondence (wild vs model) + native execution at two bases vs GNU ld")
TRUSTED = [
    "hand-written model lean/WildModel/Model/Relr.lean of elf.rs relr_eligible/process_relocation/allocate_resolution and elf_writer.rs "
    "write_address_relocation/TableWriter::new/validate_empty, tied by the whole-link correspondence `relr-link`: generated pointer tables in "
    "sections of alignment 1/2/4/8 at odd and even offsets and addresses are linked by the hooked wild from /repo's working tree and the emitted "
    "R_X86_64_RELATIVE entries and .relr.dyn words are compared with the model's",
    "the loader in Props (glibc elf_dynamic_do_Relr, *reloc_addr = l_addr + r_addend) is the reading of glibc; validated by running every PIE / "
    "shared output natively under ASLR and under `setarch -R` and comparing with the value computed from the generator and with GNU ld's output; "
    "the decoder model is additionally run on GNU ld's bitmap-carrying .relr.dyn",
    "8-byte slots are abstracted as one image cell per link-time address (no overlapping slots are generated)",
    "as, GNU ld 2.40 (oracle and to link the driver executable of shared outputs), vlib/elfread.py",
]
RULE = ("random programs: 2-5 writable sections (alignment 1/2/4/8; merged into .data or own output section; optionally preceded by an odd-sized "
        "alignment-1 chunk so that they start at odd addresses), 1-5 `.quad sym+addend` slots each at odd/even offsets, 0-3 GOT slots; output kinds "
        "PIE / shared / static-PIE, with and without -z pack-relative-relocs, +-relax, +-gc-sections; non-trivial = at least one slot at an odd address "
        "or odd offset; distinct by request line")
ASSUMPTIONS = ["x86-64 only (R_X86_64_RELATIVE); other architectures share write_address_relocation but are not linked here",
               "symbolic (non-relative) dynamic relocations are outside this property and not generated"]

DL = "/lib64/ld-linux-x86-64.so.2"
M64 = (1 << 64) - 1
NT = 12


def gen_case(r):
    mode = r.choice(["pie", "pie", "pie", "shared", "shared", "static-pie"])
    c = {"mode": mode, "relr": r.chance(2, 3), "norelax": r.chance(1, 3), "gc": r.choice(["", "--gc-sections", "--no-gc-sections"]),
         "tbytes": [r.range(1, 255) for _ in range(NT)], "tsec": r.choice([".data.tg", ".rodata.tg", ".tgt"]), "secs": [], "gots": []}
    for k in range(r.range(2, 5)):
        s = {"align": r.choice([1, 1, 1, 2, 4, 8]), "own": r.chance(1, 3), "pre": r.choice([0, 1, 1, 3, 5]), "items": []}
        for j in range(r.range(1, 5)):
            pad = r.choice([0, 0, 1, 1, 2, 3, 5, 7])
            n = r.below(NT)
            s["items"].append((pad, n, r.below(NT - n) if r.chance(1, 2) else 0))
        # sh_addralign = 0 means "no alignment constraint", the same as 1 (gABI): patched into the object after assembling
        s["align0"] = s["align"] == 1 and r.chance(1, 3)
        c["secs"].append(s)
    used = set()
    for j in range(r.range(0, 3)):
        n = r.below(NT)
        if n in used:
            continue
        used.add(n)
        c["gots"].append((n, r.choice(["push", "mov"])))
    # some pointer slots go through a --defsym alias (`d_k_j = t_n + add`): still an address that must be relocated
    c["alias"] = sorted({(k, j) for k, s in enumerate(c["secs"]) for j in range(len(s["items"])) if r.chance(1, 4)})
    # some targets are tentative (COMMON) definitions in the other object: hidden, byte-aligned, zero-filled storage in .bss
    aliased = {c["secs"][k]["items"][j][1] for (k, j) in c["alias"]}
    used_ns = sorted(({it[1] for s in c["secs"] for it in s["items"]} | {n for n, _ in c["gots"]}) - aliased)
    c["commons"] = sorted(r.shuffle(used_ns)[: r.range(1, 3)]) if (used_ns and r.chance(1, 2)) else []
    return c


def expected_sum(c):
    acc = 0
    cm = set(c.get("commons", []))
    for s in c["secs"]:
        for (pad, n, add) in s["items"]:
            acc = (acc * 31 + (0 if n in cm else c["tbytes"][n + add])) & M64
    for (n, form) in c["gots"]:
        acc = (acc * 31 + (0 if n in cm else c["tbytes"][n])) & M64
    for k, s in enumerate(c["secs"]):
        if s["pre"]:
            acc = (acc * 31 + 0x11 + k) & M64
    return acc


STEP = "    movzbl (%rax), %edx\n    imul $31, %rdi, %rdi\n    add %rdx, %rdi\n"


def secname(k, s):
    return f".tab{k}" if s["own"] else f".data.s{k}"


def render(c):
    """-> (main asm, pads asm, driver asm or None)"""
    a = ["    .text", "    .globl walk", "    .type walk,@function", "walk:", "    xor %edi, %edi"]
    for k, s in enumerate(c["secs"]):
        for j in range(len(s["items"])):
            a.append(f"    mov p_{k}_{j}(%rip), %rax")
            a.append(STEP.rstrip("\n"))
    for j, (n, form) in enumerate(c["gots"]):
        if form == "push":
            a.append(f"g_{j}: push t_{n}@GOTPCREL(%rip)\n    pop %rax")
        else:
            a.append(f"g_{j}: mov t_{n}@GOTPCREL(%rip), %rax")
        a.append(STEP.rstrip("\n"))
    for k, s in enumerate(c["secs"]):
        if s["pre"]:
            a.append(f"    lea pad_{k}(%rip), %rax")
            a.append(STEP.rstrip("\n"))
    a += ["    mov %rdi, %rax", "    ret"]
    start = ["    .globl _start", "_start:", "    call walk" if c["mode"] != "shared" else "    call walk@PLT", "    push %rax", "    mov $1, %eax",
             "    mov $1, %edi", "    mov %rsp, %rsi", "    mov $8, %edx", "    syscall", "    mov $60, %eax", "    xor %edi, %edi", "    syscall"]
    drv = None
    if c["mode"] == "shared":
        drv = "\n".join(["    .text"] + start) + "\n"
    else:
        a += start
    for k, s in enumerate(c["secs"]):
        a.append(f'    .section {secname(k, s)},"aw",@progbits')
        if s["align"] > 1:
            a.append(f"    .balign {s['align']}")
        a.append(f"s_{k}:")
        for j, (pad, n, add) in enumerate(s["items"]):
            if pad:
                a.append("    .byte " + ",".join(str(0xA0 + i) for i in range(pad)))
            if (k, j) in set(map(tuple, c.get("alias", []))):
                a.append(f"p_{k}_{j}: .quad d_{k}_{j}")
            else:
                a.append(f"p_{k}_{j}: .quad t_{n}+{add}" if add else f"p_{k}_{j}: .quad t_{n}")
    fl = "a" if c["tsec"].startswith(".rodata") else "aw"
    a.append(f'    .section {c["tsec"]},"{fl}",@progbits')
    cm = set(c.get("commons", []))
    for n in range(NT):
        a.append(f"{'tl' if n in cm else 't'}_{n}: .byte {c['tbytes'][n]}")
        if c.get("alias") and n not in cm:
            a.append(f"    .globl ta_{n}\n    .hidden ta_{n}\n    .set ta_{n}, t_{n}")
    p = []
    for k, s in enumerate(c["secs"]):
        if s["pre"]:
            nm = secname(k, s) if s["own"] else f".data.s{k}"
            p.append(f'    .section {nm},"aw",@progbits')
            p.append(f"    .globl pad_{k}\n    .hidden pad_{k}")
            p.append(f"pad_{k}: .byte " + ",".join(str(0x11 + k) for _ in range(s["pre"])))
    for n in sorted(cm):
        a.append(f"    .hidden t_{n}")
        p.append(f"    .comm t_{n},{NT},1\n    .hidden t_{n}")
    return "\n".join(a) + "\n", "\n".join(p) + "\n", drv


def zero_addralign(obj, names):
    """Set sh_addralign of the named sections of a relocatable object to 0."""
    if not names:
        return
    e = Elf(obj)
    with open(obj, "r+b") as f:
        for sct in e.sections:
            if sct.name in names:
                f.seek(e.e_shoff + sct.index * 64 + 48)
                f.write(b"\0" * 8)


def link_args(c, out, objs):
    args = []
    if c["mode"] == "pie":
        args += ["-pie", "-dynamic-linker", DL]
    elif c["mode"] == "static-pie":
        args += ["--static", "-pie", "--no-dynamic-linker"]
    else:
        args += ["-shared"]
    if c["relr"]:
        args += ["-z", "pack-relative-relocs"]
    if c["norelax"]:
        args += ["--no-relax"]
    if c["gc"]:
        args += [c["gc"]]
    for (k, j) in c.get("alias", []):
        pad, n, add = c["secs"][k]["items"][j]
        args += [f"--defsym=d_{k}_{j}=ta_{n}+{add}" if add else f"--defsym=d_{k}_{j}=ta_{n}"]
    return args + ["-o", out] + objs


def observe_sites(c, e):
    """Sites of the program as they ended up in the output: request tokens + [(place, value)]."""
    syms = {y.name: y.value for y in e.symtab()}
    toks, pv = [], []
    for k, s in enumerate(c["secs"]):
        sa = syms[f"s_{k}"]
        off = 0
        for j, (pad, n, add) in enumerate(s["items"]):
            off += pad
            place = syms[f"p_{k}_{j}"]
            if place != sa + off:
                raise RuntimeError(f"slot p_{k}_{j} at 0x{place:x}, expected section 0x{sa:x}+{off}")
            val = syms[f"t_{n}"] + add
            toks.append(f"d:{s['align']}:0x{sa:x}:{off}:0x{val:x}")
            pv.append((place, val))
            off += 8
    seen = set()
    for j, (n, form) in enumerate(c["gots"]):
        g = syms[f"g_{j}"]
        b = e.read(g, 7)
        if b[:2] == b"\xff\x35":
            slot = g + 6 + struct.unpack("<i", b[2:6])[0]
        elif b[:3] == b"\x48\x8b\x05":
            slot = g + 7 + struct.unpack("<i", b[3:7])[0]
        elif b[:3] == b"\x48\x8d\x05":
            continue  # relaxed to lea: no GOT slot
        else:
            raise RuntimeError(f"unexpected bytes at g_{j}: {b.hex()}")
        if slot in seen:
            continue
        seen.add(slot)
        val = syms[f"t_{n}"]
        toks.append(f"g:0x{slot:x}:0x{val:x}")
        pv.append((slot, val))
    # `call walk` without relaxation goes through a .plt.got stub and a GOT slot holding &walk
    ps = e.sec(".plt.got")
    if ps is not None and "walk" in syms:
        for a in range(ps.addr, ps.addr + ps.size, 16):
            b = e.read(a, 16)
            if b[:7] == bytes.fromhex("f30f1efaf2ff25"):
                slot = a + 11 + struct.unpack("<i", b[7:11])[0]
            elif b[:2] == b"\xff\x25":
                slot = a + 6 + struct.unpack("<i", b[2:6])[0]
            else:
                raise RuntimeError(f"unexpected .plt.got entry {b.hex()}")
            if slot not in seen:
                seen.add(slot)
                toks.append(f"g:0x{slot:x}:0x{syms['walk']:x}")
                pv.append((slot, syms["walk"]))
    return toks, pv


def dyn_relocs(e):
    """(R_X86_64_RELATIVE entries as (offset, addend), every other dynamic relocation, .relr.dyn words)"""
    rel, other = [], []
    for (sec, off, typ, symi, addend) in e.all_dyn_relas():
        if typ == 8:
            rel.append((off, addend & M64))
        else:
            other.append((sec, off, typ, symi, addend))
    return rel, other, e.relr_words()


def canon_out(rel, words):
    return ("ok rela=" + ",".join(f"0x{o:x}:0x{a:x}" for o, a in sorted(rel)) + " relr=" + ",".join(f"0x{w:x}" for w in sorted(words)))


def canon_err(err):
    if "Insufficient .rela.dyn (relative)" in err:
        return "err:insufficient-rela"
    if "Insufficient .relr.dyn" in err:
        return "err:insufficient-relr"
    if "Allocated too much space in .rela.dyn (relative)" in err:
        return "err:excess-rela"
    if "Allocated too much space in .relr.dyn" in err:
        return "err:excess-relr"
    return "err:other:" + err.strip().split("\n")[-1][:100]


def py_load(e, rel, words, base, places):
    """Python loader model on the cells of interest: RELR (+= base) then RELA (= base + addend)."""
    cells = {p: e.u64(p) for p in places}
    for a in Elf.decode_relr(words):
        cells[a] = (cells.get(a, e.u64(a)) + base) & M64
    for off, addend in rel:
        cells[off] = (base + addend) & M64
    return cells


def run_raw(cmd, env=None):
    import subprocess
    try:
        p = subprocess.run(cmd, env=env, stdout=subprocess.PIPE, stderr=subprocess.PIPE, timeout=20)
        return p.returncode, p.stdout
    except subprocess.TimeoutExpired:
        return -999, b""


def native_values(path, drv_dir=None):
    """Runs under ASLR and with ASLR disabled; returns the two 64-bit values printed (or a diagnostic)."""
    vals = []
    env = dict(os.environ)
    if drv_dir:
        env["LD_LIBRARY_PATH"] = drv_dir
    for pre in ([], ["setarch", "x86_64", "-R"]):
        rc, out = run_raw(pre + [path], env=env)
        vals.append(struct.unpack("<Q", out)[0] if rc == 0 and len(out) == 8 else f"rc={rc} out={out[:32].hex()}")
    return vals


def nontrivial_case(c):
    return any(s["align"] == 1 or any(p % 2 for (p, _, _) in s["items"]) for s in c["secs"])


def run(ctx):
    r = ctx.rng
    n = 40 if ctx.quick else 600
    reqs, impl, cases = [], [], []
    load_reqs, load_expect = [], []
    dec_reqs, dec_expect = [], []
    bases = [0x10000, 0x7F1234567000, (1 << 64) - 0x3000]
    corpus = [  # the input that used to fail (odd section address, even offset)
        {"mode": "pie", "relr": True, "norelax": False, "gc": "--no-gc-sections", "tbytes": list(range(1, NT + 1)), "tsec": ".data.tg",
         "secs": [{"align": 1, "own": False, "pre": 1, "items": [(0, 0, 0), (0, 1, 0), (0, 2, 1), (1, 1, 0)]}], "gots": [(3, "push")]},
        {"mode": "shared", "relr": True, "norelax": True, "gc": "", "tbytes": list(range(1, NT + 1)), "tsec": ".data.tg",
         "secs": [{"align": 1, "own": True, "pre": 3, "items": [(1, 0, 0), (0, 1, 0)]}, {"align": 2, "own": False, "pre": 1, "items": [(0, 4, 0), (1, 5, 2)]}],
         "gots": [(3, "mov")]},
    ]
    for i in range(n):
        c = corpus[i] if i < len(corpus) else gen_case(r)
        d = os.path.join(ctx.scratch, f"c{i}")
        os.makedirs(d, exist_ok=True)
        main_s, pads_s, drv_s = render(c)
        try:
            objs = []
            if pads_s.strip():
                objs.append(lu.asm_obj(d, "pads", pads_s))
            objs.append(lu.asm_obj(d, "main", main_s))
            zero_addralign(objs[-1], [secname(k, s_) for k, s_ in enumerate(c["secs"]) if s_.get("align0")])
            drv_o = lu.asm_obj(d, "drv", drv_s) if drv_s else None
        except RuntimeError as ex:
            ctx.count("gen", "assemble-failed")
            continue
        ctx.count("mode", c["mode"] + ("+relr" if c["relr"] else ""))
        for s in c["secs"]:
            ctx.count("section-align", str(s["align"]))
        exp = expected_sum(c)
        outs = {}
        for lk in ("wild", "ld"):
            out = os.path.join(d, "libt.so" if c["mode"] == "shared" else "prog") + "." + lk
            if c["mode"] == "shared":
                os.makedirs(os.path.join(d, lk), exist_ok=True)
                out = os.path.join(d, lk, "libt.so")
            rc, o, err = lu.link(lk, link_args(c, out, objs), cwd=d, env={"WILD_VERIFY_ALLOCATIONS": "1"} if lk == "wild" else None)
            outs[lk] = (rc, err, out)
        rc, err, out = outs["wild"]
        replay = {"case": c, "link_line": " ".join(link_args(c, "OUT", ["pads.o", "main.o"] if pads_s.strip() else ["main.o"])), "main.s": main_s, "pads.s": pads_s}
        grc, gerr, gout = outs["ld"]
        if rc != 0 and grc != 0:
            ctx.count("gen", "both-linkers-reject")
        if rc != 0:
            ci = canon_err(err)
            if grc == 0:
                ctx.cov["impl_oracle_failures"] += 1
                odd1 = any(s["align"] == 1 for s in c["secs"]) and c["relr"] and ci in ("err:insufficient-rela", "err:insufficient-relr", "err:excess-rela", "err:excess-relr")
                keep = os.path.join(ctx.replay_dir(), f"c09-{i}")
                shutil.copytree(d, keep, dirs_exist_ok=True)
                replay["dir"] = keep
                replay["stderr"] = err[-600:]
                ctx.violation("relr:odd-address-align1" if odd1 else "link-fails:" + ci,
                              f"wild fails to link a position-independent program that GNU ld links: {ci}", replay)
            # the model still gets the request: take the addresses from GNU ld's output (choice functions do not depend on values)
            continue
        e = Elf(out)
        try:
            toks, pv = observe_sites(c, e)
        except (RuntimeError, KeyError) as ex:
            ctx.violation("observe:" + str(ex)[:60], f"cannot locate the generated slots in wild's output: {ex}", replay)
            continue
        rel, other, words = dyn_relocs(e)
        req = f"relr-link {1 if c['relr'] else 0} " + " ".join(toks)
        reqs.append(req)
        impl.append(canon_out(rel, words))
        cases.append(c)
        places = [p for p, _ in pv]
        ctx.count("slots", "odd-address", sum(1 for p in places if p % 2))
        ctx.count("slots", "even-address", sum(1 for p in places if p % 2 == 0))
        ctx.count("relocs", "rela-relative", len(rel))
        ctx.count("relocs", "relr-words", len(words))
        # --- the property, directly on wild's output (independent of the Lean model)
        problems = []
        if other:
            problems.append(f"unexpected non-relative dynamic relocations {other[:3]}")
        if any(w % 2 for w in words):
            problems.append("odd word in .relr.dyn (wild only writes address entries; an odd one is a bitmap to the loader)")
        dec = Elf.decode_relr(words)
        cover = [o for o, _ in rel] + dec
        for p in places:
            if cover.count(p) != 1:
                problems.append(f"slot 0x{p:x} covered {cover.count(p)} times")
        for a in cover:
            if a not in places:
                problems.append(f"dynamic relocation at 0x{a:x} is not an address-holding slot of the program")
        for b in bases:
            cells = py_load(e, rel, words, b, places)
            for p, v in pv:
                if cells[p] != (v + b) & M64:
                    problems.append(f"base 0x{b:x}: slot 0x{p:x} holds 0x{cells[p]:x}, expected 0x{(v + b) & M64:x}")
        if words and not c["relr"]:
            problems.append(".relr.dyn emitted without -z pack-relative-relocs")
        # --- native execution at two bases
        if c["mode"] in ("pie", "shared"):
            for lk in ("wild", "ld"):
                lrc, lerr, lout = outs[lk]
                if lrc != 0:
                    continue
                if c["mode"] == "shared":
                    exe = os.path.join(d, lk, "drv")
                    rc2, o2, e2 = lu.link("ld", ["-pie", "-dynamic-linker", DL, "-o", exe, drv_o, lout], cwd=d)
                    if rc2 != 0:
                        problems.append(f"GNU ld cannot link a driver against the {lk} shared object: {e2[:200]}") if lk == "wild" else None
                        continue
                    vals = native_values(exe, os.path.join(d, lk))
                else:
                    vals = native_values(lout)
                ctx.count("native", lk)
                if lk == "wild":
                    for v in vals:
                        if v != exp:
                            problems.append(f"native run prints {v if isinstance(v, str) else hex(v)}, the program's pointer table sums to 0x{exp:x}")
                elif any(v != exp for v in vals):
                    ctx.count("native", "oracle-ld-output-wrong")
        if problems:
            ctx.cov["impl_oracle_failures"] += 1
            keep = os.path.join(ctx.replay_dir(), f"c09-{i}")
            shutil.copytree(d, keep, dirs_exist_ok=True)
            replay["dir"] = keep
            replay["problems"] = problems[:10]
            ctx.violation("image:" + req[:80], "position-independent output wrong: " + problems[0], replay)
        # --- model-side loader and decoder requests
        for b in bases[:2]:
            load_reqs.append(f"relr-load {1 if c['relr'] else 0} 0x{b:x} " + " ".join(toks))
            load_expect.append("ok " + " ".join(f"0x{(v + b) & M64:x}" for _, v in pv))
        if words:
            dec_reqs.append("relr-decode " + " ".join(f"0x{w:x}" for w in words))
            dec_expect.append(" ".join(f"0x{a:x}" for a in dec))
        if grc == 0 and c["relr"]:
            gw = Elf(gout).relr_words()
            if gw:
                ctx.count("oracle", "ld-relr-bitmap-words", sum(1 for w in gw if w % 2))
                dec_reqs.append("relr-decode " + " ".join(f"0x{w:x}" for w in gw))
                dec_expect.append(" ".join(f"0x{a:x}" for a in Elf.decode_relr(gw)))
        shutil.rmtree(d, ignore_errors=True)

    model = ctx.model_eval(reqs) if reqs else []
    by_req = dict(zip(reqs, cases))
    ctx.differential("relr-link", reqs, impl_out=impl, model_out=model, nontrivial=lambda l, a, b: nontrivial_case(by_req[l]))
    if load_reqs:
        ctx.differential("relr-load(model loader vs value+base)", load_reqs, impl_out=load_expect, model_out=ctx.model_eval(load_reqs))
    if dec_reqs:
        ctx.differential("relr-decode(model decoder vs elfread on wild's and GNU ld's .relr.dyn)", dec_reqs, impl_out=dec_expect, model_out=ctx.model_eval(dec_reqs))
    # regression seed of the pre-fix code, replayed on the model of the old code
    old = ctx.model_eval(["relr-linkold 1 d:1:0x3999:0:0x39c2", "relr-link 1 d:1:0x3999:0:0x39c2"])
    if old != ["err:insufficient-rela", "ok rela=0x3999:0x39c2 relr="]:
        ctx.broken.append(f"model regression seed changed: {old}")
    static_pie_libc(ctx)


C_PROG = r"""
#include <stdio.h>
static int a = 3, b = 4;
static const char *names[] = {"alpha", "beta", "gamma"};
static int *ptrs[] = {&a, &b, &a};
struct __attribute__((packed)) P { char c; int *p; };
static struct P packed[] = {{1, &a}, {2, &b}};
int main(void) {
  unsigned s = 0;
  for (int i = 0; i < 3; i++) s = s * 31 + (unsigned)names[i][0] + (unsigned)*ptrs[i];
  for (int i = 0; i < 2; i++) s = s * 31 + (unsigned)*packed[i].p + (unsigned)packed[i].c;
  printf("%u\n", s);
  return 0;
}
"""


def gcc_file(name):
    rc, o, e = lu.run(["gcc", "-print-file-name=" + name])
    return o.strip()


def static_pie_libc(ctx):
    """A realistic static-PIE: a C program with libc.a, self-relocated by rcrt1.o; run at two bases."""
    d = os.path.join(ctx.scratch, "spie")
    os.makedirs(d, exist_ok=True)
    try:
        obj = lu.cc_obj(d, "prog", C_PROG, flags=["-fPIE", "-O1"])
    except RuntimeError:
        ctx.count("static-pie-libc", "cc-failed")
        return
    pre = [gcc_file("rcrt1.o"), gcc_file("crti.o"), gcc_file("crtbeginS.o")]
    post = ["--start-group", gcc_file("libc.a"), gcc_file("libgcc.a"), gcc_file("libgcc_eh.a"), "--end-group", gcc_file("crtendS.o"), gcc_file("crtn.o")]
    results = {}
    for relr in (False, True):
        for lk in ("wild", "ld"):
            out = os.path.join(d, f"sp.{lk}.{int(relr)}")
            args = ["--static", "-pie", "--no-dynamic-linker"] + (["-z", "pack-relative-relocs"] if relr else []) + ["-o", out] + pre + [obj] + post
            if lk == "ld":
                args = ["-static", "-pie", "--no-dynamic-linker"] + args[3:]
            rc, o, err = lu.link(lk, args, cwd=d, env={"WILD_VERIFY_ALLOCATIONS": "1"} if lk == "wild" else None, timeout=300)
            if rc != 0:
                results[(lk, relr)] = ("link-failed", err[-300:])
                continue
            vals = []
            for p in ([], ["setarch", "x86_64", "-R"]):
                vals.append(run_raw(p + [out]))
            results[(lk, relr)] = ("ran", vals)
            if lk == "wild":
                e = Elf(out)
                rel, other, words = dyn_relocs(e)
                dec = Elf.decode_relr(words)
                offs = [o_ for o_, _ in rel]
                if any(w % 2 for w in words) or len(set(offs + dec)) != len(offs) + len(dec):
                    ctx.violation(f"static-pie-libc:cover:{int(relr)}", "static-PIE with libc: odd RELR word or a slot covered twice",
                                  {"link_line": " ".join(args)})
                ctx.count("static-pie-libc", f"relative-relocs relr={int(relr)}", len(offs) + len(dec))
    for relr in (False, True):
        w, g = results.get(("wild", relr)), results.get(("ld", relr))
        ctx.note_case(("static-pie-libc", relr))
        if g is None or g[0] != "ran" or any(v != g[1][0] for v in g[1]) or g[1][0][0] != 0:
            ctx.count("static-pie-libc", "oracle-unavailable")
            continue
        if w[0] != "ran" or any(v != g[1][0] for v in w[1]):
            ctx.cov["impl_oracle_failures"] += 1
            ctx.violation(f"static-pie-libc:{int(relr)}", f"static-PIE C program linked by wild misbehaves (relr={relr}): {w}; GNU ld's output prints {g[1][0]}",
                          {"program": C_PROG, "wild": str(w), "ld": str(g), "dir": d})
    shutil.rmtree(d, ignore_errors=True)
