"""C10 - Unwind tables cover every retained function."""
import os
import shutil
import struct
import subprocess
import zlib

from .. import linkutil as lu
from ..elfread import Elf

NEEDS_WILD = True
LEAN_MODULES = ["WildModel.Props.C10"]
THEOREMS = [
    "Wild.EhFrame.hdr_count",
    "Wild.EhFrame.link_count",
    "Wild.EhFrame.layoutCount_eq",
    "Wild.EhFrame.hdr_sorted",
    "Wild.EhFrame.hdr_points_to_fde",
    "Wild.EhFrame.fde_kept_iff",
    "Wild.EhFrame.fde_kept_list",
    "Wild.EhFrame.cie_pointer_ok",
    "Wild.EhFrame.goSections_eq_concat",
    "Wild.EhFrame.writeObjSections_eq",
]
LEVEL = "proof"
TECHNIQUE = ("Lean 4 theorems over an executable model of write_eh_frame_relocations / the layout-side frame count / sort_eh_frame_hdr_entries + "
             "whole-link differential correspondence (output .eh_frame/.eh_frame_hdr parsed independently vs the model's prediction from the input "
             "objects' entries and the kept set), the property's predicates checked directly on every output, native C++ exception propagation")
TRUSTED = [
    "hand-written model lean/WildModel/Model/EhFrame.lean, tied by whole-link correspondence `ehframe`: for generated asm/C/C++ objects the input "
    ".eh_frame + .rela.eh_frame of every object is parsed by the check (entries, CIE pointers, pc_begin symbol section/offset), the kept sections and "
    "their addresses are read from wild's output symbol table, and the model must predict every output FDE (address, CIE it designates, pc_begin), "
    "every output CIE, the sorted table and the count",
    "GC (which sections are retained) is C05's subject: here the kept set is an input",
    "vlib/elfread.py eh_frame()/eh_frame_hdr() (sdata4|pcrel / datarel encodings), gcc/g++/clang/as, static glibc + libstdc++ for the native oracle, GNU ld",
]
RULE = ("freestanding links of 2-5 generated objects (asm with .cfi_* incl. personality/LSDA/signal-frame CIEs, C and C++ translation units compiled with "
        "-ffunction-sections, inline COMDAT functions repeated across TUs, unreferenced (collected) functions, empty sections, asm objects with SEVERAL "
        ".eh_frame input sections: a plain one plus one per COMDAT group of a weak inline-style function, hand-written CIE/FDE bytes of varying size, "
        "either section order, the same group carried by two objects) + static C++ programs "
        "throwing through every retained generated function; non-trivial = at least one FDE dropped and one kept; distinct by request line")
ASSUMPTIONS = ["x86-64; no linker relaxation deletes bytes (section_relax_deltas is empty on x86-64)",
               "pc_begin relocations against symbols defined in the same object; an object may have several .eh_frame input sections (plain + per "
               "COMDAT group), whose entries continue the object's entry list in section order; a CIE pointer never leaves its own section; no "
               "trailing terminator bytes in objects with several .eh_frame sections",
               "32-bit range of the table fields not exercised"]

STUBS = """
    .section .text.stubs,"ax",@progbits
    .globl __gxx_personality_v0, _Unwind_Resume, __cxa_begin_catch, __cxa_end_catch, __cxa_allocate_exception, __cxa_throw, _ZTIi, __stack_chk_fail, _ZSt9terminatev, __cxa_call_terminate
__gxx_personality_v0:
_Unwind_Resume:
__cxa_begin_catch:
__cxa_end_catch:
__cxa_allocate_exception:
__cxa_throw:
__stack_chk_fail:
_ZSt9terminatev:
__cxa_call_terminate:
    ud2
    .data
_ZTIi: .quad 0
"""


def run_rc(path, timeout=20):
    try:
        p = subprocess.run([path], stdout=subprocess.PIPE, stderr=subprocess.PIPE, timeout=timeout)
        return p.returncode, p.stdout
    except subprocess.TimeoutExpired:
        return -999, b""


# ---------------------------------------------------------------- input-object parsing

def cie_tag(b):
    """Identify a CIE by the relocation-free prefix: length, id, version, augmentation string."""
    end = b.index(b"\0", 9)
    return zlib.crc32(b[:end + 1]) & 0xFFFFFF


def parse_obj(path):
    """-> dict(secs=[(name,size)], entries=[...], syms) for one relocatable object.
    An object may have SEVERAL `.eh_frame` input sections (e.g. a plain one plus one per COMDAT group): they are taken in section-index
    order (the order `ObjectLayoutState::activate` and the writer visit them) and the entries of a later section continue the object's
    entry list, exactly as the code's per-object frame vector / `FrameIndex` does. Offsets (`ciePos`) are offsets in that concatenation:
    the writer restarts `input_pos` and `cies_offset_conversion` for every section, which is the same thing as long as a CIE pointer
    does not leave its own section (checked here)."""
    e = Elf(path)
    syms = e.symtab()
    eh = [s for s in e.sections if s.name == ".eh_frame"]
    entries = []
    base = 0
    per_section = []
    for s in eh:
        d = e.sec_data(s)
        rel = None
        for x in e.sections:
            if x.type == 4 and x.info == s.index:
                rel = sorted(e.relas(x))
        rel = rel or []
        p = 0
        nent = 0
        while p + 8 <= len(d):
            ln, cid = struct.unpack_from("<II", d, p)
            size = 4 + ln
            if ln == 0:
                break
            if cid == 0:
                entries.append(("C", size, cie_tag(d[p:p + size])))
            else:
                if p + 4 - cid < 0:
                    raise RuntimeError(f"FDE at {p:#x} of .eh_frame section {s.index} of {path}: CIE pointer leaves the section")
                first = [r for r in rel if p <= r[0] < p + size]
                tgt, off = None, 0
                if first and first[0][0] == p + 8:
                    off_, typ, symidx, addend = first[0]
                    y = syms[symidx]
                    if y.shndx not in (0, 0xFFF1, 0xFFF2):
                        tgt = y.shndx
                        off = y.value + addend
                entries.append(("F", size, base + p + 4 - cid, tgt, off))
            p += size
            nent += 1
        if p != len(d) and len(eh) > 1:
            raise RuntimeError(f".eh_frame section {s.index} of {path} has trailing bytes; not modelled for objects with several .eh_frame sections")
        base += p
        per_section.append(nent)
    return {"elf": e, "entries": entries, "syms": syms, "path": path, "eh_sections": per_section}


def section_addrs(obj, out_syms_by_name, claimed):
    """address of each input section in the output, from any named symbol it defines: {shndx: addr}."""
    res = {}
    for y in obj["syms"]:
        if y.type in (3, 4) or not y.name or y.name.startswith(".L") or y.shndx in (0, 0xFFF1, 0xFFF2):
            continue
        o = out_syms_by_name.get(y.name)
        if o is None:
            continue
        if y.bind != 0:
            # a global/weak name belongs to the first object that defines it
            if claimed.setdefault(y.name, obj["path"]) != obj["path"]:
                continue
        res.setdefault(y.shndx, o.value - y.value)
    return res


def model_request(objs, out, eh_addr):
    e = out
    by_name = {}
    for y in e.symtab():
        if y.shndx != 0 and y.name:
            by_name.setdefault(y.name, y)
    claimed = {}
    toks = ["ehframe", hex(eh_addr)]
    for o in objs:
        addrs = section_addrs(o, by_name, claimed)
        secs = []
        for s in o["elf"].sections:
            a = addrs.get(s.index)
            secs.append(f"{hex(a) if a is not None else '-'}:{s.size}")
        ents = []
        for en in o["entries"]:
            if en[0] == "C":
                ents.append(f"C:{en[1]}:{en[2]}")
            else:
                ents.append(f"F:{en[1]}:{en[2]}:{en[3] if en[3] is not None else '-'}:{en[4]}")
        toks.append(",".join(secs) + "|" + ",".join(ents))
    return " ".join(toks)


def observe(e):
    """canonical observation of an output in the model's format."""
    fr = e.eh_frame()
    hdr = e.eh_frame_hdr()
    fdes = [x for x in fr if x["kind"] == "FDE"]
    cies = [x for x in fr if x["kind"] == "CIE"]
    if hdr is None or hdr.get("entries") is None:
        return "no-hdr", fr, hdr
    s = (f"count={hdr['count']} hdr=" + ",".join(f"{hex(a)}:{hex(b)}" for a, b in hdr["entries"]) +
         " fdes=" + ",".join(f"{hex(x['addr'])}:{hex(x['cie_addr'])}:{hex(x['pc_begin'])}" for x in fdes) +
         " cies=" + ",".join(f"{hex(x['addr'])}:{cie_tag(x['bytes'])}" for x in cies))
    return s, fr, hdr


def direct_predicates(e, fr, hdr, want_funcs=None):
    """The property's predicates on an output. Returns a list of failure strings."""
    bad = []
    fdes = [x for x in fr if x["kind"] == "FDE"]
    cie_addrs = {x["addr"] for x in fr if x["kind"] == "CIE"}
    by_addr = {x["addr"]: x for x in fdes}
    ents = hdr["entries"]
    if hdr["count"] != len(fdes):
        bad.append(f"hdr count {hdr['count']} != {len(fdes)} FDEs in .eh_frame")
    if (hdr["size"] - 12) // 8 != hdr["count"]:
        bad.append(f"hdr size {hdr['size']} does not match count {hdr['count']}")
    if any(ents[i][0] > ents[i + 1][0] for i in range(len(ents) - 1)):
        bad.append("hdr table not sorted by pc")
    for pc, fa in ents:
        x = by_addr.get(fa)
        if x is None:
            bad.append(f"hdr entry pc={pc:#x} points to {fa:#x} which is not an FDE")
        elif x["pc_begin"] != pc:
            bad.append(f"hdr entry pc={pc:#x} points to FDE with pc_begin={x['pc_begin']:#x}")
    if hdr["eh_frame_ptr"] != e.sec(".eh_frame").addr:
        bad.append("eh_frame_ptr does not designate .eh_frame")
    for x in fdes:
        if x["cie_addr"] not in cie_addrs:
            bad.append(f"FDE at {x['addr']:#x}: CIE pointer designates {x['cie_addr']:#x} which is not a CIE")
    if want_funcs is not None:
        funcs = {y.name: y for y in e.symtab() if y.type == 2 and y.shndx != 0}
        starts = {x["pc_begin"]: x for x in fdes}
        for nm in want_funcs:
            y = funcs.get(nm)
            if y is not None and y.value not in starts:
                bad.append(f"retained function {nm} at {y.value:#x} had an FDE in its input object but has none in the output")
        ranges = sorted((y.value, y.value + max(y.size, 1)) for y in funcs.values())
        for x in fdes:
            if not any(a <= x["pc_begin"] < b for a, b in ranges):
                bad.append(f"FDE pc_begin {x['pc_begin']:#x} lies in no retained function")
    return bad


# ---------------------------------------------------------------- generators (freestanding)

def gen_asm_obj(r, k, nfun, all_names, locals_):
    """asm object k: functions with CFI in their own sections; returns (text, names, called)"""
    out = []
    names = []
    pers = r.chance(1, 2)
    for j in range(nfun):
        nm = f"a{k}_{j}"
        names.append(nm)
        local = nm in locals_
        empty = r.chance(1, 8)
        out.append(f'    .section .text.{nm},"ax",@progbits\n')
        if not local:
            out.append(f"    .globl {nm}\n")
        out.append(f"    .type {nm}, @function\n{nm}:\n")
        if empty:
            if r.chance(1, 2):
                # zero-size section that still carries an FDE (what compilers emit for a function that is only __builtin_unreachable())
                out.append("    .cfi_startproc\n    .cfi_endproc\n")
            out.append(f"    .size {nm}, 0\n")
            continue
        out.append("    .cfi_startproc\n")
        style = r.below(4)
        if style == 1 and pers:
            out.append(f"    .cfi_personality 0x1b, pers_{k}\n    .cfi_lsda 0x1b, lsda_{k}\n")
        elif style == 2:
            out.append("    .cfi_signal_frame\n")
        out.append("    push %rbp\n    .cfi_def_cfa_offset 16\n    .cfi_offset 6, -16\n")
        for _ in range(r.range(0, 2)):
            if all_names:
                out.append(f"    call {r.choice(all_names)}\n")
        if j + 1 < nfun and r.chance(1, 2):
            out.append(f"    call a{k}_{j + 1}\n")
        out.append("    pop %rbp\n    .cfi_def_cfa_offset 8\n    ret\n    .cfi_endproc\n")
        out.append(f"    .size {nm}, .-{nm}\n")
    if pers:
        out.append(f'    .section .text.pers_{k},"ax",@progbits\n    .type pers_{k}, @function\npers_{k}:\n    .cfi_startproc\n    ret\n    .cfi_endproc\n    .size pers_{k}, .-pers_{k}\n')
        out.append(f'    .section .gcc_except_table.l{k},"a",@progbits\nlsda_{k}:\n    .quad 0\n')
    return "".join(out), names


def _cie(lbl, variant):
    """A hand-written CIE (`.cfi_*` directives can only fill ONE .eh_frame section per object)."""
    init = {0: "    .byte 0x0c, 7, 8\n    .byte 0x90, 1\n",                       # def_cfa rsp+8; rip at cfa-8
            1: "    .byte 0x0c, 7, 8\n    .byte 0x90, 1\n    .byte 0, 0, 0, 0, 0, 0, 0, 0\n",   # the same + 8 nops: a different size
            2: "    .byte 0x0c, 7, 8\n    .byte 0x90, 1\n    .byte 0x0e, 8\n"}[variant]
    return (f"{lbl}:\n    .long {lbl}_e - {lbl}_s\n{lbl}_s:\n    .long 0\n    .byte 1\n    .asciz \"zR\"\n    .uleb128 1\n    .sleb128 -8\n"
            f"    .uleb128 16\n    .uleb128 1\n    .byte 0x1b\n{init}    .balign 8\n{lbl}_e:\n")


def _fde(lbl, cie, begin, end, extra):
    """A hand-written FDE: length, CIE pointer (distance back to the CIE), pc_begin (pcrel sdata4), pc_range, augmentation length 0,
    `extra` more bytes of CFA program (advance_loc 1 / def_cfa_offset pairs, then nops) so that FDE sizes differ."""
    prog = "".join("    .byte 0x41, 0x0e, 16\n" for _ in range(extra // 3)) if extra else ""
    return (f"{lbl}:\n    .long {lbl}_e - {lbl}_s\n{lbl}_s:\n    .long {lbl}_s - {cie}\n    .long {begin} - .\n    .long {end} - {begin}\n"
            f"    .uleb128 0\n{prog}    .balign 8\n{lbl}_e:\n")


def gen_meh_obj(r, k, names, groups, all_names, locals_):
    """asm object k with MORE THAN ONE `.eh_frame` section: a plain `.eh_frame` for its ordinary functions plus, for every weak
    inline-style function inl_Q it carries, a second `.eh_frame` that is a member of that function's COMDAT group
    (`.section .eh_frame,"aG",@progbits,inl_Q,comdat`), which is how toolchains that emit per-group unwind info lay things out.
    Both orders of the sections occur; unreferenced functions are collected (their FDEs must disappear); another object may carry the
    same group (then this copy's `.text.inl_Q` is not loaded and its FDE must disappear while the group's CIE is still copied)."""
    blocks = []
    # plain block: ordinary functions + the plain .eh_frame (1-2 CIEs)
    txt, eh = [], []
    ncie = r.range(1, 2)
    for c in range(ncie):
        eh.append(_cie(f".Lcie{k}_p{c}", r.below(3)))
        for j, nm in enumerate(names):
            if j % ncie != c:
                continue
            local = nm in locals_
            txt.append(f'    .section .text.{nm},"ax",@progbits\n')
            if not local:
                txt.append(f"    .globl {nm}\n")
            # padding in front of the function: its symbol then has a non-zero st_value inside the section
            txt.append("    nop\n" * r.choice([0, 0, 3, 8, 17]))
            txt.append(f"    .type {nm}, @function\n{nm}:\n.Lb_{nm}:\n    push %rbx\n")
            for _ in range(r.range(0, 2)):
                if all_names:
                    txt.append(f"    call {r.choice(all_names)}\n")
            if j + 1 < len(names) and r.chance(1, 2):
                txt.append(f"    call {names[j + 1]}\n")
            for q in groups:
                if r.chance(1, 2):
                    txt.append(f"    call inl_{q}\n")
            txt.append(f"    pop %rbx\n    ret\n.Le_{nm}:\n    .size {nm}, .-{nm}\n")
            # pc_begin through a local label (section symbol + offset) or through the function's own symbol
            begin = nm if (not local and r.chance(1, 3)) else f".Lb_{nm}"
            eh.append(_fde(f".Lfde{k}_{nm}", f".Lcie{k}_p{c}", begin, f".Le_{nm}", r.choice([0, 0, 6, 12, 24])))
    blocks.append("".join(txt) + '    .section .eh_frame,"a",@progbits\n' + "".join(eh))
    # one block per COMDAT group: the weak function and the group's own .eh_frame (own CIE)
    for q in groups:
        nm = f"inl_{q}"
        b = [f'    .section .text.{nm},"axG",@progbits,{nm},comdat\n    .weak {nm}\n    .type {nm}, @function\n{nm}:\n.Lb{k}_{nm}:\n'
             f"    push %rbx\n    push %r12\n" + ("    nop\n" * (k % 3)) + f"    pop %r12\n    pop %rbx\n    ret\n.Le{k}_{nm}:\n    .size {nm}, .-{nm}\n",
             f'    .section .eh_frame,"aG",@progbits,{nm},comdat\n',
             _cie(f".Lcie{k}_g{q}", r.below(3)),
             _fde(f".Lfde{k}_g{q}", f".Lcie{k}_g{q}", f".Lb{k}_{nm}", f".Le{k}_{nm}", r.choice([0, 6, 12, 18, 30]))]
        blocks.append("".join(b))
    blocks = r.shuffle(blocks)
    return "".join(blocks), names


def gen_c_obj(r, k, nfun, all_names, cxx, locals_):
    src = []
    names = []
    if cxx:
        src.append("struct G { int v; ~G(); };\nextern \"C\" {\nint sink(int);\n")
    for nm in all_names:
        src.append(f"int {nm}(int);\n")
    if cxx:
        src.append("}\n")
        src.append("inline int incl_common(int x) { G g{x}; return sink(x) + 1; }\n")
    for j in range(nfun):
        nm = f"{'x' if cxx else 'c'}{k}_{j}"
        names.append(nm)
        body = "int r = d;"
        for _ in range(r.range(0, 2)):
            if all_names:
                body += f" r += {r.choice(all_names)}(d);"
        if cxx:
            body = "G g{d}; " + body
            if r.chance(1, 2):
                body += " r += incl_common(d);"
        static = "static " if nm in locals_ else ""
        attr = "__attribute__((noinline,used)) " if static else "__attribute__((noinline)) "
        pre = 'extern "C" ' if cxx else ""
        src.append(f"{pre}{static}{attr}int {nm}(int d) {{ {body} return r; }}\n")
    return "".join(src), names


def build_case(ctx, r, d, idx):
    os.makedirs(d, exist_ok=True)
    nobj = r.range(2, 5)
    kinds = [r.choice(["asm", "asm", "c", "cxx", "meh"]) for _ in range(nobj)]
    # objects with several .eh_frame sections: forced into a good part of the cases, sometimes two of them carrying the same COMDAT group
    force = r.below(5)
    if force <= 1:
        kinds[r.below(nobj)] = "meh"
    if force == 0:
        kinds[r.below(nobj)] = "meh"
    groups = {}
    for k, kind in enumerate(kinds):
        if kind == "meh":
            groups[k] = sorted(set([0] if force == 0 else []) | set(r.shuffle([0, 1, 2])[:r.range(1, 2)]))
    # names known up front so that objects can call each other
    plan = []
    for k, kind in enumerate(kinds):
        nfun = r.range(2, 5)
        prefix = {"asm": "a", "c": "c", "cxx": "x", "meh": "m"}[kind]
        plan.append([f"{prefix}{k}_{j}" for j in range(nfun)])
    locals_ = {n for k, names in enumerate(plan) for n in names if kinds[k] != "cxx" and r.chance(1, 5)}
    callable_ = [n for k, names in enumerate(plan) for n in names if n not in locals_]
    callable_ += [f"inl_{q}" for q in sorted({q for qs in groups.values() for q in qs})]
    objs = []
    for k, kind in enumerate(kinds):
        mine = set(plan[k])
        others = [n for n in callable_ if n not in mine and r.chance(1, 2)]
        if kind == "asm":
            text, names = gen_asm_obj(r, k, len(plan[k]), others, locals_)
            o = lu.asm_obj(d, f"o{k}", text)
        elif kind == "meh":
            text, names = gen_meh_obj(r, k, plan[k], groups[k], [n for n in others if not n.startswith("inl_")], locals_)
            o = lu.asm_obj(d, f"o{k}", text)
        else:
            cxx = kind == "cxx"
            text, names = gen_c_obj(r, k, len(plan[k]), others, cxx, locals_)
            flags = ["-O1", "-ffunction-sections", "-fasynchronous-unwind-tables", "-fno-stack-protector", "-ffreestanding"]
            cc = r.choice(["gcc", "clang"])
            if cxx:
                src = lu.write(os.path.join(d, f"o{k}.cpp"), text)
                o = os.path.join(d, f"o{k}.o")
                rc, so, se = lu.run([{"gcc": "g++", "clang": "clang++"}[cc], "-c", "-o", o, src, "-fexceptions"] + flags)
                if rc != 0:
                    raise RuntimeError("c++ compile failed: " + se[:300])
            else:
                o = lu.cc_obj(d, f"o{k}", text, flags=flags + ["-fno-exceptions"], cc=cc)
        objs.append(o)
    # main object: _start calls a random subset (the rest is collected)
    roots = [n for n in callable_ if r.chance(1, 2)]
    main = ['    .section .text._start,"ax",@progbits\n    .globl _start\n    .type _start, @function\n_start:\n    .cfi_startproc\n    .cfi_undefined rip\n']
    main.append("    cmp $0, %rsp\n    jne 1f\n")     # never calls: the functions only need to be referenced
    for n in roots:
        main.append(f"    mov $1, %edi\n    call {n}\n")
    main.append("1:  mov $60, %eax\n    xor %edi, %edi\n    syscall\n    .cfi_endproc\n    .size _start, .-_start\n")
    main.append('    .section .text.sink,"ax",@progbits\n    .globl sink\n    .type sink, @function\nsink:\n    .cfi_startproc\n    mov %edi, %eax\n    ret\n    .cfi_endproc\n    .size sink, .-sink\n')
    main.append('    .section .text.dtor,"ax",@progbits\n    .globl _ZN1GD1Ev, _ZN1GD2Ev\n_ZN1GD1Ev:\n_ZN1GD2Ev:\n    ret\n')
    main.append(STUBS)
    objs.insert(0, lu.asm_obj(d, "main", "".join(main)))
    return objs, kinds, groups


CXX_TU = """
#include <cstdio>
struct G {{ int v; ~G(); }};
inline int incl_h(int x) {{ G g{{x}}; if (x > 1000) throw x; return x + 1; }}
{decls}
{defs}
"""


def build_cxx_program(r, d):
    """A static C++ program: main -> chain of functions across TUs -> throw; catch in main."""
    os.makedirs(d, exist_ok=True)
    ntu = r.range(2, 3)
    chain = [f"t{r.below(ntu)}_{j}" for j in range(r.range(3, 7))]
    chain = list(dict.fromkeys(chain))
    decls = "".join(f"int {n}(int);\n" for n in chain) + "int unused_a(int);\n"
    objs = []
    for t in range(ntu):
        defs = []
        for j, n in enumerate(chain):
            if not n.startswith(f"t{t}_"):
                continue
            nxt = chain[j + 1] if j + 1 < len(chain) else None
            body = f"G g{{d}}; int r = incl_h(d);"
            body += f" r += {nxt}(d + 1);" if nxt else " if (d >= 0) throw 42;"
            defs.append(f"int {n}(int d) {{ {body} return r; }}\n")
        defs.append(f"int unused_{t}(int d) {{ G g{{d}}; return incl_h(d) + {chain[0]}(d); }}\n")
        if t == 0:
            defs.append("G::~G() { if (v == 123456) puts(\"x\"); }\n")
            defs.append(f"int main() {{ try {{ {chain[0]}(0); }} catch (int e) {{ printf(\"caught %d\\n\", e); return e == 42 ? 0 : 1; }} return 2; }}\n")
        src = lu.write(os.path.join(d, f"t{t}.cpp"), CXX_TU.format(decls=decls, defs="".join(defs)))
        o = os.path.join(d, f"t{t}.o")
        cc = r.choice(["g++", "g++", "clang++"])
        rc, so, se = lu.run([cc, "-O1", "-ffunction-sections", "-c", "-o", o, src])
        if rc != 0:
            raise RuntimeError("c++ compile failed: " + se[:300])
        objs.append(o)
    gl = "/usr/lib/gcc/x86_64-linux-gnu/12"
    ml = "/usr/lib/x86_64-linux-gnu"
    line = (["-m", "elf_x86_64", "-static", f"{ml}/crt1.o", f"{ml}/crti.o", f"{gl}/crtbeginT.o", f"-L{gl}", f"-L{ml}", "-L/lib/x86_64-linux-gnu", "-L/usr/lib"] +
            objs + ["-lstdc++", "-lm", "--start-group", "-lgcc", "-lgcc_eh", "-lc", "--end-group", f"{gl}/crtend.o", f"{ml}/crtn.o"])
    return line, chain


def nonempty_fdes(el):
    """number of FDEs of an output whose address range is not empty"""
    return sum(1 for x in el.eh_frame() if x.get("pc_range", 0) > 0)


def run(ctx):
    r = ctx.rng
    n_free = 24 if ctx.quick else 600
    n_cxx = 3 if ctx.quick else 60
    reqs, impl = [], []
    for i in range(n_free):
        d = os.path.join(ctx.scratch, f"c{i}")
        try:
            objs, kinds, groups = build_case(ctx, r, d, i)
        except RuntimeError as ex:
            ctx.count("gen", "build-failed")
            ctx.sample({"build-failed": str(ex)[:300]})
            continue
        out = os.path.join(d, "out.wild")
        rc, o, e = lu.link("wild", [f"--threads={r.choice([1, 2, 8])}", "--gc-sections", "--eh-frame-hdr", "-o", out] + objs, cwd=d)
        if rc != 0:
            ctx.count("impl-outcome", "link-failed")
            rc2, _, e2 = lu.link("ld", ["--gc-sections", "--eh-frame-hdr", "-o", out + ".ld"] + objs, cwd=d)
            if rc2 == 0:
                keep = os.path.join(ctx.replay_dir(), f"c10-{i}")
                shutil.copytree(d, keep, dirs_exist_ok=True)
                ctx.violation(f"link-failed:{i}:{e.strip()[:80]}", f"wild fails to link unwind info that GNU ld links: {e.strip()[:300]}", {"dir": keep, "objs": objs})
            shutil.rmtree(d, ignore_errors=True)
            continue
        ctx.count("impl-outcome", "linked")
        for k in kinds:
            ctx.count("object-kind", k)
        elf = Elf(out)
        parsed = [parse_obj(p) for p in objs]
        obs, fr, hdr = observe(elf)
        replay = {"objects": [os.path.basename(p) for p in objs], "how": "wild --gc-sections --eh-frame-hdr -o out <objects>; readelf --debug-dump=frames out; readelf -x .eh_frame_hdr out"}
        if obs == "no-hdr":
            ctx.violation(f"no-hdr:{i}", "--eh-frame-hdr given but no usable .eh_frame_hdr produced", replay)
            continue
        # functions that have an FDE in their input object
        want = set()
        for po in parsed:
            tg = {en[3] for en in po["entries"] if en[0] == "F" and en[3] is not None}
            for y in po["syms"]:
                if y.type == 2 and y.shndx in tg and y.size > 0:
                    want.add(y.name)
        bad = direct_predicates(elf, fr, hdr, want_funcs=want)
        if bad:
            ctx.cov["impl_oracle_failures"] += 1
            keep = os.path.join(ctx.replay_dir(), f"c10-{i}")
            shutil.copytree(d, keep, dirs_exist_ok=True)
            replay["dir"] = keep
            replay["failures"] = bad[:10]
            ctx.violation("eh-predicate:" + bad[0].split(" ")[0] + ":" + obs[:120], "unwind tables violate the property: " + "; ".join(bad[:3]), replay)
        req = model_request(parsed, elf, elf.sec(".eh_frame").addr)
        reqs.append(req)
        impl.append(obs)
        nf = sum(1 for po in parsed for en in po["entries"] if en[0] == "F")
        ctx.count("fdes", "in", nf)
        ctx.count("fdes", "out", hdr["count"])
        ctx.count("cies-per-object", str(max(sum(1 for en in po["entries"] if en[0] == "C") for po in parsed)))
        ctx.count("eh_frame-sections-per-object(max)", str(max(len(po["eh_sections"]) for po in parsed)))
        if groups:
            allq = [q for qs in groups.values() for q in qs]
            ctx.count("comdat-eh_frame", "group-carried-by-two-objects" if len(allq) != len(set(allq)) else "groups-distinct")
            multi = [po for po in parsed if len(po["eh_sections"]) > 1]
            ctx.count("comdat-eh_frame", "case-with-later-section-fde", sum(1 for po in multi if any(po["eh_sections"][1:])))
        # GNU ld's count for the same inputs (when it retains the same functions)
        rc2, _, e2 = lu.link("ld", ["--gc-sections", "--eh-frame-hdr", "-o", out + ".ld"] + objs, cwd=d)
        if rc2 == 0:
            le = Elf(out + ".ld")
            lh = le.eh_frame_hdr()
            f1 = {y.name for y in elf.symtab() if y.type == 2 and y.shndx != 0 and y.size}
            f2 = {y.name for y in le.symtab() if y.type == 2 and y.shndx != 0 and y.size}
            if lh and lh.get("entries") is not None and f1 == f2:
                # an FDE with an empty range (a zero-size function) describes no instruction: linkers differ on keeping it
                ctx.count("oracle-ld", "same-count" if nonempty_fdes(le) == nonempty_fdes(elf) else "different-count")
                if nonempty_fdes(le) != nonempty_fdes(elf):
                    ctx.cov["impl_oracle_failures"] += 1
                    keep = os.path.join(ctx.replay_dir(), f"c10-{i}")
                    shutil.copytree(d, keep, dirs_exist_ok=True)
                    replay["dir"] = keep
                    ctx.violation(f"ld-count:{obs[:100]}", f"same retained functions but wild's table has {hdr['count']} entries, GNU ld's {lh['count']}", replay)
            else:
                ctx.count("oracle-ld", "different-kept-set")
                # GNU ld 2.40 stops collecting FDE-referenced sections of an object that has a second (COMDAT) .eh_frame section and keeps the
                # whole group of a grouped .eh_frame; ld.lld collects them like wild does: second opinion on the count
                rc3, _, e3 = lu.link("lld", ["--gc-sections", "--eh-frame-hdr", "-o", out + ".lld"] + objs, cwd=d)
                if rc3 == 0:
                    le = Elf(out + ".lld")
                    lh = le.eh_frame_hdr()
                    f3 = {y.name for y in le.symtab() if y.type == 2 and y.shndx != 0 and y.size}
                    if lh and lh.get("entries") is not None and f1 == f3:
                        ctx.count("oracle-lld", "same-count" if nonempty_fdes(le) == nonempty_fdes(elf) else "different-count")
                        if nonempty_fdes(le) != nonempty_fdes(elf):
                            ctx.cov["impl_oracle_failures"] += 1
                            keep = os.path.join(ctx.replay_dir(), f"c10-{i}")
                            shutil.copytree(d, keep, dirs_exist_ok=True)
                            replay["dir"] = keep
                            ctx.violation(f"lld-count:{obs[:100]}", f"same retained functions but wild's table has {hdr['count']} entries, ld.lld's {lh['count']}", replay)
                    else:
                        ctx.count("oracle-lld", "different-kept-set")
        rcn, _ = run_rc(out)
        ctx.count("native", "exit0" if rcn == 0 else f"rc{rcn}")
        shutil.rmtree(d, ignore_errors=True)

    if reqs:
        ctx.differential("ehframe", reqs, impl_out=impl, model_out=ctx.model_eval(reqs),
                         nontrivial=lambda l, a, b: b.startswith("count=") and not b.startswith("count=0 ") and l.count("F:") > int(b.split()[0][6:]))
    # static C++ programs: exceptions must propagate through every retained function
    for i in range(n_cxx):
        d = os.path.join(ctx.scratch, f"x{i}")
        try:
            line, chain = build_cxx_program(r, d)
        except RuntimeError as ex:
            ctx.count("gen", "cxx-build-failed")
            ctx.sample({"build-failed": str(ex)[:300]})
            continue
        out = os.path.join(d, "out.wild")
        rc, o, e = lu.link("wild", ["--gc-sections", "--eh-frame-hdr", "-o", out] + line, cwd=d)
        ctx.note_case(("cxx", i, tuple(chain)))
        if rc != 0:
            ctx.count("cxx", "link-failed")
            ctx.violation(f"cxx-link-failed:{e.strip()[:80]}", f"wild fails to link a static C++ program: {e.strip()[:300]}", {"chain": chain})
            continue
        rcn, so = run_rc(out)
        ok = rcn == 0 and so == b"caught 42\n"
        ctx.count("cxx", "caught" if ok else "failed")
        elf = Elf(out)
        obs, fr, hdr = observe(elf)
        bad = [] if obs == "no-hdr" else direct_predicates(elf, fr, hdr)
        if obs == "no-hdr":
            bad = ["no usable .eh_frame_hdr"]
        funcs = {y.name for y in elf.symtab() if y.type == 2 and y.shndx != 0}
        starts = {x["pc_begin"] for x in fr if x["kind"] == "FDE"}
        for y in elf.symtab():
            if y.type == 2 and y.shndx != 0 and any(y.name.startswith(f"_Z{len(n)}{n}") for n in chain) and y.value not in starts:
                bad.append(f"retained function {y.name} has no FDE")
        if not ok or bad:
            ctx.cov["impl_oracle_failures"] += 1
            keep = os.path.join(ctx.replay_dir(), f"c10-x{i}")
            shutil.copytree(d, keep, dirs_exist_ok=True)
            ctx.violation(f"cxx:{i}:{(bad or ['exception lost'])[0][:60]}", f"C++ exception through {chain}: rc={rcn} out={so[:40]!r}; table failures: {bad[:3]}",
                          {"dir": keep, "chain": chain, "link_line": line})
        shutil.rmtree(d, ignore_errors=True)
